/- MPO contraction = dense path sum (C02, C03). -/
import OQuPyVerif.Model.ProcessTensor
import OQuPyVerif.Lemmas.PathSum

namespace OQuPyVerif.PT
open Finset BigOperators OQuPyVerif.PathSum
variable {K : Type} [CommRing K]

theorem pathSum_succ_succ (L n : ℕ) (F : List ℕ → K) :
    pathSum L (n+2) F = ∑ o ∈ range L, ∑ i ∈ range L, pathSum L n (fun p => F (o :: i :: p)) := rfl

/-- The tensor carried by `compute_dynamics` is the path sum of (bond amplitude × system
    amplitude), for every step, bond dimension and tensor content. -/
theorem mpoState_eq_pathSum (L : ℕ) (D : ℕ → ℕ) (T : ℕ → ℕ → ℕ → ℕ → ℕ → K)
    (A B : ℕ → ℕ → ℕ → K) (ρ0 : ℕ → K) (n : ℕ) (b' s' : ℕ) :
    mpoState L D T A B ρ0 n b' s' =
      pathSum L (2*n) (fun p => bondAmp D T p b' * sysAmp L A B ρ0 p s') := by
  induction n generalizing b' s' with
  | zero =>
    simp only [mpoState, Nat.mul_zero, pathSum, bondAmp, sysAmp]
    split <;> simp
  | succ n ih =>
    have h2 : 2 * (n+1) = 2*n + 2 := by ring
    rw [h2, pathSum_succ_succ]
    simp only [mpoState, mpoStep]
    -- right-hand side: unfold the amplitudes on the enumerated paths (length 2n)
    have hR : ∀ o ∈ range L, ∀ i ∈ range L,
        pathSum L (2*n) (fun p => bondAmp D T (o :: i :: p) b' * sysAmp L A B ρ0 (o :: i :: p) s')
        = ∑ b ∈ range (D n), ∑ s ∈ range L,
            (B n s' o * T n b b' i o * A n i s) * mpoState L D T A B ρ0 n b s := by
      intro o _ i _
      have : pathSum L (2*n) (fun p => bondAmp D T (o :: i :: p) b' * sysAmp L A B ρ0 (o :: i :: p) s')
          = pathSum L (2*n) (fun p => ∑ b ∈ range (D n), ∑ s ∈ range L,
              (B n s' o * T n b b' i o * A n i s) * (bondAmp D T p b * sysAmp L A B ρ0 p s)) := by
        apply pathSum_congr
        intro p hp
        have hlen : p.length / 2 = n := by rw [hp.1]; omega
        simp only [bondAmp, sysAmp, hlen]
        rw [Finset.sum_mul]
        apply Finset.sum_congr rfl; intro b _
        rw [Finset.mul_sum, Finset.mul_sum]
        apply Finset.sum_congr rfl; intro s _
        ring
      rw [this, pathSum_finsum]
      apply Finset.sum_congr rfl; intro b _
      rw [pathSum_finsum]
      apply Finset.sum_congr rfl; intro s _
      rw [pathSum_mul_left, ih]
    rw [Finset.sum_congr rfl (fun o ho => Finset.sum_congr rfl (hR o ho))]
    -- left-hand side: distribute
    apply Finset.sum_congr rfl; intro o _
    rw [Finset.mul_sum, Finset.sum_comm]
    apply Finset.sum_congr rfl; intro i _
    rw [Finset.mul_sum]
    apply Finset.sum_congr rfl; intro b _
    rw [Finset.mul_sum, Finset.mul_sum]
    apply Finset.sum_congr rfl; intro s _
    ring

end OQuPyVerif.PT

namespace OQuPyVerif.PT
open Finset BigOperators OQuPyVerif.PathSum
variable {K : Type} [CommRing K]

/-- The state recorded by `compute_dynamics` equals the dynamics of the dense process tensor. -/
theorem mpoRecord_eq_dense (L : ℕ) (D : ℕ → ℕ) (T : ℕ → ℕ → ℕ → ℕ → ℕ → K)
    (A B : ℕ → ℕ → ℕ → K) (cap : ℕ → ℕ → K) (pre : ℕ → ℕ → K) (ρ0 : ℕ → K) (n s' : ℕ) :
    mpoRecord L D T A B cap pre ρ0 n s' =
      denseRecord L (densePT D T cap) A B pre ρ0 n s' := by
  unfold mpoRecord denseRecord densePT
  have : pathSum L (2*n) (fun p => (∑ b ∈ range (D n), cap n b * bondAmp D T p b) *
        ∑ s ∈ range L, pre s' s * sysAmp L A B ρ0 p s)
      = pathSum L (2*n) (fun p => ∑ b ∈ range (D n), ∑ s ∈ range L,
          (cap n b * pre s' s) * (bondAmp D T p b * sysAmp L A B ρ0 p s)) := by
    apply pathSum_congr; intro p _
    rw [Finset.sum_mul]
    apply Finset.sum_congr rfl; intro b _
    rw [Finset.mul_sum]
    apply Finset.sum_congr rfl; intro s _
    ring
  rw [this, pathSum_finsum]
  apply Finset.sum_congr rfl; intro b _
  rw [pathSum_finsum, Finset.mul_sum]
  apply Finset.sum_congr rfl; intro s _
  rw [pathSum_mul_left, ← mpoState_eq_pathSum]
  ring

end OQuPyVerif.PT
