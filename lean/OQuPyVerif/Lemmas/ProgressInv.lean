/-
  Lemmas/ProgressInv — the global invariant `Inv` of the lock + active-flag protocol over the
  interleaving semantics of Model/Progress: it holds initially, every step of every thread
  (main, timer firing, timer callback statement) preserves it; consequences: quiescence after
  `exit`, daemon threads only, no deadlock.  Helper lemmas for C19.
-/
import OQuPyVerif.Lemmas.ProgressStep
namespace OQuPyVerif.Progress
open MicroOp

/-! ### stability of all assertions when a timer thread only moves on in its own code -/

def AliveAt (s : State) (i : Nat) : Prop :=
  ∃ r, s.timers[i]? = some r ∧ (r.st = TState.pending ∨ r.st = TState.running)

theorem setCode_some {s : State} {i k : Nat} {c : List MicroOp} {r' : TimerRec}
    (h : (setCode s i c).timers[k]? = some r') :
    ∃ r0, s.timers[k]? = some r0 ∧
      r' = (if i = k then { r0 with code := c, st := if c.isEmpty then .done else .running } else r0) :=
  modify_some h

theorem setCode_st_started (c : List MicroOp) :
    (if c.isEmpty then TState.done else TState.running).started = true ∧
    (if c.isEmpty then TState.done else TState.running) ≠ TState.pending ∧
    (if c.isEmpty then TState.done else TState.running) ≠ TState.created := by
  cases c <;> simp [TState.started]

theorem noUnstarted_setCode {s : State} {i : Nat} {c : List MicroOp} (h : NoUnstarted s) :
    NoUnstarted (setCode s i c) := by
  intro k r' hk
  obtain ⟨r0, hl, rfl⟩ := setCode_some hk
  split
  · exact (setCode_st_started c).1
  · exact h k r0 hl

theorem noPending_setCode {s : State} {i : Nat} {c : List MicroOp} (h : NoPending s) :
    NoPending (setCode s i c) := by
  intro k r' hk
  obtain ⟨r0, hl, rfl⟩ := setCode_some hk
  split
  · exact (setCode_st_started c).2.1
  · exact h k r0 hl

theorem pendingCur_setCode {s : State} {i : Nat} {c : List MicroOp} (h : PendingCur s) :
    PendingCur (setCode s i c) := by
  intro k r' hk hp
  obtain ⟨r0, hl, rfl⟩ := setCode_some hk
  split at hp
  · exact absurd hp (setCode_st_started c).2.1
  · exact h k r0 hl hp

theorem good_setCode {s : State} {i : Nat} {c : List MicroOp} (h : Good s) :
    Good (setCode s i c) := by
  refine ⟨noUnstarted_setCode h.1, ?_⟩
  intro k r' hk hp
  obtain ⟨r0, hl, rfl⟩ := setCode_some hk
  split at hp
  · exact absurd hp (setCode_st_started c).2.1
  · exact h.2 k r0 hl hp

theorem startedDaemon_setCode {s : State} {i : Nat} {c : List MicroOp} (h : StartedDaemon s)
    (ha : AliveAt s i) : StartedDaemon (setCode s i c) := by
  intro k r' hk hs
  obtain ⟨r0, hl, rfl⟩ := setCode_some hk
  split
  · rename_i hik
    subst hik
    obtain ⟨r, hr, hst⟩ := ha
    rw [hl] at hr
    cases hr
    exact h i r0 hl (by rcases hst with h | h <;> simp [h, TState.started])
  · rename_i hik
    simp [hik] at hs
    exact h k r0 hl hs

theorem fresh_setCode {s : State} {i : Nat} {c : List MicroOp} {d : Bool} (h : Fresh s d)
    (ha : AliveAt s i) : Fresh (setCode s i c) d := by
  obtain ⟨j, r, hc, hj, hst, hd, hact, hoth⟩ := h
  obtain ⟨ri, hri, hsti⟩ := ha
  have hne : i ≠ j := by
    intro h
    subst h
    rw [hj] at hri
    cases hri
    rcases hsti with h | h <;> rw [hst] at h <;> cases h
  refine ⟨j, r, hc, ?_, hst, hd, hact, ?_⟩
  · simp [setCode, setTimers, hj, hne]
  · intro k r' hk hkj
    obtain ⟨r0, hl, rfl⟩ := setCode_some hk
    split
    · exact ⟨(setCode_st_started c).1, (setCode_st_started c).2.1⟩
    · exact hoth k r0 hl hkj

theorem critAssert_setCode {s : State} {i : Nat} {c c' : List MicroOp} (h : critAssert s c)
    (ha : AliveAt s i) : critAssert (setCode s i c') c := by
  have hne : ∀ {l : List TimerRec} {f : TimerRec → TimerRec}, l ≠ [] → l.modify i f ≠ [] :=
    fun h => modify_ne_nil h
  unfold critAssert at h ⊢
  have hne' : ∀ {s : State}, s.timers ≠ [] → (setCode s i c').timers ≠ [] := fun h => hne h
  split at h
  · exact ⟨good_setCode h.1, hne' h.2⟩
  · obtain ⟨r, hr, _⟩ := ha
    rw [h.1] at hr
    simp at hr
  · exact ⟨good_setCode h.1, hne' h.2⟩
  · exact ⟨good_setCode h.1, hne' h.2.1, h.2.2⟩
  · exact ⟨noUnstarted_setCode h.1, pendingCur_setCode h.2.1, hne' h.2.2.1, h.2.2.2⟩
  · exact ⟨noUnstarted_setCode h.1, noPending_setCode h.2.1, h.2.2⟩
  · exact fresh_setCode h ha
  · exact fresh_setCode h ha
  · exact ⟨good_setCode h.1, hne' h.2.1, h.2.2⟩
  · exact ⟨good_setCode h.1, hne' h.2.1, h.2.2⟩
  · exact ⟨good_setCode h.1, hne' h.2.1, h.2.2⟩
  · exact ⟨good_setCode h.1, hne' h.2⟩
  · exact h



theorem threadOK_setCode {s : State} {i : Nat} {c c' : List MicroOp} {t : Tid}
    (h : ThreadOK s t c) (ha : AliveAt s i) : ThreadOK (setCode s i c') t c :=
  ⟨fun hc => ⟨(h.1 hc).1, critAssert_setCode (h.1 hc).2 ha⟩, h.2⟩

theorem shared_setCode {s : State} {i : Nat} {c' : List MicroOp} (h : Shared s)
    (ha : AliveAt s i) : Shared (setCode s i c') :=
  ⟨startedDaemon_setCode h.daemon ha, curValid_modify h.cur rfl rfl,
   fun hl => good_setCode (h.free hl)⟩

/-! ### the global invariant -/

/-- what main still has to call once `enter` has been called: `n` updates, then `exit` -/
def scriptTail (n : Nat) : List Method := List.replicate n Method.update ++ [Method.exit]

def Virgin (s : State) : Prop := s.timers = [] ∧ s.cur = none ∧ s.active = false

def MainOK (s : State) : Prop :=
  (∃ n, s.mainTodo = Method.enter :: scriptTail n ∧ s.mainCode = [] ∧ Virgin s) ∨
  (∃ n, s.mainTodo = scriptTail n ∧ s.mainCode ∈ enterTails ∧ s.mainCode ≠ [] ∧
        (inCrit s.mainCode = false → Virgin s)) ∨
  (∃ n, s.mainTodo = scriptTail n ∧ s.mainCode ∈ updateTails ∧ s.timers ≠ []) ∨
  (s.mainTodo = [] ∧ s.mainCode ∈ exitTails ∧ s.timers ≠ [] ∧
        (inCrit s.mainCode = false → s.mainCode ≠ lockedProtocol.exit → s.active = false))

def TimerOK (s : State) (i : Nat) (r : TimerRec) : Prop :=
  (r.st = TState.running →
    (r.code ∈ updateTails ∨ r.code ∈ psTails) ∧ r.code ≠ [] ∧ ThreadOK s (.timer i) r.code) ∧
  (r.st ≠ TState.running → s.lock ≠ some (.timer i))

structure Inv (s : State) : Prop where
  shared : Shared s
  main : MainOK s
  mainT : ThreadOK s .main s.mainCode
  timers : ∀ (i : Nat) (r : TimerRec), s.timers[i]? = some r → TimerOK s i r
  holder : ∀ i, s.lock = some (.timer i) → i < s.timers.length

theorem inv_init (n : Nat) (g : Bool) : Inv (init (Method.enter :: scriptTail n) g) where
  shared := ⟨fun j r h => by simp [init] at h, ⟨fun j h => by simp [init] at h, fun _ => rfl⟩,
             fun _ => ⟨fun j r h => by simp [init] at h, fun j r h => by simp [init] at h⟩⟩
  main := Or.inl ⟨n, rfl, rfl, rfl, rfl, rfl⟩
  mainT := ⟨fun h => by simp [init, inCrit] at h, fun _ h => by simp [init] at h⟩
  timers := fun i r h => by simp [init] at h
  holder := fun i h => by simp [init] at h



/-- after a statement of thread `t`, every *other* timer still satisfies its assertion -/
theorem others_after {s : State} {t : Tid} {op : MicroOp} {rest : List MicroOp} {m : Moved}
    (hI : Inv s) (hO : StepOut s t op rest m) :
    (∀ (k : Nat) (r' : TimerRec), m.s.timers[k]? = some r' → t ≠ .timer k → TimerOK m.s k r') := by
  intro k r' hk hne
  have hlock : m.s.lock = some (.timer k) → s.lock = some (.timer k) := by
    intro h
    rcases hO.lockF k h with h' | h'
    · exact h'
    · exact absurd h' hne
  rcases hO.same.2 k r' hk with ⟨r, hr, hcode, hrun⟩ | ⟨hnone, hnr⟩
  · have hold := hI.timers k r hr
    constructor
    · intro hst
      obtain ⟨h1, h2, h3⟩ := hold.1 (hrun.1 hst)
      rw [hcode]
      exact ⟨h1, h2, hO.others _ _ (fun h => hne h.symm) h3⟩
    · intro hst h
      exact hold.2 (fun h' => hst (hrun.2 h')) (hlock h)
  · constructor
    · intro hst
      exact absurd hst hnr
    · intro _ h
      have := hI.holder k (hlock h)
      have hlt := List.getElem?_eq_none_iff.1 hnone
      omega

theorem holder_after {s : State} {t : Tid} {op : MicroOp} {rest : List MicroOp} {m : Moved}
    (hI : Inv s) (hO : StepOut s t op rest m) (ht : ∀ i, t = .timer i → i < s.timers.length) :
    ∀ i, m.s.lock = some (.timer i) → i < m.s.timers.length := by
  intro i h
  have hle := hO.same.1
  rcases hO.lockF i h with h' | h'
  · have := hI.holder i h'
    omega
  · have := ht i h'
    omega



theorem ne_nil_of_le {α} {l l' : List α} (h : l.length ≤ l'.length) (hne : l ≠ []) : l' ≠ [] := by
  intro hn
  subst hn
  cases l with
  | nil => exact hne rfl
  | cons a l => simp at h

macro "memT'" : tactic =>
  `(tactic| simp [enterTails, updateTails, exitTails, psTails, suffixes, lockedProtocol, Protocol.code])

theorem inv_main_load {s s' : State} (hI : Inv s) (hcode : s.mainCode = [])
    (h : stepMain lockedProtocol s = some s') : Inv s' := by
  unfold stepMain at h
  rw [hcode] at h
  cases htodo : s.mainTodo with
  | nil => simp [htodo] at h
  | cons m rest =>
    simp [htodo] at h
    subst h
    have hnc : inCrit (lockedProtocol.code m) = false := by cases m <;> rfl
    have hlk : s.lock ≠ some .main := hI.mainT.2 (by rw [hcode]; rfl)
    refine ⟨⟨hI.shared.daemon, hI.shared.cur, hI.shared.free⟩, ?_,
      ⟨fun h => (by rw [hnc] at h; cases h), fun _ => hlk⟩, hI.timers, hI.holder⟩
    rcases hI.main with ⟨n, ht, _, hv⟩ | ⟨n, _, _, hne, _⟩ | ⟨n, ht, _, hne⟩ | ⟨ht, _⟩
    · rw [htodo] at ht
      cases ht
      exact Or.inr (Or.inl ⟨n, rfl, by memT', by simp [lockedProtocol, Protocol.code], fun _ => hv⟩)
    · exact absurd hcode hne
    · rw [htodo] at ht
      cases n with
      | zero =>
        simp [scriptTail] at ht
        obtain ⟨rfl, rfl⟩ := ht
        exact Or.inr (Or.inr (Or.inr ⟨rfl, by memT', hne, fun _ h => absurd rfl h⟩))
      | succ k =>
        simp [scriptTail, List.replicate_succ] at ht
        obtain ⟨rfl, rfl⟩ := ht
        exact Or.inr (Or.inr (Or.inl ⟨k, rfl, by memT', hne⟩))
    · rw [htodo] at ht
      cases ht



set_option hygiene false in
/-- main stays inside `enter`, inside the critical section -/
macro "enter_mid" : tactic =>
  `(tactic| (have hcr : m.code = _ := hO.codeF.resolve_right (by simp)
             exact Or.inr (Or.inl ⟨n, htodo, hmc, by rw [hcr]; simp,
               fun hh => by rw [show m.code = _ from hcr] at hh; simp [inCrit] at hh⟩)))

/-- common tail of the three phases of `inv_main_op` -/
theorem inv_main_finish {s : State} {op : MicroOp} {rest : List MicroOp} {m : Moved}
    (hI : Inv s) (hO : StepOut s .main op rest m)
    (hM : MainOK { m.s with mainCode := m.code, mainTodo := m.s.mainTodo }) :
    Inv { m.s with mainCode := m.code, mainTodo := m.s.mainTodo } :=
  ⟨⟨hO.shared.daemon, hO.shared.cur, hO.shared.free⟩, hM, hO.thread,
   fun k r' hk => others_after hI hO k r' hk (by simp),
   holder_after hI hO (fun i h => by cases h)⟩

theorem inv_main_op {s s' : State} {op : MicroOp} {rest : List MicroOp} (hI : Inv s)
    (hcode : s.mainCode = op :: rest) (h : stepMain lockedProtocol s = some s') : Inv s' := by
  unfold stepMain at h
  rw [hcode] at h
  cases hts : threadStep s .main op rest with
  | none => simp [hts] at h
  | some m =>
    simp [hts] at h
    have hOKt : ThreadOK s .main (op :: rest) := hcode ▸ hI.mainT
    rcases hI.main with ⟨n, _, hc0, _⟩ | ⟨n, ht, hmem, _, hv⟩ | ⟨n, ht, hmem, hne⟩ | ⟨ht, hmem, hne, hact⟩
    · rw [hcode] at hc0
      cases hc0
    · -- main is inside enter
      rw [hcode] at hmem hv
      have hacq : op = .acquire → s.lock = none → critAssert s rest := by
        intro hop _
        subst hop
        simp [enterTails, suffixes, lockedProtocol] at hmem
        subst hmem
        have := hv rfl
        exact ⟨this.1, this.2.1⟩
      obtain ⟨hO, hmc⟩ := thread_step_inv s .main op rest m enterTails (Or.inl rfl) hmem hI.shared
        hOKt hacq hts
      simp [hO.noRaise] at h
      subst h
      apply inv_main_finish hI hO
      have htodo : m.s.mainTodo = scriptTail n := hO.mainF.1.trans ht
      simp [enterTails, suffixes, lockedProtocol] at hmem
      rcases hmem with ⟨rfl, rfl⟩ | ⟨rfl, rfl⟩ | ⟨rfl, rfl⟩ | ⟨rfl, rfl⟩ | ⟨rfl, rfl⟩ | ⟨rfl, rfl⟩ | ⟨rfl, rfl⟩
      · -- E0 -> E1 : still untouched
        have hcr : m.code = _ := hO.codeF.resolve_right (by simp)
        obtain ⟨h1, h2, h3⟩ := hv rfl
        obtain ⟨f1, f2⟩ := hO.frameT rfl
        have f3 := hO.frameA (by simp)
        exact Or.inr (Or.inl ⟨n, htodo, hmc, by rw [hcr]; simp,
          fun _ => ⟨f1.trans h1, f2.trans h2, f3.trans h3⟩⟩)
      · enter_mid
      · enter_mid
      · enter_mid
      · enter_mid
      · enter_mid
      · -- E6 -> [] : enter is complete
        have hcr : m.code = _ := hO.codeF.resolve_right (by simp)
        exact Or.inr (Or.inr (Or.inl ⟨n, htodo, by rw [show m.code = _ from hcr]; memT',
          hO.relF rfl⟩))
    · -- main is inside update (or idle between calls)
      rw [hcode] at hmem
      have hacq : op = .acquire → s.lock = none → critAssert s rest := by
        intro hop hl
        subst hop
        simp [updateTails, suffixes, lockedProtocol] at hmem
        subst hmem
        exact ⟨hI.shared.free hl, hne⟩
      obtain ⟨hO, hmc⟩ := thread_step_inv s .main op rest m updateTails (Or.inr (Or.inl rfl)) hmem
        hI.shared hOKt hacq hts
      simp [hO.noRaise] at h
      subst h
      apply inv_main_finish hI hO
      exact Or.inr (Or.inr (Or.inl ⟨n, hO.mainF.1.trans ht, hmc, ne_nil_of_le hO.same.1 hne⟩))
    · -- main is inside exit
      rw [hcode] at hmem hact
      have hacq : op = .acquire → s.lock = none → critAssert s rest := by
        intro hop hl
        subst hop
        simp [exitTails, suffixes, lockedProtocol] at hmem
        subst hmem
        exact ⟨hI.shared.free hl, hne⟩
      obtain ⟨hO, hmc⟩ := thread_step_inv s .main op rest m exitTails (Or.inr (Or.inr (Or.inl rfl)))
        hmem hI.shared hOKt hacq hts
      simp [hO.noRaise] at h
      subst h
      apply inv_main_finish hI hO
      refine Or.inr (Or.inr (Or.inr ⟨hO.mainF.1.trans ht, hmc, ne_nil_of_le hO.same.1 hne, ?_⟩))
      simp [exitTails, suffixes, lockedProtocol] at hmem
      rcases hmem with ⟨rfl, rfl⟩ | ⟨rfl, rfl⟩ | ⟨rfl, rfl⟩ | ⟨rfl, rfl⟩ | ⟨rfl, rfl⟩ | ⟨rfl, rfl⟩
      · have hcr : m.code = _ := hO.codeF.resolve_right (by simp)
        intro hh
        rw [show m.code = _ from hcr] at hh
        simp [inCrit] at hh
      · have hcr : m.code = _ := hO.codeF.resolve_right (by simp)
        intro hh
        rw [show m.code = _ from hcr] at hh
        simp [inCrit] at hh
      · have hcr : m.code = _ := hO.codeF.resolve_right (by simp)
        intro hh
        rw [show m.code = _ from hcr] at hh
        simp [inCrit] at hh
      · -- X3 -> X4 : the flag was cleared under the lock
        intro _ _
        obtain ⟨_, _, _, ha⟩ := hOKt.1 rfl
        exact (hO.frameA (by simp)).trans ha
      · intro _ _
        exact (hO.frameA (by simp)).trans (hact rfl (by simp [lockedProtocol]))
      · intro _ _
        exact (hO.frameA (by simp)).trans (hact rfl (by simp [lockedProtocol]))



theorem timerOK_setCode {s : State} {i k : Nat} {c : List MicroOp} {r0 : TimerRec}
    (h : TimerOK s k r0) (ha : AliveAt s i) : TimerOK (setCode s i c) k r0 :=
  ⟨fun hst => ⟨(h.1 hst).1, (h.1 hst).2.1, threadOK_setCode (h.1 hst).2.2 ha⟩, h.2⟩

theorem mainOK_setCode {s : State} {i : Nat} {c : List MicroOp} (hM : MainOK s)
    (hne : s.timers ≠ []) : MainOK (setCode s i c) := by
  rcases hM with ⟨n, _, _, hv⟩ | ⟨n, ht, hm, hn, hv⟩ | ⟨n, ht, hm, hn⟩ | ⟨ht, hm, hn, ha⟩
  · exact absurd hv.1 hne
  · exact Or.inr (Or.inl ⟨n, ht, hm, hn, fun h => absurd (hv h).1 hne⟩)
  · exact Or.inr (Or.inr (Or.inl ⟨n, ht, hm, modify_ne_nil hn⟩))
  · exact Or.inr (Or.inr (Or.inr ⟨ht, hm, modify_ne_nil hn, ha⟩))

theorem inv_fire {s s' : State} {i : Nat} (hI : Inv s)
    (h : stepFire lockedProtocol s i = some s') : Inv s' := by
  unfold stepFire at h
  cases hr : s.timers[i]? with
  | none => simp [hr] at h
  | some r =>
    simp [hr] at h
    obtain ⟨hst, rfl⟩ := h
    have ha : AliveAt s i := ⟨r, hr, Or.inl hst⟩
    have hne : s.timers ≠ [] := ne_nil_of_some hr
    refine ⟨shared_setCode hI.shared ha, mainOK_setCode hI.main hne, threadOK_setCode hI.mainT ha,
      ?_, ?_⟩
    · intro k r' hk
      obtain ⟨r0, hl, rfl⟩ := setCode_some hk
      by_cases hik : i = k
      · subst hik
        rw [hr] at hl
        cases hl
        have hlk : s.lock ≠ some (.timer i) := (hI.timers i r hr).2 (by rw [hst]; simp)
        cases hcb : r.cb
        · simp [Protocol.cbCode, lockedProtocol]
          exact ⟨fun _ => ⟨by memT', by simp, fun h => (by simp [inCrit] at h), fun _ => hlk⟩,
            fun h => absurd rfl h⟩
        · simp [Protocol.cbCode, lockedProtocol]
          exact ⟨fun _ => ⟨by memT', by simp, fun h => (by simp [inCrit] at h), fun _ => hlk⟩,
            fun h => absurd rfl h⟩
      · simp [hik]
        exact timerOK_setCode (hI.timers k r0 hl) ha
    · intro j hj
      have := hI.holder j hj
      simpa [setCode, setTimers] using this



theorem mainOK_after_timer {s s1 : State} (hM : MainOK s) (hne : s.timers ≠ [])
    (hF : s1.mainTodo = s.mainTodo ∧ s1.mainCode = s.mainCode)
    (hlen : s.timers.length ≤ s1.timers.length) (hact : s1.active = s.active) : MainOK s1 := by
  have hne1 := ne_nil_of_le hlen hne
  rcases hM with ⟨n, _, _, hv⟩ | ⟨n, ht, hm, hn, hv⟩ | ⟨n, ht, hm, hn⟩ | ⟨ht, hm, hn, ha⟩
  · exact absurd hv.1 hne
  · refine Or.inr (Or.inl ⟨n, hF.1.trans ht, hF.2 ▸ hm, hF.2 ▸ hn, fun h => ?_⟩)
    rw [hF.2] at h
    exact absurd (hv h).1 hne
  · exact Or.inr (Or.inr (Or.inl ⟨n, hF.1.trans ht, hF.2 ▸ hm, hne1⟩))
  · refine Or.inr (Or.inr (Or.inr ⟨hF.1.trans ht, hF.2 ▸ hm, hne1, fun h1 h2 => ?_⟩))
    rw [hF.2] at h1 h2
    exact hact.trans (ha h1 h2)

theorem inv_timer {s s' : State} {i : Nat} (hI : Inv s) (h : stepTimer s i = some s') :
    Inv s' := by
  unfold stepTimer at h
  cases hr : s.timers[i]? with
  | none => simp [hr] at h
  | some r =>
    simp [hr] at h
    obtain ⟨hst, h⟩ := h
    obtain ⟨hmemT, hcne, hOKt⟩ := (hI.timers i r hr).1 hst
    have hne : s.timers ≠ [] := ne_nil_of_some hr
    cases hcode : r.code with
    | nil => exact absurd hcode hcne
    | cons op rest =>
      rw [hcode] at h hmemT hOKt
      simp at h
      cases hts : threadStep s (.timer i) op rest with
      | none => simp [hts] at h
      | some m =>
        simp [hts] at h
        subst h
        -- the statement itself
        have key : ∃ T, (T = enterTails ∨ T = updateTails ∨ T = exitTails ∨ T = psTails) ∧
            op :: rest ∈ T ∧ (T = updateTails ∨ T = psTails) ∧
            (op = .acquire → s.lock = none → critAssert s rest) ∧ (∀ b, op ≠ .setActive b) := by
          rcases hmemT with hm | hm
          · refine ⟨updateTails, Or.inr (Or.inl rfl), hm, Or.inl rfl, ?_, ?_⟩
            · intro hop hl
              subst hop
              simp [updateTails, suffixes, lockedProtocol] at hm
              subst hm
              exact ⟨hI.shared.free hl, hne⟩
            · intro b hb
              subst hb
              simp [updateTails, suffixes, lockedProtocol] at hm
          · refine ⟨psTails, Or.inr (Or.inr (Or.inr rfl)), hm, Or.inr rfl, ?_, ?_⟩
            · intro hop _
              subst hop
              simp [psTails, suffixes, lockedProtocol] at hm
            · intro b hb
              subst hb
              simp [psTails, suffixes, lockedProtocol] at hm
        obtain ⟨T, hT, hmT, hT', hacq, hnsa⟩ := key
        obtain ⟨hO, hmc⟩ := thread_step_inv s (.timer i) op rest m T hT hmT hI.shared hOKt hacq hts
        -- timer i is still a running thread in the intermediate state
        have hilt : i < s.timers.length := by
          have := List.getElem?_eq_some_iff.1 hr
          exact this.1
        have ha1 : AliveAt m.s i := by
          have hlt : i < m.s.timers.length := Nat.lt_of_lt_of_le hilt hO.same.1
          obtain ⟨r1, hr1⟩ : ∃ r1, m.s.timers[i]? = some r1 := ⟨_, List.getElem?_eq_getElem hlt⟩
          rcases hO.same.2 i r1 hr1 with ⟨r0, hr0, _, hrun⟩ | ⟨hnone, _⟩
          · rw [hr] at hr0
            cases hr0
            exact ⟨r1, hr1, Or.inr (hrun.2 hst)⟩
          · rw [hr] at hnone
            cases hnone
        have hne1 : m.s.timers ≠ [] := ne_nil_of_le hO.same.1 hne
        refine ⟨shared_setCode hO.shared ha1,
          mainOK_setCode (mainOK_after_timer hI.main hne hO.mainF hO.same.1 (hO.frameA hnsa)) hne1,
          ?_, ?_, ?_⟩
        · have := hO.others .main s.mainCode (by simp) hI.mainT
          rw [← hO.mainF.2] at this
          exact threadOK_setCode this ha1
        · intro k r' hk
          obtain ⟨r0, hl, rfl⟩ := setCode_some hk
          by_cases hik : i = k
          · subst hik
            simp
            cases hmcode : m.code with
            | nil =>
              simp
              refine ⟨fun h => (by cases h), fun _ => ?_⟩
              have := hO.thread.2 (by rw [hmcode]; rfl)
              exact this
            | cons o rs =>
              simp
              refine ⟨fun _ => ⟨?_, by simp, threadOK_setCode (hmcode ▸ hO.thread) ha1⟩, fun h => absurd rfl h⟩
              rw [← hmcode]
              rcases hT' with rfl | rfl
              · exact Or.inl hmc
              · exact Or.inr hmc
          · simp [hik]
            exact timerOK_setCode (others_after hI hO k r0 hl (by simp [hik])) ha1
        · intro j hj
          have := holder_after hI hO (fun j h => by cases h; exact hilt) j hj
          simpa [setCode, setTimers] using this



theorem inv_step {s s' : State} {a : Action} (hI : Inv s)
    (h : step lockedProtocol s a = some s') : Inv s' := by
  cases a with
  | main =>
    cases hc : s.mainCode with
    | nil => exact inv_main_load hI hc h
    | cons op rest => exact inv_main_op hI hc h
  | fire i => exact inv_fire hI h
  | timer i => exact inv_timer hI h

theorem inv_reachable (n : Nat) (g : Bool) {s : State}
    (h : Reachable lockedProtocol (init (Method.enter :: scriptTail n) g) s) : Inv s := by
  induction h with
  | init => exact inv_init n g
  | step a _ hs ih => exact inv_step ih hs

/-- main has returned from `exit` and no callback is executing: nothing is alive -/
theorem inv_quiescent {s : State} (hI : Inv s) (hf : s.mainFinished = true)
    (hr : s.anyRunning = false) :
    ∀ (i : Nat) (r : TimerRec), s.timers[i]? = some r → r.st.alive = false := by
  simp [State.mainFinished] at hf
  obtain ⟨hcode, htodo⟩ := hf
  have hnorun : ∀ (i : Nat) (r : TimerRec), s.timers[i]? = some r → r.st ≠ TState.running := by
    intro i r hi hst
    simp [State.anyRunning] at hr
    exact hr r (List.mem_of_getElem? hi) hst
  have hact : s.active = false := by
    rcases hI.main with ⟨n, ht, _, _⟩ | ⟨n, _, _, hne, _⟩ | ⟨n, ht, _, _⟩ | ⟨_, _, _, ha⟩
    · rw [htodo] at ht
      cases ht
    · exact absurd hcode hne
    · rw [htodo] at ht
      simp [scriptTail] at ht
    · exact ha (by rw [hcode]; rfl) (by rw [hcode]; simp [lockedProtocol])
  have hlock : s.lock = none := by
    cases hl : s.lock with
    | none => rfl
    | some t =>
      cases t with
      | main => exact absurd hl (hI.mainT.2 (by rw [hcode]; rfl))
      | timer i =>
        have hlt := hI.holder i hl
        have hr1 : s.timers[i]? = some s.timers[i] := List.getElem?_eq_getElem hlt
        exact absurd hl ((hI.timers i _ hr1).2 (hnorun i _ hr1))
  have hg := hI.shared.free hlock
  intro i r hi
  cases hst : r.st <;> simp [TState.alive]
  · have := (hg.2 i r hi hst).2
    rw [hact] at this
    cases this
  · exact hnorun i r hi hst

/-- every thread that exists is a daemon thread: the interpreter can always exit -/
theorem inv_daemon {s : State} (hI : Inv s) : s.blocksExit = false := by
  simp only [State.blocksExit, List.any_eq_false]
  intro r hr
  obtain ⟨i, hlt, rfl⟩ := List.getElem_of_mem hr
  have hi : s.timers[i]? = some s.timers[i] := List.getElem?_eq_getElem hlt
  have := hI.shared.daemon i _ hi
  cases hst : (s.timers[i]).st <;> simp_all [TState.alive, TState.started]



/-! ### no deadlock: exit returns, running callbacks drain -/

theorem execOp_not_blocked (s : State) (t : Tid) (op : MicroOp)
    (h : op = .acquire → s.lock = none) : execOp s t op ≠ .blocked := by
  cases op
  case acquire => simp [execOp, h rfl]
  case print => simp [execOp]
  case setStep => simp [execOp]
  case setActive b => simp [execOp]
  case newTimer cb => simp [execOp]
  case release =>
    simp only [execOp]
    split <;> simp
  case returnUnlessActive =>
    simp only [execOp]
    split <;> simp
  case cancelTimer =>
    simp only [execOp]
    split <;> simp
  case setDaemon =>
    simp only [execOp]
    split
    · simp
    · split
      · simp
      · split <;> simp
  case startTimer =>
    simp only [execOp]
    split
    · simp
    · split
      · simp
      · split <;> simp

theorem threadStep_isSome (s : State) (t : Tid) (op : MicroOp) (rest : List MicroOp)
    (h : op = .acquire → s.lock = none) : ∃ m, threadStep s t op rest = some m := by
  have hnb := execOp_not_blocked s t op h
  unfold threadStep
  cases he : execOp s t op with
  | blocked => exact absurd he hnb
  | ok s' => exact ⟨_, rfl⟩
  | ret s' => exact ⟨_, rfl⟩
  | raised s' => exact ⟨_, rfl⟩

theorem crit_head_not_acquire {s : State} {c : List MicroOp} (h : critAssert s c) :
    ∃ op rest, c = op :: rest ∧ op ≠ .acquire := by
  cases c with
  | nil => simp [critAssert] at h
  | cons op rest =>
    refine ⟨op, rest, rfl, ?_⟩
    intro hop
    subst hop
    simp [critAssert] at h

/-- as long as main has not returned from `exit` or a callback is executing, some thread
    can move without any timer having to fire -/
theorem inv_progress {s : State} (hI : Inv s)
    (h : s.mainFinished = false ∨ s.anyRunning = true) :
    ∃ a s', (a = Action.main ∨ ∃ i, a = Action.timer i) ∧ step lockedProtocol s a = some s' := by
  have mainMoves : (∀ op rest, s.mainCode = op :: rest → op = .acquire → s.lock = none) →
      s.mainFinished = false → ∃ s', step lockedProtocol s .main = some s' := by
    intro hacq hf
    simp only [step, stepMain]
    cases hc : s.mainCode with
    | nil =>
      cases ht : s.mainTodo with
      | nil => simp [State.mainFinished, hc, ht] at hf
      | cons m rest => simp
    | cons op rest =>
      obtain ⟨m, hm⟩ := threadStep_isSome s .main op rest (hacq op rest hc)
      simp [hm]
  have timerMoves : ∀ (i : Nat) (r : TimerRec), s.timers[i]? = some r → r.st = TState.running →
      (∀ op rest, r.code = op :: rest → op = .acquire → s.lock = none) →
      ∃ s', step lockedProtocol s (.timer i) = some s' := by
    intro i r hr hst hacq
    simp only [step, stepTimer, hr, hst]
    cases hc : r.code with
    | nil => simp
    | cons op rest =>
      obtain ⟨m, hm⟩ := threadStep_isSome s (.timer i) op rest (hacq op rest hc)
      simp [hm]
  cases hl : s.lock with
  | none =>
    rcases h with h | h
    · obtain ⟨s', hs'⟩ := mainMoves (fun _ _ _ _ => hl) h
      exact ⟨_, s', Or.inl rfl, hs'⟩
    · simp [State.anyRunning] at h
      obtain ⟨r, hmem, hst⟩ := h
      obtain ⟨i, hlt, rfl⟩ := List.getElem_of_mem hmem
      obtain ⟨s', hs'⟩ := timerMoves i _ (List.getElem?_eq_getElem hlt) hst (fun _ _ _ _ => hl)
      exact ⟨_, s', Or.inr ⟨i, rfl⟩, hs'⟩
  | some t =>
    cases t with
    | main =>
      have hcrit : inCrit s.mainCode = true := by
        cases hc : inCrit s.mainCode with
        | true => rfl
        | false => exact absurd hl (hI.mainT.2 hc)
      obtain ⟨op, rest, hcode, hop⟩ := crit_head_not_acquire (hI.mainT.1 hcrit).2
      have hf : s.mainFinished = false := by simp [State.mainFinished, hcode]
      obtain ⟨s', hs'⟩ := mainMoves (fun op' rest' hc' hop' => by
        rw [hcode] at hc'
        cases hc'
        exact absurd hop' hop) hf
      exact ⟨_, s', Or.inl rfl, hs'⟩
    | timer i =>
      have hlt := hI.holder i hl
      have hr : s.timers[i]? = some s.timers[i] := List.getElem?_eq_getElem hlt
      have hst : (s.timers[i]).st = TState.running := by
        cases hh : decide ((s.timers[i]).st = TState.running) with
        | true => exact of_decide_eq_true hh
        | false => exact absurd hl ((hI.timers i _ hr).2 (of_decide_eq_false hh))
      obtain ⟨_, _, hOK⟩ := (hI.timers i _ hr).1 hst
      have hcrit : inCrit (s.timers[i]).code = true := by
        cases hc : inCrit (s.timers[i]).code with
        | true => rfl
        | false => exact absurd hl (hOK.2 hc)
      obtain ⟨op, rest, hcode, hop⟩ := crit_head_not_acquire (hOK.1 hcrit).2
      obtain ⟨s', hs'⟩ := timerMoves i _ hr hst (fun op' rest' hc' hop' => by
        rw [hcode] at hc'
        cases hc'
        exact absurd hop' hop)
      exact ⟨_, s', Or.inr ⟨i, rfl⟩, hs'⟩

end OQuPyVerif.Progress
