/- Helper lemmas about the `_parse_times` model: Python ranges, slices, fancy indexing. -/
import OQuPyVerif.Model.Correlations
import Mathlib.Data.List.Basic
import Mathlib.Tactic.Linarith
import Mathlib.Data.Rat.Floor

namespace OQuPyVerif.Correlations
open OQuPyVerif.FloatModel OQuPyVerif.Generated.CorrTimes

/-! ### `range(a, b, c)` -/

theorem mem_pyRange_pos (a b c x : Int) (hc : 0 < c) (h : x ∈ pyRange a b c) :
    a ≤ x ∧ x < b := by
  unfold pyRange at h
  simp only [hc, if_true, List.mem_map, List.mem_range] at h
  obtain ⟨i, hi, rfl⟩ := h
  by_cases hab : a < b
  · simp only [hab, if_true] at hi
    have hq : 0 ≤ (b - a - 1) / c := Int.ediv_nonneg (by omega) (by omega)
    have hi' : (i : Int) ≤ (b - a - 1) / c := by omega
    have h1 : (i : Int) * c ≤ (b - a - 1) / c * c := Int.mul_le_mul_of_nonneg_right hi' (by omega)
    have h2 : (b - a - 1) / c * c ≤ b - a - 1 := Int.ediv_mul_le _ (by omega)
    have h3 : 0 ≤ (i : Int) * c := Int.mul_nonneg (by omega) (by omega)
    constructor <;> omega
  · simp [hab] at hi

theorem mem_pyRange_neg (a b c x : Int) (hc : c < 0) (h : x ∈ pyRange a b c) :
    b < x ∧ x ≤ a := by
  unfold pyRange at h
  have hc' : ¬ c > 0 := by omega
  simp only [hc', if_false, hc, if_true, List.mem_map, List.mem_range] at h
  obtain ⟨i, hi, rfl⟩ := h
  by_cases hab : b < a
  · simp only [hab, if_true] at hi
    have hq : 0 ≤ (a - b - 1) / (-c) := Int.ediv_nonneg (by omega) (by omega)
    have hi' : (i : Int) ≤ (a - b - 1) / (-c) := by omega
    have h1 : (i : Int) * (-c) ≤ (a - b - 1) / (-c) * (-c) :=
      Int.mul_le_mul_of_nonneg_right hi' (by omega)
    have h2 : (a - b - 1) / (-c) * (-c) ≤ a - b - 1 := Int.ediv_mul_le _ (by omega)
    have h3 : 0 ≤ (i : Int) * (-c) := Int.mul_nonneg (by omega) (by omega)
    have h4 : (i : Int) * c = -((i : Int) * (-c)) := by ring
    constructor <;> omega
  · simp [hab] at hi

theorem pyRange_one (a b : Int) :
    pyRange a b 1 = (List.range (b - a).toNat).map (fun (i : Nat) => a + (i : Int)) := by
  unfold pyRange
  simp only [show (1 : Int) > 0 by decide, if_true, Int.ediv_one, mul_one]
  by_cases hab : a < b
  · simp only [hab, if_true]
    congr 2
    omega
  · simp only [hab, if_false]
    have : (b - a).toNat = 0 := by omega
    simp [this]

theorem pyRange_neg_one (a b : Int) :
    pyRange a b (-1) = (List.range (a - b).toNat).map (fun (i : Nat) => a - (i : Int)) := by
  unfold pyRange
  simp only [show ¬ ((-1 : Int) > 0) by decide, if_false, show ((-1 : Int) < 0) by decide, if_true,
    neg_neg, Int.ediv_one]
  by_cases hab : b < a
  · simp only [hab, if_true]
    have : (a - b - 1 + 1).toNat = (a - b).toNat := by omega
    rw [this]
    apply List.map_congr_left
    intro i _
    ring
  · simp only [hab, if_false]
    have : (a - b).toNat = 0 := by omega
    simp [this]

/-! ### slices of `np.arange(len)` -/

theorem clampBound_pos (len c s : Int) (hl : 0 ≤ len) (hc : 0 < c) :
    0 ≤ clampBound len c s ∧ clampBound len c s ≤ len := by
  unfold clampBound
  have : ¬ c < 0 := by omega
  simp only [this, if_false]
  split
  · split <;> constructor <;> omega
  · split <;> constructor <;> omega

theorem clampBound_neg (len c s : Int) (hl : 0 ≤ len) (hc : c < 0) :
    -1 ≤ clampBound len c s ∧ clampBound len c s ≤ len - 1 := by
  unfold clampBound
  simp only [hc, if_true]
  split
  · split <;> constructor <;> omega
  · split <;> constructor <;> omega

theorem arangeSlice_in_range (len : Int) (a b c : Option Int) (st : List Int) (hl : 0 ≤ len)
    (h : arangeSlice len a b c = .ok st) : ∀ x ∈ st, 0 ≤ x ∧ x < len := by
  unfold arangeSlice at h
  simp only at h
  split at h
  · cases h
  · rename_i hc0
    simp only [Except.ok.injEq] at h
    subst h
    intro x hx
    rcases lt_or_gt_of_ne hc0 with hc | hc
    · have hm := mem_pyRange_neg _ _ _ x hc hx
      have h1 : adjStart len (c.getD 1) a ≤ len - 1 := by
        cases a with
        | none => simp [adjStart, hc]
        | some s => exact (clampBound_neg len _ s hl hc).2
      have h2 : -1 ≤ adjStop len (c.getD 1) b := by
        cases b with
        | none => simp [adjStop, hc]
        | some s => exact (clampBound_neg len _ s hl hc).1
      constructor <;> omega
    · have hm := mem_pyRange_pos _ _ _ x hc hx
      have hnc : ¬ c.getD 1 < 0 := by omega
      have h1 : 0 ≤ adjStart len (c.getD 1) a := by
        cases a with
        | none => simp [adjStart, hnc]
        | some s => exact (clampBound_pos len _ s hl hc).1
      have h2 : adjStop len (c.getD 1) b ≤ len := by
        cases b with
        | none => simp [adjStop, hnc]
        | some s => exact (clampBound_pos len _ s hl hc).2
      constructor <;> omega

/-! ### fancy indexing with a list -/

theorem fancyIndex_in_range (len : Int) :
    ∀ (l st : List Int), fancyIndex len l = .ok st → ∀ x ∈ st, 0 ≤ x ∧ x < len
  | [], st, h => by
    simp only [fancyIndex, Except.ok.injEq] at h
    subst h
    simp
  | k :: ks, st, h => by
    simp only [fancyIndex] at h
    split at h
    · cases h
    · rename_i hk
      split at h
      · cases h
      · rename_i r hr
        simp only [Except.ok.injEq] at h
        subst h
        intro x hx
        rcases List.mem_cons.1 hx with rfl | hx
        · split <;> constructor <;> omega
        · exact fancyIndex_in_range len ks r hr x hx

theorem fancyIndex_eq_map (len : Int) :
    ∀ (l : List Int), (∀ k ∈ l, -len ≤ k ∧ k < len) →
      fancyIndex len l = .ok (l.map (fun k => if k < 0 then k + len else k))
  | [], _ => rfl
  | k :: ks, h => by
    have hk := h k (by simp)
    have ih := fancyIndex_eq_map len ks (fun x hx => h x (by simp [hx]))
    simp only [fancyIndex, ih, List.map_cons]
    have : ¬ (k < -len ∨ k ≥ len) := by omega
    simp [this]

/-! ### float → step -/

theorem truncInt_intCast (k : Int) : truncInt ((k : Int) : Rat) = k := by
  unfold truncInt
  by_cases hk : (0 : Rat) ≤ (k : Rat)
  · simp [hk, Rat.floor_intCast]
  · have : ¬ ((k : Rat) ≥ 0) := hk
    simp only [this, if_false]
    rw [← Int.cast_neg, Rat.floor_intCast]
    omega

end OQuPyVerif.Correlations
