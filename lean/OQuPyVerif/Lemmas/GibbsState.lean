/- C11 helper lemmas on the Gibbs model: natural orientation of the backend's data, zero
   coupling (matrix power), collapse for a diagonal propagator, Hermiticity by path reversal. -/
import OQuPyVerif.Lemmas.GibbsPath
import OQuPyVerif.Lemmas.PathDiag
import OQuPyVerif.Lemmas.PathStar

namespace OQuPyVerif.Gibbs
open Finset BigOperators OQuPyVerif.PathSum
variable {K : Type} [CommRing K]

/-- the backend's four propagator factors all carry `.T` (the tree as it stands) -/
def Orient.backendT (o : Orient) : Prop :=
  o.initProp = true ∧ o.initData = true ∧ o.inflPP = true ∧ o.readout = true

instance (o : Orient) : Decidable o.backendT := by unfold Orient.backendT; infer_instance

/-- the path sum in its natural orientation: `[l, i]` = amplitude from `i` to `l` -/
def natural (d : ℕ) (q : ℕ → ℕ → K) (G : ℕ → ℕ → ℕ → K) (k l i : ℕ) : K :=
  pathSum d k (fun p => q l (p.headD 0) *
    (inflProd (inflOf G) p * (linkProd (matMul d q q) p * q (p.getLastD 0) i)))

theorem sum_idTbl_left (d : ℕ) (f : ℕ → K) (r : ℕ) (hr : r < d) :
    ∑ i ∈ range d, idTbl r i * f i = f r := by
  rw [Finset.sum_eq_single r]
  · simp [idTbl]
  · intro b _ hb; simp [idTbl, Ne.symm hb]
  · intro h; exact absurd (Finset.mem_range.mpr hr) h

/-- with all four backend factors transposed, `data[k][r, l]` is the natural amplitude from
    `r` to `l`: the backend propagates the ROWS of `initial_data` -/
theorem backendData_backendT (d : ℕ) (o : Orient) (ho : o.backendT) (q : ℕ → ℕ → K)
    (G : ℕ → ℕ → ℕ → K) (k r l : ℕ) (hr : r < d) :
    backendData d o q G idTbl (k+1) r l = natural d q G (k+1) l r := by
  obtain ⟨h1, h2, h3, h4⟩ := ho
  unfold backendData natural
  simp only [Nat.succ_ne_zero, ite_false]
  apply pathSum_congr
  intro p hp
  have hne : p ≠ [] := by
    intro h; have := hp.1; rw [h] at this; simp at this
  have hl : lastAmp o q (k+1) l (p.headD 0) = q l (p.headD 0) := by
    unfold lastAmp tr; simp [h2, h4]
  have hk : siteKernel d o q = fun _ => matMul d q q := by
    funext n a b; unfold siteKernel tr; simp [h3]
  have hf : firstAmp d o q idTbl r = fun s => q s r := by
    funext s; unfold firstAmp tr
    simp only [h1, ite_true]
    exact sum_idTbl_left d (fun i => q s i) r hr
  rw [hl, hk, sysAmpl_eq_linkProd _ _ p hne, hf]

/-! ### zero coupling -/

theorem inflRowFull_one (G : ℕ → ℕ → ℕ → K) (hG : ∀ j a b, G j a b = 1) (n a j : ℕ) (q : List ℕ) :
    inflRowFull (inflOf G) n a j q = 1 := by
  induction q generalizing j with
  | nil => rfl
  | cons c cs ih => simp [inflRowFull, inflOf, hG, ih]

theorem inflProd_one (G : ℕ → ℕ → ℕ → K) (hG : ∀ j a b, G j a b = 1) (p : List ℕ) :
    inflProd (inflOf G) p = 1 := by
  induction p with
  | nil => rfl
  | cons a r ih => simp [inflProd, inflRowFull_one G hG, ih]

theorem matMul_idTbl (d : ℕ) (q : ℕ → ℕ → K) (a i : ℕ) (hi : i < d) :
    matMul d q idTbl a i = q a i := by
  unfold matMul
  rw [Finset.sum_eq_single i]
  · simp [idTbl]
  · intro b _ hb; simp [idTbl, hb]
  · intro h; exact absurd (Finset.mem_range.mpr hi) h

theorem chain_propPow (d : ℕ) (q : ℕ → ℕ → K) (i : ℕ) (hi : i < d) (m a : ℕ) :
    chain d (matMul d q q) m (fun s => q s i) a = propPow d q (2*m+1) a i := by
  induction m generalizing a with
  | zero => simp [chain, propPow, matMul_idTbl d q a i hi]
  | succ m ih =>
    have e : 2 * (m+1) + 1 = (2*m+1) + 1 + 1 := by ring
    rw [e]
    simp only [chain, propPow]
    simp only [ih]
    show ∑ b ∈ range d, matMul d q q a b * propPow d q (2*m+1) b i
      = matMul d q (matMul d q (propPow d q (2*m+1))) a i
    unfold matMul
    simp only [Finset.sum_mul, Finset.mul_sum]
    rw [Finset.sum_comm]
    apply Finset.sum_congr rfl; intro c _
    apply Finset.sum_congr rfl; intro b _
    ring

theorem natural_zero (d : ℕ) (q : ℕ → ℕ → K) (G : ℕ → ℕ → ℕ → K) (hG : ∀ j a b, G j a b = 1)
    (k l i : ℕ) (hi : i < d) :
    natural d q G (k+1) l i = propPow d q (2*(k+1)) l i := by
  unfold natural
  have h : pathSum d (k+1) (fun p => q l (p.headD 0) *
        (inflProd (inflOf G) p * (linkProd (matMul d q q) p * q (p.getLastD 0) i)))
      = pathSum d (k+1) (fun p => q l (p.headD 0) *
          sysAmpl (fun _ => matMul d q q) (fun s => q s i) p) := by
    apply pathSum_congr
    intro p hp
    have hne : p ≠ [] := by
      intro h; have := hp.1; rw [h] at this; simp at this
    rw [inflProd_one G hG, sysAmpl_eq_linkProd _ _ p hne]; ring
  rw [h, pathSum_chain]
  have e : 2 * (k+1) = (2*k+1) + 1 := by ring
  rw [e]
  show _ = ∑ c ∈ range d, q l c * propPow d q (2*k+1) c i
  apply Finset.sum_congr rfl; intro a _
  rw [chain_propPow d q i hi]

/-! ### commuting models -/

theorem matMul_offdiag (d : ℕ) (q : ℕ → ℕ → K) (hq : ∀ a b, a ≠ b → q a b = 0) (a b : ℕ)
    (hab : a ≠ b) : matMul d q q a b = 0 := by
  unfold matMul
  apply Finset.sum_eq_zero
  intro c _
  by_cases hc : c = a
  · subst hc; rw [hq c b hab]; ring
  · rw [hq a c (Ne.symm hc)]; ring

theorem matMul_diag (d : ℕ) (q : ℕ → ℕ → K) (hq : ∀ a b, a ≠ b → q a b = 0) (a : ℕ) (ha : a < d) :
    matMul d q q a a = q a a * q a a := by
  unfold matMul
  rw [Finset.sum_eq_single a]
  · intro c _ hc; rw [hq a c (Ne.symm hc)]; ring
  · intro h; exact absurd (Finset.mem_range.mpr ha) h

theorem tr_diag (b : Bool) (A : ℕ → ℕ → K) (hA : ∀ a c, a ≠ c → A a c = 0) (a c : ℕ) :
    tr b A a c = if a = c then A a a else 0 := by
  unfold tr
  by_cases h : a = c
  · subst h; simp
  · cases b
    · simp [h, hA a c h]
    · simp [h, hA c a (Ne.symm h)]

/-- **collapse**: with a diagonal propagator every `data[k]` is diagonal, whatever the
    orientation flags -/
theorem backendData_diag (d : ℕ) (o : Orient) (q : ℕ → ℕ → K) (hq : ∀ a b, a ≠ b → q a b = 0)
    (G : ℕ → ℕ → ℕ → K) (k r l : ℕ) (hr : r < d) :
    backendData d o q G idTbl (k+1) r l =
      if r = l then (q r r)^(2*(k+1)) * ∏ m ∈ range (k+1), rowConst (inflOf G) (m+1) r else 0 := by
  have hM : ∀ n a b, a ≠ b → siteKernel d o q n a b = 0 := by
    intro n a b hab
    unfold siteKernel
    rw [tr_diag _ _ (matMul_offdiag d q hq)]
    simp [Ne.symm hab]
  unfold backendData
  simp only [Nat.succ_ne_zero, ite_false]
  rw [pathSum_const_support]
  · have hterm : ∀ a ∈ range d,
        lastAmp o q (k+1) l ((List.replicate (k+1) a).headD 0) *
          (inflProd (inflOf G) (List.replicate (k+1) a) *
            sysAmpl (siteKernel d o q) (firstAmp d o q idTbl r) (List.replicate (k+1) a))
        = if a = r then (if r = l then (q r r)^(2*(k+1)) *
            ∏ m ∈ range (k+1), rowConst (inflOf G) (m+1) r else 0) else 0 := by
      intro a ha
      have ha' := Finset.mem_range.mp ha
      rw [inflProd_replicate, sysAmpl_replicate]
      have hh : (List.replicate (k+1) a).headD 0 = a := by simp [List.replicate_succ]
      rw [hh]
      have hl : lastAmp o q (k+1) l a = if a = l then q a a else 0 := by
        unfold lastAmp
        split <;> exact tr_diag _ q hq a l
      have hf : firstAmp d o q idTbl r a = if r = a then q r r else 0 := by
        unfold firstAmp
        rw [sum_idTbl_left d (fun i => tr o.initProp q i a) r hr]
        exact tr_diag _ q hq r a
      have hk : ∀ j, siteKernel d o q (j+2) a a = q a a * q a a := by
        intro j
        unfold siteKernel
        rw [tr_diag _ _ (matMul_offdiag d q hq)]
        simp [matMul_diag d q hq a ha']
      rw [hl, hf, Finset.prod_congr rfl (fun j _ => hk j), Finset.prod_const, Finset.card_range]
      by_cases har : a = r
      · subst har
        by_cases hal : a = l
        · subst hal; simp only [ite_true]; ring
        · simp [hal]
      · simp [har, Ne.symm har]
    rw [Finset.sum_congr rfl hterm, Finset.sum_ite_eq' (range d) r]
    simp [Finset.mem_range.mpr hr]
  · intro a p hex
    rw [sysAmpl_offdiag (siteKernel d o q) _ hM a p hex]; ring

/-! ### Hermiticity (path reversal) -/
section Star
variable [StarRing K]

theorem star_linkProd (Q : ℕ → ℕ → K) (p : List ℕ) :
    star (linkProd Q p) = linkProd (fun a b => star (Q a b)) p := by
  induction p with
  | nil => simp [linkProd]
  | cons a r ih =>
    cases r with
    | nil => simp [linkProd]
    | cons b r' => simp only [linkProd, star_mul']; rw [ih]

theorem star_inflRowFull_real (G : ℕ → ℕ → ℕ → K) (hG : ∀ j a b, star (G j a b) = G j a b)
    (n a j : ℕ) (q : List ℕ) :
    star (inflRowFull (inflOf G) n a j q) = inflRowFull (inflOf G) n a j q := by
  induction q generalizing j with
  | nil => simp [inflRowFull]
  | cons c cs ih => simp only [inflRowFull, star_mul', ih]; simp [inflOf, hG]

theorem star_inflProd_real (G : ℕ → ℕ → ℕ → K) (hG : ∀ j a b, star (G j a b) = G j a b)
    (p : List ℕ) : star (inflProd (inflOf G) p) = inflProd (inflOf G) p := by
  induction p with
  | nil => simp [inflProd]
  | cons a r ih => simp only [inflProd, star_mul', ih, star_inflRowFull_real G hG]

theorem star_matMul_self (d : ℕ) (q : ℕ → ℕ → K) (hq : ∀ a b, star (q a b) = q b a) (a b : ℕ) :
    star (matMul d q q a b) = matMul d q q b a := by
  unfold matMul
  rw [star_sum]
  apply Finset.sum_congr rfl; intro c _
  rw [star_mul', hq, hq]; ring

theorem headD_reverse (p : List ℕ) : p.reverse.headD 0 = p.getLastD 0 := by
  rw [List.getLastD_eq_getLast?, List.headD_eq_head?_getD, List.head?_reverse]

theorem getLastD_reverse (p : List ℕ) : p.reverse.getLastD 0 = p.headD 0 := by
  rw [List.getLastD_eq_getLast?, List.headD_eq_head?_getD, List.getLast?_reverse]

/-- **path reversal**: for a Hermitian propagator and real, symmetric influence factors the
    natural amplitude is a Hermitian matrix -/
theorem natural_star (d : ℕ) (q : ℕ → ℕ → K) (hq : ∀ a b, star (q a b) = q b a)
    (G : ℕ → ℕ → ℕ → K) (hGr : ∀ j a b, star (G j a b) = G j a b)
    (hGs : ∀ j a b, G j a b = G j b a) (k l i : ℕ) :
    star (natural d q G k l i) = natural d q G k i l := by
  unfold natural
  rw [star_pathSum, ← pathSum_reverse d k (fun p => q i (p.headD 0) *
    (inflProd (inflOf G) p * (linkProd (matMul d q q) p * q (p.getLastD 0) l)))]
  apply pathSum_congr
  intro p _
  simp only [star_mul', star_inflProd_real G hGr, star_linkProd, hq]
  rw [headD_reverse, getLastD_reverse, inflProd_reverse G hGs, linkProd_reverse]
  have hQ : (fun a b => star (matMul d q q a b)) = fun a b => matMul d q q b a := by
    funext a b; exact star_matMul_self d q hq a b
  rw [hQ]; ring

end Star

end OQuPyVerif.Gibbs
