/- Lemmas for C16 (and the "complete content" half of C17), generic in the `Flags` read off
   the source: reading back what `_set_data_and_shape` wrote, the content of an exported
   file, both import types.  Mathlib-free. -/
import OQuPyVerif.Lemmas.PTFileCrash

namespace OQuPyVerif.PTFile

/-! ### get ∘ set -/

/-- what `_get_data_and_shape` returns for a slot `_set_data_and_shape` wrote `t` into -/
def storedView : Option Tensor → Option Tensor
  | none => none
  | some t => if isHdf5None t then none else some t

theorem get_set (p : VDs) (da : List (List Entry)) (sh : List (List Nat)) (hd : p.data = some da)
    (hs : p.shape = some sh) (step : Nat) (t : Option Tensor) (hwf : ∀ t', t = some t' → t'.WF) :
    getDataShape (p.setDS step t) step = .ok (storedView t) := by
  unfold getDataShape VDs.setDS
  simp only [hd, hs, Option.map]
  have hl : ¬ step ≥ (setRows sh step (t.getD hdf5None).shape).length := by
    rw [setRows_length]; omega
  simp only [hl, if_false, getElem?_setRows, if_true]
  cases t with
  | none => rfl
  | some t' =>
    have := hwf t' rfl
    unfold Tensor.WF at this
    simp only [Option.getD, this, if_true, storedView]

theorem get_set_frame (p : VDs) (da : List (List Entry)) (sh : List (List Nat))
    (hd : p.data = some da) (hs : p.shape = some sh) (step i : Nat) (t : Option Tensor)
    (hne : i ≠ step) (hi1 : i < da.length) (hi2 : i < sh.length) :
    getDataShape (p.setDS step t) i = getDataShape p i := by
  unfold getDataShape VDs.setDS
  simp only [hd, hs, Option.map, getElem?_setRows, hne, if_false, hi1, hi2, if_true, setRows_length]
  have h1 : ¬ i ≥ max sh.length (step + 1) := by omega
  have h2 : ¬ i ≥ sh.length := by omega
  simp only [h1, h2, if_false]

/-- the sentinel collides exactly with a genuine one-entry vector holding NaN -/
theorem sentinel_collision (t : Tensor) (h : t.WF) :
    isHdf5None t = true ↔ ∃ e, t = ⟨[1], [e]⟩ ∧ e.isNan = true := by
  obtain ⟨shape, data⟩ := t
  unfold isHdf5None
  constructor
  · intro hh
    simp only [Bool.and_eq_true, beq_iff_eq] at hh
    obtain ⟨hs, hd⟩ := hh
    subst hs
    unfold Tensor.WF at h
    simp [shapeSize] at h
    match data, h, hd with
    | [e], _, hd => exact ⟨e, rfl, hd⟩
  · rintro ⟨e, he, hn⟩
    cases he
    simp [hn]

theorem storedView_some_iff (t : Tensor) : storedView (some t) = some t ↔ isHdf5None t = false := by
  unfold storedView
  cases h : isHdf5None t <;> simp [h]

/-- tensors of rank ≥ 2 (all MPO tensors) never collide with the sentinel -/
theorem not_sentinel_of_rank (t : Tensor) (h : 2 ≤ t.shape.length) : isHdf5None t = false := by
  unfold isHdf5None
  have : (t.shape == [1]) = false := by
    cases hs : t.shape with
    | nil => rfl
    | cons a l =>
      cases l with
      | nil => rw [hs] at h; simp at h
      | cons b l' => simp
  simp [this]

/-! ### content of an exported file -/

/-- what is stored for a tensor-or-None -/
def enc (t : Option Tensor) : Tensor := t.getD hdf5None

theorem setVds_self (c : H5) (v : VName) : c.setVds v (c.vds v) = c := by
  cases v <;> rfl

theorem setTensor_append (c : H5) (v : VName) (da : List (List Entry)) (sh : List (List Nat))
    (hd : (c.vds v).data = some da) (hs : (c.vds v).shape = some sh) (hl : da.length = sh.length)
    (t : Option Tensor) :
    c.setTensor v da.length t =
      c.setVds v ⟨some (da ++ [(enc t).data]), some (sh ++ [(enc t).shape])⟩ := by
  unfold H5.setTensor VDs.setDS enc
  simp only [hd, hs, Option.map]
  rw [setRows_append_one, hl, setRows_append_one]

theorem foldl_enum (mk : Nat → Option Tensor → Cmd) (v : VName)
    (hmk : ∀ c k t, pureCmd c (mk k t) = c.setTensor v k t) :
    ∀ (ts : List (Option Tensor)) (c : H5) (da : List (List Entry)) (sh : List (List Nat)),
      (c.vds v).data = some da → (c.vds v).shape = some sh → da.length = sh.length →
      (enumCmds mk da.length ts).foldl pureCmd c =
        c.setVds v ⟨some (da ++ ts.map (fun t => (enc t).data)),
                    some (sh ++ ts.map (fun t => (enc t).shape))⟩ := by
  intro ts
  induction ts with
  | nil =>
    intro c da sh hd hs _
    have : c.vds v = ⟨some da, some sh⟩ := by
      cases h : c.vds v with
      | mk d s => rw [h] at hd hs; simp only at hd hs; rw [hd, hs]
    simp only [enumCmds, List.foldl_nil, List.map_nil, List.append_nil]
    rw [← this, setVds_self]
  | cons t ts ih =>
    intro c da sh hd hs hl
    simp only [enumCmds, List.foldl_cons]
    rw [hmk, setTensor_append c v da sh hd hs hl]
    have hlen : (da ++ [(enc t).data]).length = da.length + 1 := by simp
    rw [← hlen]
    rw [ih _ (da ++ [(enc t).data]) (sh ++ [(enc t).shape]) (by simp) (by simp) (by simp [hl])]
    rw [setVds_setVds]
    simp [List.append_assoc]

/-- content of the file `export()` produces, before `close()` touches the flag -/
def exportedContent (env : Env) (pt : SimplePT) : H5 :=
  { freshContent env pt.info with
    init := ⟨some [(enc pt.initial).data], some [(enc pt.initial).shape]⟩
    mpo := ⟨some (pt.mpos.map (fun t => (enc t).data)), some (pt.mpos.map (fun t => (enc t).shape))⟩
    cap := ⟨some (pt.caps.map (fun t => (enc t).data)), some (pt.caps.map (fun t => (enc t).shape))⟩ }

theorem export_content (env : Env) (pt : SimplePT) :
    (exportCmds pt).foldl pureCmd (freshContent env pt.info) = exportedContent env pt := by
  unfold exportCmds
  rw [List.foldl_cons, List.foldl_append]
  have h0 : pureCmd (freshContent env pt.info) (Cmd.setInitial pt.initial) =
      { freshContent env pt.info with
        init := ⟨some [(enc pt.initial).data], some [(enc pt.initial).shape]⟩ } := rfl
  rw [h0]
  have e1 := foldl_enum Cmd.setMpo .mpo (fun _ _ _ => rfl) pt.mpos
    { freshContent env pt.info with
      init := ⟨some [(enc pt.initial).data], some [(enc pt.initial).shape]⟩ } [] [] rfl rfl rfl
  simp only [List.length_nil, List.nil_append] at e1
  rw [e1]
  have e2 := foldl_enum Cmd.setCap .cap (fun _ _ _ => rfl) pt.caps
    (H5.setVds { freshContent env pt.info with
      init := ⟨some [(enc pt.initial).data], some [(enc pt.initial).shape]⟩ } .mpo
      ⟨some (pt.mpos.map (fun t => (enc t).data)), some (pt.mpos.map (fun t => (enc t).shape))⟩)
    [] [] rfl rfl rfl
  simp only [List.length_nil, List.nil_append] at e2
  rw [e2]
  rfl

/-! ### reading an exported file -/

/-- a process tensor as the property quantifies over them: no initial tensor, every MPO slot
    holds a well-formed array of rank ≥ 2, every cap slot a well-formed array that is not
    literally the sentinel, transforms (if any) likewise -/
structure GoodPT (pt : SimplePT) (ms cs : List Tensor) : Prop where
  initial : pt.initial = none
  mpos : pt.mpos = ms.map some
  caps : pt.caps = cs.map some
  mwf : ∀ t ∈ ms, t.WF ∧ 2 ≤ t.shape.length
  cwf : ∀ t ∈ cs, t.WF ∧ isHdf5None t = false
  tin : ∀ t, pt.info.tin = some t → isHdf5None t = false
  tout : ∀ t, pt.info.tout = some t → isHdf5None t = false

theorem get_stored_lt (ts : List Tensor) (hwf : ∀ t ∈ ts, t.WF) (k : Nat) (hk : k < ts.length) :
    getDataShape ⟨some (ts.map (·.data)), some (ts.map (·.shape))⟩ k =
      .ok (storedView (some ts[k])) := by
  unfold getDataShape
  simp only [List.length_map, List.getElem?_map]
  have h1 : ¬ k ≥ ts.length := by omega
  simp only [h1, if_false, List.getElem?_eq_getElem hk, Option.map]
  have := hwf ts[k] (List.getElem_mem hk)
  unfold Tensor.WF at this
  simp [this, storedView]

theorem get_stored_ge (ts : List Tensor) (k : Nat) (hk : ts.length ≤ k) :
    getDataShape ⟨some (ts.map (·.data)), some (ts.map (·.shape))⟩ k = .error .indexError := by
  unfold getDataShape
  simp only [List.length_map]
  have h1 : k ≥ ts.length := hk
  simp only [h1, if_true]

theorem enc_map_data (ts : List Tensor) :
    (ts.map some).map (fun t => (enc t).data) = ts.map (·.data) := by
  rw [List.map_map]; rfl

theorem enc_map_shape (ts : List Tensor) :
    (ts.map some).map (fun t => (enc t).shape) = ts.map (·.shape) := by
  rw [List.map_map]; rfl

/-- the file after `export()` including `close()` (flag cleared) -/
def closedContent (env : Env) (pt : SimplePT) : H5 :=
  { exportedContent env pt with writing := some false }

theorem dtOfArr_dtArr (dt : Option Rat) : dtOfArr (dtArr dt) = dt := by
  cases dt <;> rfl

theorem noneIfSentinel_optArr (t : Option Tensor) (h : ∀ t', t = some t' → isHdf5None t' = false) :
    noneIfSentinel (optArr t) = t := by
  cases t with
  | none => rfl
  | some t' => simp [noneIfSentinel, optArr, h t' rfl]

theorem readMeta_closed (env : Env) (pt : SimplePT) (ms cs : List Tensor) (g : GoodPT pt ms cs) :
    readMeta (closedContent env pt) = some pt.info := by
  unfold readMeta closedContent exportedContent freshContent
  simp only [dtOfArr_dtArr, noneIfSentinel_optArr _ g.tin, noneIfSentinel_optArr _ g.tout]

theorem allPresent_closed (env : Env) (pt : SimplePT) : AllPresent (closedContent env pt) := by
  constructor <;> rfl

theorem importFile_closed (F : Flags) (hr : F.readMode = "r") (hquiet : F.readWarn .npFalse = false)
    (env : Env) (pt : SimplePT) (ms cs : List Tensor) (g : GoodPT pt ms cs) :
    importFile F (.file (closedContent env pt)) = .ok (⟨pt.info, closedContent env pt⟩, false) := by
  unfold importFile
  rw [readOutcome_present F hr _ (allPresent_closed env pt) false rfl]
  simp only [h5AttrRead, PyVal.npOfBool, Bool.false_eq_true, if_false, hquiet, readMeta_closed env pt ms cs g]
  rfl

section views
variable (env : Env) (pt : SimplePT) (ms cs : List Tensor) (g : GoodPT pt ms cs)
include g

theorem closed_mpo : (closedContent env pt).mpo = ⟨some (ms.map (·.data)), some (ms.map (·.shape))⟩ := by
  unfold closedContent exportedContent
  simp only [g.mpos, enc_map_data, enc_map_shape]

theorem closed_cap : (closedContent env pt).cap = ⟨some (cs.map (·.data)), some (cs.map (·.shape))⟩ := by
  unfold closedContent exportedContent
  simp only [g.caps, enc_map_data, enc_map_shape]

theorem file_length : (FilePT.mk pt.info (closedContent env pt)).length = ms.length := by
  unfold FilePT.length
  simp only [closed_mpo env pt ms cs g, List.length_map]

theorem file_capLen : capLen (FilePT.mk pt.info (closedContent env pt)) = cs.length := by
  unfold capLen
  simp only [closed_cap env pt ms cs g, List.length_map]

theorem file_getInitial : (FilePT.mk pt.info (closedContent env pt)).getInitial = .ok none := by
  unfold FilePT.getInitial closedContent exportedContent
  simp only [g.initial]
  rfl

theorem file_getMpo_lt (k : Nat) (hk : k < ms.length) :
    (FilePT.mk pt.info (closedContent env pt)).getMpo k = .ok (some ms[k]) := by
  unfold FilePT.getMpo
  simp only [closed_mpo env pt ms cs g]
  rw [get_stored_lt ms (fun t ht => (g.mwf t ht).1) k hk]
  have := not_sentinel_of_rank ms[k] (g.mwf _ (List.getElem_mem hk)).2
  simp [storedView, this]

theorem file_getMpo_ge (k : Nat) (hk : ms.length ≤ k) :
    (FilePT.mk pt.info (closedContent env pt)).getMpo k = .error .indexError := by
  unfold FilePT.getMpo
  simp only [closed_mpo env pt ms cs g]
  exact get_stored_ge ms k hk

theorem file_getCap_lt (k : Nat) (hk : k < cs.length) :
    (FilePT.mk pt.info (closedContent env pt)).getCap k = .ok (some cs[k]) := by
  unfold FilePT.getCap
  simp only [closed_cap env pt ms cs g]
  rw [get_stored_lt cs (fun t ht => (g.cwf t ht).1) k hk]
  have := (g.cwf _ (List.getElem_mem hk)).2
  simp [storedView, this]

theorem file_getCap_ge (k : Nat) (hk : cs.length ≤ k) :
    (FilePT.mk pt.info (closedContent env pt)).getCap k = .ok none := by
  unfold FilePT.getCap
  simp only [closed_cap env pt ms cs g]
  rw [get_stored_ge cs k hk]

theorem simple_getMpo (k : Nat) : pt.getMpo k = ms[k]? := by
  unfold SimplePT.getMpo
  rw [g.mpos, List.getElem?_map]
  cases ms[k]? <;> rfl

theorem simple_getCap (k : Nat) : pt.getCap k = cs[k]? := by
  unfold SimplePT.getCap
  rw [g.caps, List.getElem?_map]
  cases cs[k]? <;> rfl

theorem bondDims_eq : (FilePT.mk pt.info (closedContent env pt)).bondDims = pt.bondDims := by
  unfold FilePT.bondDims SimplePT.bondDims
  simp only [closed_mpo env pt ms cs g, g.mpos, List.getLast?_map]
  cases hl : ms.getLast? with
  | none => rfl
  | some last =>
    have hmem : last ∈ ms := List.mem_of_getLast? hl
    obtain ⟨_, hr⟩ := g.mwf last hmem
    have hall : (ms.map (·.shape)).all (fun r => !r.isEmpty) = true := by
      rw [List.all_eq_true]
      intro r hr'
      obtain ⟨t, ht, rfl⟩ := List.mem_map.mp hr'
      have := (g.mwf t ht).2
      cases hs : t.shape with
      | nil => rw [hs] at this; simp at this
      | cons a l => rfl
    cases hs : last.shape with
    | nil => rw [hs] at hr; simp at hr
    | cons a l =>
      cases l with
      | nil => rw [hs] at hr; simp at hr
      | cons b rest =>
        simp only [Option.map, hs, hall, if_true, List.map_map]
        rfl

end views

/-! ### the `'simple'` import -/

theorem tabM_take {ε α} (g : Nat → Except ε α) (l : List α)
    (h : ∀ k (hk : k < l.length), g k = .ok l[k]) :
    ∀ n, n ≤ l.length → tabM g n = .ok (l.take n) := by
  intro n
  induction n with
  | zero => intro _; rfl
  | succ n ih =>
    intro hn
    have hk : n < l.length := by omega
    unfold tabM
    rw [ih (by omega), h n hk]
    simp only []
    rw [List.take_add_one, List.getElem?_eq_getElem hk]
    rfl

theorem tabM_eq {ε α} (g : Nat → Except ε α) (l : List α)
    (h : ∀ k (hk : k < l.length), g k = .ok l[k]) : tabM g l.length = .ok l := by
  rw [tabM_take g l h l.length (Nat.le_refl _), List.take_length]

theorem capsLoop_eq (p : FilePT) (cs : List Tensor)
    (hget : ∀ k (hk : k < cs.length), p.getCap k = .ok (some cs[k]))
    (hend : p.getCap cs.length = .ok none) :
    ∀ fuel k, k ≤ cs.length → cs.length - k < fuel →
      capsLoop p k fuel = .ok ((cs.drop k).map some) := by
  intro fuel
  induction fuel with
  | zero => intro k _ h; omega
  | succ fuel ih =>
    intro k hk hf
    unfold capsLoop
    by_cases he : k = cs.length
    · subst he
      rw [hend]
      simp
    · have hlt : k < cs.length := by omega
      rw [hget k hlt]
      simp only []
      rw [ih (k + 1) (by omega) (by omega)]
      simp only []
      rw [List.drop_eq_getElem_cons hlt]
      rfl

theorem simpleOfFile_closed (F : Flags) (env : Env) (pt : SimplePT) (ms cs : List Tensor)
    (g : GoodPT pt ms cs) :
    simpleOfFile F ⟨pt.info, closedContent env pt⟩ =
      .ok { info := pt.info, initial := F.simpleSetInitial none none,
            mpos := pt.mpos, caps := pt.caps } := by
  unfold simpleOfFile
  rw [file_getInitial env pt ms cs g]
  simp only []
  have hlen : (FilePT.mk pt.info (closedContent env pt)).length = (ms.map some).length := by
    rw [file_length env pt ms cs g, List.length_map]
  rw [hlen, tabM_eq (fun k => (FilePT.mk pt.info (closedContent env pt)).getMpo k) (ms.map some)
    (by
      intro k hk
      have hk' : k < ms.length := by simpa using hk
      simp only [List.getElem_map]
      exact file_getMpo_lt env pt ms cs g k hk')]
  simp only []
  rw [file_capLen env pt ms cs g,
    capsLoop_eq _ cs (file_getCap_lt env pt ms cs g) (file_getCap_ge env pt ms cs g _ (Nat.le_refl _))
      (cs.length + 1) 0 (Nat.zero_le _) (by omega)]
  simp only [List.drop_zero, List.map_map, g.mpos, g.caps]
  rfl

theorem importSimple_closed (F : Flags) (hr : F.readMode = "r")
    (hquiet : F.readWarn .npFalse = false) (hsi : F.simpleSetInitial none none = none)
    (env : Env) (pt : SimplePT) (ms cs : List Tensor) (g : GoodPT pt ms cs) :
    importSimple F (.file (closedContent env pt)) = .ok (pt, false) := by
  unfold importSimple
  rw [importFile_closed F hr hquiet env pt ms cs g]
  simp only []
  rw [simpleOfFile_closed F env pt ms cs g, hsi]
  simp only []
  congr
  obtain ⟨info, ini, mpos, caps⟩ := pt
  have := g.initial
  simp only at this
  rw [this]

/-! ### `export()` as a whole -/

theorem export_disk {F : Flags} {ovw ovw' : Bool} {hm : H5Mode}
    (H : WriterHyps F (F.exportMode ovw) ovw' hm) (hexp : F.exportSteps = stdExportSteps)
    (hreset : F.closeReset true .npTrue = true) (hval : F.closeValue = false)
    (hquiet : F.readWarn .npFalse = false) (hr : F.readMode = "r")
    (env : Env) (d : Disk) (pt : SimplePT) (w : W) (hrun : exportW F env d pt ovw = .ok w) :
    w.d = .file (closedContent env pt) ∧ readOutcome F w.d = .clean ∧ replay d w.trace = w.d := by
  rw [exportW_eq_writerW F hexp] at hrun
  have hok := writerW_ok_open H env d pt.info _ _ w hrun
  obtain ⟨h1, h2, h3⟩ := writer_closed_is_clean H hreset hval hquiet hr env d pt.info hok _ w hrun
  refine ⟨?_, h1, h3⟩
  rw [h2, export_content]
  rfl

end OQuPyVerif.PTFile
