/-
  C09 — helper lemmas: the generated time / step / argument selections of both mean-field
  methods put into one normal form (`specStep`: field derivative at `(t_n, states_n, a_n)`,
  propagators from `(n, a_n, derivative)`, tensor-network step, Heun update with stage times
  `t_n` and `t_n ⊕ dt`), and the two runs expressed through it.
-/
import OQuPyVerif.Model.MeanField
import Mathlib.Tactic.Ring
import Mathlib.Tactic.Push
import Mathlib.Data.List.Range

set_option linter.unusedSectionVars false

namespace OQuPyVerif.MeanField
open OQuPyVerif.FloatModel OQuPyVerif.Generated.MeanFieldTimes

/-! ### what the generated time expressions are, on the grid `gridT s dt k = s ⊕ (k ⊗ dt)` -/

section times
variable (s dt : Rat)

theorem mft_fd_time_grid (n : Int) : mft_fd_time s dt (mftb_fd_step n) = gridT s dt n := rfl
theorem mft_rk1_time_grid (n : Int) : mft_cf_rk1_time s dt (mftb_cf_step n) = gridT s dt n := rfl
theorem mft_rk2_time_grid (n : Int) :
    mft_cf_rk2_time s dt (mftb_cf_step n) = fadd (gridT s dt n) dt := rfl
theorem cdwf_fd_time_grid (k : Int) : cdwf_fd_time s dt k = gridT s dt k := rfl

/-- the field update made in iteration `k+1` of `compute_dynamics_with_field` is the Heun step
    that starts at the PREVIOUS grid time `t_k` … -/
theorem cdwf_loop_rk1_time_grid (k : Int) :
    cdwf_cf_rk1_time (cdwf_loop_cf_time s dt (k + 1)) (cdwf_loop_cf_dt s dt (k + 1)) = gridT s dt k := by
  simp only [cdwf_cf_rk1_time, cdwf_loop_cf_time, cdwf_t, gridT, Int.add_sub_cancel]

/-- … and ends at `t_k ⊕ dt`. -/
theorem cdwf_loop_rk2_time_grid (k : Int) :
    cdwf_cf_rk2_time (cdwf_loop_cf_time s dt (k + 1)) (cdwf_loop_cf_dt s dt (k + 1))
      = fadd (gridT s dt k) dt := by
  simp only [cdwf_cf_rk2_time, cdwf_loop_cf_time, cdwf_loop_cf_dt, cdwf_t, gridT, Int.add_sub_cancel]

theorem cdwf_final_rk1_time_grid (k : Int) :
    cdwf_cf_rk1_time (cdwf_final_cf_time s dt (k + 1)) (cdwf_final_cf_dt s dt (k + 1)) = gridT s dt k := by
  simp only [cdwf_cf_rk1_time, cdwf_final_cf_time, cdwf_t, gridT, Int.add_sub_cancel]

theorem cdwf_final_rk2_time_grid (k : Int) :
    cdwf_cf_rk2_time (cdwf_final_cf_time s dt (k + 1)) (cdwf_final_cf_dt s dt (k + 1))
      = fadd (gridT s dt k) dt := by
  simp only [cdwf_cf_rk2_time, cdwf_final_cf_time, cdwf_final_cf_dt, cdwf_t, gridT,
    Int.add_sub_cancel]

theorem cdwf_loop_dt (k : Int) : cdwf_loop_cf_dt s dt k = dt := rfl
theorem cdwf_final_dt (k : Int) : cdwf_final_cf_dt s dt k = dt := rfl

end times

/-! ### the common normal form of one step -/

section generic
variable {S K σ P : Type} [Add K] [Sub K] [Mul K] [Div K] [OfNat K 2]

/-- One mean-field step from grid point `n`: field derivative at `(t_n, states_n, a_n)`,
    propagators of step `n` from `(a_n, derivative)`, tensor-network step `n+1`, Heun update of
    the field with stages at `(t_n, states_n)` and `(t_n ⊕ dt, states_{n+1})`. -/
def specStep (M : Sys S K σ P) (n : Int) (st : σ × K) : σ × K :=
  let s := M.obs st.1
  let d := M.eom (gridT M.start M.dt n) s st.2
  let net' := M.net (n + 1) (M.props n st.2 d) st.1
  (net', heun2 M.eom (gridT M.start M.dt n) (fadd (gridT M.start M.dt n) M.dt) (M.cast M.dt)
            st.2 s (M.obs net'))

def specIter (M : Sys S K σ P) (σ0 : σ) (a0 : K) : Nat → σ × K
  | 0 => (σ0, a0)
  | n + 1 => specStep M (n : Int) (specIter M σ0 a0 n)

/-- the (states, field) pairs at grid points `0 … n` -/
def specRecords (M : Sys S K σ P) (σ0 : σ) (a0 : K) (n : Nat) : List (S × K) :=
  (List.range (n + 1)).map fun k => (M.obs (specIter M σ0 a0 k).1, (specIter M σ0 a0 k).2)

theorem specRecords_succ (M : Sys S K σ P) (σ0 : σ) (a0 : K) (n : Nat) :
    specRecords M σ0 a0 (n + 1) = specRecords M σ0 a0 n ++
      [(M.obs (specIter M σ0 a0 (n + 1)).1, (specIter M σ0 a0 (n + 1)).2)] := by
  unfold specRecords
  rw [List.range_succ, List.map_append]
  rfl

theorem specRecords_length (M : Sys S K σ P) (σ0 : σ) (a0 : K) (n : Nat) :
    (specRecords M σ0 a0 n).length = n + 1 := by
  simp [specRecords]

/-- `MeanFieldTempoBackend.compute_step` is the normal form (all generated selections unfold) -/
theorem mftStep_spec (M : Sys S K σ P) (n : Int) (st : σ × K) :
    (mftStep M n st).1 = specStep M n st := rfl

theorem mftIter_spec (M : Sys S K σ P) (σ0 : σ) (a0 : K) (n : Nat) :
    (mftIter M σ0 a0 n).1 = specIter M σ0 a0 n ∧
    (mftIter M σ0 a0 n).2.1 = specRecords M σ0 a0 n := by
  induction n with
  | zero => exact ⟨rfl, rfl⟩
  | succ n ih =>
    obtain ⟨h1, h2⟩ := ih
    have hs : (mftIter M σ0 a0 (n + 1)).1 = specIter M σ0 a0 (n + 1) := by
      show (mftStep M (n : Int) (mftIter M σ0 a0 n).1).1 = specStep M (n : Int) (specIter M σ0 a0 n)
      rw [mftStep_spec, h1]
    refine ⟨hs, ?_⟩
    show (mftIter M σ0 a0 n).2.1 ++ [(M.obs (mftIter M σ0 a0 (n + 1)).1.1,
            (mftIter M σ0 a0 (n + 1)).1.2)] = _
    rw [h2, hs, specRecords_succ]

/-! ### compute_dynamics_with_field in normal form -/

/-- the closure `compute_field` called from iteration `k+1` is the Heun step from `t_k` -/
theorem cdwf_loop_field (M : Sys S K σ P) (k : Int) (prev cur : S) (a : K) :
    (cdwfComputeField M (cdwf_loop_cf_time M.start M.dt (k + 1)) (cdwf_loop_cf_dt M.start M.dt (k + 1))
        (cdwf_loop_cf_states prev cur) a (cdwf_loop_cf_next_states prev cur)).1
      = heun2 M.eom (gridT M.start M.dt k) (fadd (gridT M.start M.dt k) M.dt) (M.cast M.dt)
          a prev cur := by
  show heun2 M.eom
      (cdwf_cf_rk1_time (cdwf_loop_cf_time M.start M.dt (k + 1)) (cdwf_loop_cf_dt M.start M.dt (k + 1)))
      (cdwf_cf_rk2_time (cdwf_loop_cf_time M.start M.dt (k + 1)) (cdwf_loop_cf_dt M.start M.dt (k + 1)))
      (M.cast (cdwf_loop_cf_dt M.start M.dt (k + 1))) a prev cur = _
  rw [cdwf_loop_rk1_time_grid, cdwf_loop_rk2_time_grid, cdwf_loop_dt]

theorem cdwf_final_field (M : Sys S K σ P) (k : Int) (prev cur : S) (a : K) :
    (cdwfComputeField M (cdwf_final_cf_time M.start M.dt (k + 1))
        (cdwf_final_cf_dt M.start M.dt (k + 1))
        (cdwf_final_cf_states prev cur) a (cdwf_final_cf_next_states prev cur)).1
      = heun2 M.eom (gridT M.start M.dt k) (fadd (gridT M.start M.dt k) M.dt) (M.cast M.dt)
          a prev cur := by
  show heun2 M.eom
      (cdwf_cf_rk1_time (cdwf_final_cf_time M.start M.dt (k + 1)) (cdwf_final_cf_dt M.start M.dt (k + 1)))
      (cdwf_cf_rk2_time (cdwf_final_cf_time M.start M.dt (k + 1)) (cdwf_final_cf_dt M.start M.dt (k + 1)))
      (M.cast (cdwf_final_cf_dt M.start M.dt (k + 1))) a prev cur = _
  rw [cdwf_final_rk1_time_grid, cdwf_final_rk2_time_grid, cdwf_final_dt]

/-- "propagate one time step" of iteration `k` hands the propagators `(k, field, f(t_k, states_k, field))`
    and uses PT-MPO number `k` -/
theorem cdwfProp_net (M : Sys S K σ P) (k : Int) (net : σ) (prev cur : S) (a : K) :
    (cdwfProp M k net prev cur a).1
      = M.netPT k (M.props k a (M.eom (gridT M.start M.dt k) cur a)) net := rfl

variable (M : Sys S K σ P) (σ0 : σ) (a0 : K)

/-- Loop invariant of `compute_dynamics_with_field`: after iteration `n` the network is at grid
    point `n+1`, `field` and `previous_state_list` are those of grid point `n`, and the recorded
    pairs are those of grid points `0 … n`.  `hnet`: PT-MPO number `k` advances the joint state
    like TEMPO's network step `k+1` (the process tensors are those of the same baths). -/
theorem cdwfIter_spec (hnet : ∀ k p x, M.netPT k p x = M.net (k + 1) p x) (n : Nat) :
    (cdwfIter M σ0 a0 n).1.net = (specIter M σ0 a0 (n + 1)).1 ∧
    (cdwfIter M σ0 a0 n).1.field = (specIter M σ0 a0 n).2 ∧
    (cdwfIter M σ0 a0 n).1.prev = M.obs (specIter M σ0 a0 n).1 ∧
    (cdwfIter M σ0 a0 n).2.1 = specRecords M σ0 a0 n := by
  induction n with
  | zero =>
    refine ⟨?_, rfl, rfl, rfl⟩
    show (cdwfProp M 0 σ0 (M.obs σ0) (M.obs σ0) a0).1 = (specStep M ((0 : Nat) : Int) (σ0, a0)).1
    rw [cdwfProp_net, hnet]
    rfl
  | succ n ih =>
    obtain ⟨h1, h2, h3, h4⟩ := ih
    -- the field computed at the top of iteration n+1
    have hf : (cdwfIter M σ0 a0 (n + 1)).1.field = (specIter M σ0 a0 (n + 1)).2 := by
      show (cdwfComputeField M (cdwf_loop_cf_time M.start M.dt ((n + 1 : Nat) : Int))
              (cdwf_loop_cf_dt M.start M.dt ((n + 1 : Nat) : Int))
              (cdwf_loop_cf_states (cdwfIter M σ0 a0 n).1.prev (M.obs (cdwfIter M σ0 a0 n).1.net))
              (cdwfIter M σ0 a0 n).1.field
              (cdwf_loop_cf_next_states (cdwfIter M σ0 a0 n).1.prev
                (M.obs (cdwfIter M σ0 a0 n).1.net))).1 = _
      rw [show ((n + 1 : Nat) : Int) = (n : Int) + 1 by push_cast; rfl, cdwf_loop_field, h1, h2, h3]
      rfl
    have hp : (cdwfIter M σ0 a0 (n + 1)).1.prev = M.obs (specIter M σ0 a0 (n + 1)).1 := by
      show M.obs (cdwfIter M σ0 a0 n).1.net = _
      rw [h1]
    refine ⟨?_, hf, hp, ?_⟩
    · show (cdwfProp M ((n + 1 : Nat) : Int) (cdwfIter M σ0 a0 n).1.net (cdwfIter M σ0 a0 n).1.prev
              (M.obs (cdwfIter M σ0 a0 n).1.net) (cdwfIter M σ0 a0 (n + 1)).1.field).1 = _
      rw [cdwfProp_net, hnet, hf, h1]
      rfl
    · show (cdwfIter M σ0 a0 n).2.1 ++ [(M.obs (cdwfIter M σ0 a0 n).1.net,
              (cdwfIter M σ0 a0 (n + 1)).1.field)] = _
      rw [h4, hf, h1, specRecords_succ]

/-- the final block of `compute_dynamics_with_field(num_steps = n+1)` yields grid point `n+1` -/
theorem cdwfFinal_spec (hnet : ∀ k p x, M.netPT k p x = M.net (k + 1) p x) (n : Nat) :
    (cdwfFinal M ((n + 1 : Nat) : Int) (cdwfIter M σ0 a0 n).1).1
      = (M.obs (specIter M σ0 a0 (n + 1)).1, (specIter M σ0 a0 (n + 1)).2) := by
  obtain ⟨h1, h2, h3, _⟩ := cdwfIter_spec M σ0 a0 hnet n
  show (M.obs (cdwfIter M σ0 a0 n).1.net,
        (cdwfComputeField M (cdwf_final_cf_time M.start M.dt ((n + 1 : Nat) : Int))
              (cdwf_final_cf_dt M.start M.dt ((n + 1 : Nat) : Int))
              (cdwf_final_cf_states (cdwfIter M σ0 a0 n).1.prev (M.obs (cdwfIter M σ0 a0 n).1.net))
              (cdwfIter M σ0 a0 n).1.field
              (cdwf_final_cf_next_states (cdwfIter M σ0 a0 n).1.prev
                (M.obs (cdwfIter M σ0 a0 n).1.net))).1) = _
  rw [show ((n + 1 : Nat) : Int) = (n : Int) + 1 by push_cast; rfl, cdwf_final_field, h1, h2, h3]
  rfl

end generic
end OQuPyVerif.MeanField
