/-
  C12 — helper lemmas: for every continuous correlation function `C` with `η'' = C`
  (`η' = ∫₀ᵗ C`), the 2D integral over the region that `CustomCorrelations.correlation_2d_integral`
  hands to `dblquad` (generated `regionLower*/regionUpper*`) equals the difference formula of
  `CustomSD.correlation_2d_integral` (generated `shape*`).  Real analysis (Mathlib's interval
  integral and the fundamental theorem of calculus), no quadrature.
-/
import OQuPyVerif.Generated.BathShapes
import Mathlib.MeasureTheory.Integral.IntervalIntegral.FundThmCalculus
import Mathlib.Tactic.Ring

namespace OQuPyVerif.BathCorrIntegral
open OQuPyVerif.Generated.BathShapes MeasureTheory intervalIntegral
noncomputable section

/-- `∫_a^b C` -/
def corrInt (C : ℝ → ℂ) (a b : ℝ) : ℂ := ∫ s in a..b, C s

variable {C : ℝ → ℂ} (hC : Continuous C) {η : ℝ → ℂ}
  (hη : ∀ t, HasDerivAt η (corrInt C 0 t) t)
include hC

theorem hasDerivAt_corrInt (t : ℝ) : HasDerivAt (fun t => corrInt C 0 t) (C t) t :=
  intervalIntegral.integral_hasDerivAt_right (hC.intervalIntegrable _ _)
    (hC.stronglyMeasurableAtFilter _ _) hC.continuousAt

theorem continuous_corrInt : Continuous (fun t => corrInt C 0 t) :=
  continuous_iff_continuousAt.2 fun t => (hasDerivAt_corrInt hC t).continuousAt

/-- inner integral: `∫_a^b C(x − y) dy = G(x − a) − G(x − b)` -/
theorem inner_integral (x a b : ℝ) :
    ∫ y in a..b, C (x - y) = corrInt C 0 (x - a) - corrInt C 0 (x - b) := by
  rw [intervalIntegral.integral_comp_sub_left (fun u => C u) x]
  unfold corrInt
  rw [intervalIntegral.integral_interval_sub_left (hC.intervalIntegrable _ _) (hC.intervalIntegrable _ _)]

theorem continuous_corrInt_shift (Δ : ℝ) : Continuous (fun t => corrInt C 0 (t - Δ)) :=
  (continuous_corrInt hC).comp (continuous_id.sub continuous_const)

theorem integral_sub_shift (Δ p q : ℝ) :
    ∫ x in p..q, (corrInt C 0 x - corrInt C 0 (x - Δ))
      = (∫ x in p..q, corrInt C 0 x) - ∫ x in p..q, corrInt C 0 (x - Δ) :=
  intervalIntegral.integral_sub ((continuous_corrInt hC).intervalIntegrable p q)
    ((continuous_corrInt_shift hC Δ).intervalIntegrable p q)

include hη

/-- `∫_p^q G = η(q) − η(p)` -/
theorem outer_G (p q : ℝ) : ∫ x in p..q, corrInt C 0 x = η q - η p :=
  intervalIntegral.integral_eq_sub_of_hasDerivAt (fun x _ => hη x)
    ((continuous_corrInt hC).intervalIntegrable _ _)

theorem outer_G_shift (p q Δ : ℝ) : ∫ x in p..q, corrInt C 0 (x - Δ) = η (q - Δ) - η (p - Δ) := by
  rw [intervalIntegral.integral_comp_sub_right (fun x => corrInt C 0 x) Δ]
  exact outer_G hC hη _ _

/-- square / rectangle region of `CustomCorrelations` = the difference formula of `CustomSD` -/
theorem rect_region (Δ t1 t2 : ℝ) :
    ∫ x in t1..t2, ∫ y in regionLowerRect Δ t1 x..regionUpperRect Δ t1 x, C (x - y)
      = shapeRect η (corrInt C) Complex.ofReal false Δ t1 t2 := by
  simp only [regionLowerRect, regionUpperRect, shapeRect, inner_integral hC, sub_zero]
  rw [integral_sub_shift hC]
  rw [outer_G hC hη, outer_G_shift hC hη]
  ring

theorem sq_region (Δ t1 t2' : ℝ) :
    ∫ x in t1..regionDefaultTime2 Δ t1, ∫ y in regionLowerSq Δ t1 x..regionUpperSq Δ t1 x, C (x - y)
      = shapeSq η (corrInt C) Complex.ofReal false Δ t1 t2' := by
  simp only [regionLowerSq, regionUpperSq, regionDefaultTime2, shapeSq, inner_integral hC, sub_zero]
  rw [integral_sub_shift hC]
  rw [outer_G hC hη, outer_G_shift hC hη]
  simp only [add_sub_cancel_right, Nat.cast_ofNat]
  ring

/-- the trapezoid `'upper-triangle'` of `CustomCorrelations` for any `time_1` -/
theorem tri_region_value (Δ t1 : ℝ) :
    ∫ x in t1..regionDefaultTime2 Δ t1, ∫ y in regionLowerTri Δ t1 x..regionUpperTri Δ t1 x, C (x - y)
      = η (t1 + Δ) - η t1 - (Δ : ℂ) * corrInt C 0 t1 := by
  simp only [regionLowerTri, regionUpperTri, regionDefaultTime2, inner_integral hC, sub_zero,
    sub_sub_cancel]
  rw [intervalIntegral.integral_sub ((continuous_corrInt hC).intervalIntegrable _ _)
    intervalIntegrable_const]
  rw [outer_G hC hη, intervalIntegral.integral_const]
  simp only [add_sub_cancel_left]
  rw [Complex.real_smul]


omit hC hη in
/-- what the quadrature of `correlation` is given — the closure itself over `(0, cutoff)`, or after
    the substitution `x = ω/cutoff` the function `cutoff·integrand(cutoff·x)` over `(0, 1)` — has
    the integral of the closure over `(0, cutoff)`; likewise every truncation `(upper, upper·R)` of
    the tail is the integral over `(cutoff, cutoff·R)` -/
theorem corr_scaled_integral (f : ℂ → ℂ) (c R : ℝ) :
    (∫ x in (0:ℝ)..(corr_upper (c : ℂ)).re, corr_scaledIntegrand (c : ℂ) f (x : ℂ))
        = ∫ w in (0:ℝ)..c, f (w : ℂ)
    ∧ (∫ x in (corr_upper (c : ℂ)).re..(corr_upper (c : ℂ)).re * R, corr_scaledIntegrand (c : ℂ) f (x : ℂ))
        = ∫ w in c..c * R, f (w : ℂ) := by
  simp only [corr_scaledIntegrand, corr_upper]
  first
    | exact ⟨rfl, rfl⟩
    | (simp only [Int.cast_one, Complex.one_re, ← Complex.ofReal_mul, one_mul]
       rw [intervalIntegral.integral_const_mul, intervalIntegral.integral_const_mul,
         ← Complex.real_smul, ← Complex.real_smul,
         intervalIntegral.smul_integral_comp_mul_left (fun w : ℝ => f (w : ℂ)) c,
         intervalIntegral.smul_integral_comp_mul_left (fun w : ℝ => f (w : ℂ)) c]
       simp)
    | simp [Complex.ofReal_re]

omit hC hη in
theorem eta_scaled_integral (f : ℂ → ℂ) (c R : ℝ) :
    (∫ x in (0:ℝ)..(eta_upper (c : ℂ)).re, eta_scaledIntegrand (c : ℂ) f (x : ℂ))
        = ∫ w in (0:ℝ)..c, f (w : ℂ)
    ∧ (∫ x in (eta_upper (c : ℂ)).re..(eta_upper (c : ℂ)).re * R, eta_scaledIntegrand (c : ℂ) f (x : ℂ))
        = ∫ w in c..c * R, f (w : ℂ) := by
  simp only [eta_scaledIntegrand, eta_upper]
  first
    | exact ⟨rfl, rfl⟩
    | (simp only [Int.cast_one, Complex.one_re, ← Complex.ofReal_mul, one_mul]
       rw [intervalIntegral.integral_const_mul, intervalIntegral.integral_const_mul,
         ← Complex.real_smul, ← Complex.real_smul,
         intervalIntegral.smul_integral_comp_mul_left (fun w : ℝ => f (w : ℂ)) c,
         intervalIntegral.smul_integral_comp_mul_left (fun w : ℝ => f (w : ℂ)) c]
       simp)
    | simp [Complex.ofReal_re]

end
end OQuPyVerif.BathCorrIntegral
