/- C11: the regenerated source data (Generated/GibbsLoop.lean) packed into the records the
   Gibbs model is a function of. -/
import OQuPyVerif.Model.Gibbs
import OQuPyVerif.Generated.GibbsLoop

namespace OQuPyVerif.Gibbs
open OQuPyVerif.Generated.GibbsLoop

/-- orientation of the propagator factors and of the stored states, as the source has it -/
def genOrient : Orient :=
  { initProp := init_prop_T, initData := init_data_T, inflPP := infl_pp_T,
    readout := readout_T, storeInit := store_init_T, storeStep := store_step_T }

/-- loop parameters of `GibbsTempo.compute` / `TIBaseBackend`, as the source has them -/
def genSpec : LoopSpec :=
  { initDataLen := init_data_len, initStep := init_step, initAppends := init_appends,
    stepInc := step_increment, stepAppends := step_appends,
    initLabel := init_label_index, stepLabel := step_label_index,
    numStep := compute_num_step }

/-- `coeffs(k)` in terms of the η grid values `e j = eta_function(j·dτ, matsubara=True)`:
    the shape chosen for `k` and the (weight, offset) pairs of that shape -/
def genCoeff {A : Type} [AddCommGroup A] (e : ℤ → A) (k : ℕ) : A :=
  etaCombo e k (if coeff_first_shape k then
      (if coeff_shape_then = "upper-triangle" then c2d_upper_terms else c2d_square_terms)
    else (if coeff_shape_else = "upper-triangle" then c2d_upper_terms else c2d_square_terms))

end OQuPyVerif.Gibbs
