/-
  C15 helper lemmas (exact arithmetic): soundness of the shift weight `wt`, congruence of the
  evaluator on expressions without time variables, and the shift theorem of the abstract step
  machine.
-/
import Mathlib.Algebra.Field.Defs
import Mathlib.Algebra.Field.Basic
import Mathlib.Tactic.Ring
import Mathlib.Tactic.Linarith
import Mathlib.Data.Rat.Cast.Defs
import OQuPyVerif.Model.TimeShift

namespace OQuPyVerif.TimeShift

/-- exact arithmetic of a field; `np.round` / `int()` are arbitrary functions `rd`, `tr`
    (nothing is assumed about them: they are only ever applied to shift-invariant values). -/
def fieldOps {K : Type} [Field K] (rd tr : K → K) : Ops K where
  add := fun a b => a + b
  sub := fun a b => a - b
  mul := fun a b => a * b
  div := fun a b => a / b
  neg := fun a => -a
  ofInt := fun n => (n : K)
  ofRat := fun q => (q : K)
  rd := rd
  tr := tr

/-- the exact reading of an expression: the SAME `evalOps`, run on a field -/
def evalX {K : Type} [Field K] (rd tr : K → K) (env : Nat → K) (ienv : Nat → Int)
    (e : TExpr) : K := evalOps (fieldOps rd tr) env ienv e

/-- all time variables moved by τ -/
def shiftX {K : Type} [Field K] (m : List Bool) (τ : K) (env : Nat → K) : Nat → K :=
  shiftEnv (fun a b => a + b) m τ env

theorem shiftX_apply {K : Type} [Field K] (m : List Bool) (τ : K) (env : Nat → K) (i : Nat) :
    shiftX m τ env i = if m.getD i false then env i + τ else env i := rfl

/-- Soundness of the syntactic shift weight, in every field and for every rounding function. -/
theorem wt_sound {K : Type} [Field K] (rd tr : K → K) (m : List Bool) (env : Nat → K)
    (ienv : Nat → Int) (τ : K) :
    ∀ (e : TExpr) (w : Int), wt m e = some w →
      evalX rd tr (shiftX m τ env) ienv e = evalX rd tr env ienv e + (w : K) * τ := by
  intro e
  induction e with
  | var i =>
    intro w h
    simp only [wt, Option.some.injEq] at h
    subst h
    simp only [evalX, evalOps, shiftX_apply]
    split <;> simp
  | ofI e =>
    intro w h
    simp only [wt, Option.some.injEq] at h
    subst h
    simp [evalX, evalOps]
  | lit q =>
    intro w h
    simp only [wt, Option.some.injEq] at h
    subst h
    simp [evalX, evalOps]
  | add a b iha ihb =>
    intro w h
    unfold wt at h
    cases ha : wt m a with
    | none => simp [ha] at h
    | some x =>
      cases hb : wt m b with
      | none => simp [ha, hb] at h
      | some y =>
        simp only [ha, hb, Option.some.injEq] at h
        subst h
        have e1 := iha x ha
        have e2 := ihb y hb
        simp only [evalX, evalOps, fieldOps] at e1 e2 ⊢
        rw [e1, e2]
        push_cast
        ring
  | sub a b iha ihb =>
    intro w h
    unfold wt at h
    cases ha : wt m a with
    | none => simp [ha] at h
    | some x =>
      cases hb : wt m b with
      | none => simp [ha, hb] at h
      | some y =>
        simp only [ha, hb, Option.some.injEq] at h
        subst h
        have e1 := iha x ha
        have e2 := ihb y hb
        simp only [evalX, evalOps, fieldOps] at e1 e2 ⊢
        rw [e1, e2]
        push_cast
        ring
  | neg a iha =>
    intro w h
    unfold wt at h
    cases ha : wt m a with
    | none => simp [ha] at h
    | some x =>
      simp only [ha, Option.some.injEq] at h
      subst h
      have e1 := iha x ha
      simp only [evalX, evalOps, fieldOps] at e1 ⊢
      rw [e1]
      push_cast
      ring
  | mul a b iha ihb =>
    intro w h
    unfold wt at h
    cases ha : wt m a with
    | none => simp [ha] at h
    | some x =>
      cases hb : wt m b with
      | none => simp [ha, hb] at h
      | some y =>
        by_cases hx : x = 0
        · by_cases hy : y = 0
          · subst hx; subst hy
            simp only [ha, hb, Option.some.injEq] at h
            subst h
            have e1 := iha 0 ha
            have e2 := ihb 0 hb
            simp only [evalX, evalOps, fieldOps] at e1 e2 ⊢
            rw [e1, e2]
            simp
          · exfalso
            subst hx
            simp only [ha, hb] at h
            split at h <;> simp_all
        · exfalso
          simp only [ha, hb] at h
          split at h <;> simp_all
  | div a b iha ihb =>
    intro w h
    unfold wt at h
    cases ha : wt m a with
    | none => simp [ha] at h
    | some x =>
      cases hb : wt m b with
      | none => simp [ha, hb] at h
      | some y =>
        by_cases hx : x = 0
        · by_cases hy : y = 0
          · subst hx; subst hy
            simp only [ha, hb, Option.some.injEq] at h
            subst h
            have e1 := iha 0 ha
            have e2 := ihb 0 hb
            simp only [evalX, evalOps, fieldOps] at e1 e2 ⊢
            rw [e1, e2]
            simp
          · exfalso
            subst hx
            simp only [ha, hb] at h
            split at h <;> simp_all
        · exfalso
          simp only [ha, hb] at h
          split at h <;> simp_all
  | round a iha =>
    intro w h
    unfold wt at h
    cases ha : wt m a with
    | none => simp [ha] at h
    | some x =>
      by_cases hx : x = 0
      · subst hx
        simp only [ha, Option.some.injEq] at h
        subst h
        have e1 := iha 0 ha
        simp only [evalX, evalOps, fieldOps] at e1 ⊢
        rw [e1]
        simp
      · exfalso
        simp only [ha] at h
        split at h <;> simp_all
  | trunc a iha =>
    intro w h
    unfold wt at h
    cases ha : wt m a with
    | none => simp [ha] at h
    | some x =>
      by_cases hx : x = 0
      · subst hx
        simp only [ha, Option.some.injEq] at h
        subst h
        have e1 := iha 0 ha
        simp only [evalX, evalOps, fieldOps] at e1 ⊢
        rw [e1]
        simp
      · exfalso
        simp only [ha] at h
        split at h <;> simp_all

/-- the obligation of a site, once discharged, is the covariance statement of its expression -/
theorem Site.shift_of_ok {K : Type} [Field K] (s : Site) (h : s.ok = true) (rd tr : K → K)
    (env : Nat → K) (ienv : Nat → Int) (τ : K) :
    evalX rd tr (shiftX s.tmask τ env) ienv s.expr
      = evalX rd tr env ienv s.expr + (s.role.weight : K) * τ := by
  apply wt_sound
  simpa [Site.ok] using h

/-- an expression without time variables does not notice the shift — for ANY arithmetic
    (in particular for binary64) -/
theorem evalOps_noTime {K : Type} (o : Ops K) (addK : K → K → K) (m : List Bool) (τ : K)
    (env : Nat → K) (ienv : Nat → Int) :
    ∀ e : TExpr, noTime m e = true →
      evalOps o (shiftEnv addK m τ env) ienv e = evalOps o env ienv e := by
  intro e
  induction e with
  | var i =>
    intro h
    simp only [noTime, Bool.not_eq_true'] at h
    simp only [evalOps, shiftEnv, h]
    rfl
  | ofI e => intro _; rfl
  | lit q => intro _; rfl
  | add a b iha ihb =>
    intro h
    simp only [noTime, Bool.and_eq_true] at h
    simp only [evalOps, iha h.1, ihb h.2]
  | sub a b iha ihb =>
    intro h
    simp only [noTime, Bool.and_eq_true] at h
    simp only [evalOps, iha h.1, ihb h.2]
  | mul a b iha ihb =>
    intro h
    simp only [noTime, Bool.and_eq_true] at h
    simp only [evalOps, iha h.1, ihb h.2]
  | div a b iha ihb =>
    intro h
    simp only [noTime, Bool.and_eq_true] at h
    simp only [evalOps, iha h.1, ihb h.2]
  | neg a iha =>
    intro h
    simp only [noTime] at h
    simp only [evalOps, iha h]
  | round a iha =>
    intro h
    simp only [noTime] at h
    simp only [evalOps, iha h]
  | trunc a iha =>
    intro h
    simp only [noTime] at h
    simp only [evalOps, iha h]

/-! ### the abstract step machine -/

/-- If every query time moves by τ and every user callable is moved along (`user' t = user (t-τ)`),
    the machine goes through exactly the same states. -/
theorem machine_shift {K α σ : Type} [Field K] (q : Nat → List K) (user : K → α)
    (upd : Nat → List α → σ → σ) (s0 : σ) (τ : K) (n : Nat) :
    machine (fun k => (q k).map (fun t => t + τ)) (fun t => user (t - τ)) upd s0 n
      = machine q user upd s0 n := by
  induction n with
  | zero => rfl
  | succ n ih =>
    simp only [machine, ih, List.map_map]
    congr 2
    funext t
    simp

/-- … more generally: whatever the two query schedules are, if they agree up to τ step by step -/
theorem machine_shift_of {K α σ : Type} [Field K] (q q' : Nat → List K) (user : K → α)
    (upd : Nat → List α → σ → σ) (s0 : σ) (τ : K)
    (hq : ∀ k, q' k = (q k).map (fun t => t + τ)) (n : Nat) :
    machine q' (fun t => user (t - τ)) upd s0 n = machine q user upd s0 n := by
  have : q' = fun k => (q k).map (fun t => t + τ) := funext hq
  rw [this]
  exact machine_shift q user upd s0 τ n

/-- the recorded run: same states, every label moved by exactly τ -/
theorem record_shift {K α σ : Type} [Field K] (lab lab' : Nat → K) (q q' : Nat → List K)
    (user : K → α) (upd : Nat → List α → σ → σ) (s0 : σ) (τ : K)
    (hl : ∀ k, lab' k = lab k + τ) (hq : ∀ k, q' k = (q k).map (fun t => t + τ)) (n : Nat) :
    record lab' q' (fun t => user (t - τ)) upd s0 n
      = (record lab q user upd s0 n).map (fun p => (p.1 + τ, p.2)) := by
  simp only [record, List.map_map]
  apply List.map_congr_left
  intro k _
  simp [hl k, machine_shift_of q q' user upd s0 τ hq k]

/-- float-keyed events: if the time → step conversion of the shifted run applied to the shifted
    time agrees with the unshifted one, the same events are selected at every step. -/
theorem selectAt_shift {K β : Type} [Field K] (hit hit' : K → Nat → Bool) (τ : K)
    (h : ∀ t k, hit' (t + τ) k = hit t k) (events : List (K × β)) (k : Nat) :
    selectAt hit' (events.map (fun e => (e.1 + τ, e.2))) k = selectAt hit events k := by
  induction events with
  | nil => rfl
  | cons e es ih =>
    simp only [selectAt, List.map_cons, List.filter_cons] at ih ⊢
    rw [h e.1 k]
    by_cases hk : hit e.1 k = true
    · simp only [hk, if_true, List.map_cons]
      rw [ih]
    · simp only [hk]
      exact ih

end OQuPyVerif.TimeShift
