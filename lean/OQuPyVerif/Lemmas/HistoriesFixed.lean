/- Helper lemmas for the methods with a fixed end (PT-TEMPO, Gibbs TEMPO): what the generated
   loop conditions / step counts make of a first and of a repeated `compute()`.  Used by
   Props/C14.  The proofs unfold the *generated* definitions, so they are re-checked against
   the source on every run. -/
import OQuPyVerif.Model.Histories
import OQuPyVerif.Lemmas.TimeGrid

namespace OQuPyVerif.Histories
open OQuPyVerif.TimeGrid OQuPyVerif.Generated.LoopOrder

/-! ### PT-TEMPO -/

/-- the step arguments `s+1, …, s+d` -/
def ptSeq (s : Int) (d : Nat) : List Int := (List.range d).map (fun (j : Nat) => s + 1 + (j : Int))

theorem ptSeq_succ (s : Int) (d : Nat) : ptSeq s (d+1) = (s + 1) :: ptSeq (s + 1) d := by
  unfold ptSeq
  rw [List.range_succ_eq_map]
  simp only [List.map_cons, List.map_map]
  congr 1
  · simp
  · apply List.map_congr_left
    intro j _
    simp only [Function.comp]
    omega

theorem ptSeq_length (s : Int) (d : Nat) : (ptSeq s d).length = d := by simp [ptSeq]

/-- a complete computation is left alone by the stepping loop -/
theorem ptLoop_done (n : Int) (fuel : Nat) (s : Int) (net : List Int) (h : n ≤ s) :
    ptLoop n fuel (s, net) = ((s, net), true) := by
  cases fuel with
  | zero => rfl
  | succ f =>
    have : ¬ s < n := by omega
    simp [ptLoop, pt_loop_pre, this]

/-- an incomplete one is taken exactly to the end -/
theorem ptLoop_run (n : Int) (d : Nat) : ∀ (fuel : Nat) (s : Int) (net : List Int),
    (n - s).toNat = d → d < fuel →
    ptLoop n fuel (s, net) = ((s + (d : Int), net ++ ptSeq s d), true) := by
  induction d with
  | zero =>
    intro fuel s net hd _
    have : n ≤ s := by omega
    rw [ptLoop_done n fuel s net this]
    simp [ptSeq]
  | succ d ih =>
    intro fuel s net hd hf
    cases fuel with
    | zero => omega
    | succ f =>
      have h1 : s < n := by omega
      have h2 : ¬ (s + 1 > n) := by omega
      simp only [ptLoop, pt_loop_pre, pt_loop_post, h1, decide_true, if_true, h2, if_false]
      rw [ih f (s + 1) (net ++ [s + 1]) (by omega) (by omega), ptSeq_succ]
      simp only [List.append_assoc, List.singleton_append]
      congr 2
      omega

/-- the state of a completed PT-TEMPO computation of `n` steps -/
def PtDone (n : Int) (o : PtObj) : Prop :=
  o.step = some n ∧ o.net = ptSeq 1 (n - 1).toNat ∧
  ((o.ptLen = 0 ∧ o.ptContent = []) ∨ (o.ptLen = n ∧ o.ptContent = o.net))

theorem ptCompute_fresh (n : Int) (hn : 2 ≤ n) (o : PtObj) (hs : o.step = none) (hnet : o.net = []) :
    ptCompute n o = ({ o with step := some n, net := ptSeq 1 (n - 1).toNat }, true) := by
  unfold ptCompute
  simp only [hs, pt_init_step, hnet]
  rw [ptLoop_run n (n - 1).toNat _ 1 [] rfl (by omega)]
  simp only [List.nil_append]
  have : (1 : Int) + ((n - 1).toNat : Int) = n := by omega
  rw [this]

theorem ptCompute_done (n : Int) (o : PtObj) (h : PtDone n o) : ptCompute n o = (o, true) := by
  obtain ⟨hs, _, _⟩ := h
  unfold ptCompute
  simp only [hs]
  rw [ptLoop_done n _ n o.net (Int.le_refl _)]
  cases o
  simp_all

theorem ptGet_done (n : Int) (hn : 2 ≤ n) (o : PtObj) (h : PtDone n o) :
    PtDone n (ptGet n o).1 ∧ (ptGet n o).2 = .pt (ptSeq 1 (n - 1).toNat) ∧
    (ptGet n o).1.step = o.step ∧ (ptGet n o).1.net = o.net := by
  obtain ⟨hs, hnet, hpt⟩ := h
  have hlen : ((o.net.length : Nat) : Int) + 1 = n := by
    rw [hnet, ptSeq_length]; omega
  have hnc : pt_get_needs_compute false n n = false := by simp [pt_get_needs_compute]
  rcases hpt with ⟨h0, hc⟩ | ⟨h1, hc⟩
  · have hu : pt_get_needs_update o.ptLen n = true := by
      simp [pt_get_needs_update, h0]; omega
    have he : ptGet n o = ({ o with ptLen := n, ptContent := o.net }, .pt o.net) := by
      unfold ptGet
      simp [hs, hnc, hu, hlen]
    rw [he]
    exact ⟨⟨hs, hnet, Or.inr ⟨rfl, rfl⟩⟩, by rw [hnet], rfl, rfl⟩
  · have hu : pt_get_needs_update o.ptLen n = false := by
      simp [pt_get_needs_update, h1]
    have he : ptGet n o = (o, .pt o.ptContent) := by
      unfold ptGet
      simp [hs, hnc, hu]
    rw [he]
    exact ⟨⟨hs, hnet, Or.inr ⟨h1, hc⟩⟩, by rw [hc, hnet], rfl, rfl⟩

theorem ptGet_fresh (n : Int) (hn : 2 ≤ n) :
    PtDone n (ptGet n PtObj.fresh).1 ∧ (ptGet n PtObj.fresh).2 = .pt (ptSeq 1 (n - 1).toNat) := by
  have hc := ptCompute_fresh n hn PtObj.fresh rfl rfl
  have hlen : (((ptSeq 1 (n - 1).toNat).length : Nat) : Int) + 1 = n := by
    rw [ptSeq_length]; omega
  have hnc : pt_get_needs_compute true 0 n = true := by simp [pt_get_needs_compute]
  have hu : pt_get_needs_update 0 n = true := by simp [pt_get_needs_update]; omega
  have he : ptGet n PtObj.fresh =
      (⟨some n, ptSeq 1 (n - 1).toNat, n, ptSeq 1 (n - 1).toNat⟩, .pt (ptSeq 1 (n - 1).toNat)) := by
    unfold ptGet
    simp only [PtObj.fresh] at hc ⊢
    simp [hnc, hc, hu]
    rw [ptSeq_length]; omega
  rw [he]
  exact ⟨⟨rfl, rfl, Or.inr ⟨rfl, rfl⟩⟩, rfl⟩

/-! ### Gibbs TEMPO -/

/-- label index as a (rational) time: the order of the labels is the order of the indices -/
def idxTime (k : Int) : Rat := (k : Rat)

theorem idxTime_mono (a b : Int) (h : a ≤ b) : idxTime a ≤ idxTime b :=
  Rat.intCast_le_intCast.mpr h

theorem dynAdd_gridDyn (time : Int → Rat) (hm : ∀ a b : Int, a ≤ b → time a ≤ time b) (m : Nat) :
    dynAdd (gridDyn time m) (time ((m : Int) + 1)) ((m : Int) + 1) = gridDyn time (m + 1) := by
  have := stepOnce_grid time hm m
  unfold stepOnce at this
  exact congrArg Prod.snd this

/-- from counter `m-1` with the labels `0..m` recorded, `k` more steps record the labels up to `m+k` -/
theorem gibbsLoop_grid (k : Nat) : ∀ (m : Nat),
    gibbsLoop k ((m : Int) - 1, gridDyn idxTime m) =
      (((m + k : Nat) : Int) - 1, gridDyn idxTime (m + k)) := by
  induction k with
  | zero => intro m; simp [gibbsLoop]
  | succ k ih =>
    intro m
    simp only [gibbsLoop, gibbs_label_index]
    have h1 : (m : Int) - 1 + 1 + 1 = (m : Int) + 1 := by omega
    have h2 : (m : Int) - 1 + 1 = ((m + 1 : Nat) : Int) - 1 := by omega
    rw [h1, h2]
    have := dynAdd_gridDyn idxTime idxTime_mono m
    unfold idxTime at this ⊢
    rw [this]
    have := ih (m + 1)
    unfold idxTime at this
    rw [this]
    have h3 : m + 1 + k = m + (k + 1) := by omega
    rw [h3]

/-- the state of a completed Gibbs computation with `n` imaginary-time steps -/
def gibbsDone (n : Int) : GObj := ⟨some (n - 1), gridDyn idxTime n.toNat⟩

theorem gibbsCompute_fresh (n : Int) (hn : 2 ≤ n) : gibbsCompute n GObj.fresh = gibbsDone n := by
  unfold gibbsCompute gibbsStart GObj.fresh
  simp only [gibbs_init_step, gibbs_num_step]
  have h0 : dynAdd (dynAdd (dynAdd (Dyn.empty : Dyn Int) 0 0) 1 1) 2 2 = gridDyn idxTime 2 := by
    simp [dynAdd, Dyn.empty, bisectRight, insertAt, gridDyn, idxTime, List.range_succ]
    decide
  rw [h0]
  have h1 : (1 : Int) = ((2 : Nat) : Int) - 1 := by omega
  have hk : (max 0 (n - 1 - 1)).toNat = (n - 2).toNat := by omega
  rw [hk]
  conv => lhs; rw [h1]
  rw [gibbsLoop_grid]
  unfold gibbsDone
  have h2 : 2 + (n - 2).toNat = n.toNat := by omega
  rw [h2]
  congr 2
  omega

theorem gibbsCompute_done (n : Int) : gibbsCompute n (gibbsDone n) = gibbsDone n := by
  unfold gibbsCompute gibbsStart gibbsDone
  simp only [gibbs_num_step]
  have : (max 0 (n - 1 - (n - 1))).toNat = 0 := by omega
  rw [this]
  simp [gibbsLoop]

end OQuPyVerif.Histories
