/-
  C20 helper lemmas, part (b): numpy view rules.
  Main facts: (1) a shape that differs from the current one only by axes of length 1 can always
  be assigned in place (`reshapeView_insert_ones`), whatever the strides;  (2) the concrete
  array machine simulates the layout-free one (`sim_run`);  (3) the static site check implies
  that the layout-free run never reaches a layout-dependent step (`static_run`).
-/
import OQuPyVerif.Model.Aliasing

namespace OQuPyVerif.Aliasing
open OQuPyVerif.Generated.CacheKeys

/-! ### shapes -/

theorem axesOf_map_fst : ∀ (sh : List Nat) (st : List Int), (axesOf sh st).map Prod.fst = sh := by
  intro sh
  induction sh with
  | nil => intro st; simp [axesOf]
  | cons d ds ih =>
    intro st
    cases st with
    | nil => simp [axesOf, ih]
    | cons s ss => simp [axesOf, ih]

theorem axesOf_length (sh : List Nat) (st : List Int) : (axesOf sh st).length = sh.length := by
  have := congrArg List.length (axesOf_map_fst sh st)
  simpa using this

theorem stripOnes_fst (sh : List Nat) (st : List Int) :
    (stripOnes sh st).map Prod.fst = dropOnesN sh := by
  unfold stripOnes dropOnesN
  conv => rhs; rw [← axesOf_map_fst sh st]
  generalize axesOf sh st = l
  induction l with
  | nil => simp
  | cons p t ih =>
    by_cases h : (p.1 != 1) = true
    · simp [List.filter, h, ih]
    · simp only [Bool.not_eq_true] at h
      simp [List.filter, h, ih]

theorem stripOnes_length_le (sh : List Nat) (st : List Int) :
    (stripOnes sh st).length ≤ sh.length := by
  unfold stripOnes
  calc ((axesOf sh st).filter _).length ≤ (axesOf sh st).length := List.length_filter_le _ _
    _ = sh.length := axesOf_length sh st

theorem stripOnes_ge_two (sh : List Nat) (st : List Int) (hz : ∀ d ∈ sh, d ≠ 0) :
    ∀ p ∈ stripOnes sh st, 2 ≤ p.1 := by
  intro p hp
  unfold stripOnes at hp
  rw [List.mem_filter] at hp
  have h1 : p.1 ≠ 1 := by simpa using hp.2
  have hmem : p.1 ∈ sh := by
    rw [← axesOf_map_fst sh st]
    exact List.mem_map_of_mem hp.1
  have h0 := hz _ hmem
  omega

theorem prodN_eq_zero_of_mem : ∀ (l : List Nat), (0 : Nat) ∈ l → prodN l = 0 := by
  intro l
  induction l with
  | nil => intro h; simp at h
  | cons d ds ih =>
    intro h
    simp only [List.mem_cons] at h
    rcases h with h | h
    · subst h; simp [prodN]
    · simp [prodN, ih h]

theorem prodN_ne_zero : ∀ (l : List Nat), (∀ d ∈ l, d ≠ 0) → prodN l ≠ 0 := by
  intro l
  induction l with
  | nil => intro _; simp [prodN]
  | cons d ds ih =>
    intro h
    simp only [prodN]
    have h1 := h d List.mem_cons_self
    have h2 := ih (fun x hx => h x (List.mem_cons_of_mem _ hx))
    exact Nat.mul_ne_zero h1 h2

theorem nz_of_prod {ns sh : List Nat} (hz : ∀ d ∈ sh, d ≠ 0) (hp : prodN ns = prodN sh) :
    ∀ d ∈ ns, d ≠ 0 := by
  intro d hd h0
  subst h0
  have := prodN_eq_zero_of_mem ns hd
  exact prodN_ne_zero sh hz (by omega)

/-! ### in-place reshape succeeds when only axes of length 1 are inserted or removed -/

theorem grow_ones : ∀ (l₁ : List Nat) (fuel : Nat) (ng : List Nat) (d : Nat) (s : Int)
    (nr' : List Nat) (o' : List (Nat × Int)), (∀ x ∈ l₁, x = 1) → 2 ≤ d → l₁.length + 2 ≤ fuel →
    grow fuel 1 d ng [(d, s)] (l₁ ++ d :: nr') o' = some (ng ++ l₁ ++ [d], [(d, s)], nr', o') := by
  intro l₁
  induction l₁ with
  | nil =>
    intro fuel ng d s nr' o' _ hd hf
    obtain ⟨f, rfl⟩ : ∃ f, fuel = f + 2 := ⟨fuel - 2, by omega⟩
    have h1 : ¬ (1 = d) := by omega
    have h2 : 1 < d := by omega
    simp [grow, h1, h2]
  | cons y l ih =>
    intro fuel ng d s nr' o' hall hd hf
    have hy : y = 1 := hall y List.mem_cons_self
    subst hy
    obtain ⟨f, rfl⟩ : ∃ f, fuel = f + 1 := ⟨fuel - 1, by simp at hf; omega⟩
    have h1 : ¬ (1 = d) := by omega
    have h2 : 1 < d := by omega
    simp only [List.cons_append, grow, h1, h2, if_false, if_true, Nat.mul_one]
    rw [ih f (ng ++ [1]) d s nr' o' (fun x hx => hall x (List.mem_cons_of_mem _ hx)) hd
      (by simp at hf; omega)]
    simp

theorem nocopy_insert_ones : ∀ (old : List (Nat × Int)) (ns : List Nat) (acc : List Int)
    (fuel : Nat), (∀ p ∈ old, 2 ≤ p.1) → dropOnesN ns = old.map Prod.fst → old.length + 1 ≤ fuel →
    (nocopyLoop fuel ns old acc).isSome = true := by
  intro old
  induction old with
  | nil =>
    intro ns acc fuel _ _ _
    cases ns <;> simp [nocopyLoop]
  | cons o o' ih =>
    intro ns acc fuel hge hdrop hf
    obtain ⟨d, s⟩ := o
    have hd : 2 ≤ d := hge (d, s) List.mem_cons_self
    obtain ⟨f, rfl⟩ : ∃ f, fuel = f + 1 := ⟨fuel - 1, by simp at hf; omega⟩
    simp only [dropOnesN, List.map_cons] at hdrop
    rw [List.filter_eq_cons_iff] at hdrop
    obtain ⟨l₁, l₂, hns, hl₁, _, hl₂⟩ := hdrop
    have hall : ∀ x ∈ l₁, x = 1 := by
      intro x hx
      have := hl₁ x hx
      simpa using this
    have hge' : ∀ p ∈ o', 2 ≤ p.1 := fun p hp => hge p (List.mem_cons_of_mem _ hp)
    subst hns
    cases l₁ with
    | nil =>
      simp only [List.nil_append, nocopyLoop]
      have hg : grow (l₂.length + o'.length + 3) d d [d] [(d, s)] l₂ o'
          = some ([d], [(d, s)], l₂, o') := by simp [grow]
      rw [hg]
      simp only [mergeableC, if_true]
      exact ih l₂ _ f hge' hl₂ (by simp at hf; omega)
    | cons y l =>
      have hy : y = 1 := hall y List.mem_cons_self
      subst hy
      simp only [List.cons_append, nocopyLoop]
      have hg := grow_ones l ((l ++ d :: l₂).length + o'.length + 3) [1] d s l₂ o'
        (fun x hx => hall x (List.mem_cons_of_mem _ hx)) hd (by simp; omega)
      rw [hg]
      simp only [mergeableC, if_true]
      exact ih l₂ _ f hge' hl₂ (by simp at hf; omega)

/-- **view rule**: whatever the strides, a shape that agrees with the current one up to axes of
    length 1 is reachable without a copy (so `.shape = ` cannot raise). -/
theorem reshapeView_insert_ones (a : Arr) (ns : List Nat) (hz : ∀ d ∈ a.shape, d ≠ 0)
    (h : dropOnesN ns = dropOnesN a.shape) : (reshapeView? a ns).isSome = true := by
  unfold reshapeView?
  split
  · rfl
  · split
    · rfl
    · unfold attemptNocopy
      apply nocopy_insert_ones
      · exact stripOnes_ge_two _ _ hz
      · rw [stripOnes_fst]; exact h
      · have := stripOnes_length_le a.shape a.strides
        omega

/-! ### the array machine simulates the layout-free machine -/

/-- a concrete array and its layout-free description -/
structure ORel (a : Arr) (l : LObj) : Prop where
  shape : a.shape = l.shape
  vals : a.vals = l.vals
  nz : ∀ d ∈ a.shape, d ≠ 0
  own : l.own = true → a.buf ≠ 0 ∧ a.writeable = !l.ro

structure Rel (a0 : Arr) (st : AState) (ls : List LObj) : Prop where
  len : st.objs.length = ls.length
  first : st.objs[0]? = some a0
  unwritten : 0 ∉ st.written
  nb : 1 ≤ st.nextBuf
  obj : ∀ (j : Nat) (a : Arr) (l : LObj), st.objs[j]? = some a → ls[j]? = some l → ORel a l

theorem rel_init (a0 : Arr) (hz : ∀ d ∈ a0.shape, d ≠ 0) :
    Rel a0 (initA a0) (initL a0.shape a0.vals) := by
  refine ⟨rfl, rfl, by simp [initA], by simp [initA], ?_⟩
  intro j a l ha hl
  cases j with
  | zero =>
    simp only [initA, initL, List.getElem?_cons_zero, Option.some.injEq] at ha hl
    subst ha hl
    exact ⟨rfl, rfl, hz, by simp⟩
  | succ j => simp [initA] at ha

theorem rel_get {a0 : Arr} {st : AState} {ls : List LObj} (hR : Rel a0 st ls) (j : Nat) :
    (st.objs[j]? = none ∧ ls[j]? = none) ∨
    (∃ a l, st.objs[j]? = some a ∧ ls[j]? = some l ∧ ORel a l) := by
  by_cases hj : j < st.objs.length
  · right
    have hj' : j < ls.length := hR.len ▸ hj
    exact ⟨st.objs[j], ls[j], List.getElem?_eq_getElem hj, List.getElem?_eq_getElem hj',
      hR.obj j _ _ (List.getElem?_eq_getElem hj) (List.getElem?_eq_getElem hj')⟩
  · left
    have hj' : ¬ j < ls.length := hR.len ▸ hj
    exact ⟨List.getElem?_eq_none (by omega), List.getElem?_eq_none (by omega)⟩

/-- appending a related pair keeps the relation -/
theorem rel_append {a0 : Arr} {st : AState} {ls : List LObj} (hR : Rel a0 st ls)
    (a : Arr) (l : LObj) (nb : Nat) (hnb : 1 ≤ nb) (hO : ORel a l) :
    Rel a0 { st with objs := st.objs ++ [a], nextBuf := nb } (ls ++ [l]) := by
  refine ⟨by simp [hR.len], ?_, hR.unwritten, hnb, ?_⟩
  · have h0 : 0 < st.objs.length := by
      cases hobjs : st.objs with
      | nil => have := hR.first; simp [hobjs] at this
      | cons x xs => simp
    show (st.objs ++ [a])[0]? = some a0
    rw [List.getElem?_append_left h0]; exact hR.first
  · intro j a' l' ha hl
    by_cases hj : j < st.objs.length
    · have hj' : j < ls.length := hR.len ▸ hj
      simp only [List.getElem?_append_left hj] at ha
      rw [List.getElem?_append_left hj'] at hl
      exact hR.obj j a' l' ha hl
    · have hj' : ¬ j < ls.length := hR.len ▸ hj
      simp only [List.getElem?_append_right (Nat.le_of_not_lt hj)] at ha
      rw [List.getElem?_append_right (Nat.le_of_not_lt hj')] at hl
      rw [hR.len] at ha
      cases hk : j - ls.length with
      | zero =>
        rw [hk] at ha hl
        simp only [List.getElem?_cons_zero, Option.some.injEq] at ha hl
        subst ha hl; exact hO
      | succ k => rw [hk] at ha; simp at ha

/-- replacing object `tgt ≠ 0` by a related pair keeps the relation -/
theorem rel_set {a0 : Arr} {st : AState} {ls : List LObj} (hR : Rel a0 st ls)
    (tgt : Nat) (ht : tgt ≠ 0) (a : Arr) (l : LObj) (hO : ORel a l) :
    Rel a0 { st with objs := st.objs.set tgt a } (ls.set tgt l) := by
  refine ⟨by simp [hR.len], ?_, hR.unwritten, hR.nb, ?_⟩
  · show (st.objs.set tgt a)[0]? = some a0
    rw [List.getElem?_set_ne ht]; exact hR.first
  · intro j a' l' ha hl
    by_cases hj : tgt = j
    · subst hj
      simp only [List.getElem?_set] at ha hl
      by_cases hlen : tgt < st.objs.length
      · have hlen' : tgt < ls.length := hR.len ▸ hlen
        simp only [hlen, hlen', if_true, Option.some.injEq] at ha hl
        subst ha hl; exact hO
      · simp [hlen] at ha
    · simp only [List.getElem?_set_ne hj] at ha
      rw [List.getElem?_set_ne hj] at hl
      exact hR.obj j a' l' ha hl

def Agrees (a0 : Arr) : Except Err AState → Except SErr (List LObj) → Prop
  | .ok st, .ok ls => Rel a0 st ls
  | .error e, .error (.err e') => e = e'
  | _, _ => False

theorem sim_step (c : Ctx) (a0 : Arr) (st : AState) (ls : List LObj) (hR : Rel a0 st ls)
    (op : AOp) (hL : stepL c ls op ≠ .error .layoutDependent) :
    Agrees a0 (stepA c st op) (stepL c ls op) := by
  cases op with
  | reshape src sh =>
    rcases rel_get hR src with ⟨h1, h2⟩ | ⟨a, l, h1, h2, hO⟩
    · simp [stepA, stepL, h1, h2, Agrees]
    · simp only [stepA, stepL, h1, h2, hO.shape]
      by_cases hp : prodN (evalShape c sh) = prodN l.shape
      · simp only [hp, ne_eq, not_true_eq_false, if_false]
        have hnz := nz_of_prod hO.nz (hO.shape ▸ hp)
        cases hv : reshapeView? a (evalShape c sh) with
        | some strides =>
          simp only [Agrees]
          have := rel_append hR { a with shape := evalShape c sh, strides := strides }
            { l with shape := evalShape c sh, own := l.own && !l.ro } st.nextBuf hR.nb
            ⟨rfl, hO.vals, hnz, by
              intro ho
              simp only [Bool.and_eq_true, Bool.not_eq_true'] at ho
              have := hO.own ho.1
              exact this⟩
          simpa using this
        | none =>
          simp only [Agrees]
          have hnew : ORel
              { buf := st.nextBuf, shape := evalShape c sh, strides := cStrides (evalShape c sh),
                writeable := true, vals := a.vals }
              { l with shape := evalShape c sh, own := l.own && !l.ro } :=
            ⟨rfl, hO.vals, hnz, by
              intro ho
              simp only [Bool.and_eq_true, Bool.not_eq_true'] at ho
              have hnb := hR.nb
              refine ⟨by simp; omega, ?_⟩
              simp [ho.2]⟩
          have := rel_append hR _ _ (st.nextBuf + 1) (by omega) hnew
          simpa using this
      · simp [hp, Agrees]
  | setShape tgt sh =>
    rcases rel_get hR tgt with ⟨h1, h2⟩ | ⟨a, l, h1, h2, hO⟩
    · simp [stepA, stepL, h1, h2, Agrees]
    · simp only [stepL, h2] at hL
      simp only [stepA, stepL, h1, h2, hO.shape]
      by_cases hp : prodN (evalShape c sh) = prodN l.shape
      · simp only [hp, ne_eq, not_true_eq_false, if_false] at hL ⊢
        by_cases hc : tgt ≠ 0 ∧ dropOnesN (evalShape c sh) = dropOnesN l.shape
        · simp only [hc]
          have hnz := nz_of_prod hO.nz (hO.shape ▸ hp)
          have hsome := reshapeView_insert_ones a (evalShape c sh) hO.nz (hO.shape ▸ hc.2)
          cases hv : reshapeView? a (evalShape c sh) with
          | none => rw [hv] at hsome; simp at hsome
          | some strides =>
            simp only [Agrees]
            exact rel_set hR tgt hc.1 _ _ ⟨rfl, hO.vals, hnz, hO.own⟩
        · simp [hc] at hL
      · simp [hp, Agrees]
  | npArray src =>
    rcases rel_get hR src with ⟨h1, h2⟩ | ⟨a, l, h1, h2, hO⟩
    · simp [stepA, stepL, h1, h2, Agrees]
    · simp only [stepA, stepL, h1, h2, Agrees, copyOf]
      exact rel_append hR _ _ (st.nextBuf + 1) (by omega)
        ⟨hO.shape, hO.vals, hO.nz, by intro _; have := hR.nb; exact ⟨by simp; omega, by simp⟩⟩
  | copyK src =>
    rcases rel_get hR src with ⟨h1, h2⟩ | ⟨a, l, h1, h2, hO⟩
    · simp [stepA, stepL, h1, h2, Agrees]
    · simp only [stepA, stepL, h1, h2, Agrees, copyOf]
      exact rel_append hR _ _ (st.nextBuf + 1) (by omega)
        ⟨hO.shape, hO.vals, hO.nz, by intro _; have := hR.nb; exact ⟨by simp; omega, by simp⟩⟩
  | npArrayC src =>
    rcases rel_get hR src with ⟨h1, h2⟩ | ⟨a, l, h1, h2, hO⟩
    · simp [stepA, stepL, h1, h2, Agrees]
    · simp only [stepA, stepL, h1, h2, Agrees, copyOf]
      exact rel_append hR _ _ (st.nextBuf + 1) (by omega)
        ⟨hO.shape, hO.vals, hO.nz, by intro _; have := hR.nb; exact ⟨by simp; omega, by simp⟩⟩
  | setReadonly tgt =>
    rcases rel_get hR tgt with ⟨h1, h2⟩ | ⟨a, l, h1, h2, hO⟩
    · simp [stepA, stepL, h1, h2, Agrees]
    · simp only [stepL, h2] at hL
      simp only [stepA, stepL, h1, h2]
      by_cases ht : tgt ≠ 0
      · simp only [ht, ne_eq, not_false_eq_true, if_true, Agrees]
        exact rel_set hR tgt ht { a with writeable := false } { l with ro := true }
          ⟨hO.shape, hO.vals, hO.nz, by intro ho; exact ⟨(hO.own ho).1, rfl⟩⟩
      · simp [ht] at hL
  | writeData tgt =>
    rcases rel_get hR tgt with ⟨h1, h2⟩ | ⟨a, l, h1, h2, hO⟩
    · simp [stepA, stepL, h1, h2, Agrees]
    · simp only [stepL, h2] at hL
      simp only [stepA, stepL, h1, h2]
      by_cases ho : l.own = true
      · obtain ⟨hb, hw⟩ := hO.own ho
        simp only [ho, if_true]
        by_cases hro : l.ro = true
        · simp [hro, hw, Agrees]
        · have hro' : l.ro = false := by simpa using hro
          simp only [hro', hw, Bool.not_false, if_true, Agrees, Bool.false_eq_true, if_false]
          refine ⟨hR.len, hR.first, ?_, hR.nb, hR.obj⟩
          simp only [List.mem_cons, not_or]
          exact ⟨fun h => hb h.symm, hR.unwritten⟩
      · simp [ho] at hL
  | viewOf src =>
    rcases rel_get hR src with ⟨h1, h2⟩ | ⟨a, l, h1, h2, hO⟩
    · simp [stepA, stepL, h1, h2, Agrees]
    · simp only [stepA, stepL, h1, h2, Agrees]
      exact rel_append hR a l st.nextBuf hR.nb hO
  | computed =>
    simp only [stepA, stepL, Agrees]
    have hnew : ORel
        { buf := st.nextBuf, shape := [1], strides := [1], writeable := true, vals := [] }
        { shape := [1], vals := [], own := true, ro := false } :=
      ⟨rfl, rfl, by simp, by intro _; have := hR.nb; exact ⟨by simp; omega, by simp⟩⟩
    exact rel_append hR _ _ (st.nextBuf + 1) (by omega) hnew

theorem sim_run (c : Ctx) (a0 : Arr) : ∀ (ops : List AOp) (st : AState) (ls : List LObj),
    Rel a0 st ls → runL c ls ops ≠ .error .layoutDependent →
    Agrees a0 (runA c st ops) (runL c ls ops) := by
  intro ops
  induction ops with
  | nil => intro st ls hR _; simpa [runA, runL, Agrees] using hR
  | cons op ops ih =>
    intro st ls hR hL
    have hstep : stepL c ls op ≠ .error .layoutDependent := by
      intro h; simp [runL, h] at hL
    have hA := sim_step c a0 st ls hR op hstep
    simp only [runA, runL] at hL ⊢
    cases hl : stepL c ls op with
    | error e =>
      rw [hl] at hA
      cases ha : stepA c st op with
      | error e' => rw [ha] at hA; simpa [Agrees] using hA
      | ok st' => rw [ha] at hA; cases e <;> simp [Agrees] at hA
    | ok ls' =>
      rw [hl] at hA hL
      cases ha : stepA c st op with
      | error e' => rw [ha] at hA; simp [Agrees] at hA
      | ok st' =>
        rw [ha] at hA
        exact ih st' ls' (by simpa [Agrees] using hA) hL

/-- the layout-free machine never reports an in-place failure -/
theorem stepL_err (c : Ctx) (ls : List LObj) (op : AOp) (e : Err)
    (h : stepL c ls op = .error (.err e)) : e ≠ .notInPlace := by
  intro he; subst he
  cases op <;> simp only [stepL] at h <;> (try (split at h <;> try (simp at h))) <;>
    (try (split at h <;> try (simp at h))) <;> (try (split at h <;> try (simp at h))) <;>
    (try (simp at h))

theorem runL_err (c : Ctx) : ∀ (ops : List AOp) (ls : List LObj) (e : Err),
    runL c ls ops = .error (.err e) → e ≠ .notInPlace := by
  intro ops
  induction ops with
  | nil => intro ls e h; simp [runL] at h
  | cons op ops ih =>
    intro ls e h
    simp only [runL] at h
    cases hl : stepL c ls op with
    | error e' =>
      rw [hl] at h
      simp only [Except.error.injEq] at h
      subst h
      exact stepL_err c ls op e hl
    | ok ls' => rw [hl] at h; exact ih ls' e h

/-! ### the static site check is sound for the layout-free machine -/

theorem dropOnesN_append (a b : List Nat) : dropOnesN (a ++ b) = dropOnesN a ++ dropOnesN b := by
  simp [dropOnesN]

theorem dropOnesN_replicate_one (k : Nat) : dropOnesN (List.replicate k 1) = [] := by
  induction k with
  | zero => rfl
  | succ k ih => simp [dropOnesN, List.replicate_succ]

theorem dropOnesN_insertAt : ∀ (l : List Nat) (n : Nat), dropOnesN (insertAt l n 1) = dropOnesN l := by
  intro l
  induction l with
  | nil => intro n; cases n <;> simp [insertAt, dropOnesN]
  | cons d ds ih =>
    intro n
    cases n with
    | zero => simp [insertAt, dropOnesN]
    | succ n =>
      have := ih n
      simp only [insertAt, dropOnesN, List.filter_cons] at this ⊢
      rw [this]

theorem dropOnesN_evalItems_drop (c : Ctx) : ∀ (l : List ShapeItem),
    dropOnesN (evalItems c l) = dropOnesN (evalItems c (dropOnesS l)) := by
  intro l
  induction l with
  | nil => rfl
  | cons it rest ih =>
    by_cases h : isOneItem it = true
    · have hdrop : dropOnesS (it :: rest) = dropOnesS rest := by simp [dropOnesS, h]
      rw [hdrop, ← ih]
      simp only [evalItems, dropOnesN_append]
      have : dropOnesN (evalItem c it) = [] := by
        cases it with
        | dim d =>
          have hd : d = .lit 1 := by simpa [isOneItem] using h
          subst hd; simp [evalItem, evalDim, dropOnesN]
        | rep d cnt =>
          have hd : d = .lit 1 := by simpa [isOneItem] using h
          subst hd; simp [evalItem, evalDim, dropOnesN_replicate_one]
      rw [this]; rfl
    · have h' : isOneItem it = false := by simpa using h
      have hdrop : dropOnesS (it :: rest) = it :: dropOnesS rest := by simp [dropOnesS, h']
      rw [hdrop]
      simp only [evalItems, dropOnesN_append, ih]

theorem evalItems_inputs (c : Ctx) : ∀ (ks : List Nat),
    evalItems c (ks.map (fun k => ShapeItem.dim (.inp k))) = ks.map (fun k => c.inShape.getD k 1) := by
  intro ks
  induction ks with
  | nil => rfl
  | cons k ks ih => simp [evalItems, evalItem, evalDim, ih]

theorem evalItems_inputItems (c : Ctx) (rank : Nat) (h : c.inShape.length = rank) :
    evalItems c (inputItems rank) = c.inShape := by
  unfold inputItems
  rw [evalItems_inputs]
  apply List.ext_getElem
  · simp [h]
  · intro i h1 h2
    simp only [List.length_map, List.length_range] at h1
    simp [List.getD_eq_getElem?_getD, List.getElem?_eq_getElem h2]

def shapeMatches (c : Ctx) : SymShape → List Nat → Prop
  | .input, sh => sh = c.inShape
  | .items it, sh => sh = evalItems c it
  | .unknown, _ => True

structure SORel (c : Ctx) (s : SymObj) (l : LObj) : Prop where
  shape : shapeMatches c s.shape l.shape
  own : s.own = l.own
  ro : s.ro = l.ro

structure SRel (c : Ctx) (ss : List SymObj) (ls : List LObj) : Prop where
  len : ss.length = ls.length
  obj : ∀ (j : Nat) (s : SymObj) (l : LObj), ss[j]? = some s → ls[j]? = some l → SORel c s l

theorem srel_get {c : Ctx} {ss : List SymObj} {ls : List LObj} (hR : SRel c ss ls) (j : Nat)
    (s : SymObj) (hs : ss[j]? = some s) : ∃ l, ls[j]? = some l ∧ SORel c s l := by
  have hj : j < ss.length := (List.getElem?_eq_some_iff.mp hs).1
  have hj' : j < ls.length := hR.len ▸ hj
  exact ⟨ls[j], List.getElem?_eq_getElem hj', hR.obj j s _ hs (List.getElem?_eq_getElem hj')⟩

theorem srel_append {c : Ctx} {ss : List SymObj} {ls : List LObj} (hR : SRel c ss ls)
    (s : SymObj) (l : LObj) (hO : SORel c s l) : SRel c (ss ++ [s]) (ls ++ [l]) := by
  refine ⟨by simp [hR.len], ?_⟩
  intro j s' l' hs hl
  by_cases hj : j < ss.length
  · have hj' : j < ls.length := hR.len ▸ hj
    rw [List.getElem?_append_left hj] at hs
    rw [List.getElem?_append_left hj'] at hl
    exact hR.obj j s' l' hs hl
  · have hj' : ¬ j < ls.length := hR.len ▸ hj
    rw [List.getElem?_append_right (Nat.le_of_not_lt hj)] at hs
    rw [List.getElem?_append_right (Nat.le_of_not_lt hj')] at hl
    rw [hR.len] at hs
    cases hk : j - ls.length with
    | zero =>
      rw [hk] at hs hl
      simp only [List.getElem?_cons_zero, Option.some.injEq] at hs hl
      subst hs hl; exact hO
    | succ k => rw [hk] at hs; simp at hs

theorem srel_set {c : Ctx} {ss : List SymObj} {ls : List LObj} (hR : SRel c ss ls)
    (tgt : Nat) (s : SymObj) (l : LObj) (hO : SORel c s l) :
    SRel c (ss.set tgt s) (ls.set tgt l) := by
  refine ⟨by simp [hR.len], ?_⟩
  intro j s' l' hs hl
  by_cases hj : tgt = j
  · subst hj
    simp only [List.getElem?_set] at hs hl
    by_cases hlen : tgt < ss.length
    · have hlen' : tgt < ls.length := hR.len ▸ hlen
      simp only [hlen, hlen', if_true, Option.some.injEq] at hs hl
      subst hs hl; exact hO
    · simp [hlen] at hs
  · rw [List.getElem?_set_ne hj] at hs
    rw [List.getElem?_set_ne hj] at hl
    exact hR.obj j s' l' hs hl

theorem insertsOnes_sound (c : Ctx) (rank : Nat) (hrank : rank = 0 ∨ c.inShape.length = rank)
    (s : SymObj) (l : LObj) (hO : SORel c s l) (sh : ShapeE)
    (h : insertsOnes rank s.shape sh = true) :
    dropOnesN (evalShape c sh) = dropOnesN l.shape := by
  have hsh := hO.shape
  cases sh with
  | inputInsertOne p =>
    cases hs : s.shape with
    | input =>
      rw [hs] at hsh
      simp only [shapeMatches] at hsh
      rw [hsh]
      exact dropOnesN_insertAt _ _
    | items it => rw [hs] at h; simp [insertsOnes] at h
    | unknown => rw [hs] at h; simp [insertsOnes] at h
  | items lnew =>
    simp only [insertsOnes] at h
    cases hsi : symItems rank s.shape with
    | none => rw [hsi] at h; simp at h
    | some lc =>
      rw [hsi] at h
      have heq : dropOnesS lnew = dropOnesS lc := by simpa using h
      have hcur : evalItems c lc = l.shape := by
        cases hs : s.shape with
        | input =>
          rw [hs] at hsi hsh
          simp only [shapeMatches] at hsh
          simp only [symItems] at hsi
          by_cases hr : rank = 0
          · simp [hr] at hsi
          · simp only [hr, if_false, Option.some.injEq] at hsi
            subst hsi
            rw [hsh]
            exact evalItems_inputItems c rank (by omega)
        | items it =>
          rw [hs] at hsi hsh
          simp only [symItems, Option.some.injEq] at hsi
          simp only [shapeMatches] at hsh
          subst hsi; exact hsh.symm
        | unknown => rw [hs] at hsi; simp [symItems] at hsi
      simp only [evalShape]
      rw [dropOnesN_evalItems_drop, heq, ← dropOnesN_evalItems_drop, hcur]

/-- one statically accepted step is never layout-dependent, and keeps the symbolic
    description accurate -/
theorem static_step (c : Ctx) (rank : Nat) (hrank : rank = 0 ∨ c.inShape.length = rank)
    (ss ss' : List SymObj) (ls : List LObj) (hR : SRel c ss ls) (op : AOp)
    (h : stepS rank ss op = some ss') :
    (∃ ls', stepL c ls op = .ok ls' ∧ SRel c ss' ls') ∨ (∃ e, stepL c ls op = .error (.err e)) := by
  cases op with
  | reshape src sh =>
    simp only [stepS] at h
    cases hs : ss[src]? with
    | none => rw [hs] at h; simp at h
    | some s =>
      cases hsym : symOfShapeE sh with
      | none => rw [hs, hsym] at h; simp at h
      | some sy =>
        rw [hs, hsym] at h
        simp only [Option.some.injEq] at h
        obtain ⟨l, hl, hO⟩ := srel_get hR src s hs
        by_cases hp : prodN (evalShape c sh) = prodN l.shape
        · left
          have hstep : stepL c ls (.reshape src sh) =
              .ok (ls ++ [{ l with shape := evalShape c sh, own := l.own && !l.ro }]) := by
            simp [stepL, hl, hp]
          refine ⟨_, hstep, ?_⟩
          subst h
          apply srel_append hR
          refine ⟨?_, by simp [hO.own, hO.ro], hO.ro⟩
          cases sh with
          | items it =>
            simp only [symOfShapeE, Option.some.injEq] at hsym
            subst hsym; simp [shapeMatches, evalShape]
          | inputInsertOne p => simp [symOfShapeE] at hsym
        · right; exact ⟨.sizeMismatch, by simp [stepL, hl, hp]⟩
  | setShape tgt sh =>
    simp only [stepS] at h
    cases hs : ss[tgt]? with
    | none => rw [hs] at h; simp at h
    | some s =>
      rw [hs] at h
      obtain ⟨l, hl, hO⟩ := srel_get hR tgt s hs
      by_cases hc : (tgt ≠ 0 && insertsOnes rank s.shape sh) = true
      · simp only [hc, if_true] at h
        simp only [Bool.and_eq_true, decide_eq_true_eq] at hc
        have hd := insertsOnes_sound c rank hrank s l hO sh hc.2
        by_cases hp : prodN (evalShape c sh) = prodN l.shape
        · left
          have hstep : stepL c ls (.setShape tgt sh) =
              .ok (ls.set tgt { l with shape := evalShape c sh }) := by
            simp [stepL, hl, hp, hc.1, hd]
          refine ⟨_, hstep, ?_⟩
          cases sh with
          | items it =>
            simp only [Option.some.injEq] at h
            subst h
            exact srel_set hR tgt _ _ ⟨by simp [shapeMatches, evalShape], hO.own, hO.ro⟩
          | inputInsertOne p =>
            simp only [Option.some.injEq] at h
            subst h
            exact srel_set hR tgt _ _ ⟨by simp [shapeMatches], hO.own, hO.ro⟩
        · right; exact ⟨.sizeMismatch, by simp [stepL, hl, hp]⟩
      · exfalso
        simp only [Bool.and_eq_true, decide_eq_true_eq, not_and] at hc
        have : (if (decide (tgt ≠ 0) && insertsOnes rank s.shape sh) = true then
            (match sh with
              | ShapeE.items l => some (ss.set tgt { s with shape := SymShape.items l })
              | ShapeE.inputInsertOne _ => some (ss.set tgt { s with shape := SymShape.unknown }))
            else none) = some ss' := h
        have hf : (decide (tgt ≠ 0) && insertsOnes rank s.shape sh) = false := by
          by_cases ht : tgt ≠ 0
          · simp [ht, hc ht]
          · simp [ht]
        rw [hf] at this
        simp at this
  | npArray src =>
    simp only [stepS] at h
    cases hs : ss[src]? with
    | none => rw [hs] at h; simp at h
    | some s =>
      rw [hs] at h
      simp only [Option.some.injEq] at h
      obtain ⟨l, hl, hO⟩ := srel_get hR src s hs
      left
      have hstep : stepL c ls (.npArray src) = .ok (ls ++ [{ l with own := true, ro := false }]) := by
        simp [stepL, hl]
      refine ⟨_, hstep, ?_⟩
      subst h
      exact srel_append hR _ _ ⟨hO.shape, rfl, rfl⟩
  | copyK src =>
    simp only [stepS] at h
    cases hs : ss[src]? with
    | none => rw [hs] at h; simp at h
    | some s =>
      rw [hs] at h
      simp only [Option.some.injEq] at h
      obtain ⟨l, hl, hO⟩ := srel_get hR src s hs
      left
      have hstep : stepL c ls (.copyK src) = .ok (ls ++ [{ l with own := true, ro := false }]) := by
        simp [stepL, hl]
      refine ⟨_, hstep, ?_⟩
      subst h
      exact srel_append hR _ _ ⟨hO.shape, rfl, rfl⟩
  | npArrayC src =>
    simp only [stepS] at h
    cases hs : ss[src]? with
    | none => rw [hs] at h; simp at h
    | some s =>
      rw [hs] at h
      simp only [Option.some.injEq] at h
      obtain ⟨l, hl, hO⟩ := srel_get hR src s hs
      left
      have hstep : stepL c ls (.npArrayC src) = .ok (ls ++ [{ l with own := true, ro := false }]) := by
        simp [stepL, hl]
      refine ⟨_, hstep, ?_⟩
      subst h
      exact srel_append hR _ _ ⟨hO.shape, rfl, rfl⟩
  | setReadonly tgt =>
    simp only [stepS] at h
    cases hs : ss[tgt]? with
    | none => rw [hs] at h; simp at h
    | some s =>
      rw [hs] at h
      obtain ⟨l, hl, hO⟩ := srel_get hR tgt s hs
      by_cases ht : tgt ≠ 0
      · simp only [ht, ne_eq, not_false_eq_true, if_true, Option.some.injEq] at h
        left
        have hstep : stepL c ls (.setReadonly tgt) = .ok (ls.set tgt { l with ro := true }) := by
          simp [stepL, hl, ht]
        refine ⟨_, hstep, ?_⟩
        subst h
        exact srel_set hR tgt _ _ ⟨hO.shape, hO.own, rfl⟩
      · simp [ht] at h
  | writeData tgt =>
    simp only [stepS] at h
    cases hs : ss[tgt]? with
    | none => rw [hs] at h; simp at h
    | some s =>
      rw [hs] at h
      obtain ⟨l, hl, hO⟩ := srel_get hR tgt s hs
      by_cases hc : (s.own && !s.ro) = true
      · simp only [hc, if_true, Option.some.injEq] at h
        simp only [Bool.and_eq_true, Bool.not_eq_true'] at hc
        left
        have h1 : l.own = true := hO.own ▸ hc.1
        have h2 : l.ro = false := hO.ro ▸ hc.2
        refine ⟨ls, ?_, h ▸ hR⟩
        simp [stepL, hl, h1, h2]
      · have hc' : (s.own && !s.ro) = false := by simpa using hc
        simp [hc'] at h
  | viewOf src =>
    simp only [stepS] at h
    cases hs : ss[src]? with
    | none => rw [hs] at h; simp at h
    | some s =>
      rw [hs] at h
      simp only [Option.some.injEq] at h
      obtain ⟨l, hl, hO⟩ := srel_get hR src s hs
      left
      have hstep : stepL c ls (.viewOf src) = .ok (ls ++ [l]) := by simp [stepL, hl]
      refine ⟨_, hstep, ?_⟩
      subst h
      exact srel_append hR _ _ ⟨by simp [shapeMatches], hO.own, hO.ro⟩
  | computed =>
    simp only [stepS, Option.some.injEq] at h
    left
    refine ⟨_, rfl, ?_⟩
    subst h
    exact srel_append hR _ _ ⟨by simp [shapeMatches], rfl, rfl⟩

theorem static_run (c : Ctx) (rank : Nat) (hrank : rank = 0 ∨ c.inShape.length = rank) :
    ∀ (ops : List AOp) (ss : List SymObj) (ls : List LObj), SRel c ss ls →
      (runS rank ss ops).isSome = true → runL c ls ops ≠ .error .layoutDependent := by
  intro ops
  induction ops with
  | nil => intro ss ls _ _; simp [runL]
  | cons op ops ih =>
    intro ss ls hR h
    simp only [runS] at h
    cases hs : stepS rank ss op with
    | none => rw [hs] at h; simp at h
    | some ss' =>
      rw [hs] at h
      rcases static_step c rank hrank ss ss' ls hR op hs with ⟨ls', hl, hR'⟩ | ⟨e, he⟩
      · simp only [runL, hl]
        exact ih ss' ls' hR' h
      · simp [runL, he]

theorem srel_init (c : Ctx) (vals : List Int) :
    SRel c [{ shape := .input, own := false, ro := false }] (initL c.inShape vals) := by
  refine ⟨rfl, ?_⟩
  intro j s l hs hl
  cases j with
  | zero =>
    simp only [initL, List.getElem?_cons_zero, Option.some.injEq] at hs hl
    subst hs hl
    exact ⟨rfl, rfl, rfl⟩
  | succ j => simp at hs

end OQuPyVerif.Aliasing
