/- Helper lemmas for PT-TEBD histories: closed form of one `compute_step` / `initialize` as
   interpreted from the generated micro-op lists, and of the `compute(end_step)` loop.
   Used by Props/C14. -/
import OQuPyVerif.Model.Histories

namespace OQuPyVerif.Histories
open OQuPyVerif.TimeGrid OQuPyVerif.Generated.LoopOrder

/-- the control applied for (`post`, step `k`), if one is registered -/
def ctl (cfg : TebdCfg) (post : Bool) (k : Int) : List ChainEv :=
  if cfg.hasCtrl post k then [.ctrl post k] else []

/-- what one step appends to the chain log when leaving step `k` -/
def stepEvs (cfg : TebdCfg) (k : Int) : List ChainEv :=
  ctl cfg true k ++ [.evolve (k + 1)] ++ ctl cfg false (k + 1)

/-- **the obligation on `PtTebdBackend.compute_traces`**: every path recomputes the traces
    (`decide` on the regenerated path list; breaks if a path returns early on cached traces) -/
theorem tracesAlwaysFresh_true : tracesAlwaysFresh = true := by decide

/-- `_append_results()` records the CURRENT chain state — whatever traces were lying around
    before — and leaves no traces behind -/
theorem tebdAppend_eq (t : Tebd) :
    tebdAppend t =
      { t with results := t.results ++ [(t.step.getD 0, t.chain)], traces := none } := by
  unfold tebdAppend
  simp [tebd_append_results, traceRun, computeTraces, tracesAlwaysFresh_true]

theorem tebdStep_eq (cfg : TebdCfg) (t : Tebd) (k : Int) (hs : t.step = some k) :
    tebdStep cfg t =
      ⟨some (k + 1), t.chain ++ stepEvs cfg k,
       t.results ++ [(k + 1, t.chain ++ stepEvs cfg k)], none⟩ := by
  unfold tebdStep stepEvs ctl
  simp only [hs, Option.getD_some, tebd_compute_step, tebdRun, Aff.eval, tebdAppend_eq]
  have e1 : (1 : Int) * k + 0 = k := by omega
  have e2 : (1 : Int) * k + 1 = k + 1 := by omega
  rw [e1, e2]
  by_cases h1 : cfg.hasCtrl true k = true <;> by_cases h2 : cfg.hasCtrl false (k + 1) = true <;>
    simp [h1, h2]

theorem tebdInit_eq (cfg : TebdCfg) (t : Tebd) :
    tebdInit cfg t =
      ⟨some cfg.startStep, cfg.initial ++ ctl cfg false cfg.startStep,
       [(cfg.startStep, cfg.initial ++ ctl cfg false cfg.startStep)], none⟩ := by
  unfold tebdInit ctl
  simp only [tebd_initialize, tebdRun, Aff.eval, tebdAppend_eq]
  have e1 : (1 : Int) * cfg.startStep + 0 = cfg.startStep := by omega
  simp only [e1]
  by_cases h : cfg.hasCtrl false cfg.startStep = true <;> simp [h]

/-- the generated lists contain only micro-ops that `tebdRun` gives a meaning to -/
theorem tebd_lists_wellformed :
    tebdOpsOnly tebd_compute_step = true ∧ tebdOpsOnly tebd_initialize = true ∧
    traceOpsOnly tebd_append_results = true ∧ traceOpsOnly tebd_get_dm = true ∧
    traceOpsOnly tebd_get_results = true ∧ traceOpsOnly tebd_get_mps = true := by decide

theorem iter_tebdStep_step (cfg : TebdCfg) (j : Nat) : ∀ (t : Tebd) (k : Int), t.step = some k →
    (iter (tebdStep cfg) j t).step = some (k + (j : Int)) := by
  induction j with
  | zero => intro t k h; simpa [iter] using h
  | succ j ih =>
    intro t k h
    simp only [iter]
    rw [ih (tebdStep cfg t) (k + 1) (by rw [tebdStep_eq cfg t k h])]
    congr 1; omega

theorem iter_add {α} (f : α → α) (a b : Nat) (x : α) : iter f (a + b) x = iter f b (iter f a x) := by
  induction a generalizing x with
  | zero => simp [iter]
  | succ a ih =>
    have : a + 1 + b = (a + b) + 1 := by omega
    rw [this]
    simp only [iter]
    exact ih (f x)

/-- the `while self.step < end_step` loop takes exactly `end_step - step` steps (none if
    that is negative), given enough fuel -/
theorem tebdLoop_eq (cfg : TebdCfg) (endStep : Int) (d : Nat) : ∀ (fuel : Nat) (t : Tebd) (k : Int),
    t.step = some k → (endStep - k).toNat = d → d < fuel →
    tebdLoop cfg endStep fuel t = iter (tebdStep cfg) d t := by
  induction d with
  | zero =>
    intro fuel t k hs hd _
    cases fuel with
    | zero => rfl
    | succ f =>
      have : ¬ k < endStep := by omega
      simp [tebdLoop, tebd_loop_cond, hs, this, iter]
  | succ d ih =>
    intro fuel t k hs hd hf
    cases fuel with
    | zero => omega
    | succ f =>
      have h1 : k < endStep := by omega
      simp only [tebdLoop, tebd_loop_cond, hs, Option.getD_some, h1, decide_true, if_true, iter]
      exact ih f (tebdStep cfg t) (k + 1) (by rw [tebdStep_eq cfg t k hs]) (by omega) (by omega)

theorem tebdCompute_started (cfg : TebdCfg) (t : Tebd) (k : Int) (hs : t.step = some k)
    (endStep : Int) :
    tebdCompute cfg t endStep = iter (tebdStep cfg) (endStep - k).toNat t := by
  unfold tebdCompute
  simp only [hs, Option.getD_some]
  exact tebdLoop_eq cfg endStep _ _ t k hs rfl (by omega)

theorem tebdCompute_fresh (cfg : TebdCfg) (t : Tebd) (hs : t.step = none) (endStep : Int) :
    tebdCompute cfg t endStep =
      iter (tebdStep cfg) (endStep - cfg.startStep).toNat (tebdInit cfg t) := by
  unfold tebdCompute
  simp only [hs]
  have h : (tebdInit cfg t).step = some cfg.startStep := by rw [tebdInit_eq]
  simp only [h, Option.getD_some]
  exact tebdLoop_eq cfg endStep _ _ _ _ h rfl (by omega)

/-- the state of a PT-TEBD object `j` steps after its start -/
def tebdCanon (cfg : TebdCfg) (j : Nat) : Tebd := iter (tebdStep cfg) j (tebdInit cfg Tebd.fresh)

theorem tebdCanon_step (cfg : TebdCfg) (j : Nat) :
    (tebdCanon cfg j).step = some (cfg.startStep + (j : Int)) :=
  iter_tebdStep_step cfg j _ _ (by rw [tebdInit_eq])

theorem tebdInit_any (cfg : TebdCfg) (t : Tebd) : tebdInit cfg t = tebdInit cfg Tebd.fresh := by
  rw [tebdInit_eq, tebdInit_eq]

/-- one `compute(e)` from a fresh object or from the canonical state `j` gives the canonical
    state `max j (e - start)` -/
theorem tebdCompute_canon (cfg : TebdCfg) (j : Nat) (e : Int) :
    tebdCompute cfg (tebdCanon cfg j) e =
      tebdCanon cfg (j + (e - (cfg.startStep + (j : Int))).toNat) := by
  rw [tebdCompute_started cfg _ _ (tebdCanon_step cfg j)]
  unfold tebdCanon
  rw [iter_add]

theorem tebdCompute_fresh_canon (cfg : TebdCfg) (e : Int) :
    tebdCompute cfg Tebd.fresh e = tebdCanon cfg (0 + (e - (cfg.startStep + ((0 : Nat) : Int))).toNat) := by
  rw [tebdCompute_fresh cfg _ rfl]
  unfold tebdCanon
  congr 1
  omega

/-! ### chain and results of the iterated step, relative to where it started -/

theorem iter_tebdStep_rel (cfg : TebdCfg) (j : Nat) : ∀ (t u : Tebd) (k : Int),
    t.step = some k → u.step = some k → t.chain = u.chain →
    (iter (tebdStep cfg) j t).chain = (iter (tebdStep cfg) j u).chain ∧
    (iter (tebdStep cfg) j t).step = (iter (tebdStep cfg) j u).step ∧
    ∃ ext, (iter (tebdStep cfg) j t).results = t.results ++ ext ∧
           (iter (tebdStep cfg) j u).results = u.results ++ ext := by
  induction j with
  | zero =>
    intro t u k ht hu hc
    exact ⟨hc, by rw [iter, iter, ht, hu], [], by simp [iter], by simp [iter]⟩
  | succ j ih =>
    intro t u k ht hu hc
    simp only [iter]
    have et := tebdStep_eq cfg t k ht
    have eu := tebdStep_eq cfg u k hu
    obtain ⟨h1, h2, ext, h3, h4⟩ := ih (tebdStep cfg t) (tebdStep cfg u) (k + 1)
      (by rw [et]) (by rw [eu]) (by rw [et, eu, hc])
    refine ⟨h1, h2, (k + 1, t.chain ++ stepEvs cfg k) :: ext, ?_, ?_⟩
    · rw [h3, et]; simp
    · rw [h4, eu, hc]; simp

theorem tebdCanon_results_length (cfg : TebdCfg) (j : Nat) :
    (tebdCanon cfg j).results.length = j + 1 := by
  unfold tebdCanon
  have h0 : (tebdInit cfg Tebd.fresh).step = some cfg.startStep := by rw [tebdInit_eq]
  have key : ∀ (j : Nat) (t : Tebd) (k : Int), t.step = some k →
      (iter (tebdStep cfg) j t).results.length = t.results.length + j := by
    intro j
    induction j with
    | zero => intro t k _; simp [iter]
    | succ j ih =>
      intro t k ht
      simp only [iter]
      rw [ih (tebdStep cfg t) (k + 1) (by rw [tebdStep_eq cfg t k ht]), tebdStep_eq cfg t k ht]
      simp; omega
  rw [key j _ _ h0, tebdInit_eq]
  simp; omega

theorem tebdCanon_last (cfg : TebdCfg) (j : Nat) :
    ∃ pre, (tebdCanon cfg j).results =
      pre ++ [(cfg.startStep + (j : Int), (tebdCanon cfg j).chain)] ∧ pre.length = j := by
  cases j with
  | zero =>
    refine ⟨[], ?_, rfl⟩
    unfold tebdCanon
    simp only [iter]
    rw [tebdInit_eq]
    simp
  | succ j =>
    have hs := tebdCanon_step cfg j
    have hl := tebdCanon_results_length cfg j
    have : tebdCanon cfg (j + 1) = tebdStep cfg (tebdCanon cfg j) := by
      unfold tebdCanon
      rw [iter_add]
      rfl
    rw [this, tebdStep_eq cfg _ _ hs]
    refine ⟨(tebdCanon cfg j).results, ?_, hl⟩
    simp only []
    congr 3
    omega

/-! ### read-only getters between compute calls -/

/-- what a user can observe of / continue from a PT-TEBD object, apart from the temporary traces -/
def TebdSame (t u : Tebd) : Prop := t.step = u.step ∧ t.chain = u.chain ∧ t.results = u.results

theorem TebdSame.refl (t : Tebd) : TebdSame t t := ⟨rfl, rfl, rfl⟩

theorem traceRun_same (ops : List MicroOp) (h : ops.all (fun o => o != .record) = true) :
    ∀ (t : Tebd) rd rc, TebdSame (traceRun ops t rd rc).1 t := by
  induction ops with
  | nil => intro t rd rc; exact TebdSame.refl t
  | cons o r ih =>
    intro t rd rc
    simp only [List.all_cons, Bool.and_eq_true] at h
    have hr := ih h.2
    cases o with
    | traceCompute =>
      simp only [traceRun]
      have := hr (computeTraces t) rd rc
      have hc : TebdSame (computeTraces t) t := by
        unfold computeTraces
        split
        · exact ⟨rfl, rfl, rfl⟩
        · split <;> exact ⟨rfl, rfl, rfl⟩
      exact ⟨this.1.trans hc.1, this.2.1.trans hc.2.1, this.2.2.trans hc.2.2⟩
    | _ => simp only [traceRun]; exact hr _ _ _

/-- a getter changes neither step, chain state nor recorded results -/
theorem tebdGetter_same (ops : List MicroOp) (h : ops.all (fun o => o != .record) = true)
    (t : Tebd) : TebdSame (tebdGetter ops t) t := by
  unfold tebdGetter
  cases t.step with
  | none => exact TebdSame.refl t
  | some k => exact traceRun_same ops h t none false

theorem tebdStep_same (cfg : TebdCfg) (t u : Tebd) (h : TebdSame t u) (k : Int)
    (hs : t.step = some k) : tebdStep cfg t = tebdStep cfg u := by
  rw [tebdStep_eq cfg t k hs, tebdStep_eq cfg u k (by rw [← h.1]; exact hs), h.2.1, h.2.2]

/-- `compute(e)` gives the same observable object from two objects that differ only in the
    temporary traces they carry -/
theorem tebdCompute_same (cfg : TebdCfg) (t u : Tebd) (h : TebdSame t u) (e : Int) :
    TebdSame (tebdCompute cfg t e) (tebdCompute cfg u e) := by
  cases hs : t.step with
  | none =>
    have hu : u.step = none := by rw [← h.1]; exact hs
    rw [tebdCompute_fresh cfg t hs, tebdCompute_fresh cfg u hu, tebdInit_any cfg t,
      tebdInit_any cfg u]
    exact TebdSame.refl _
  | some k =>
    have hu : u.step = some k := by rw [← h.1]; exact hs
    rw [tebdCompute_started cfg t k hs, tebdCompute_started cfg u k hu]
    cases (e - k).toNat with
    | zero => simpa [iter] using h
    | succ d =>
      simp only [iter]
      rw [tebdStep_same cfg t u h k hs]
      exact TebdSame.refl _

end OQuPyVerif.Histories
