/-
  C07 — Multi-time correlations are aligned with the returned time axes.

  Property theorems only (helper lemmas live in Lemmas/Correlations*.lean).  Everything named
  `Generated.CorrTimes.*` is regenerated from /repo's source on every run, so these theorems
  are re-checked against what the code says now: the arithmetic of `_parse_times`, the axis
  labels, which result indices the kept later times are written to (`last_index_by_mask`),
  how the order of the earlier times is tested (`order_check`), how a float interval is
  turned into steps (`interval_via_slice`), and which `dt` is handed to the dynamics.

  Values are abstract: an array entry is `none` (NaN) or `some s`, the step tuple whose
  correlation `val s` is stored there.  That `val s` is the exact multi-time correlation of
  the joint evolution is the concern of C03/C18 and NOT shown here.
-/
import OQuPyVerif.Lemmas.Correlations
import OQuPyVerif.Lemmas.CorrelationsParse
import OQuPyVerif.Lemmas.CorrelationsBath
import OQuPyVerif.Lemmas.CorrelationsBathSteps
import Mathlib.LinearAlgebra.Matrix.Trace
import Mathlib.LinearAlgebra.Matrix.ConjTranspose

namespace OQuPyVerif.Props.C07
open OQuPyVerif.FloatModel OQuPyVerif.Correlations OQuPyVerif.Generated.CorrTimes

/-- The label the property demands for step `k`: `start_time + dt·k` in binary64. -/
def gridTime (s dt : Rat) (k : Int) : Rat := fadd s (fmul dt (ofInt k))

/-! ### (1) alignment of every entry with the returned axes -/

/-- `compute_correlations_nt`, any number of operators, any time specifications.
    If the call returns, then for every index tuple (one index per returned axis; `e` pairs
    each index with the step found there): the entry is NaN iff the steps are not time
    ordered, and otherwise it is the value computed for exactly those steps. -/
theorem aligned (maxStep : Int) (dt start : Rat) (specs : List TimeSpec) (o : Outcome)
    (h : corrNt maxStep dt start specs = .ok o) (e : List (Nat × Int)) (he : Picks o.steps e) :
    o.entry (e.map Prod.fst) =
      if TimeOrdered (e.map Prod.snd) then some (e.map Prod.snd) else none := by
  unfold corrNt at h
  split at h
  · cases h
  · rename_i steps hparse
    split at h
    · cases h
    · rename_i last hlast
      have hsteps : steps.dropLast ++ [last] = steps :=
        List.dropLast_append_getLast? last (by simpa using hlast)
      simp only at h
      by_cases hraise' : raisesValue steps.dropLast last = true
      · rw [if_pos hraise'] at h; cases h
      · rw [if_neg hraise'] at h
        have hraise : raisesValue steps.dropLast last = false := by simpa using hraise'
        simp only [Except.ok.injEq] at h
        subst h
        simp only at he
        have hne := firsts_ne_nil_of_not_raises _ _ hraise
        rw [← hsteps] at he
        obtain ⟨e₀, x, rfl, he₀, hx⟩ := picks_append_singleton he
        simp only [Outcome.entry, List.map_append, List.map_cons, List.map_nil]
        have hwr := mem_allWrites_iff steps.dropLast last hne
        -- any write at this index tuple stores exactly these steps, and they are ordered
        have hsound : ∀ s, (e₀.map Prod.fst ++ [x.1], s) ∈ allWrites steps.dropLast last →
            s = e₀.map Prod.snd ++ [x.2] ∧ TimeOrdered (e₀.map Prod.snd ++ [x.2]) := by
          intro s hs
          obtain ⟨e₂, j, l, hp, hjl, hord, heq⟩ := (hwr _).1 hs
          simp only [Prod.mk.injEq] at heq
          obtain ⟨hι, rfl⟩ := heq
          obtain ⟨hf, hj⟩ := List.append_inj' hι rfl
          simp only [List.cons.injEq, and_true] at hj
          subst hj
          rw [hx] at hjl
          have hl : x.2 = l := Option.some.inj hjl
          have hsnd := picks_snd_unique he₀ hp hf
          rw [hsnd, hl]
          exact ⟨rfl, hord⟩
        by_cases hord : TimeOrdered (e₀.map Prod.snd ++ [x.2])
        · rw [if_pos hord]
          have hmem : (e₀.map Prod.fst ++ [x.1], e₀.map Prod.snd ++ [x.2]) ∈
              allWrites steps.dropLast last :=
            (hwr _).2 ⟨e₀, x.1, x.2, he₀, hx, hord, rfl⟩
          cases hent : entryOf (allWrites steps.dropLast last) (e₀.map Prod.fst ++ [x.1]) with
          | none => exact absurd hmem (entryOf_none _ _ hent _)
          | some s => rw [(hsound s (entryOf_some _ _ _ hent)).1]
        · rw [if_neg hord]
          cases hent : entryOf (allWrites steps.dropLast last) (e₀.map Prod.fst ++ [x.1]) with
          | none => rfl
          | some s => exact absurd (hsound s (entryOf_some _ _ _ hent)).2 hord

/-- the step tuple addressed by an index tuple -/
def stepsAt (steps : List (List Int)) (ι : List Nat) : List Int :=
  List.zipWith (fun t i => t.getD i 0) steps ι

/-- `ι` indexes into the result array (one valid index per axis) -/
def ValidIndex (steps : List (List Int)) (ι : List Nat) : Prop :=
  List.Forall₂ (fun t i => i < t.length) steps ι

theorem picks_of_valid (steps : List (List Int)) (ι : List Nat) (h : ValidIndex steps ι) :
    Picks steps (ι.zip (stepsAt steps ι)) ∧ (ι.zip (stepsAt steps ι)).map Prod.fst = ι ∧
      (ι.zip (stepsAt steps ι)).map Prod.snd = stepsAt steps ι := by
  unfold ValidIndex at h
  unfold Picks stepsAt
  induction h with
  | nil => exact ⟨List.Forall₂.nil, rfl, rfl⟩
  | cons hi _ ih =>
    rename_i t i ts is
    refine ⟨List.Forall₂.cons ?_ ih.1, ?_, ?_⟩
    · simp only [List.getD_eq_getElem?_getD]
      rw [List.getElem?_eq_getElem hi]
      rfl
    · simp only [List.zipWith_cons_cons, List.zip_cons_cons, List.map_cons, ih.2.1]
    · simp only [List.zipWith_cons_cons, List.zip_cons_cons, List.map_cons, ih.2.2]

/-- `aligned` in array notation: `corr[ι]` is NaN iff `steps[ι]` is not time ordered and is
    otherwise the value for `steps[ι]` — the steps whose times `axes[ι]` are returned at the
    same indices (`axes_grid`). -/
theorem aligned_index (maxStep : Int) (dt start : Rat) (specs : List TimeSpec) (o : Outcome)
    (h : corrNt maxStep dt start specs = .ok o) (ι : List Nat) (hι : ValidIndex o.steps ι) :
    o.entry ι =
      if TimeOrdered (stepsAt o.steps ι) then some (stepsAt o.steps ι) else none := by
  obtain ⟨hp, hf, hs⟩ := picks_of_valid o.steps ι hι
  have := aligned maxStep dt start specs o h _ hp
  rwa [hf, hs] at this

/-- the index tuples of the returned array (its shape is the list of axis lengths) are
    exactly the valid ones, so `aligned_index` speaks about every entry of the array -/
theorem indexTuples_valid (o : Outcome) (ι : List Nat) :
    ι ∈ o.indexTuples ↔ ValidIndex o.steps ι := by
  unfold Outcome.indexTuples ValidIndex
  rw [mem_product, List.forall₂_map_right_iff]
  constructor
  · intro h
    exact List.Forall₂.flip (h.imp (S := fun (i : Nat) (t : List Int) => i < t.length)
      (fun a b hab => List.mem_range.1 hab))
  · intro h
    exact List.Forall₂.flip (h.imp (S := fun (t : List Int) (i : Nat) => i ∈ List.range t.length)
      (fun a b hab => List.mem_range.2 hab))

/-- non-vacuity of `aligned_index`: index (0, 2) of a 1×4 result -/
example : ValidIndex [[2], [5, 3, 1, 4]] [0, 2] :=
  List.Forall₂.cons (by decide) (List.Forall₂.cons (by decide) List.Forall₂.nil)

/-- The returned axes: one per time specification, the parsed steps of that specification
    labelled `start + dt·step`, index by index. -/
theorem axes_grid (maxStep : Int) (dt start : Rat) (specs : List TimeSpec) (o : Outcome)
    (h : corrNt maxStep dt start specs = .ok o) :
    List.Forall₂ (fun sp st => parseTimes maxStep dt start sp = .ok st) specs o.steps ∧
      o.axes = o.steps.map (fun st => st.map (gridTime start dt)) := by
  unfold corrNt at h
  split at h
  · cases h
  · rename_i steps hparse
    split at h
    · cases h
    · rename_i last _
      simp only at h
      by_cases hraise' : raisesValue steps.dropLast last = true
      · rw [if_pos hraise'] at h; cases h
      · rw [if_neg hraise'] at h
        simp only [Except.ok.injEq] at h
        subst h
        exact ⟨parseAll_ok _ _ _ _ _ hparse, rfl⟩

/-- non-vacuity of `aligned`/`axes_grid`, and the historical failure: first time step 2, later
    times `[5, 3, 1, 4]` — entry 2 (step 1 < 2) is NaN, the others sit at their own indices. -/
example :
    (corrNt 6 (lit 1 1) 0 [.int 2, .list [5, 3, 1, 4]]).toOption.map
      (fun o => (o.steps, o.indexTuples.map o.entry)) =
    some ([[2], [5, 3, 1, 4]], [some [2, 5], some [2, 3], none, some [2, 4]]) := by
  decide +kernel

/-- what the historical selection `[-len(lt):]` did on the same input: the three values land
    on indices 1, 2, 3 -/
example : lastSelWith false 2 [5, 3, 1, 4] = some [(1, 5), (2, 3), (3, 4)] := by decide
example : lastSelWith true 2 [5, 3, 1, 4] = some [(0, 5), (1, 3), (3, 4)] := by decide

/-- three operators, unsorted lists everywhere -/
example :
    (corrNt 6 (lit 1 1) 0 [.list [1, 2], .list [2, 1], .slice (some 3) none (some (-1))]).toOption.map
      (fun o => o.indexTuples.map o.entry) =
    some [some [1, 2, 3], some [1, 2, 2], none, none,
          some [1, 1, 3], some [1, 1, 2], some [1, 1, 1], none,
          some [2, 2, 3], some [2, 2, 2], none, none,
          none, none, none, none] := by
  decide +kernel

/-! ### the order test on the earlier operators -/

/-- the source compares `first_times` with `sorted(first_times)` exactly: an entry is computed
    iff the earlier steps are non-decreasing — for process tensors of any length. -/
theorem order_test_exact (f : List Int) : orderOk f = true ↔ TimeOrdered f := orderOk_iff f

/-- the historical `np.allclose` test accepted unsorted tuples beyond 10^5 steps -/
example : orderOkWith false [100001, 100000] = true := by decide +kernel
example : orderOkWith true [100001, 100000] = false := by decide +kernel

/-! ### the two-time wrapper -/

/-- `time_order='ordered'` is `compute_correlations_nt` on `[times_a, times_b]`
    (operators `[A, B]`, both applied from the left). -/
theorem corr2_ordered (maxStep : Int) (dt start : Rat) (sa sb : TimeSpec) :
    corr2 false maxStep dt start sa sb = corrNt maxStep dt start [sa, sb] ∧
      ordered_operators = ["operator_a", "operator_b"] ∧ ordered_ops_order = ["left", "left"] :=
  ⟨rfl, rfl, rfl⟩

theorem entryOf_map_reverse (ws : List Write) (ι : List Nat) :
    entryOf (ws.map (fun w => (w.1.reverse, w.2))) ι = entryOf ws ι.reverse := by
  unfold entryOf
  rw [← List.map_reverse, List.find?_map, Option.map_map]
  have : ((fun (w : Write) => w.1 == ι) ∘ fun (w : Write) => (w.1.reverse, w.2))
      = fun (w : Write) => w.1 == ι.reverse := by
    funext w
    simp only [Function.comp, beq_eq_decide, decide_eq_decide]
    constructor
    · intro h; rw [← h, List.reverse_reverse]
    · intro h; rw [h, List.reverse_reverse]
  rw [this]
  rfl

/-- `time_order='anti'`: the call is `compute_correlations_nt` with operators `[B, A]`, order
    `['right', 'left']` and times `[times_b, times_a]`; the returned axes are `[times_a, times_b]`
    again and entry `[n, m]` is the nt entry `[m, n]`.  With `aligned`: entry `[n, m]` is non-NaN
    iff `t_b[m] ≤ t_a[n]` and then holds the value for the steps `(t_b[m], t_a[n])`. -/
theorem anti_index (maxStep : Int) (dt start : Rat) (sa sb : TimeSpec) :
    anti_operators = ["operator_b", "operator_a"] ∧ anti_ops_order = ["right", "left"] ∧
    anti_post = "(corr[0][::-1], corr[-1].transpose())" ∧
    (∀ e, corr2 true maxStep dt start sa sb = .error e ↔
          corrNt maxStep dt start [sb, sa] = .error e) ∧
    (∀ o', corr2 true maxStep dt start sa sb = .ok o' →
      ∃ o, corrNt maxStep dt start [sb, sa] = .ok o ∧ o'.steps = o.steps.reverse ∧
        o'.axes = o.axes.reverse ∧ ∀ ι, o'.entry ι = o.entry ι.reverse) := by
  have hpick : pickSpecs sa sb anti_ops_times = [sb, sa] := by
    rw [show anti_ops_times = ["times_b", "times_a"] from rfl]
    simp [pickSpecs]
  have hc2 : corr2 true maxStep dt start sa sb =
      (match corrNt maxStep dt start [sb, sa] with
        | Except.error e => Except.error e
        | Except.ok o => Except.ok (antiPost o)) := by
    unfold corr2
    rw [if_pos rfl, hpick]
    rfl
  refine ⟨rfl, rfl, rfl, ?_, ?_⟩
  · intro e
    rw [hc2]
    cases corrNt maxStep dt start [sb, sa] <;> simp
  · intro o' h
    rw [hc2] at h
    cases hc : corrNt maxStep dt start [sb, sa] with
    | error e => rw [hc] at h; cases h
    | ok o =>
      rw [hc] at h
      simp only [Except.ok.injEq] at h
      subst h
      exact ⟨o, rfl, rfl, rfl, fun ι => entryOf_map_reverse _ _⟩

/-- non-vacuity: times_a = steps 0..2, times_b = step 1, anti-ordered: entries for t_b ≤ t_a -/
example :
    (corr2 true 6 (lit 1 1) 0 (.slice (some 0) (some 3) none) (.int 1)).toOption.map
      (fun o => (o.steps, o.indexTuples.map o.entry)) =
    some ([[0, 1, 2], [1]], [none, some [1, 1], some [1, 2]]) := by
  decide +kernel

/-- Value level, for an abstract dynamics: let `F 𝒪` be the (unnormalised) system state at the
    later time when the operation `𝒪` is inserted at the earlier time, and assume `F` maps the
    adjoint operation to the adjoint state (Hermiticity preservation of the process — shown for
    OQuPy's process tensors elsewhere, C04, NOT here).  Then the anti-ordered correlation
    `tr(A · F(ρ ↦ ρB))` — what `time_order='anti'` computes with operators `[B, A]` and order
    `['right', 'left']` — is the complex conjugate of the ordered correlation of the exchanged,
    adjoint operators `tr(A† · F(ρ ↦ B†ρ))`. -/
theorem anti_conj {n : Type} [Fintype n] [DecidableEq n] {K : Type} [CommRing K] [StarRing K]
    (F : (Matrix n n K → Matrix n n K) → Matrix n n K)
    (hF : ∀ 𝒪 : Matrix n n K → Matrix n n K,
      F (fun X => (𝒪 X.conjTranspose).conjTranspose) = (F 𝒪).conjTranspose)
    (A B : Matrix n n K) :
    Matrix.trace (A * F (fun ρ => ρ * B)) =
      star (Matrix.trace (A.conjTranspose * F (fun ρ => B.conjTranspose * ρ))) := by
  have h := hF (fun ρ => B.conjTranspose * ρ)
  simp only [Matrix.conjTranspose_mul, Matrix.conjTranspose_conjTranspose] at h
  rw [← Matrix.trace_conjTranspose, Matrix.conjTranspose_mul, Matrix.conjTranspose_conjTranspose,
      ← h, Matrix.trace_mul_comm]

/-- non-vacuity of `anti_conj`: conjugation with a fixed matrix `U`,
    `F 𝒪 = U · 𝒪(ρ₀) · U†` with Hermitian `ρ₀`, satisfies the hypothesis -/
example {n : Type} [Fintype n] [DecidableEq n] {K : Type} [CommRing K] [StarRing K]
    (U ρ₀ : Matrix n n K) (hρ : ρ₀.conjTranspose = ρ₀) (𝒪 : Matrix n n K → Matrix n n K) :
    (fun 𝒪 : Matrix n n K → Matrix n n K => U * 𝒪 ρ₀ * U.conjTranspose)
        (fun X => (𝒪 X.conjTranspose).conjTranspose)
      = ((fun 𝒪 : Matrix n n K → Matrix n n K => U * 𝒪 ρ₀ * U.conjTranspose) 𝒪).conjTranspose := by
  simp only [Matrix.conjTranspose_mul, Matrix.conjTranspose_conjTranspose, hρ, Matrix.mul_assoc]

/-! ### the value of an entry -/

/-- the contraction that a list of (operator axis, state axis) pairs denotes -/
def contractPairs {n : Type} [Fintype n] {K : Type} [CommRing K]
    (pairs : List (Nat × Nat)) (O ρ : Matrix n n K) : Option K :=
  if pairs = [(0, 1), (1, 0)] then some (∑ i, ∑ j, O i j * ρ j i)
  else if pairs = [(0, 0), (1, 1)] then some (∑ i, ∑ j, O i j * ρ i j)
  else none

/-- The value stored for a step tuple is `Tr(O·ρ)`: the operator that acts last in time
    (`operators[-1]`), contracted with the state recorded at the last step — the regenerated index
    pairing of `dynamics.expectations` (a `tensordot`/`einsum` form must give the same pairing);
    the earlier operators enter as left/right superoperators through `Control.add_single` at
    their integer steps (their composition is C18's concern, the contraction C03's). -/
theorem entry_value {n : Type} [Fintype n] [DecidableEq n] {K : Type} [CommRing K]
    (O ρ : Matrix n n K) :
    contractPairs final_value_pairs O ρ = some (Matrix.trace (O * ρ)) ∧
    final_value_selection = ["corr[last_times]"] ∧
    earlier_operator_insertion =
      ["ops_order[i] == 'left'", "ops_order[i] == 'right'",
       "control.add_single(int(first_times[i]), super_operators[i])",
       "left_super(operators[i])", "right_super(operators[i])"] := by
  refine ⟨?_, by decide, by decide⟩
  rw [show final_value_pairs = [(0, 1), (1, 0)] from rfl]
  simp only [contractPairs, if_true, Matrix.trace, Matrix.diag, Matrix.mul_apply]

/-- the other pairing, `Σ O[i,j]·ρ[i,j] = Tr(Oᵀρ)`, differs for a non-symmetric operator -/
example :
    let O : Matrix (Fin 2) (Fin 2) ℚ := !![0, 1; 0, 0]
    let ρ : Matrix (Fin 2) (Fin 2) ℚ := !![0, 0; 1, 0]
    contractPairs [(0, 1), (1, 0)] O ρ = some 1 ∧ contractPairs [(0, 0), (1, 1)] O ρ = some 0 := by
  intro O ρ
  constructor <;> simp [contractPairs, O, ρ, Fin.sum_univ_two]

/-! ### `_parse_times` -/

/-- every parsed step is a step of the process tensor -/
theorem parse_in_range (maxStep : Int) (dt start : Rat) (sp : TimeSpec) (st : List Int)
    (hn : 0 ≤ maxStep) (h : parseTimes maxStep dt start sp = .ok st) :
    ∀ k ∈ st, 0 ≤ k ∧ k ≤ maxStep := by
  have hlen : (0 : Int) ≤ index_base_len maxStep := by unfold index_base_len; omega
  cases sp with
  | int k =>
    simp only [parseTimes] at h
    by_cases hb : int_out_of_bound k maxStep = true
    · rw [if_pos hb] at h; cases h
    · rw [if_neg hb] at h
      simp only [Except.ok.injEq] at h
      subst h
      simp only [int_out_of_bound, Bool.or_eq_true, decide_eq_true_eq, not_or] at hb
      intro x hx
      rw [List.mem_singleton] at hx
      subst hx
      omega
  | slice a b c =>
    simp only [parseTimes] at h
    intro x hx
    have := arangeSlice_in_range _ a b c st hlen h x hx
    unfold index_base_len at this
    omega
  | list l =>
    simp only [parseTimes] at h
    intro x hx
    have := fancyIndex_in_range _ l st h x hx
    unfold index_base_len at this
    omega
  | float t =>
    simp only [parseTimes] at h
    by_cases hb : float_out_of_bound (float_index t start dt) maxStep = true
    · rw [if_pos hb] at h; cases h
    · rw [if_neg hb] at h
      simp only [Except.ok.injEq] at h
      subst h
      simp only [float_out_of_bound, Bool.or_eq_true, decide_eq_true_eq, not_or] at hb
      intro x hx
      rw [List.mem_singleton] at hx
      subst hx
      omega
  | interval t0 t1 =>
    simp only [parseTimes] at h
    by_cases ha : interval_start_out_of_bound (interval_index_start t0 start dt) maxStep = true
    · rw [if_pos ha] at h; cases h
    · rw [if_neg ha] at h
      by_cases hb : interval_end_out_of_bound (interval_index_end t1 start dt) maxStep = true
      · rw [if_pos hb] at h; cases h
      · rw [if_neg hb] at h
        simp only [interval_start_out_of_bound, interval_end_out_of_bound, Bool.or_eq_true,
          decide_eq_true_eq, not_or] at ha hb
        unfold intervalSteps at h
        rw [show interval_via_slice = false from rfl] at h
        simp only [Bool.false_eq_true, if_false, Except.ok.injEq, interval_a, interval_b,
          interval_c, interval_direction] at h
        subst h
        intro x hx
        split at hx
        · have := mem_pyRange_pos _ _ _ x (by decide) hx
          omega
        · have := mem_pyRange_neg _ _ _ x (by decide) hx
          omega

/-- an integer step selects itself (or raises IndexError when outside `0..maxStep`) -/
theorem parse_int (maxStep : Int) (dt start : Rat) (k : Int) :
    parseTimes maxStep dt start (.int k) =
      if 0 ≤ k ∧ k ≤ maxStep then .ok [k] else .error .index := by
  simp only [parseTimes, int_out_of_bound]
  by_cases h : 0 ≤ k ∧ k ≤ maxStep
  · have : ¬ (k < 0 ∨ k > maxStep) := by omega
    simp [h, this]
  · have : (k < 0 ∨ k > maxStep) := by omega
    simp [h, this]

/-- a float time selects the nearest step (ties to even) of `(t − start)/dt` in binary64 -/
theorem parse_float (maxStep : Int) (dt start t : Rat) :
    parseTimes maxStep dt start (.float t) =
      let i := roundHalfEven (fdiv (fsub t start) dt)
      if 0 ≤ i ∧ i ≤ maxStep then .ok [i] else .error .index := by
  simp only [parseTimes, float_out_of_bound, float_index, truncInt_intCast]
  by_cases h : 0 ≤ roundHalfEven (fdiv (fsub t start) dt) ∧
      roundHalfEven (fdiv (fsub t start) dt) ≤ maxStep
  · have : ¬ (roundHalfEven (fdiv (fsub t start) dt) < 0 ∨
        roundHalfEven (fdiv (fsub t start) dt) > maxStep) := by omega
    simp [h, this]
  · have : (roundHalfEven (fdiv (fsub t start) dt) < 0 ∨
        roundHalfEven (fdiv (fsub t start) dt) > maxStep) := by omega
    simp [h, this]

/-- a list selects its entries in the given order, duplicates kept; negative entries count
    from the end (numpy) -/
theorem parse_list (maxStep : Int) (dt start : Rat) (l : List Int)
    (h : ∀ k ∈ l, -(maxStep + 1) ≤ k ∧ k ≤ maxStep) :
    parseTimes maxStep dt start (.list l) =
      .ok (l.map (fun k => if k < 0 then k + (maxStep + 1) else k)) := by
  simp only [parseTimes, index_base_len]
  exact fancyIndex_eq_map _ l (fun k hk => by have := h k hk; omega)

example : parseTimes 6 (lit 1 1) 0 (.list [5, 3, 1, 4, -1]) = .ok [5, 3, 1, 4, 6] := by decide
example : ∀ k ∈ [5, 3, 1, 4, -1], -((6 : Int) + 1) ≤ k ∧ k ≤ 6 := by decide

/-- A float interval, in either direction, selects every step from the step of its first
    end point to the step of its second end point inclusive, in that direction. -/
theorem parse_interval (maxStep : Int) (dt start t0 t1 : Rat) (st : List Int)
    (h : parseTimes maxStep dt start (.interval t0 t1) = .ok st) :
    let a := roundHalfEven (fdiv (fsub t0 start) dt)
    let b := roundHalfEven (fdiv (fsub t1 start) dt)
    (0 ≤ a ∧ a ≤ maxStep ∧ 0 ≤ b ∧ b ≤ maxStep) ∧
    st = if a ≤ b then (List.range (b - a + 1).toNat).map (fun (i : Nat) => a + (i : Int))
         else (List.range (a - b + 1).toNat).map (fun (i : Nat) => a - (i : Int)) := by
  simp only [parseTimes, interval_start_out_of_bound, interval_end_out_of_bound,
    interval_index_start, interval_index_end, truncInt_intCast] at h
  split at h
  · cases h
  · rename_i ha
    split at h
    · cases h
    · rename_i hb
      simp only [Bool.or_eq_true, decide_eq_true_eq, not_or] at ha hb
      unfold intervalSteps at h
      rw [show interval_via_slice = false from rfl] at h
      simp only [Bool.false_eq_true, if_false, Except.ok.injEq, interval_a, interval_b,
        interval_c, interval_direction] at h
      subst h
      refine ⟨by omega, ?_⟩
      by_cases hab : roundHalfEven (fdiv (fsub t0 start) dt) ≤ roundHalfEven (fdiv (fsub t1 start) dt)
      · simp only [hab, decide_true, if_true, pyRange_one]
        congr 2
        omega
      · simp only [hab, decide_false, Bool.false_eq_true, if_false]
        rw [show (-(1 : Int)) = -1 from rfl, pyRange_neg_one]
        congr 2
        omega

/-- the reversed interval ending at the start time: steps 3, 2, 1, 0 -/
example : parseTimes 5 (lit 1 1) 0 (.interval (lit 3 1) 0) = .ok [3, 2, 1, 0] := by decide +kernel
/-- what the historical `np.arange(max_step+1)[3:-1:-1]` selected: nothing -/
example : arangeSlice 6 (some 3) (some (0 + -1)) (some (-1)) = .ok [] := by decide

/-- `slice(a, b)` with `0 ≤ a ≤ b ≤ maxStep+1` selects `a, …, b−1`; `slice(None)` everything -/
theorem parse_slice_forward (maxStep : Int) (dt start : Rat) (a b : Int)
    (h : 0 ≤ a ∧ a ≤ b ∧ b ≤ maxStep + 1) :
    parseTimes maxStep dt start (.slice (some a) (some b) none) =
        .ok ((List.range (b - a).toNat).map (fun (i : Nat) => a + (i : Int))) ∧
    parseTimes maxStep dt start (.slice none none none) =
        .ok ((List.range (maxStep + 1).toNat).map (fun (i : Nat) => (i : Int))) := by
  have h1 : ¬ (a < 0) := by omega
  constructor
  · simp only [parseTimes, arangeSlice, index_base_len, Option.getD_none, adjStart, adjStop,
      clampBound, pyRange_one]
    by_cases ha : a ≥ maxStep + 1 <;> by_cases hb : b ≥ maxStep + 1 <;>
      simp [h1, ha, hb, show ¬ (b < 0) by omega] <;> (try congr 2) <;> omega
  · simp only [parseTimes, arangeSlice, index_base_len, Option.getD_none, adjStart, adjStop,
      pyRange_one]
    simp

example : (0 : Int) ≤ 1 ∧ (1 : Int) ≤ 3 ∧ (3 : Int) ≤ 5 + 1 := by decide
example : parseTimes 5 (lit 1 1) 0 (.slice (some 1) (some 3) none) = .ok [1, 2] := by decide

/-- `slice(None, None, -1)` selects every step in descending order -/
theorem parse_slice_reversed (maxStep : Int) (dt start : Rat) :
    parseTimes maxStep dt start (.slice none none (some (-1))) =
      .ok ((List.range (maxStep + 1).toNat).map (fun (i : Nat) => maxStep - (i : Int))) := by
  simp only [parseTimes, arangeSlice, index_base_len, Option.getD_some, adjStart, adjStop,
    pyRange_neg_one]
  simp

example : parseTimes 3 (lit 1 1) 0 (.slice none none (some (-1))) = .ok [3, 2, 1, 0] := by decide

/-! ### (2) the time step -/

/-- which expressions carry the time step: both the rounding of float times and the axis
    labels use `dt_`, and `dt_` is what is handed (as `dt`) through
    `_compute_ordered_nt_correlations` to `compute_dynamics`. -/
theorem dt_tables :
    parse_call_args = ["ops_times[i]", "max_step", "dt_", "start_time"] ∧ axes_dt_var = "dt_" ∧
    lookupKw "dt" ordered_call_kwargs = some "dt_" ∧
    lookupKw "dt" dynamics_call_kwargs = some "dt" ∧
    lookupKw "dt" nt_call_kwargs = some "dt" ∧
    dt_when_none = "process_tensor.dt" ∧ dt_when_given = "dt" := by
  decide

/-- A time step passed by the caller (or, without one, the stored one) governs both the
    returned axes and the dynamics: whenever the call gets as far as building propagators,
    they are built with the very `dt` that labels the axes.  (A `dt` that contradicts the one
    stored in the process tensor is refused by `compute_dynamics`.) -/
theorem dt_governs (userDt ptDt : Option Rat) (a d : Rat)
    (h : dtFlow userDt ptDt = .ok (a, d)) :
    d = a ∧ resolveDt userDt ptDt = some a ∧ (∀ u, userDt = some u → a = u) := by
  have hk1 : lookupKw "dt" ordered_call_kwargs = some "dt_" := by decide
  have hk2 : lookupKw "dt" dynamics_call_kwargs = some "dt" := by decide
  have hn : (dt_when_none == "process_tensor.dt") = true := by decide
  have hg : (dt_when_given == "dt") = true := by decide
  have harg : ∀ u p, dynamicsDtArg u p = some (resolveDt u p) := by
    intro u p
    unfold dynamicsDtArg orderedDtArg evalDtExpr
    rw [hk2, hk1]
    simp
  unfold dtFlow at h
  rw [harg] at h
  cases userDt with
  | none =>
    cases ptDt with
    | none => simp [resolveDt, hn] at h
    | some p =>
      simp [resolveDt, hn, dynamicsDt] at h
      obtain ⟨rfl, rfl⟩ := h
      simp [resolveDt, hn]
  | some u =>
    cases ptDt with
    | none =>
      simp [resolveDt, hg, dynamicsDt] at h
      obtain ⟨rfl, rfl⟩ := h
      simp [resolveDt, hg]
    | some p =>
      simp only [resolveDt, hg, if_true, dynamicsDt] at h
      by_cases hpu : p = u
      · rw [if_pos hpu] at h
        simp at h
        obtain ⟨rfl, rfl⟩ := h
        simp [resolveDt, hg]
      · rw [if_neg hpu] at h
        cases h

/-- non-vacuity: a caller-supplied `dt` with a process tensor that stores none -/
example : dtFlow (some (lit 2 1)) none = .ok (lit 2 1, lit 2 1) := by decide +kernel
example : dtFlow none (some (lit 1 1)) = .ok (lit 1 1, lit 1 1) := by decide +kernel
/-- a contradicting `dt` is refused instead of relabelling the axes -/
example : dtFlow (some (lit 2 1)) (some (lit 1 1)) = .error .dtMismatch := by decide +kernel

/-! ### (4) bath correlations derived from system correlations (oqupy/bath_dynamics.py) -/

section Bath
open OQuPyVerif.CorrelationsBath OQuPyVerif.Generated.CorrBath

/-- `Bath` stores `U` (eigenvector matrix) and `D = diag(w)` with `U·D·U† = O`, the operator it
    was given (C05's `IsDiagonalisation`, evaluated on every Bath in the correspondence).  The
    operator that `generate_system_correlations` rebuilds from them and hands to
    `compute_correlations` is that `O` — for every dimension and every such `U, D`. -/
theorem coup_op_rebuilt {n : Type} [Fintype n] [DecidableEq n] {K : Type} [CommRing K] [StarRing K]
    (U D O : Matrix n n K) (h : U * D * U.conjTranspose = O) :
    rebuiltCoupling (· * ·) U U.conjTranspose D = some O ∧
    evalFactors (· * ·) U U.conjTranspose D bath_reconstruction_factors = some O ∧
    bath_reconstructs = "tmp_coupling_operator" := by
  subst h
  exact ⟨rfl, rfl, rfl⟩

/-- the order matters: with the operands exchanged (`U†·D·U`) a rotation by a 3-4-5 angle and
    `D = diag(1, 0)` give a different operator (non-vacuity of `coup_op_rebuilt`: this `U` is
    orthogonal) -/
example :
    let U : Matrix (Fin 2) (Fin 2) ℚ := !![3/5, -4/5; 4/5, 3/5]
    let D : Matrix (Fin 2) (Fin 2) ℚ := !![1, 0; 0, 0]
    U * U.transpose = 1 ∧
    evalFactors (· * ·) U U.transpose D ["U", "D", "Ud"] = some (U * D * U.transpose) ∧
    evalFactors (· * ·) U U.transpose D ["Ud", "D", "U"] ≠ some (U * D * U.transpose) := by
  intro U D
  refine ⟨?_, rfl, ?_⟩
  · ext i j; fin_cases i <;> fin_cases j <;> simp [U, Matrix.mul_apply, Fin.sum_univ_two] <;> norm_num
  · intro h
    have h' : U.transpose * D * U = U * D * U.transpose := Option.some.inj h
    have := congrFun (congrFun h' 0) 1
    simp [U, D, Matrix.mul_apply, Fin.sum_univ_two] at this
    norm_num at this

/-- What feeds `occupation()` and `correlation()`: one `compute_correlations` call with the
    rebuilt operator as both `operator_a` and `operator_b`, default (`'ordered'`) time order, the
    object's system / process tensor / initial state, the process tensor's own `dt`, and the
    slices `[0, m)` × `[0, m)` (first call) or `[0, m)` × `[current, m)` (extension). -/
theorem sys_corr_feeds :
    lookup "operator_a" sys_corr_call = some "coup_op" ∧
    lookup "operator_b" sys_corr_call = some "coup_op" ∧
    lookup "time_order" sys_corr_call = none ∧ sys_corr_default_time_order = "'ordered'" ∧
    lookup "system" sys_corr_call = some "self.system" ∧
    lookup "process_tensor" sys_corr_call = some "self._process_tensor" ∧
    lookup "initial_state" sys_corr_call = some "self.initial_state" ∧
    lookup "times_a" sys_corr_call = some "times_a" ∧
    lookup "times_b" sys_corr_call = some "times_b" ∧
    lookup "dt" sys_corr_call = none ∧ lookup "start_time" sys_corr_call = none ∧
    sys_corr_dt_source = ["self._process_tensor.dt"] ∧
    sys_corr_times_a = ["slice(corr_mat_dim)"] ∧
    sys_corr_times_b = ["slice(corr_mat_dim)", "slice(current_corr_dim, corr_mat_dim)"] ∧
    occupation_feeds = ["self.generate_system_correlations(last_time, progress_type)",
      "self._calc_kernel(freq, last_time, freq, last_time, (1, 0))",
      "_sys_correlations.real * re_kernel + 1j * _sys_correlations.imag * im_kernel"] ∧
    correlation_feeds = ["self.generate_system_correlations(time_2, progress_type)",
      "self._calc_kernel(freq_1, time_1, freq_2, time_2, dagg)",
      "_sys_correlations.real * re_kernel + 1j * _sys_correlations.imag * im_kernel"] := by
  decide

/-- Every float time → step conversion of the bath-correlation code (`generate_system_correlations`,
    `correlation`, and `ker_dim` / `switch` of `_calc_kernel`) maps a time that lies within a quarter
    step of grid step `m` to `m` — in binary64, for every `dt` and every `|m| ≤ 2^40`; in
    particular times written as decimal literals and times computed as `k*dt`. -/
theorem bath_steps_round (t dt : Rat) (m : Int) (hm : |(m : Rat)| ≤ 2 ^ 40)
    (h : |t / dt - m| ≤ 1 / 4) :
    corr_mat_dim t dt = m ∧ correlation_corr_mat_dim t dt = m ∧ kernel_ker_dim t dt = m ∧
      kernel_switch t dt = m :=
  ⟨round_step_of_near t dt m hm h, round_step_of_near t dt m hm h,
   round_step_of_near t dt m hm h, round_step_of_near t dt m hm h⟩

/-- `occupation` integrates up to `last_time = len(process_tensor)·dt`; all conversions give
    back `len(process_tensor)`. -/
theorem bath_last_time_step (n : Int) (dt : Rat) (hdt : 0 < dt) (hn : |(n : Rat)| ≤ 2 ^ 40) :
    corr_mat_dim (occupation_last_time n dt) dt = n ∧
    kernel_ker_dim (occupation_last_time n dt) dt = n ∧
    kernel_switch (occupation_last_time n dt) dt = n :=
  ⟨(bath_steps_round _ dt n hn (last_time_near n dt hdt hn)).1,
   (bath_steps_round _ dt n hn (last_time_near n dt hdt hn)).2.2.1,
   (bath_steps_round _ dt n hn (last_time_near n dt hdt hn)).2.2.2⟩

/-- The time axis returned by `occupation()`: it has `len(process_tensor) + 1` entries — exactly
    one per returned value (one per kernel column plus the leading 0) — the k-th entry is `k·dt`
    in binary64 (the label rule of C13 with start 0), and the last one is the time up to which
    the kernels integrate.  (The historical `np.arange(0, last_time + dt, dt)` had one entry too
    many for 2, 11, 12, 14, 23, … steps.) -/
theorem occupation_axis (n : Int) (dt : Rat) (hdt : 0 < dt) (hn : |(n : Rat)| ≤ 2 ^ 40) :
    occupation_tlist_count n dt = n + 1 ∧
    occupation_tlist_count n dt = kernel_ker_dim (occupation_last_time n dt) dt + 1 ∧
    (∀ k, occupation_tlist_label n dt k = fmul (ofInt k) dt) ∧
    occupation_tlist_label n dt n = occupation_last_time n dt ∧
    occupation_values =
      ["np.cumsum(np.sum(_sys_correlations.real * re_kernel + 1j * _sys_correlations.imag * im_kernel, axis=0)).real * coup",
       "np.append([0], bath_occupation)"] := by
  refine ⟨rfl, ?_, fun _ => rfl, rfl, by decide⟩
  rw [(bath_last_time_step n dt hdt hn).2.1]
  rfl

/-- what the float-stepped range gave for 2 steps of 0.1: `ceil((0.2 + 0.1)/0.1) = 4` times -/
example : ceilInt (fdiv (fadd (fmul (ofInt 2) (lit 1 1)) (lit 1 1)) (lit 1 1)) = 4 := by
  decide +kernel
example : occupation_tlist_count 2 (lit 1 1) = 3 ∧ (0 : Rat) < lit 1 1 := by decide +kernel

/-- what `correlation()` must add to the kernel sum for the initial state of the bath mode:
    (number of thermal terms `n_th(freq_1)`, number of vacuum terms `+1`) -/
def initialSpec (changeOnly tempPos freqEqual : Bool) (d0 d1 : Nat) : Nat × Nat :=
  if !changeOnly && freqEqual && ((d0, d1) == (1, 0) || (d0, d1) == (0, 1)) then
    (if tempPos then 1 else 0, if (d0, d1) == (0, 1) then 1 else 0)
  else (0, 0)

def initialLookup (co tp fe : Bool) (d0 d1 : Nat) : Option (Nat × Nat × Nat) :=
  (correlation_initial_table.find? (fun r => r.1 == co && r.2.1 == tp && r.2.2.1 == fe &&
      r.2.2.2.1 == d0 && r.2.2.2.2.1 == d1)).map (fun r => r.2.2.2.2.2)

/-- The initial bath contribution of `correlation()` / `occupation()`, evaluated from the source for
    every combination of its conditions.  For all 32 combinations of (change_only, T > 0,
    freq_1 == freq_2, dagg): the vacuum `+1` of ⟨a a†⟩ is added exactly for `dagg = (0,1)` at equal
    frequencies with `change_only = False` — irrespective of the temperature; the thermal
    occupation `n_th` is added exactly for `dagg ∈ {(1,0), (0,1)}` at equal frequencies with
    `change_only = False` and `T > 0` (so it is 0 at `T = 0`, where the expression would divide
    by zero); nothing else is ever added; the interaction-picture phase multiplies the sum
    including these terms.  `occupation()` adds `n_th` exactly when `change_only = False`, `T > 0`. -/
theorem initial_contribution :
    (∀ co tp fe : Bool, ∀ d0 ∈ [0, 1], ∀ d1 ∈ [0, 1],
      initialLookup co tp fe d0 d1 =
        some ((initialSpec co tp fe d0 d1).1, (initialSpec co tp fe d0 d1).2, 0)) ∧
    correlation_initial_table.length = 32 ∧
    (∀ tp : Bool, initialLookup false tp true 0 1 = some (if tp then 1 else 0, 1, 0)) ∧
    (∀ tp : Bool, initialLookup false tp true 1 0 = some (if tp then 1 else 0, 0, 0)) ∧
    occupation_initial_table =
      [(false, false, 0, 0), (false, true, 1, 0), (true, false, 0, 0), (true, true, 0, 0)] ∧
    correlation_phase =
      "np.exp(1j * ((2 * dagg[0] - 1) * freq_2 * time_2 + (2 * dagg[1] - 1) * freq_1 * time_1))" := by
  decide

/-- Band widths: in `correlation()` the first width `dw[0]` multiplies `√J(freq_1)` and the second
    width `dw[1]` multiplies `√J(freq_2)`, and the kernel sum is multiplied by both, so the
    displacement part of a correlation between two bands scales as `dw[0]·dw[1]`; `occupation()`
    is linear in its single width: `dw·J(freq)`. -/
theorem band_widths {K : Type} [Field K] (d0 d1 s1 s2 dw J : K) :
    correlation_coup_1 d0 d1 s1 s2 = d0 * s1 ∧ correlation_coup_2 d0 d1 s1 s2 = d1 * s2 ∧
    correlation_coup_1 d0 d1 s1 s2 * correlation_coup_2 d0 d1 s1 s2 = (d0 * d1) * (s1 * s2) ∧
    correlation_coup_use = "<kernel sum> * coup_1 * coup_2" ∧
    occupation_coup dw J = dw * J ∧
    dw_defaults = [("correlation", "(1.0, 1.0)"), ("occupation", "1.0")] := by
  refine ⟨rfl, rfl, ?_, rfl, ?_, by decide⟩
  · unfold correlation_coup_1 correlation_coup_2; ring
  · unfold occupation_coup; ring

/-- these four are all the integer conversions in `TwoTimeBathCorrelations` -/
theorem bath_int_conversions_listed :
    bath_int_conversions = ["int(np.round(final_time / dt))", "int(np.round(time_1 / dt))",
                            "int(np.round(time_2 / dt))", "int(np.round(time_2 / dt))"] := by
  decide

/-- decimal literals on the grid, exhaustively in the kernel (non-vacuity of `bath_steps_round`,
    and the rows on which truncation instead of rounding loses a step):
    `m/10` with dt = 0.1, `5m/100` with dt = 0.05, `2m/10` with dt = 0.2, all `m ≤ 100`. -/
theorem bath_steps_literals :
    litRowOK kernel_switch (fun m => m) 1 1 1 100 = true ∧
    litRowOK kernel_ker_dim (fun m => m) 1 1 1 100 = true ∧
    litRowOK correlation_corr_mat_dim (fun m => m) 1 1 1 100 = true ∧
    litRowOK corr_mat_dim (fun m => m) 1 1 1 100 = true ∧
    litRowOK kernel_switch (fun m => 5 * m) 2 5 2 100 = true ∧
    litRowOK kernel_ker_dim (fun m => 5 * m) 2 5 2 100 = true ∧
    litRowOK kernel_switch (fun m => 2 * m) 1 2 1 100 = true ∧
    litRowOK kernel_ker_dim (fun m => 2 * m) 1 2 1 100 = true := by
  decide +kernel

example : kernel_switch (lit 3 1) (lit 1 1) = 3 ∧ kernel_switch (lit 7 1) (lit 1 1) = 7 ∧
    kernel_switch (lit 15 2) (lit 5 2) = 3 := by decide +kernel
/-- what truncation would give for the literal 0.3 with dt = 0.1 (and for 43·0.1) -/
example : truncInt (fdiv (lit 3 1) (lit 1 1)) = 2 ∧
    truncInt (fdiv (fmul (ofInt 43) (lit 1 1)) (lit 1 1)) = 42 := by decide +kernel
example : |(lit 3 1) / (lit 1 1) - ((3 : Int) : Rat)| ≤ 1 / 4 := by decide +kernel

/-- `slice(b)` with `0 ≤ b ≤ maxStep+1` selects `0, …, b−1` -/
theorem parse_slice_upto (maxStep : Int) (dt start : Rat) (b : Int) (h : 0 ≤ b ∧ b ≤ maxStep + 1) :
    parseTimes maxStep dt start (.slice none (some b) none) =
      .ok ((List.range b.toNat).map (fun (i : Nat) => (i : Int))) := by
  simp only [parseTimes, arangeSlice, index_base_len, Option.getD_none, adjStart, adjStop,
    clampBound, pyRange_one]
  by_cases hb : b ≥ maxStep + 1
  · simp [hb, show ¬ (b < 0) by omega]; (try congr 2); omega
  · simp [hb, show ¬ (b < 0) by omega]

/-- The layout of the system-correlation matrix that the kernels are multiplied with: the call
    of `generate_system_correlations` for `m` steps on top of `c` existing ones returns the
    steps `[0..m)` × `[c..m)`; by `aligned_index` its entry `[i, j]` is the ordered correlation
    for steps `(i, c+j)` when `i ≤ c+j` and NaN otherwise — an upper-triangular matrix whose
    row is the earlier time (`tkp`, exponent `b`) and whose column is the later time (`tk`,
    exponent `a`), the orientation `kernel_tk_is_column` records. -/
theorem sys_corr_steps (maxStep : Int) (dt start : Rat) (c m : Int) (o : Outcome)
    (hcm : 0 ≤ c ∧ c ≤ m ∧ m ≤ maxStep + 1)
    (h : corrNt maxStep dt start [.slice none (some m) none, .slice (some c) (some m) none] = .ok o) :
    o.steps = [(List.range m.toNat).map (fun (i : Nat) => (i : Int)),
               (List.range (m - c).toNat).map (fun (i : Nat) => c + (i : Int))] := by
  obtain ⟨hp, -⟩ := axes_grid maxStep dt start _ o h
  generalize o.steps = st at hp ⊢
  cases hp with
  | cons h1 hp =>
    cases hp with
    | cons h2 hp =>
      cases hp
      rw [parse_slice_upto maxStep dt start m ⟨by omega, by omega⟩] at h1
      rw [(parse_slice_forward maxStep dt start c m hcm).1] at h2
      simp only [Except.ok.injEq] at h1 h2
      rw [← h1, ← h2]

/-- non-vacuity: 3 steps on top of 1 existing column -/
example :
    (corrNt 4 (lit 1 1) 0 [.slice none (some 3) none, .slice (some 1) (some 3) none]).toOption.map
      (fun o => (o.steps, o.indexTuples.map o.entry)) =
    some ([[0, 1, 2], [1, 2]], [some [0, 1], some [0, 2], some [1, 1], some [1, 2], none, some [2, 2]]) := by
  decide +kernel

/-- how the kernels are assembled from the cells (`phase`), per `dagg`, and which half is kept.
    That this assembly yields the bath correlation of the displaced-oscillator model is physics
    and NOT shown here; the table is pinned so that any change of it re-opens this file. -/
theorem kernel_assembly :
    kernel_tk_is_column = true ∧
    kernel_regions = [("a", "(slice(switch), slice(switch))"),
                      ("b", "(slice(switch), slice(switch, None))"),
                      ("c", "(slice(switch, None), slice(switch, None))")] ∧
    kernel_finish = ["np.zeros((ker_dim, ker_dim), dtype=NpDtype)", "np.triu(re_kernel)",
                     "np.zeros((ker_dim, ker_dim), dtype=NpDtype)", "np.triu(im_kernel)"] ∧
    kernel_thermal = ["np.exp(-freq_1 / self._temp) / (1 - np.exp(-freq_1 / self._temp))",
                      "np.exp(-freq_2 / self._temp) / (1 - np.exp(-freq_2 / self._temp))"] ∧
    kernel_table =
     [("(0, 1) re_kernel[regions['a']]", "phase('a') + phase('a', 1)"),
      ("(0, 1) re_kernel[regions['b']]", "phase('b')"),
      ("(0, 1) im_kernel[regions['a']]", "(2 * n_1 + 1) * phase('a') - (2 * n_2 + 1) * phase('a', 1)"),
      ("(0, 1) im_kernel[regions['b']]", "(2 * n_1 + 1) * phase('b')"),
      ("(0, 1) im_kernel[regions['c']]", "-2 * (n_1 + 1) * phase('c')"),
      ("(1, 0) re_kernel[regions['a']]", "phase('a') + phase('a', 1)"),
      ("(1, 0) re_kernel[regions['b']]", "phase('b')"),
      ("(1, 0) im_kernel[regions['a']]", "(2 * n_1 + 1) * phase('a') - (2 * n_2 + 1) * phase('a', 1)"),
      ("(1, 0) im_kernel[regions['b']]", "(2 * n_1 + 1) * phase('b')"),
      ("(1, 0) im_kernel[regions['c']]", "2 * n_1 * phase('c')"),
      ("(1, 1) re_kernel[regions['a']]", "-(phase('a') + phase('a', 1))"),
      ("(1, 1) re_kernel[regions['b']]", "-phase('b')"),
      ("(1, 1) im_kernel[regions['a']]", "(2 * n_1 + 1) * phase('a') + (2 * n_2 + 1) * phase('a', 1)"),
      ("(1, 1) im_kernel[regions['b']]", "(2 * n_1 + 1) * phase('b')"),
      ("(1, 1) im_kernel[regions['c']]", "2 * (n_1 + 1) * phase('c')"),
      ("(0, 0) re_kernel[regions['a']]", "-(phase('a') + phase('a', 1))"),
      ("(0, 0) re_kernel[regions['b']]", "-phase('b')"),
      ("(0, 0) im_kernel[regions['a']]", "-((2 * n_2 + 1) * phase('a', 1) + (2 * n_1 + 1) * phase('a'))"),
      ("(0, 0) im_kernel[regions['b']]", "-(2 * n_1 + 1) * phase('b')"),
      ("(0, 0) im_kernel[regions['c']]", "-2 * n_1 * phase('c')")] := by
  decide

/-- Every off-diagonal cell of the kernels (regions a, c above the diagonal and all of region b)
    is the exact integral of `e^{a t'} e^{b t''}` over its cell
    `[tk·dt, (tk+1)·dt] × [tkp·dt, (tkp+1)·dt]`. -/
theorem kernel_cell_exact (a b : ℂ) (ha : a ≠ 0) (hb : b ≠ 0) (dt tk tkp : ℝ) :
    phase_cell_rect Complex.exp a b dt tk tkp =
      (∫ t in (tk * dt)..((tk + 1) * dt), Complex.exp (a * t)) *
        (∫ s in (tkp * dt)..((tkp + 1) * dt), Complex.exp (b * s)) ∧
    phase_cell_tri Complex.exp a b dt tk tkp = phase_cell_rect Complex.exp a b dt tk tkp := by
  refine ⟨?_, rfl⟩
  rw [cell_rect Complex.exp Complex.exp_add a b dt tk tkp ha hb,
      ← expInt_is_integral a ha, ← expInt_is_integral b hb]
  push_cast
  rfl

/-- the same identity over any field with any exponential-like `E` (e.g. the Gaussian rationals
    of the executable models) -/
theorem kernel_cell_algebraic {K : Type} [Field K] (E : K → K) (hE : ∀ x y, E (x + y) = E x * E y)
    (a b dt tk tkp : K) (ha : a ≠ 0) (hb : b ≠ 0) :
    phase_cell_rect E a b dt tk tkp =
      expInt E a (tk * dt) ((tk + 1) * dt) * expInt E b (tkp * dt) ((tkp + 1) * dt) :=
  cell_rect E hE a b dt tk tkp ha hb

/-- A diagonal cell of regions a, c with `a + b ≠ 0` is the exact integral over the triangle
    `tk·dt ≤ t'' ≤ t' ≤ (tk+1)·dt`. -/
theorem kernel_diag_exact (a b : ℂ) (ha : a ≠ 0) (hb : b ≠ 0) (hab : a + b ≠ 0) (dt s : ℝ) :
    phase_diag_generic Complex.exp a b dt s =
      ∫ t in (s * dt)..((s + 1) * dt), Complex.exp (a * t) *
        ∫ u in (s * dt)..t, Complex.exp (b * u) := by
  rw [diag_generic Complex.exp Complex.exp_add a b dt s ha hb hab,
      ← triInt_is_integral a b ha hb hab]
  push_cast
  rfl

/- FULL STATEMENT (does NOT hold for the current source):
     `a + b = 0 → phase_diag_degenerate exp a b dt s = ∫ t in s·dt..(s+1)·dt, e^{a t} ∫ u in s·dt..t, e^{b u}`.
   In the source's linear term `1 + a·sel·dt + b·(sel+1)·dt` the roles of `a` and `b` are
   exchanged.  The cell is only used with equal frequencies and one daggered operator (e.g. by
   `occupation`).  What holds, and why it is unobservable for Hermitian states: -/
/-- Degenerate diagonal cell (`a + b = 0`): (i) it differs from the exact triangle integral by
    `(b − a)·dt/(a·b)`; (ii) the sum over both operand orders — all the *real* kernel uses — is
    the exact sum of the two triangle integrals.  The *imaginary* kernel uses the difference of
    the two orders, so its diagonal is off by `2(2n+1)(b − a)dt/(ab)`; it multiplies
    `Im⟨O(t)O(t)⟩`, which vanishes for a Hermitian coupling operator and a Hermitian state. -/
theorem kernel_diag_degenerate_partial (a b : ℂ) (ha : a ≠ 0) (hab : a + b = 0) (dt s : ℝ) :
    (phase_diag_degenerate Complex.exp a b dt s =
      (∫ t in (s * dt)..((s + 1) * dt), Complex.exp (a * t) * ∫ u in (s * dt)..t, Complex.exp (b * u))
        + (b - a) * dt / (a * b)) ∧
    (phase_diag_degenerate Complex.exp a b dt s + phase_diag_degenerate Complex.exp b a dt s =
      (∫ t in (s * dt)..((s + 1) * dt), Complex.exp (a * t) * ∫ u in (s * dt)..t, Complex.exp (b * u))
      + ∫ t in (s * dt)..((s + 1) * dt), Complex.exp (b * t) * ∫ u in (s * dt)..t, Complex.exp (a * u)) := by
  have hb : b ≠ 0 := by
    intro hb; apply ha; rw [hb, add_zero] at hab; exact hab
  have hba : b + a = 0 := by rw [add_comm]; exact hab
  constructor
  · rw [diag_degenerate_defect Complex.exp Complex.exp_add Complex.exp_zero a b dt s ha hab,
        ← triIntDeg_is_integral a b ha hb hab]
    push_cast
    rfl
  · rw [diag_degenerate_sum Complex.exp Complex.exp_add Complex.exp_zero a b dt s ha hab,
        ← triIntDeg_is_integral a b ha hb hab, ← triIntDeg_is_integral b a hb ha hba]
    push_cast
    rfl

/-- non-vacuity of the kernel theorems: the exponents of `occupation` at frequency `w` -/
example (w : ℝ) (hw : w ≠ 0) :
    phase_a Complex.I (1 : ℂ) (w : ℂ) ≠ 0 ∧
      phase_a Complex.I (1 : ℂ) (w : ℂ) + phase_b Complex.I (0 : ℂ) (w : ℂ) = 0 := by
  unfold phase_a phase_b
  constructor
  · simp [hw]; norm_num
  · push_cast; ring

end Bath

end OQuPyVerif.Props.C07
