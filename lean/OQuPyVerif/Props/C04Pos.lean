/-
  C04 (positivity sector) — every state produced by a sequence of Kraus-form superoperators is a
  physical density matrix: positive semidefinite (Gram form), Hermitian, with the trace of the
  initial state.

  This covers, for every number of steps, dimension and initial state, every evolution in which
  the vectorised state is only ever multiplied by superoperators in Kraus form
  `Σ_k left_right_super(K_k, K_k†)`: the half-step propagators of `System.get_propagators`
  (closed or Lindblad; the driver evaluates `IsKrausStep`'s two residuals on the propagators the
  code really uses, with Kraus operators read off their Choi matrix), unitary and Kraus-form
  controls, and `compute_dynamics` with trivial process tensors.  With a non-trivial Gaussian bath
  the full-memory map is not a product of such steps; positivity there stays *not shown*
  (DESIGN.md §6).
-/
import OQuPyVerif.Lemmas.Positivity
import Mathlib.Tactic.IntervalCases
import Mathlib.Tactic.NormNum
import Mathlib.Algebra.Star.Rat

namespace OQuPyVerif.Props.C04
open Finset BigOperators OQuPyVerif.Positivity OQuPyVerif.MultiEnv
variable {K : Type} [CommRing K] [StarRing K]

/-- `P @ v` on vectorised states of dimension `d²` -/
def stepVec (d : ℕ) (P : ℕ → ℕ → K) (v : ℕ → K) : ℕ → K :=
  fun a => ∑ b ∈ range (d * d), P a b * v b

/-- the state after applying the superoperators `Ps` in order (first element first) -/
def runVec (d : ℕ) (Ps : List (ℕ → ℕ → K)) (v : ℕ → K) : ℕ → K :=
  Ps.foldl (fun v P => stepVec d P v) v

/-- `P = Σ_k kron(K_k, conj K_k)` with `Σ_k K_k† K_k = 1` -/
def IsKrausStep (d : ℕ) (P : ℕ → ℕ → K) : Prop :=
  ∃ (r : ℕ) (Ks : ℕ → ℕ → ℕ → K),
    (∀ a, a < d * d → ∀ b, b < d * d → P a b = krausSuper d r Ks a b) ∧
    (∀ p, p < d → ∀ q, q < d → krausDual d r Ks q p = if q = p then 1 else 0)

theorem pair_lt {d i j : ℕ} (hi : i < d) (hj : j < d) : i * d + j < d * d := by
  calc i * d + j < i * d + d := by omega
    _ = (i + 1) * d := by ring
    _ ≤ d * d := Nat.mul_le_mul_right d hi

/-- one Kraus-form step on a vectorised Gram state -/
theorem kraus_step_physical (d : ℕ) (P : ℕ → ℕ → K) (hP : IsKrausStep d P) (v : ℕ → K)
    (ρ : ℕ → ℕ → K) (hρ : IsGram d ρ) (hv : ∀ i, i < d → ∀ j, j < d → v (i * d + j) = ρ i j) :
    ∃ ρ' : ℕ → ℕ → K, IsGram d ρ' ∧
      (∀ i, i < d → ∀ j, j < d → stepVec d P v (i * d + j) = ρ' i j) ∧
      ∑ i ∈ range d, ρ' i i = ∑ i ∈ range d, ρ i i := by
  obtain ⟨r, Ks, hK, hU⟩ := hP
  refine ⟨krausMap d r Ks ρ, krausMap_gram d r Ks ρ hρ, ?_, krausMap_trace_one d r Ks ρ hU⟩
  intro i hi j hj
  rw [← krausSuper_apply d r Ks ρ i j hi hj]
  unfold stepVec
  apply Finset.sum_congr rfl; intro b hb
  have hb' := Finset.mem_range.mp hb
  have hd : 0 < d := by omega
  have hbd : b / d < d := (Nat.div_lt_iff_lt_mul hd).mpr hb'
  have hbm : b % d < d := Nat.mod_lt _ hd
  rw [hK _ (pair_lt hi hj) b hb']
  congr 1
  unfold vecOf
  rw [← hv _ hbd _ hbm, Nat.div_add_mod']

/-- **Every state along any sequence of Kraus-form steps is physical.**  For all `d`, all lists
    of superoperators in Kraus form and every Gram (positive semidefinite) initial state, the
    vectorised state after the steps is the row-major vectorisation of a Gram matrix with the
    initial trace. -/
theorem kraus_steps_physical (d : ℕ) (Ps : List (ℕ → ℕ → K)) (hPs : ∀ P ∈ Ps, IsKrausStep d P)
    (v : ℕ → K) (ρ : ℕ → ℕ → K) (hρ : IsGram d ρ)
    (hv : ∀ i, i < d → ∀ j, j < d → v (i * d + j) = ρ i j) :
    ∃ ρ' : ℕ → ℕ → K, IsGram d ρ' ∧
      (∀ i, i < d → ∀ j, j < d → runVec d Ps v (i * d + j) = ρ' i j) ∧
      ∑ i ∈ range d, ρ' i i = ∑ i ∈ range d, ρ i i := by
  induction Ps generalizing v ρ with
  | nil => exact ⟨ρ, hρ, hv, rfl⟩
  | cons P Ps ih =>
    obtain ⟨ρ1, h1, hv1, ht1⟩ :=
      kraus_step_physical d P (hPs P (List.mem_cons_self ..)) v ρ hρ hv
    obtain ⟨ρ2, h2, hv2, ht2⟩ :=
      ih (fun Q hQ => hPs Q (List.mem_cons_of_mem _ hQ)) (stepVec d P v) ρ1 h1 hv1
    exact ⟨ρ2, h2, hv2, ht2.trans ht1⟩

/-- every prefix too (each reported intermediate state) -/
theorem kraus_prefix_physical (d : ℕ) (Ps : List (ℕ → ℕ → K)) (hPs : ∀ P ∈ Ps, IsKrausStep d P)
    (n : ℕ) (v : ℕ → K) (ρ : ℕ → ℕ → K) (hρ : IsGram d ρ)
    (hv : ∀ i, i < d → ∀ j, j < d → v (i * d + j) = ρ i j) :
    ∃ ρ' : ℕ → ℕ → K, IsGram d ρ' ∧
      (∀ i, i < d → ∀ j, j < d → runVec d (Ps.take n) v (i * d + j) = ρ' i j) ∧
      ∑ i ∈ range d, ρ' i i = ∑ i ∈ range d, ρ i i :=
  kraus_steps_physical d (Ps.take n) (fun P hP => hPs P (List.mem_of_mem_take hP)) v ρ hρ hv



/-- a unitary conjugation `left_right_super(U, U†) = kron(U, conj U)` is a Kraus step (one Kraus
    operator): closed-system half-step propagators and unitary controls -/
theorem unitary_is_kraus_step (d : ℕ) (U : ℕ → ℕ → K)
    (hU : ∀ p, p < d → ∀ q, q < d → ∑ i ∈ range d, star (U i q) * U i p = if q = p then 1 else 0) :
    IsKrausStep d (fun a b => U (a / d) (b / d) * star (U (a % d) (b % d))) := by
  refine ⟨1, fun _ => U, ?_, ?_⟩
  · intro a _ b _
    simp [krausSuper, Finset.sum_range_one]
  · intro p hp q hq
    simp only [krausDual, Finset.sum_range_one]
    exact hU p hp q hq

/-- splitting a run into two calls changes nothing (the no-bath sector of C14) -/
theorem runVec_append (d : ℕ) (Ps Qs : List (ℕ → ℕ → K)) (v : ℕ → K) :
    runVec d (Ps ++ Qs) v = runVec d Qs (runVec d Ps v) := by
  unfold runVec
  rw [List.foldl_append]

/-- what Gram form means for the reported matrix: Hermitian, and its quadratic form is a sum of
    Hermitian squares (over ℂ: `v†ρv = Σ|w_c|² ≥ 0`, so no eigenvalue is negative) -/
theorem gram_is_physical (d : ℕ) (ρ : ℕ → ℕ → K) (h : IsGram d ρ) :
    (∀ i, i < d → ∀ j, j < d → star (ρ i j) = ρ j i) ∧
    (∀ v : ℕ → K, ∃ (m : ℕ) (w : ℕ → K),
      ∑ i ∈ range d, ∑ j ∈ range d, star (v i) * ρ i j * v j = ∑ c ∈ range m, w c * star (w c)) :=
  ⟨fun i hi j hj => gram_hermitian d ρ h i j hi hj, fun v => gram_quadratic_form d ρ h v⟩


/-- **States of a system coupled to an explicit (finite) quantum environment are physical.**  The
    joint state of environment ⊗ system (joint index `e*d + i`, dimension `E*d`) evolves by any list
    of Kraus-form steps (joint unitaries, system propagators ⊗ 1, channels on either factor); the
    reported reduced state — what a process tensor built from that environment, closed with its caps,
    gives at EVERY step — is of Gram form (positive semidefinite) with the initial trace. -/
theorem ancilla_states_physical (E d : ℕ) (Ps : List (ℕ → ℕ → K))
    (hPs : ∀ P ∈ Ps, IsKrausStep (E * d) P) (n : ℕ) (v : ℕ → K) (ρ : ℕ → ℕ → K)
    (hρ : IsGram (E * d) ρ)
    (hv : ∀ a, a < E * d → ∀ b, b < E * d → v (a * (E * d) + b) = ρ a b) :
    ∃ ρ' : ℕ → ℕ → K,
      (∀ a, a < E * d → ∀ b, b < E * d → runVec (E * d) (Ps.take n) v (a * (E * d) + b) = ρ' a b) ∧
      IsGram d (ptraceEnv E d ρ') ∧
      ∑ i ∈ range d, ptraceEnv E d ρ' i i = ∑ a ∈ range (E * d), ρ a a := by
  obtain ⟨ρ', hg, hrun, htr⟩ := kraus_prefix_physical (E * d) Ps hPs n v ρ hρ hv
  exact ⟨ρ', hrun, ptraceEnv_gram E d ρ' hg, (ptraceEnv_trace E d ρ').trans htr⟩

/-! non-vacuity: amplitude damping on a qubit with rational Kraus operators
    `K₀ = diag(1, 3/5)`, `K₁ = (4/5)|0⟩⟨1|` is a Kraus step, and `|+⟩⟨+|·2 = [[1,1],[1,1]]` is Gram -/

def exKs : ℕ → ℕ → ℕ → ℚ := fun k i j =>
  if k = 0 then (if i = 0 ∧ j = 0 then 1 else if i = 1 ∧ j = 1 then 3/5 else 0)
  else (if i = 0 ∧ j = 1 then 4/5 else 0)

example : IsKrausStep 2 (krausSuper 2 2 exKs) :=
  ⟨2, exKs, fun _ _ _ _ => rfl, by
    intro p hp q hq
    interval_cases p <;> interval_cases q <;>
      simp [krausDual, exKs, Finset.sum_range_succ] <;> norm_num⟩

example : IsGram 2 (fun _ _ => (1 : ℚ)) :=
  ⟨1, fun _ _ => 1, by intro i _ j _; simp⟩

end OQuPyVerif.Props.C04
