/-
  C16 — Process tensors survive export, import and file-backed computation unchanged.

  Property theorems only (helper lemmas: Lemmas/PTFile*.lean).  `flags` is regenerated from
  oqupy/process_tensor.py / oqupy/pt_tempo.py on every run (fragment FileFlags); of it these
  theorems use: the statements of `_create_file` and `export()`, the modes, the flag tests of
  `close()`/`_read_file`, `SimpleProcessTensor.set_initial_tensor` executed symbolically, and
  PtTempo's choice between a file-backed and an in-memory process tensor.

  No arithmetic is involved anywhere: tensors are (shape, flat data) and are only moved.
-/
import OQuPyVerif.Generated.FileFlags
import OQuPyVerif.Lemmas.PTFileMeta

namespace OQuPyVerif.Props.C16
open OQuPyVerif.PTFile OQuPyVerif.Generated.FileFlags

theorem hypsWrite : WriterHyps flags "write" false .x := ⟨rfl, rfl, rfl, Or.inr rfl⟩
theorem hypsOverwrite : WriterHyps flags "overwrite" true .w := ⟨rfl, rfl, rfl, Or.inl rfl⟩

/-! ### `_get_data_and_shape ∘ _set_data_and_shape` -/

/-- For every handle whose dataset pair `v` exists, every slot `step` (inside or beyond the
    current length), every tensor-or-None: after the operations `_set_data_and_shape` issues,
    `_get_data_and_shape(step)` returns `storedView t`, and every other existing slot reads as
    before. -/
theorem get_set (w : W) (c : H5) (hw : w.d = .file c) (v : VName) (hds : HasDs c v) (step : Nat)
    (t : Option Tensor) (hwf : ∀ t', t = some t' → t'.WF) :
    ∃ c', (w.setDataShape v step t).d = .file c' ∧
      getDataShape (c'.vds v) step = .ok (storedView t) ∧
      ∀ i, i ≠ step → HasRow c v i → getDataShape (c'.vds v) i = getDataShape (c.vds v) i := by
  refine ⟨c.setTensor v step t, by rw [setDataShape_d, hw]; rfl, ?_, ?_⟩
  · obtain ⟨da, sh, hd, hs⟩ := hds
    rw [vds_setTensor_same]
    exact OQuPyVerif.PTFile.get_set _ da sh hd hs step t hwf
  · intro i hi ⟨da, sh, hd, hs, h1, h2⟩
    rw [vds_setTensor_same]
    exact get_set_frame _ da sh hd hs step i t hi h1 h2

/-- `get (set None) = None` -/
theorem get_set_none : storedView none = none := rfl

/-- `get (set t) = t` for a well-formed tensor of any rank and shape, *unless* it is literally
    the sentinel, and that happens exactly for a one-entry vector holding NaN. -/
theorem get_set_tensor (t : Tensor) (h : t.WF) :
    (storedView (some t) = some t ↔ isHdf5None t = false) ∧
    (storedView (some t) = none ↔ ∃ e, t = ⟨[1], [e]⟩ ∧ e.isNan = true) := by
  refine ⟨storedView_some_iff t, ?_⟩
  rw [← sentinel_collision t h]
  unfold storedView
  cases hh : isHdf5None t <;> simp [hh]

/-- tensors of rank ≥ 2 — every MPO tensor — are never mistaken for the sentinel -/
theorem mpo_never_sentinel (t : Tensor) (h : 2 ≤ t.shape.length) : storedView (some t) = some t :=
  (storedView_some_iff t).mpr (not_sentinel_of_rank t h)

/-! ### export → import -/

theorem export_closed (env : Env) (d0 : Disk) (pt : SimplePT) (ovw : Bool) (w : W)
    (hrun : exportW flags env d0 pt ovw = .ok w) : w.d = .file (closedContent env pt) := by
  cases ovw
  · exact (export_disk (ovw := false) hypsWrite rfl rfl rfl rfl rfl env d0 pt w hrun).1
  · exact (export_disk (ovw := true) hypsOverwrite rfl rfl rfl rfl rfl env d0 pt w hrun).1

/-- **Round trip, file-backed import.**  For every process tensor (any number of MPO and cap
    tensors of any shapes, with or without dt / transforms), after `export()` onto any path
    where it succeeds, `import_process_tensor(…, 'file')` opens without warning an object with
    the same length, dt, dimension, transforms, name and description, no initial tensor, the
    same MPO tensor in every slot, the same cap tensors (and `None` beyond them), and the same
    bond dimensions. -/
theorem roundtrip_file (env : Env) (d0 : Disk) (pt : SimplePT) (ms cs : List Tensor)
    (g : GoodPT pt ms cs) (ovw : Bool) (w : W) (hrun : exportW flags env d0 pt ovw = .ok w) :
    ∃ p, importFile flags w.d = .ok (p, false) ∧
      p.info = pt.info ∧ p.length = pt.length ∧ p.getInitial = .ok none ∧
      (∀ k, k < pt.length → p.getMpo k = .ok (pt.getMpo k)) ∧
      (∀ k, p.getCap k = .ok (pt.getCap k)) ∧
      p.bondDims = pt.bondDims := by
  refine ⟨⟨pt.info, closedContent env pt⟩, ?_, rfl, ?_, file_getInitial env pt ms cs g, ?_, ?_,
    bondDims_eq env pt ms cs g⟩
  · rw [export_closed env d0 pt ovw w hrun]
    exact importFile_closed flags rfl rfl env pt ms cs g
  · rw [file_length env pt ms cs g]; unfold SimplePT.length; rw [g.mpos, List.length_map]
  · intro k hk
    have hk' : k < ms.length := by
      unfold SimplePT.length at hk; rw [g.mpos, List.length_map] at hk; exact hk
    rw [file_getMpo_lt env pt ms cs g k hk', simple_getMpo pt ms cs g k,
      List.getElem?_eq_getElem hk']
  · intro k
    rw [simple_getCap pt ms cs g k]
    by_cases hk : k < cs.length
    · rw [file_getCap_lt env pt ms cs g k hk, List.getElem?_eq_getElem hk]
    · rw [file_getCap_ge env pt ms cs g k (by omega), List.getElem?_eq_none (by omega)]

/-- The `'simple'` import copies what is stored: the MPO tensors are read with
    `transformed=False` (the new object carries the transforms itself, so reading them
    transformed would rotate them twice) and the cap tensors are copied, not recomputed.
    This is what `simpleOfFile` models; `roundtrip_simple` below is about that copy. -/
theorem import_copies_raw :
    flags.importMpoTransformed = false ∧ flags.importCopiesCaps = true := by
  decide

/-- **Round trip, in-memory import.**  `import_process_tensor(…, 'simple')` of the exported
    file returns, without warning, an object equal to the original in every field: metadata,
    MPO tensors, cap tensors, and `get_initial_tensor() = None`. -/
theorem roundtrip_simple (env : Env) (d0 : Disk) (pt : SimplePT) (ms cs : List Tensor)
    (g : GoodPT pt ms cs) (ovw : Bool) (w : W) (hrun : exportW flags env d0 pt ovw = .ok w) :
    importSimple flags w.d = .ok (pt, false) := by
  rw [export_closed env d0 pt ovw w hrun]
  exact importSimple_closed flags rfl rfl rfl env pt ms cs g

/-- **Usable.**  What `compute_dynamics` & co. require of a process tensor — no initial
    tensor, an MPO tensor of rank ≥ 2 in each of the `length` slots — holds for the object
    imported either way. -/
theorem usable (env : Env) (d0 : Disk) (pt : SimplePT) (ms cs : List Tensor)
    (g : GoodPT pt ms cs) (ovw : Bool) (w : W) (hrun : exportW flags env d0 pt ovw = .ok w) :
    (∃ s, importSimple flags w.d = .ok (s, false) ∧ s.initial = none ∧
      ∀ k, k < s.length → ∃ t, s.getMpo k = some t ∧ 2 ≤ t.shape.length) ∧
    (∃ p, importFile flags w.d = .ok (p, false) ∧ p.getInitial = .ok none ∧
      ∀ k, k < p.length → ∃ t, p.getMpo k = .ok (some t) ∧ 2 ≤ t.shape.length) := by
  have hlen : pt.length = ms.length := by unfold SimplePT.length; rw [g.mpos, List.length_map]
  constructor
  · refine ⟨pt, roundtrip_simple env d0 pt ms cs g ovw w hrun, g.initial, ?_⟩
    intro k hk
    rw [hlen] at hk
    refine ⟨ms[k], ?_, (g.mwf _ (List.getElem_mem hk)).2⟩
    rw [simple_getMpo pt ms cs g k, List.getElem?_eq_getElem hk]
  · refine ⟨⟨pt.info, closedContent env pt⟩, ?_, file_getInitial env pt ms cs g, ?_⟩
    · rw [export_closed env d0 pt ovw w hrun]
      exact importFile_closed flags rfl rfl env pt ms cs g
    · intro k hk
      rw [file_length env pt ms cs g] at hk
      exact ⟨ms[k], file_getMpo_lt env pt ms cs g k hk, (g.mwf _ (List.getElem_mem hk)).2⟩

/-! ### computing directly into a file -/

/-- **File-backed = in-memory.**  Whatever sequence of `set_*` calls a computation makes (any
    order, e.g. PT-TEMPO's reversed one; any number of tensors), the file-backed process
    tensor created in a writing mode and the in-memory one end up with the same tensor in
    every MPO and cap slot that was written, and that tensor is the last one passed. -/
theorem file_eq_memory (env : Env) (d0 : Disk) (m : Meta) (cmds : List Cmd) (hgood : GoodCmds cmds)
    (mode : String) (hmode : mode = "write" ∨ mode = "overwrite") (w : W)
    (hrun : writerW flags env d0 mode m cmds false = .ok w) :
    ∃ c, w.d = .file c ∧
      let s := cmds.foldl (simpleCmd flags) { info := m }
      (∀ k t, lastSet .mpo k cmds = some t →
        getDataShape c.mpo k = .ok (s.getMpo k) ∧ s.getMpo k = t) ∧
      (∀ k t, lastSet .cap k cmds = some t →
        getDataShape c.cap k = .ok (s.getCap k) ∧ s.getCap k = t) := by
  have key : ∀ {ovw hm} (H : WriterHyps flags mode ovw hm), _ := fun {ovw hm} H =>
    writer_open_spec H env d0 m (writerW_ok_open H env d0 m cmds false w hrun) cmds
  have hspec : w.d = .file (cmds.foldl pureCmd (freshContent env m)) := by
    rcases hmode with rfl | rfl
    · obtain ⟨rest, h1, _, _⟩ := key hypsWrite
      rw [h1] at hrun; cases hrun; rfl
    · obtain ⟨rest, h1, _, _⟩ := key hypsOverwrite
      rw [h1] at hrun; cases hrun; rfl
  refine ⟨_, hspec, ?_, ?_⟩
  · intro k t hl
    obtain ⟨h1, t', ht, h2⟩ :=
      (file_eq_memory_generic flags (freshContent env m) { info := m } cmds hgood k).1
        ⟨[], [], rfl, rfl⟩ t hl
    exact ⟨h1, by rw [h2, ht]⟩
  · intro k t hl
    obtain ⟨h1, t', ht, h2⟩ :=
      (file_eq_memory_generic flags (freshContent env m) { info := m } cmds hgood k).2
        ⟨[], [], rfl, rfl⟩ t hl
    exact ⟨h1, by rw [h2, ht]⟩

/-- PtTempo computes into a file exactly when asked (a truthy or textual
    `process_tensor_file`), under the given name when there is one, with `mode` following
    `overwrite` like `export()` does. -/
theorem pttempo_choice :
    flags.ptTempoChoice false false = .simple ∧ flags.ptTempoChoice true false = .fileTemp ∧
    (∀ truthy, flags.ptTempoChoice truthy true = .fileNamed) ∧
    (∀ ovw (other : Nat → Bool), flags.ptTempoMode ovw other = flags.exportMode ovw) ∧
    flags.exportMode false = "write" ∧ flags.exportMode true = "overwrite" := by
  refine ⟨by decide, by decide, by decide, ?_, rfl, rfl⟩
  intro ovw other
  cases ovw <;> rfl

/-! ### metadata -/

/-- the property setters of `FileProcessTensor` write the attribute they are named after,
    from the private attribute they have just assigned -/
theorem setters_sound :
    SetterOK flags.nameSetter .name .name ∧ SetterOK flags.descrSetter .description .description :=
  ⟨⟨rfl, rfl, rfl, rfl⟩, ⟨rfl, rfl, rfl, rfl⟩⟩

/-- **Name / description assigned after creation.**  For a file-backed process tensor in a
    writing mode, any interleaving of tensor writes and assignments `pt.name = …`,
    `pt.description = …` (also `None`), then `close()`: the file imports without warning as an
    object whose name, description, dimension, dt and transforms are those of the live object,
    i.e. the last values assigned — the same as an in-memory process tensor given the same
    assignments. -/
theorem meta_set_after_creation (env : Env) (d0 : Disk) (m : Meta)
    (hti : ∀ t, m.tin = some t → isHdf5None t = false)
    (hto : ∀ t, m.tout = some t → isHdf5None t = false)
    (cmds : List MCmd) (mode : String) (hmode : mode = "write" ∨ mode = "overwrite")
    (st : W × Meta) (hrun : writerM flags env d0 mode m cmds true = .ok st) :
    st.2 = cmds.foldl (metaCmd flags) m ∧
    ∃ c, st.1.d = .file c ∧ importFile flags st.1.d = .ok (⟨st.2, c⟩, false) := by
  rcases hmode with rfl | rfl
  · exact meta_roundtrip_generic hypsWrite setters_sound.1 setters_sound.2 rfl rfl rfl rfl
      env d0 m hti hto cmds st hrun
  · exact meta_roundtrip_generic hypsOverwrite setters_sound.1 setters_sound.2 rfl rfl rfl rfl
      env d0 m hti hto cmds st hrun

/-- **PT-TEMPO hands the same metadata to both representations**: the expressions building
    `transform_in` / `transform_out` (and the condition under which they are built), and every
    other constructor argument, are the same in `_init_simple_process_tensor` and
    `_init_file_process_tensor`. -/
theorem pttempo_same_metadata : flags.ptTempoFileInit = flags.ptTempoSimpleInit := by
  decide

/-! ### non-vacuity -/

def m0 : Meta := ⟨2, some (mkRat 1 10), none, none, "pt", "d"⟩
def t0 : Tensor := ⟨[1, 1, 4], [.num 1 0, .num 0 0, .num 0 0, .num 1 0]⟩
def cap0 : Tensor := ⟨[1], [.num 1 0]⟩
def pt0 : SimplePT := { info := m0, mpos := [some t0, some t0], caps := [some cap0, some cap0, some cap0] }

example : GoodPT pt0 [t0, t0] [cap0, cap0, cap0] := by
  refine ⟨rfl, rfl, rfl, ?_, ?_, ?_, ?_⟩
  · intro t ht; simp at ht; subst ht; decide
  · intro t ht; simp at ht; subst ht; decide
  · intro t ht; cases ht
  · intro t ht; cases ht

example : ∃ w, exportW flags ⟨"0.5.0"⟩ .missing pt0 false = .ok w := ⟨_, rfl⟩

/-- the sentinel collision is real: a genuine one-entry NaN cap reads back as `None` -/
example : storedView (some ⟨[1], [Entry.nan]⟩) = none := rfl

example : GoodCmds (ptTempoCmds [some t0, some t0] [some cap0, some cap0, some cap0]) := by
  intro cmd h
  simp [ptTempoCmds, enumCmds] at h
  rcases h with h | h | h | h | h <;> subst h <;>
    first | exact ⟨t0, rfl, by decide, by decide⟩ | exact ⟨cap0, rfl, by decide, by decide⟩

/-- a writer whose description is assigned after creation, between tensor writes -/
example : ∃ st, writerM flags ⟨"0.5.0"⟩ .missing "write" m0
    [.tensor (.setMpo 0 (some t0)), .setDescription (some "later"), .setName none] true = .ok st ∧
    st.2.description = "later" ∧ st.2.name = "__unnamed__" := ⟨_, rfl, rfl, rfl⟩

example : lastSet .mpo 0 (ptTempoCmds [some t0, some t0] [some cap0, some cap0, some cap0]) =
    some (some t0) := by decide

end OQuPyVerif.Props.C16
