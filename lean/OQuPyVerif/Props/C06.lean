/-
  C06 — Degeneracy reduction (unique=True) never changes results.
-/
import OQuPyVerif.Model.Degeneracy
import OQuPyVerif.Generated.UniqueSums
import OQuPyVerif.Props.C04

namespace OQuPyVerif.Props.C06
open Finset BigOperators OQuPyVerif.PathSum OQuPyVerif.Tempo OQuPyVerif.Degeneracy
variable {K : Type} [CommRing K]

/-- the representative of a class lies in the class (for indices of the range) -/
theorem repr_class (L : ℕ) (m : ℕ → ℕ) (a : ℕ) (ha : a < L) :
    firstIdx L m (m a) < L ∧ m (firstIdx L m (m a)) = m a := by
  unfold firstIdx
  have hex : ∃ x ∈ List.range L, (m x == m a) = true := ⟨a, List.mem_range.mpr ha, by simp⟩
  cases h : (List.range L).find? (fun x => m x == m a) with
  | none =>
    rw [List.find?_eq_none] at h
    obtain ⟨x, hx, hx'⟩ := hex
    exact absurd hx' (h x hx)
  | some r =>
    have hmem := List.mem_of_find?_eq_some h
    have hp := List.find?_some h
    simp only [Option.getD_some]
    exact ⟨List.mem_range.mp hmem, by simpa using hp⟩

/-- Reading a table at class representatives does not change it when
    * the table depends on the earlier index only through a key `kN` and on the later index only
      through a key `kW` (true for `influence_matrix`: `kN = (Om, Op)`, `kW = Om`), and
    * the degeneracy maps only identify indices with equal keys. -/
theorem unique_tables_eq (L : ℕ) (north west : ℕ → ℕ) {κN κW : Type} (kN : ℕ → κN) (kW : ℕ → κW)
    (tbl : ℤ → ℕ → ℕ → K) (f : ℤ → κN → κW → K) (f0 : κN → κN → K)
    (htbl : ∀ id e l, id ≠ 0 → tbl id e l = f id (kN e) (kW l))
    (htbl0 : ∀ e l, tbl 0 e l = f0 (kN e) (kN l))
    (hN : ∀ a b, a < L → b < L → north a = north b → kN a = kN b)
    (hW : ∀ a b, a < L → b < L → west a = west b → kW a = kW b)
    (id : ℤ) (e l : ℕ) (he : e < L) (hl : l < L) :
    uniqueTbl L north west tbl id e l = tbl id e l := by
  obtain ⟨he1, he2⟩ := repr_class L north e he
  obtain ⟨hl1, hl2⟩ := repr_class L north l hl
  obtain ⟨hw1, hw2⟩ := repr_class L west l hl
  unfold uniqueTbl
  split
  · rename_i h0
    subst h0
    rw [htbl0, htbl0, hN _ _ he1 he he2, hN _ _ hl1 hl hl2]
  · rename_i h0
    rw [htbl id _ _ h0, htbl id _ _ h0, hN _ _ he1 he he2, hW _ _ hw1 hl hw2]

/-- the path weight only reads the influence factors on the index range -/
theorem weight_congr_I (L : ℕ) (ρ0 : ℕ → K) (M : ℕ → ℕ → ℕ → K) (I I' : ℕ → ℕ → ℕ → ℕ → K)
    (h : ∀ n dk a c, a < L → c < L → I n dk a c = I' n dk a c) (p : List ℕ)
    (hp : ∀ x ∈ p, x < L) : weight ρ0 M I p = weight ρ0 M I' p := by
  have hrow : ∀ (n a : ℕ), a < L → ∀ (q : List ℕ), (∀ x ∈ q, x < L) → ∀ j,
      inflRow I n a j q = inflRow I' n a j q := by
    intro n a ha q
    induction q with
    | nil => intro _ j; simp [inflRow]
    | cons c cs ih =>
      intro hq j
      cases cs with
      | nil => simp [inflRow]
      | cons c' cs' =>
        simp only [inflRow]
        rw [h n j a c ha (hq c (by simp)),
            ih (fun x hx => hq x (by simp [List.mem_cons] at hx ⊢; tauto)) (j+1)]
  induction p with
  | nil => simp [weight]
  | cons a rest ih =>
    cases rest with
    | nil => simp [weight]
    | cons b rest' =>
      simp only [weight]
      rw [hrow _ a (hp a (by simp)) _ hp 0,
          ih (fun x hx => hp x (by simp [List.mem_cons] at hx ⊢; tauto))]

/-- **unique = full**: TEMPO's reported state with the reduced tables equals the state with
    the full tables — every step, every memory setting, every coincidence pattern of the
    coupling eigenvalues (including none and total degeneracy). -/
theorem unique_eq_full (L : ℕ) (north west : ℕ → ℕ) {κN κW : Type} (kN : ℕ → κN) (kW : ℕ → κW)
    (tbl : ℤ → ℕ → ℕ → K) (f : ℤ → κN → κW → K) (f0 : κN → κN → K)
    (htbl : ∀ id e l, id ≠ 0 → tbl id e l = f id (kN e) (kW l))
    (htbl0 : ∀ e l, tbl 0 e l = f0 (kN e) (kN l))
    (hN : ∀ a b, a < L → b < L → north a = north b → kN a = kN b)
    (hW : ∀ a b, a < L → b < L → west a = west b → kW a = kW b)
    (dkmax : Option ℕ) (hasAdd : Bool) (ρ0 : ℕ → K) (P1 P2 : ℕ → ℕ → ℕ → K)
    (Uin Uout : ℕ → ℕ → K) (n out : ℕ) :
    tempoState L ρ0 P1 P2 Uin Uout
        (inflOfTables dkmax hasAdd (uniqueTbl L north west tbl)) n out
      = tempoState L ρ0 P1 P2 Uin Uout (inflOfTables dkmax hasAdd tbl) n out := by
  unfold tempoState
  split
  · rfl
  · unfold pathState
    apply pathSum_congr
    intro p hp
    congr 1
    apply weight_congr_I L
    · intro n dk a c ha hc
      unfold inflOfTables
      split
      · rfl
      · exact unique_tables_eq L north west kN kW tbl f f0 htbl htbl0 hN hW _ c a hc ha
    · exact hp.2

/-- the keys of `influence_matrix`'s entries: the hypothesis `htbl` holds for the actual formula -/
theorem inflEntry_keyed (E : K → K) (reEta imEta iUnit : K) (Om Op : ℕ → K) (e l : ℕ) :
    OQuPyVerif.Props.C04.inflEntry E reEta imEta iUnit Om Op e l
      = (fun (k : K × K) (w : K) => E (-((reEta * k.1 + iUnit * imEta * k.2) * w)))
          (Om e, Op e) (Om l) := rfl

/-- non-vacuity: total degeneracy (all indices in one class) with a constant table -/
example : uniqueTbl 4 (fun _ => 0) (fun _ => 0) (fun _ _ _ => (7 : ℚ)) 1 2 3 = 7 := by
  simp [uniqueTbl]

/-! ### Closing the reduced legs (regenerated from the three `*_backend` set-up methods) -/
section Closing
open OQuPyVerif.Generated.UniqueSums

/-- Closing a reduced leg.  In the reduced network every Liouville index `a < L` feeds exactly
    one class index `m a` (the expanding dk=0 tensor is one-hot), so the contribution that reaches
    class `c` is `∑_{a : m a = c} g a`.  Closing the class leg with an all-ones vector therefore
    gives the plain sum over Liouville indices — the sum the unreduced network (and
    `tempoState`, hence `unique_eq_full`) takes. -/
theorem close_with_ones (L C : ℕ) (m : ℕ → ℕ) (hm : ∀ a, a < L → m a < C) (g : ℕ → K) :
    ∑ c ∈ range C, (fillWeight Fill.ones L m c : K) * ∑ a ∈ range L, (if m a = c then g a else 0)
      = ∑ a ∈ range L, g a := by
  simp only [fillWeight, one_mul]
  rw [Finset.sum_comm]
  apply Finset.sum_congr rfl
  intro a ha
  rw [Finset.sum_ite_eq]
  simp [hm a (Finset.mem_range.mp ha)]

/-- every closing vector the three set-up methods build — TEMPO, mean-field TEMPO and PT-TEMPO,
    reduced or not — is all ones; reduced ones have one entry per class of their own leg -/
theorem closing_vectors :
    tempo_sum_north_unique = ⟨.ones, .classCount "north"⟩ ∧
    tempo_sum_west_unique = ⟨.ones, .classCount "west"⟩ ∧
    mft_sum_north_unique = ⟨.ones, .classCount "north"⟩ ∧
    mft_sum_west_unique = ⟨.ones, .classCount "west"⟩ ∧
    pt_sum_north_unique = ⟨.ones, .classCount "north"⟩ ∧
    pt_sum_west_unique = ⟨.ones, .classCount "west"⟩ ∧
    tempo_sum_north_full = ⟨.ones, .full⟩ ∧ tempo_sum_west_full = ⟨.ones, .full⟩ ∧
    mft_sum_north_full = ⟨.ones, .full⟩ ∧ mft_sum_west_full = ⟨.ones, .full⟩ ∧
    pt_sum_north_full = ⟨.ones, .full⟩ ∧ pt_sum_west_full = ⟨.ones, .full⟩ := by
  decide

/-- … so closing any reduced leg of any of the three networks gives the plain Liouville sum -/
theorem reduced_legs_close_to_plain_sum (L C : ℕ) (m : ℕ → ℕ) (hm : ∀ a, a < L → m a < C)
    (g : ℕ → K) (v : CloseVec)
    (hv : v ∈ [tempo_sum_north_unique, tempo_sum_west_unique, mft_sum_north_unique,
               mft_sum_west_unique, pt_sum_north_unique, pt_sum_west_unique]) :
    ∑ c ∈ range C, (fillWeight v.fill L m c : K) * ∑ a ∈ range L, (if m a = c then g a else 0)
      = ∑ a ∈ range L, g a := by
  have hfill : v.fill = Fill.ones := by
    obtain ⟨h1, h2, h3, h4, h5, h6, _⟩ := closing_vectors
    simp only [List.mem_cons, List.mem_nil_iff, or_false] at hv
    rcases hv with h | h | h | h | h | h <;> rw [h] <;> simp [*]
  rw [hfill]
  exact close_with_ones L C m hm g

/-- non-vacuity / why it matters: with class sizes as weights the closed leg over-counts
    (two indices in one class, `g ≡ 1`: 4 instead of 2) -/
example : ∑ c ∈ range 1, (fillWeight Fill.classSizes 2 (fun _ => 0) c : ℚ)
      * ∑ a ∈ range 2, (if (fun _ : ℕ => 0) a = c then (1 : ℚ) else 0) = 4 := by
  simp [fillWeight, Finset.sum_range_succ]; norm_num

end Closing

end OQuPyVerif.Props.C06
