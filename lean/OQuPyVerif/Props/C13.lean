/-
  C13 — Computations cover exactly the requested time grid and label states correctly.

  Property theorems only (helper lemmas live in Lemmas/).  Everything named
  `Generated.StepCount.*` is regenerated from /repo's source on every run, so
  these theorems are re-checked against what the code says now.
-/
import OQuPyVerif.Generated.StepCount
import OQuPyVerif.Lemmas.TimeGrid
import OQuPyVerif.Props.C13Rows.Q0
import OQuPyVerif.Props.C13Rows.Q1
import OQuPyVerif.Props.C13Rows.Q2
import OQuPyVerif.Props.C13Rows.Q3

namespace OQuPyVerif.Props.C13
open OQuPyVerif.FloatModel OQuPyVerif.TimeGrid OQuPyVerif.Generated.StepCount

/-- The label the property demands for the state after `k` steps:
    `start_time + k·dt`, evaluated in binary64 like the documentation writes it. -/
def gridTime (s dt : Rat) (k : Int) : Rat := fadd s (fmul (ofInt k) dt)

/-! ### Labels: every API labels step `k` with `start + k·dt` -/

theorem labels_tempo (s dt : Rat) (k : Int) : tempo_time s dt k = gridTime s dt k := rfl
theorem labels_mft (s dt : Rat) (k : Int) : mft_time s dt k = gridTime s dt k := rfl

theorem labels_tebd (s dt : Rat) (k0 k : Int) : tebd_time s dt k0 k = gridTime s dt (k - k0) := by
  unfold tebd_time gridTime fmul
  rw [Rat.mul_comm]

theorem labels_cd_all (s dt : Rat) (n len k : Int) : cd_label_all s dt n len k = gridTime s dt k := rfl
theorem labels_cdwf_all (s dt : Rat) (n len k : Int) : cdwf_label_all s dt n len k = gridTime s dt k := rfl
theorem labels_grad_all (s dt : Rat) (n len k : Int) : grad_label_all s dt n len k = gridTime s dt k := rfl

/-- with `record_all = True` there is one label per recorded state -/
theorem label_count (n len : Int) :
    cd_label_count n len = len ∧ cdwf_label_count n len = len ∧ grad_label_count n len = len :=
  ⟨rfl, rfl, rfl⟩

/-- "also when only the final state is recorded": the single label is that of step `n`
    (whatever the length of the internal state list). -/
theorem label_final_cd (s dt : Rat) (n len : Int) : cd_label_final s dt n len = gridTime s dt n := rfl
theorem label_final_cdwf (s dt : Rat) (n len : Int) : cdwf_label_final s dt n len = gridTime s dt n := rfl
theorem label_final_grad (s dt : Rat) (n len : Int) : grad_label_final s dt n len = gridTime s dt n := rfl

/-! ### Step counts: all three `end_time` APIs use one rule -/

theorem num_step_tempo (s dt e : Rat) (k : Int) :
    tempo_num_step s dt k e = max 0 (get_number_of_steps s e dt - k) := rfl
theorem num_step_mft (s dt e : Rat) (k : Int) :
    mft_num_step s dt k e = max 0 (get_number_of_steps s e dt - k) := rfl
/-- "a process tensor built for the same interval has length n" -/
theorem pt_length (s dt e : Rat) : pt_num_steps s dt e = get_number_of_steps s e dt := rfl

/-- Finite lattice, exhaustive in the kernel (quick tier: 4 rows × 1001 end literals; the
    thorough tier checks 48 rows, see Props/C13Lattice.lean): for these decimal literals the
    count of Tempo, MeanFieldTempo and PtTempo is exactly `m` for every `m ≤ 1000`. -/
theorem grid_lattice_quick :
    GridLattice.rowOK 0 0 1 1 1000 = true ∧ GridLattice.rowOK 5 1 1 2 1000 = true ∧
    GridLattice.rowOK (-3) 1 2 1 1000 = true ∧ GridLattice.rowOK 17 1 5 2 1000 = true :=
  ⟨C13Rows.q0, C13Rows.q1, C13Rows.q2, C13Rows.q3⟩

/-- the historical failure `int((0.3-0.0)/0.1) = 2` is an instance: now 3 steps. -/
example : tempo_num_step 0 (lit 1 1) 0 (lit 3 1) = 3 := by decide +kernel

/-! ### Times and states stay sorted and aligned -/

/-- any `Dynamics.add` keeps the time list sorted, keeps both lists the same length, and the
    stored (time, state) pairs are exactly the old ones plus the new one. -/
theorem dynamics_sorted_aligned {σ} (d : Dyn σ) (t : Rat) (x : σ)
    (hs : Sorted d.times) (hl : d.times.length = d.states.length) :
    Sorted (dynAdd d t x).times ∧
    (dynAdd d t x).times.length = (dynAdd d t x).states.length ∧
    (dynAdd d t x).pairs.Perm ((t, x) :: d.pairs) := by
  refine ⟨insert_sorted _ _ hs, ?_, ?_⟩
  · unfold dynAdd
    simp only []
    rw [insertAt_length _ _ _ (bisectRight_le _ _),
        insertAt_length _ _ _ (by rw [← hl]; exact bisectRight_le _ _), hl]
  · unfold dynAdd Dyn.pairs
    simp only []
    rw [zip_insertAt _ _ _ _ _ hl]
    exact insertAt_perm _ _ _

/-- … hence for every sequence of `add` calls (induction over the history). -/
theorem dynamics_sorted_aligned_all {σ} (ops : List (Rat × σ)) :
    let d := ops.foldl (fun d p => dynAdd d p.1 p.2) (Dyn.empty : Dyn σ)
    Sorted d.times ∧ d.times.length = d.states.length ∧ d.pairs.Perm ops.reverse := by
  suffices h : ∀ (d0 : Dyn σ) (l0 : List (Rat × σ)), Sorted d0.times →
      d0.times.length = d0.states.length → d0.pairs.Perm l0 →
      let d := ops.foldl (fun d p => dynAdd d p.1 p.2) d0
      Sorted d.times ∧ d.times.length = d.states.length ∧ d.pairs.Perm (ops.reverse ++ l0) by
    simpa using h Dyn.empty [] (by simp [Sorted, Dyn.empty]) (by simp [Dyn.empty])
      (by simp [Dyn.pairs, Dyn.empty])
  induction ops with
  | nil => intro d0 l0 hs hl hp; exact ⟨hs, hl, by simpa using hp⟩
  | cons p ps ih =>
    intro d0 l0 hs hl hp
    obtain ⟨h1, h2, h3⟩ := dynamics_sorted_aligned d0 p.1 p.2 hs hl
    have := ih (dynAdd d0 p.1 p.2) (p :: l0) h1 h2 (h3.trans (List.Perm.cons _ hp))
    simpa [List.foldl_cons] using this

/-- The grid theorem for the continuing methods (`Tempo`, `MeanFieldTempo`): after ANY
    non-empty sequence of `compute(end_time)` calls the dynamics hold exactly the states of
    steps `0..n`, each labelled with its own grid time, in order; `n` is the step reached.
    Hypothesis: labels are weakly increasing in the step (true for `gridTime` with `dt > 0`,
    `FloatGrid.gridTime_mono`). -/
theorem compute_history_grid (numStep : Int → Rat → Int) (time : Int → Rat)
    (hm : ∀ a b : Int, a ≤ b → time a ≤ time b) (e : Rat) (es : List Rat) :
    let st := computeAll numStep time (e :: es)
    st.step = some ((reach numStep (e :: es) : Nat) : Int) ∧
    st.dyn.pairs = gridPairs time (reach numStep (e :: es)) := by
  have h0 := compute_good_init numStep time hm e
  have h := foldl_good numStep time hm es _ _ h0
  unfold computeAll reach
  simp only [List.foldl_cons]
  refine ⟨h.1, ?_⟩
  rw [h.2, gridDyn_pairs]
  rfl

/-- non-vacuity: a concrete 3-call history on the 0.1-grid reaches step 5 with 6 labelled states -/
example :
    (computeAll (tempo_num_step 0 (lit 1 1)) (tempo_time 0 (lit 1 1))
      [lit 3 1, lit 2 1, lit 5 1]).dyn.times.length = 6 := by decide +kernel

end OQuPyVerif.Props.C13
