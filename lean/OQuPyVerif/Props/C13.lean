/-
  C13 — Computations cover exactly the requested time grid and label states correctly.

  Property theorems only (helper lemmas live in Lemmas/).  Everything named
  `Generated.StepCount.*` is regenerated from /repo's source on every run, so
  these theorems are re-checked against what the code says now.
-/
import OQuPyVerif.Generated.StepCount
import OQuPyVerif.Generated.DynamicsAdd
import OQuPyVerif.Lemmas.TimeGrid
import OQuPyVerif.Lemmas.FloatGrid
import OQuPyVerif.Lemmas.MfDynamics
import OQuPyVerif.Props.C13Rows.Q0
import OQuPyVerif.Props.C13Rows.Q1
import OQuPyVerif.Props.C13Rows.Q2
import OQuPyVerif.Props.C13Rows.Q3

namespace OQuPyVerif.Props.C13
open OQuPyVerif.FloatModel OQuPyVerif.TimeGrid OQuPyVerif.Generated.StepCount

/-- The label the property demands for the state after `k` steps:
    `start_time + k·dt`, evaluated in binary64 like the documentation writes it. -/
def gridTime (s dt : Rat) (k : Int) : Rat := fadd s (fmul (ofInt k) dt)

/-! ### Labels: every API labels step `k` with `start + k·dt` -/

theorem labels_tempo (s dt : Rat) (k : Int) : tempo_time s dt k = gridTime s dt k := rfl
theorem labels_mft (s dt : Rat) (k : Int) : mft_time s dt k = gridTime s dt k := rfl

theorem labels_tebd (s dt : Rat) (k0 k : Int) : tebd_time s dt k0 k = gridTime s dt (k - k0) := by
  unfold tebd_time gridTime fmul
  rw [Rat.mul_comm]

theorem labels_cd_all (s dt : Rat) (n len k : Int) : cd_label_all s dt n len k = gridTime s dt k := rfl
theorem labels_cdwf_all (s dt : Rat) (n len k : Int) : cdwf_label_all s dt n len k = gridTime s dt k := rfl
theorem labels_grad_all (s dt : Rat) (n len k : Int) : grad_label_all s dt n len k = gridTime s dt k := rfl

/-- with `record_all = True` there is one label per recorded state -/
theorem label_count (n len : Int) :
    cd_label_count n len = len ∧ cdwf_label_count n len = len ∧ grad_label_count n len = len :=
  ⟨rfl, rfl, rfl⟩

/-- "also when only the final state is recorded": the single label is that of step `n`
    (whatever the length of the internal state list). -/
theorem label_final_cd (s dt : Rat) (n len : Int) : cd_label_final s dt n len = gridTime s dt n := rfl
theorem label_final_cdwf (s dt : Rat) (n len : Int) : cdwf_label_final s dt n len = gridTime s dt n := rfl
theorem label_final_grad (s dt : Rat) (n len : Int) : grad_label_final s dt n len = gridTime s dt n := rfl

/-! ### Step counts: all three `end_time` APIs use one rule -/

theorem num_step_tempo (s dt e : Rat) (k : Int) :
    tempo_num_step s dt k e = max 0 (get_number_of_steps s e dt - k) := rfl
theorem num_step_mft (s dt e : Rat) (k : Int) :
    mft_num_step s dt k e = max 0 (get_number_of_steps s e dt - k) := rfl
/-- "a process tensor built for the same interval has length n" -/
theorem pt_length (s dt e : Rat) : pt_num_steps s dt e = get_number_of_steps s e dt := rfl

/-- Unbounded grid theorem, for ANY rounding function with relative error `≤ u ≤ 2⁻³²`
    (binary64 has `u = 2⁻⁵³`: `FloatGrid.rnd_err`): if the requested end is the grid point
    `s + m·dt` up to `η·dt` with `η ≤ 2⁻³²` — which covers an end time written as a decimal
    literal or computed as `s + m*dt` whenever `(|s|/dt + m)·2⁻⁵² ≤ 2⁻³²` — the step count is
    exactly `m`, for every `m ≤ 2²⁰`.  Proved in Lemmas/FloatGrid.lean on the abstract algorithm
    `stepsAlg`; `steps_abstract_eq` shows the generated code *is* that algorithm. -/
theorem grid_general (rnd' : Rat → Rat) (u : Rat) (hu0 : 0 ≤ u) (hu : u ≤ 1 / 2 ^ 32)
    (hr : ∀ x, |rnd' x - x| ≤ u * |x|) (s e dt : Rat) (m : Nat) (hdt : 0 < dt)
    (hm : (m : Rat) ≤ 2 ^ 20) (η : Rat) (hη : η ≤ 1 / 2 ^ 32)
    (hclose : |e - (s + m * dt)| ≤ η * dt) : OQuPyVerif.FloatGrid.stepsAlg rnd' s e dt = m :=
  OQuPyVerif.FloatGrid.steps_on_grid rnd' u hu0 hu hr s e dt m hdt hm η hη hclose

/-- the generated helper is the abstract algorithm instantiated with the binary64 model -/
theorem steps_abstract_eq (s e dt : Rat) :
    get_number_of_steps s e dt = OQuPyVerif.FloatGrid.stepsAlg rnd s e dt :=
  OQuPyVerif.FloatGrid.steps_abstract_eq s e dt

/-- … instantiated: the code's count, in the binary64 model, for every start, dt > 0, m ≤ 2²⁰. -/
theorem grid_general_binary64 (s e dt : Rat) (m : Nat) (hdt : 0 < dt)
    (hm : (m : Rat) ≤ 2 ^ 20) (η : Rat) (hη : η ≤ 1 / 2 ^ 32)
    (hclose : |e - (s + m * dt)| ≤ η * dt) :
    tempo_num_step s dt 0 e = m ∧ mft_num_step s dt 0 e = m ∧ pt_num_steps s dt e = m := by
  have h := OQuPyVerif.FloatGrid.steps_on_grid_binary64 s e dt m hdt hm η hη hclose
  refine ⟨?_, ?_, ?_⟩
  · rw [num_step_tempo, h]; simp
  · rw [num_step_mft, h]; simp
  · rw [pt_length, h]

/-- off-grid ends: when the exact quotient `q = (e-s)/dt ≥ 0` is at least `δ` away from every
    integer (δ large against the 1e-9 tolerance) the count is `⌊q⌋`,
    "the number of whole steps that fit". -/
theorem grid_general_floor (s e dt : Rat) (hdt : 0 < dt)
    (q : Rat) (hq : q = (e - s) / dt) (hq0 : 0 ≤ q)
    (δ : Rat) (hδ : 2 * (OQuPyVerif.FloatGrid.tolQ + 4 * (1 / 2 ^ 53)) * (q + 1) ≤ δ)
    (hfar : ∀ n : Int, δ ≤ |q - n|) : get_number_of_steps s e dt = ⌊q⌋ :=
  OQuPyVerif.FloatGrid.steps_off_grid_binary64 s e dt hdt q hq hq0 δ hδ hfar

/-- non-vacuity of the off-grid theorem: end 0.35 with dt 0.1 from 0 gives 3 steps -/
example : get_number_of_steps 0 (7/20) (1/10) = 3 := by decide +kernel

/-- labels increase with the step (dt ≥ 0), so the recorded grid is sorted -/
theorem labels_monotone (s dt : Rat) (hdt : 0 ≤ dt) (a b : Int) (h : a ≤ b) :
    gridTime s dt a ≤ gridTime s dt b := OQuPyVerif.FloatGrid.gridTime_mono s dt hdt a b h

/-- Finite lattice, exhaustive in the kernel (quick tier: 4 rows × 1001 end literals; the
    thorough tier checks 48 rows, see Props/C13Lattice.lean): for these decimal literals the
    count of Tempo, MeanFieldTempo and PtTempo is exactly `m` for every `m ≤ 1000`. -/
theorem grid_lattice_quick :
    GridLattice.rowOK 0 0 1 1 1000 = true ∧ GridLattice.rowOK 5 1 1 2 1000 = true ∧
    GridLattice.rowOK (-3) 1 2 1 1000 = true ∧ GridLattice.rowOK 17 1 5 2 1000 = true :=
  ⟨C13Rows.q0, C13Rows.q1, C13Rows.q2, C13Rows.q3⟩

/-- the historical failure `int((0.3-0.0)/0.1) = 2` is an instance: now 3 steps. -/
example : tempo_num_step 0 (lit 1 1) 0 (lit 3 1) = 3 := by decide +kernel

/-! ### Times and states stay sorted and aligned -/

/-- any `Dynamics.add` keeps the time list sorted, keeps both lists the same length, and the
    stored (time, state) pairs are exactly the old ones plus the new one. -/
theorem dynamics_sorted_aligned {σ} (d : Dyn σ) (t : Rat) (x : σ)
    (hs : Sorted d.times) (hl : d.times.length = d.states.length) :
    Sorted (dynAdd d t x).times ∧
    (dynAdd d t x).times.length = (dynAdd d t x).states.length ∧
    (dynAdd d t x).pairs.Perm ((t, x) :: d.pairs) := by
  refine ⟨insert_sorted _ _ hs, ?_, ?_⟩
  · unfold dynAdd
    simp only []
    rw [insertAt_length _ _ _ (bisectRight_le _ _),
        insertAt_length _ _ _ (by rw [← hl]; exact bisectRight_le _ _), hl]
  · unfold dynAdd Dyn.pairs
    simp only []
    rw [zip_insertAt _ _ _ _ _ hl]
    exact insertAt_perm _ _ _

/-- … hence for every sequence of `add` calls (induction over the history). -/
theorem dynamics_sorted_aligned_all {σ} (ops : List (Rat × σ)) :
    let d := ops.foldl (fun d p => dynAdd d p.1 p.2) (Dyn.empty : Dyn σ)
    Sorted d.times ∧ d.times.length = d.states.length ∧ d.pairs.Perm ops.reverse := by
  suffices h : ∀ (d0 : Dyn σ) (l0 : List (Rat × σ)), Sorted d0.times →
      d0.times.length = d0.states.length → d0.pairs.Perm l0 →
      let d := ops.foldl (fun d p => dynAdd d p.1 p.2) d0
      Sorted d.times ∧ d.times.length = d.states.length ∧ d.pairs.Perm (ops.reverse ++ l0) by
    simpa using h Dyn.empty [] (by simp [Sorted, Dyn.empty]) (by simp [Dyn.empty])
      (by simp [Dyn.pairs, Dyn.empty])
  induction ops with
  | nil => intro d0 l0 hs hl hp; exact ⟨hs, hl, by simpa using hp⟩
  | cons p ps ih =>
    intro d0 l0 hs hl hp
    obtain ⟨h1, h2, h3⟩ := dynamics_sorted_aligned d0 p.1 p.2 hs hl
    have := ih (dynAdd d0 p.1 p.2) (p :: l0) h1 h2 (h3.trans (List.Perm.cons _ hp))
    simpa [List.foldl_cons] using this

/-- The grid theorem for the continuing methods (`Tempo`, `MeanFieldTempo`): after ANY
    non-empty sequence of `compute(end_time)` calls the dynamics hold exactly the states of
    steps `0..n`, each labelled with its own grid time, in order; `n` is the step reached.
    Hypothesis: labels are weakly increasing in the step (true for `gridTime` with `dt > 0`,
    `FloatGrid.gridTime_mono`). -/
theorem compute_history_grid (numStep : Int → Rat → Int) (time : Int → Rat)
    (hm : ∀ a b : Int, a ≤ b → time a ≤ time b) (e : Rat) (es : List Rat) :
    let st := computeAll numStep time (e :: es)
    st.step = some ((reach numStep (e :: es) : Nat) : Int) ∧
    st.dyn.pairs = gridPairs time (reach numStep (e :: es)) := by
  have h0 := compute_good_init numStep time hm e
  have h := foldl_good numStep time hm es _ _ h0
  unfold computeAll reach
  simp only [List.foldl_cons]
  refine ⟨h.1, ?_⟩
  rw [h.2, gridDyn_pairs]
  rfl

/-- non-vacuity: a concrete 3-call history on the 0.1-grid reaches step 5 with 6 labelled states -/
example :
    (computeAll (tempo_num_step 0 (lit 1 1)) (tempo_time 0 (lit 1 1))
      [lit 3 1, lit 2 1, lit 5 1]).dyn.times.length = 6 := by decide +kernel


/-! ### `MeanFieldDynamics.add` / `Dynamics.add`: the statement lists regenerated from the source -/
section AddOps
open OQuPyVerif.MfDynamics OQuPyVerif.Generated.DynamicsAdd

/-- the regenerated statements of `MeanFieldDynamics.add` put time and field into the SAME slot
    — the bisect position of the time in the OLD time list — and hand every system its state -/
theorem mfd_add_is_spec (s : MfSt) (t : Rat) (states : List Int) (f : Int) :
    mfAdd s t states f = mfAddSpec s t states f := by
  simp [mfAdd, mfd_add_ops, mfRun, mfAddSpec]

/-- the regenerated statements of `Dynamics.add` are the model `dynAdd` -/
theorem dynamics_add_is_dynAdd (d : Dyn Int) (t : Rat) (x : Int) :
    (dynRun t x dynamics_add_ops (d, 0)).1 = dynAdd d t x := by
  simp [dynamics_add_ops, dynRun, dynAdd]

/-- **Times, fields and all systems' states stay sorted and aligned** for every history of
    `MeanFieldDynamics.add` calls in any order of times (`m` systems). -/
theorem mfd_sorted_aligned (m : Nat) (hist : List (Rat × List Int × Int))
    (hlen : ∀ e ∈ hist, e.2.1.length = m) :
    Aligned m (hist.foldl (fun s e => mfAdd s e.1 e.2.1 e.2.2) MfSt.empty) := by
  have : (fun s (e : Rat × List Int × Int) => mfAdd s e.1 e.2.1 e.2.2)
      = (fun s e => mfAddSpec s e.1 e.2.1 e.2.2) := by
    funext s e; exact mfd_add_is_spec s e.1 e.2.1 e.2.2
  rw [this]
  exact aligned_history m hist hlen

/-- non-vacuity: three out-of-order adds with two systems -/
example : ((([( (3:Rat), [30, 31], (300:Int)), (1, [10, 11], 100), (2, [20, 21], 200)] :
      List (Rat × List Int × Int)).foldl (fun s e => mfAdd s e.1 e.2.1 e.2.2) MfSt.empty).fields)
    = [100, 200, 300] := by decide +kernel

end AddOps

/-- … hence `compute_history_grid` applies to the generated Tempo functions outright:
    after any non-empty history of `compute` calls, `Tempo`'s dynamics are exactly the grid. -/
theorem tempo_history_grid (s dt : Rat) (hdt : 0 ≤ dt) (e : Rat) (es : List Rat) :
    let st := computeAll (tempo_num_step s dt) (tempo_time s dt) (e :: es)
    st.dyn.pairs = gridPairs (gridTime s dt) (reach (tempo_num_step s dt) (e :: es)) :=
  (compute_history_grid (tempo_num_step s dt) (tempo_time s dt)
    (fun a b h => labels_monotone s dt hdt a b h) e es).2

/-! ### PtTebd.compute and the `num_steps` of the dynamics functions (regenerated) -/

/-- `PtTebd.compute(end_step)` stops exactly at `end_step` (or stays where it is when that step has
    already been passed), whatever the constructor's start step and however many `compute` calls
    came before: the regenerated count of `compute_step()` calls added to the current step gives
    `max cur end_step`. -/
theorem tebd_compute_reaches (ks cur e : Int) :
    cur + tebd_compute_steps ks cur e = max cur e := by
  unfold tebd_compute_steps
  simp only
  omega

/-- the count is never negative (the loop cannot "run backwards") -/
theorem tebd_compute_steps_nonneg (ks cur e : Int) : 0 ≤ tebd_compute_steps ks cur e := by
  unfold tebd_compute_steps
  simp only
  omega

/-- … hence `compute_history_grid` applies to PtTebd with steps counted from the start step:
    after any non-empty history of `compute(end_step)` calls the recorded times are exactly the
    grid `start_time + j·dt`, `j = 0 … (max of the requested end steps) − start_step`. -/
theorem tebd_history_grid (s dt : Rat) (hdt : 0 ≤ dt) (ks : Int) (e : Rat) (es : List Rat) :
    let numStep := fun (j : Int) (t : Rat) => tebd_compute_steps ks (ks + j) t.floor
    let time := fun (j : Int) => tebd_time s dt ks (ks + j)
    let st := computeAll numStep time (e :: es)
    st.dyn.pairs = gridPairs (gridTime s dt) (reach numStep (e :: es)) := by
  intro numStep time
  have ht : time = gridTime s dt := by
    funext j
    show tebd_time s dt ks (ks + j) = gridTime s dt j
    rw [labels_tebd]
    congr 1
    omega
  rw [ht]
  exact (compute_history_grid numStep (gridTime s dt)
    (fun a b h => labels_monotone s dt hdt a b h) e es).2

/-- An explicitly given `num_steps` (zero included) that fits the process tensors is the number of
    steps taken by compute_dynamics / compute_dynamics_with_field / compute_gradient_and_dynamics. -/
theorem cd_num_steps_given (n : Int) (m : Option Int) (h : ∀ k, m = some k → n ≤ k) :
    cd_resolve_num_steps (some n) m = .ok n := by
  unfold cd_resolve_num_steps
  cases m with
  | none => simp
  | some k => simp [h k rfl]

/-- `num_steps = None` means the whole (shortest finite) process tensor -/
theorem cd_num_steps_default (m : Int) : cd_resolve_num_steps none (some m) = .ok m := by
  unfold cd_resolve_num_steps
  simp

/-- a request longer than the shortest process tensor is refused, never silently shortened -/
theorem cd_num_steps_too_long (n m : Int) (h : m < n) :
    ∃ msg, cd_resolve_num_steps (some n) (some m) = .error msg := by
  unfold cd_resolve_num_steps
  simp [Int.not_le.mpr h]

/-- non-vacuity: zero steps, given explicitly, next to a 4-step process tensor -/
example : cd_resolve_num_steps (some 0) (some 4) = .ok 0 := by decide
example : (3 : Int) + tebd_compute_steps 0 3 5 = 5 ∧ (5 : Int) + tebd_compute_steps 0 5 5 = 5 := by decide

/-! ### Reading times / states between adds (regenerated getter kinds) -/
section Views
open OQuPyVerif.Generated.DynamicsAdd

/-- with getters that build their array from the live lists, every read in any history of adds
    and reads returns the lists of the dynamics as it is at that moment -/
theorem live_reads_current {σ} (v : DynView σ) (ops : List (ViewOp σ)) :
    ∀ r ∈ DynView.run .live .live v ops,
      r.1 = .inl r.2.times ∨ r.1 = .inr r.2.states := by
  induction ops generalizing v with
  | nil => intro r hr; simp [DynView.run] at hr
  | cons op ops ih =>
    intro r hr
    cases op with
    | add t x =>
      simp only [DynView.run, DynView.step] at hr
      exact ih _ r hr
    | readTimes =>
      simp only [DynView.run, DynView.step, List.mem_cons] at hr
      rcases hr with h | h
      · left; rw [h]
      · exact ih _ r h
    | readStates =>
      simp only [DynView.run, DynView.step, List.mem_cons] at hr
      rcases hr with h | h
      · right; rw [h]
      · exact ih _ r h

/-- … which is how `Dynamics.times`, `Dynamics.states`, `MeanFieldDynamics.times` and
    `MeanFieldDynamics.fields` are written: times and states handed out after a continued
    computation are those of the whole history, aligned. -/
theorem dynamics_views_current {σ} (v : DynView σ) (ops : List (ViewOp σ)) :
    (∀ r ∈ DynView.run dynamics_times_read dynamics_states_read v ops,
      r.1 = .inl r.2.times ∨ r.1 = .inr r.2.states) ∧
    mfd_times_read = .live ∧ mfd_fields_read = .live := by
  refine ⟨?_, by decide, by decide⟩
  have h1 : dynamics_times_read = .live := by decide
  have h2 : dynamics_states_read = .live := by decide
  rw [h1, h2]
  exact live_reads_current v ops

/-- why it matters: a build-once getter hands out the OLD states after a later add -/
example : (DynView.run .live .memo (DynView.empty : DynView Int)
    [.add 0 10, .readStates, .add 1 11, .readStates]).map (·.1)
      = [.inr [10], .inr [10]] := by decide

end Views

end OQuPyVerif.Props.C13
