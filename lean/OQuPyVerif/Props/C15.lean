/-
  C15 — Results are covariant under translation of the time origin.

  Property theorems only.  `Generated.TimeExprs.sites` is the table of EVERY arithmetic
  expression of oqupy/{system,tempo,pt_tempo,system_dynamics,control,pt_tebd,gradient}.py (+ the
  step-count helper of util.py) that computes a time handed to a user callable, a reported time
  label, a duration or a float → step conversion; it is regenerated from /repo's source on every
  run.  The `role` of a site is fixed by the place its value flows into (never by the
  expression), so a source in which `start_time` is dropped somewhere produces a site whose
  obligation `Site.ok` is false and `all_sites_ok` no longer checks.
-/
import OQuPyVerif.Generated.TimeExprs
import OQuPyVerif.Generated.StepCount
import OQuPyVerif.Generated.ControlCompose
import OQuPyVerif.Lemmas.TimeShift
import OQuPyVerif.Lemmas.TimeShiftFloat

namespace OQuPyVerif.Props.C15
open OQuPyVerif.FloatModel OQuPyVerif.TimeShift OQuPyVerif.Generated.TimeExprs

/-! ### (1)+(2)  one obligation per extracted expression, discharged for the whole table -/

/-- Every extracted expression has the shift weight its use demands (time sinks: 1, durations /
    roundings / step indices: 0).  Evaluated by the kernel on the regenerated table. -/
theorem all_sites_ok : sites.all Site.ok = true := by decide

/-- `shift_invariant`: for every extracted expression, in every field `K`, for every value of its
    variables and every `τ`: moving all time-valued variables by `τ` moves a time by exactly `τ`
    and leaves a duration / rounding argument / step index unchanged — whatever functions
    `np.round` and `int()` are. -/
theorem shift_invariant : ∀ s ∈ sites, ∀ {K : Type} [Field K] (rd tr : K → K) (env : Nat → K)
    (ienv : Nat → Int) (τ : K),
    evalX rd tr (shiftX s.tmask τ env) ienv s.expr
      = evalX rd tr env ienv s.expr + (s.role.weight : K) * τ := by
  intro s hs K _ rd tr env ienv τ
  exact Site.shift_of_ok s (List.all_eq_true.mp all_sites_ok s hs) rd tr env ienv τ

/-- times handed to user callables and reported labels move by exactly τ -/
theorem time_sites_covariant : ∀ s ∈ sites, s.role = .time → ∀ {K : Type} [Field K]
    (rd tr : K → K) (env : Nat → K) (ienv : Nat → Int) (τ : K),
    evalX rd tr (shiftX s.tmask τ env) ienv s.expr = evalX rd tr env ienv s.expr + τ := by
  intro s hs hr K _ rd tr env ienv τ
  have h := shift_invariant s hs rd tr env ienv τ
  rw [hr] at h
  simpa [Role.weight] using h

/-- (2) every rounding site / duration: `round(((t+τ) − (start+τ))/dt) = round((t − start)/dt)` -/
theorem inv_sites_invariant : ∀ s ∈ sites, s.role = .inv → ∀ {K : Type} [Field K]
    (rd tr : K → K) (env : Nat → K) (ienv : Nat → Int) (τ : K),
    evalX rd tr (shiftX s.tmask τ env) ienv s.expr = evalX rd tr env ienv s.expr := by
  intro s hs hr K _ rd tr env ienv τ
  have h := shift_invariant s hs rd tr env ienv τ
  rw [hr] at h
  simpa [Role.weight] using h

/-- … read at `K = ℚ` with the real `np.round` (round-half-even) and `int()`: the float → step
    conversions of controls and correlation times, in exact arithmetic. -/
theorem rounding_sites_exact : ∀ s ∈ sites, s.role = .inv → ∀ (env : Nat → Rat)
    (ienv : Nat → Int) (τ : Rat),
    evalX (fun x => ((roundHalfEven x : Int) : Rat)) (fun x => ((truncInt x : Int) : Rat))
        (shiftX s.tmask τ env) ienv s.expr
      = evalX (fun x => ((roundHalfEven x : Int) : Rat)) (fun x => ((truncInt x : Int) : Rat))
        env ienv s.expr :=
  fun s hs hr env ienv τ => inv_sites_invariant s hs hr _ _ env ienv τ

/-- non-vacuity: the table is not empty, contains sites of both roles and is the one the named
    sites below belong to -/
example : sites.length ≥ 100 ∧ (sites.filter (fun s => s.role == .time)).length ≥ 50
    ∧ (sites.filter (fun s => s.role == .inv)).length ≥ 20 := by decide +kernel
/-- non-vacuity of `shift_invariant`: the quarter-step time at start 1/2, step 4, dt 1/10,
    origin moved by 3 -/
example : evalX (K := Rat) id id (shiftX [true, false] 3 (envOf 0 [1/2, 1/10])) (envOf 0 [4])
      s_TimeDependentSystem_get_propagators_propagators__t_1.expr
    = evalX (K := Rat) id id (envOf 0 [1/2, 1/10]) (envOf 0 [4])
      s_TimeDependentSystem_get_propagators_propagators__t_1.expr + 3 := by
  norm_num [evalX, evalOps, fieldOps, shiftX, shiftEnv, envOf, IExpr.eval,
    s_TimeDependentSystem_get_propagators_propagators__t_1]
/-- the checker is not trivially true: the same expressions with `start_time` dropped, or with a
    time scaled, are rejected -/
example : wt [true, false] (.mul (.ofI (.ivar 0)) (.var 1)) ≠ some 1 := by decide
example : wt [true, false] (.mul (.lit 2) (.var 0)) = none := by decide
example : wt [true, true, false] (.round (.div (.var 0) (.var 2))) = none := by decide

/-! ### evaluations at a FIXED ABSOLUTE time (the constructors' probes) -/

/-- Every place where the source evaluates a (user) callable at a time that does not move with
    the origin (`H(1.0)`, `gamma(1.0)`, `field_eom(1.0, …)` in the input checks) keeps nothing of
    the returned value but a raise-or-not validation or its shape: no numerical type, no value,
    no object built from it.  Evaluated by the kernel on the regenerated table. -/
theorem all_probes_ok : probes.all Probe.ok = true := by decide

/-- Consequence: for callables whose shape and validity do not depend on the time (a
    Hamiltonian is a d×d matrix at every time), what an object remembers of a probe is the same
    for the callable `f` and for the callable moved by any τ, `t ↦ f (t − τ)` — although the
    probe time itself does not move.  (For `dtype`/`value` this is false: see the example.) -/
theorem probe_shift_invariant : ∀ p ∈ probes, ∀ k ∈ p.kept, ∀ {K α ι δ : Type} [Field K]
    (f : K → α) (valid : α → Bool) (shp : α → ι) (dty : α → δ) (t0 τ : K),
    (∀ t t', valid (f t) = valid (f t')) → (∀ t t', shp (f t) = shp (f t')) →
    retainedInfo valid shp dty (f (t0 - τ)) k = retainedInfo valid shp dty (f t0) k := by
  intro p hp k hk K α ι δ _ f valid shp dty t0 τ hv hs
  have hok := List.all_eq_true.mp all_probes_ok p hp
  have hk' := List.all_eq_true.mp hok k hk
  cases k with
  | discard => rfl
  | validate => simp only [retainedInfo]; rw [hv (t0 - τ) t0]
  | shape => simp only [retainedInfo]; rw [hs (t0 - τ) t0]
  | dtype => simp at hk'
  | value => simp at hk'
  | unknown => simp at hk'

/-- non-vacuity: there are probes, with retained validations and shapes -/
example : probes.length ≥ 5 ∧ probes.any (fun p => p.kept.contains .shape) = true
    ∧ probes.any (fun p => p.kept.contains .validate) = true := by decide
/-- a retained numerical type is NOT shift invariant: a rate that is the integer 0 after 9/10
    and a float before, probed at 1, origin moved by 1/2 -/
example : retainedInfo (α := Bool) (ι := Unit) (δ := Bool) (fun _ => true) (fun _ => ()) id
      ((fun t : Rat => decide (t > 9/10)) (1 - 1/2)) Kept.dtype
    ≠ retainedInfo (fun _ => true) (fun _ => ()) id ((fun t : Rat => decide (t > 9/10)) 1) Kept.dtype := by
  simp only [retainedInfo, ne_eq, Info.dtypeIs.injEq, id]
  norm_num

/-! ### the generated binary64 readings agree with the C13 / C18 fragments (two translators) -/

theorem tempo_time_agrees (s dt : Rat) (k : Int) :
    s_Tempo__time__ret.evalF [s, dt] [k] = Generated.StepCount.tempo_time s dt k := rfl
theorem mft_time_agrees (s dt : Rat) (k : Int) :
    s_MeanFieldTempo__time__ret.evalF [s, dt] [k] = Generated.StepCount.mft_time s dt k := rfl
theorem tebd_time_agrees (s dt : Rat) (k0 k : Int) :
    s_PtTebd_time__ret.evalF [s, dt] [k, k0] = Generated.StepCount.tebd_time s dt k0 k := rfl
theorem cd_labels_agree (s dt : Rat) (n len k : Int) :
    s_compute_dynamics__times_1.evalF [s, dt] [k] = Generated.StepCount.cd_label_all s dt n len k
    ∧ s_compute_dynamics__times_2.evalF [s, dt] [n]
        = Generated.StepCount.cd_label_final s dt n len := ⟨rfl, rfl⟩
theorem control_rounding_agrees (t s dt : Rat) :
    s_Control_get_controls__a_1.evalF [t, s, dt] []
      = Generated.ControlCompose.timeToStep_pre t s dt
    ∧ s_Control_get_controls__a_2.evalF [t, s, dt] []
      = Generated.ControlCompose.timeToStep_post t s dt := ⟨rfl, rfl⟩

/-! ### (3)  consequence for a step machine that sees time only through these expressions -/

/-- Generic: a machine whose query times all move by τ, run with user callables moved along
    (`f'(t) = f(t − τ)`), records the same states with every label moved by exactly τ —
    for every number of steps (induction on the steps). -/
theorem machine_covariant {K α σ : Type} [Field K] (lab lab' : Nat → K) (q q' : Nat → List K)
    (user : K → α) (upd : Nat → List α → σ → σ) (s0 : σ) (τ : K)
    (hl : ∀ k, lab' k = lab k + τ) (hq : ∀ k, q' k = (q k).map (fun t => t + τ)) (n : Nat) :
    record lab' q' (fun t => user (t - τ)) upd s0 n
      = (record lab q user upd s0 n).map (fun p => (p.1 + τ, p.2)) :=
  record_shift lab lab' q q' user upd s0 τ hl hq n

section Instances
variable {K : Type} [Field K] (rd tr : K → K)

/-- `t = start_time + step*dt` of `TimeDependentSystem.get_propagators` -/
def tdsT (start dt : K) (k : Nat) : K :=
  evalX rd tr (envOf 0 [start, dt]) (envOf 0 [(k : Int)])
    s_TimeDependentSystem_get_propagators_propagators__t_1.expr

/-- the two times at which the user's Hamiltonian / rates / Lindblad operators are sampled in
    step `k` (`subdiv_limit = None`): the generated `t + dt/4.0` and `t + dt*3.0/4.0` fed with
    the generated `t` -/
def tdsQueries (start dt : K) (k : Nat) : List K :=
  [evalX rd tr (envOf 0 [tdsT rd tr start dt k, dt]) (envOf 0 [])
     s_TimeDependentSystem_get_propagators_propagators__liouvillian_arg0_1.expr,
   evalX rd tr (envOf 0 [tdsT rd tr start dt k, dt]) (envOf 0 [])
     s_TimeDependentSystem_get_propagators_propagators__liouvillian_arg0_2.expr]

/-- the label `Tempo._time(k)` -/
def tempoLabel (start dt : K) (k : Nat) : K :=
  evalX rd tr (envOf 0 [start, dt]) (envOf 0 [(k : Int)]) s_Tempo__time__ret.expr

private theorem shiftX_two (a b τ : K) :
    shiftX [true, false] τ (envOf 0 [a, b]) = envOf 0 [a + τ, b] := by
  funext i
  match i with
  | 0 => rfl
  | 1 => rfl
  | (n + 2) => simp [shiftX, shiftEnv, envOf]

theorem tdsT_shift (start dt τ : K) (k : Nat) :
    tdsT rd tr (start + τ) dt k = tdsT rd tr start dt k + τ := by
  have h := Site.shift_of_ok s_TimeDependentSystem_get_propagators_propagators__t_1 (by decide)
    rd tr (envOf 0 [start, dt]) (envOf 0 [(k : Int)]) τ
  have hm : s_TimeDependentSystem_get_propagators_propagators__t_1.tmask = [true, false] := rfl
  have hr : s_TimeDependentSystem_get_propagators_propagators__t_1.role = .time := rfl
  rw [hm, hr, shiftX_two] at h
  simpa [tdsT, Role.weight] using h

theorem tdsQueries_shift (start dt τ : K) (k : Nat) :
    tdsQueries rd tr (start + τ) dt k = (tdsQueries rd tr start dt k).map (fun t => t + τ) := by
  have h1 := Site.shift_of_ok
    s_TimeDependentSystem_get_propagators_propagators__liouvillian_arg0_1 (by decide)
    rd tr (envOf 0 [tdsT rd tr start dt k, dt]) (envOf 0 []) τ
  have h2 := Site.shift_of_ok
    s_TimeDependentSystem_get_propagators_propagators__liouvillian_arg0_2 (by decide)
    rd tr (envOf 0 [tdsT rd tr start dt k, dt]) (envOf 0 []) τ
  have hm1 : s_TimeDependentSystem_get_propagators_propagators__liouvillian_arg0_1.tmask
      = [true, false] := rfl
  have hm2 : s_TimeDependentSystem_get_propagators_propagators__liouvillian_arg0_2.tmask
      = [true, false] := rfl
  have hr1 : s_TimeDependentSystem_get_propagators_propagators__liouvillian_arg0_1.role
      = .time := rfl
  have hr2 : s_TimeDependentSystem_get_propagators_propagators__liouvillian_arg0_2.role
      = .time := rfl
  rw [hm1, hr1, shiftX_two] at h1
  rw [hm2, hr2, shiftX_two] at h2
  simp only [tdsQueries, tdsT_shift, List.map_cons, List.map_nil]
  rw [h1, h2]
  simp [Role.weight]

theorem tempoLabel_shift (start dt τ : K) (k : Nat) :
    tempoLabel rd tr (start + τ) dt k = tempoLabel rd tr start dt k + τ := by
  have h := Site.shift_of_ok s_Tempo__time__ret (by decide)
    rd tr (envOf 0 [start, dt]) (envOf 0 [(k : Int)]) τ
  have hm : s_Tempo__time__ret.tmask = [true, false] := rfl
  have hr : s_Tempo__time__ret.role = .time := rfl
  rw [hm, hr, shiftX_two] at h
  simpa [tempoLabel, Role.weight] using h

/-- Tempo (and compute_dynamics, whose labels are the same expression) on a
    `TimeDependentSystem`: started at `start + τ` with every callable moved along, the run
    records the same states and every time label is moved by exactly τ — for every number of
    steps, every state space `σ`, every update rule (influence functional, memory cut-off,
    controls …) that does not itself look at the time. -/
theorem tempo_tds_covariant {α σ : Type} (user : K → α) (upd : Nat → List α → σ → σ) (s0 : σ)
    (start dt τ : K) (n : Nat) :
    record (tempoLabel rd tr (start + τ) dt) (tdsQueries rd tr (start + τ) dt)
        (fun t => user (t - τ)) upd s0 n
      = (record (tempoLabel rd tr start dt) (tdsQueries rd tr start dt) user upd s0 n).map
          (fun p => (p.1 + τ, p.2)) :=
  machine_covariant _ _ _ _ user upd s0 τ (tempoLabel_shift rd tr start dt τ)
    (tdsQueries_shift rd tr start dt τ) n

/-- MeanFieldTempo: the two times handed to the field equation of motion in step `k`
    (`t = _time(k)` and `t + dt`) -/
def mftFieldQueries (start dt : K) (k : Nat) : List K :=
  let t := evalX rd tr (envOf 0 [start, dt]) (envOf 0 [(k : Int)]) s_MeanFieldTempo__time__ret.expr
  [t, evalX rd tr (envOf 0 [t, dt]) (envOf 0 [])
        s_MeanFieldTempo__compute_field__field_eom_arg0_2.expr]

theorem mftFieldQueries_shift (start dt τ : K) (k : Nat) :
    mftFieldQueries rd tr (start + τ) dt k
      = (mftFieldQueries rd tr start dt k).map (fun t => t + τ) := by
  have h0 := Site.shift_of_ok s_MeanFieldTempo__time__ret (by decide)
    rd tr (envOf 0 [start, dt]) (envOf 0 [(k : Int)]) τ
  have hm0 : s_MeanFieldTempo__time__ret.tmask = [true, false] := rfl
  have hr0 : s_MeanFieldTempo__time__ret.role = .time := rfl
  rw [hm0, hr0, shiftX_two] at h0
  have h1 := Site.shift_of_ok s_MeanFieldTempo__compute_field__field_eom_arg0_2 (by decide)
    rd tr (envOf 0 [evalX rd tr (envOf 0 [start, dt]) (envOf 0 [(k : Int)])
      s_MeanFieldTempo__time__ret.expr, dt]) (envOf 0 []) τ
  have hm1 : s_MeanFieldTempo__compute_field__field_eom_arg0_2.tmask = [true, false] := rfl
  have hr1 : s_MeanFieldTempo__compute_field__field_eom_arg0_2.role = .time := rfl
  rw [hm1, hr1, shiftX_two] at h1
  simp only [mftFieldQueries, List.map_cons, List.map_nil]
  rw [h0]
  simp only [Role.weight, Int.cast_one, one_mul] at h1 ⊢
  rw [h1]

/-- the field equation of motion of MeanFieldTempo sees covariant times, hence (generic machine)
    identical fields and states -/
theorem mft_field_covariant {α σ : Type} (user : K → α) (upd : Nat → List α → σ → σ) (s0 : σ)
    (start dt τ : K) (n : Nat) :
    machine (mftFieldQueries rd tr (start + τ) dt) (fun t => user (t - τ)) upd s0 n
      = machine (mftFieldQueries rd tr start dt) user upd s0 n :=
  machine_shift_of _ _ user upd s0 τ (mftFieldQueries_shift rd tr start dt τ) n

private theorem shiftX_three (a b c τ : K) :
    shiftX [true, true, false] τ (envOf 0 [a, b, c]) = envOf 0 [a + τ, b + τ, c] := by
  funext i
  match i with
  | 0 => rfl
  | 1 => rfl
  | 2 => rfl
  | (n + 3) => simp [shiftX, shiftEnv, envOf]

/-- the step a float control time is applied at: the generated
    `np.round((control_time - start_time) / dt)` of `Control.get_controls` -/
def controlStep (start dt t : K) : K :=
  evalX rd tr (envOf 0 [t, start, dt]) (envOf 0 []) s_Control_get_controls__a_1.expr

theorem controlStep_shift (start dt t τ : K) :
    controlStep rd tr (start + τ) dt (t + τ) = controlStep rd tr start dt t := by
  have h := Site.shift_of_ok s_Control_get_controls__a_1 (by decide)
    rd tr (envOf 0 [t, start, dt]) (envOf 0 []) τ
  have hm : s_Control_get_controls__a_1.tmask = [true, true, false] := rfl
  have hr : s_Control_get_controls__a_1.role = .inv := rfl
  rw [hm, hr, shiftX_three] at h
  simpa [controlStep, Role.weight] using h

/-- Controls given at float times: with start and control times moved by τ, exactly the same
    controls (in the same order) are selected at every step. -/
theorem controls_covariant [DecidableEq K] {β : Type} (start dt τ : K) (events : List (K × β))
    (k : Nat) :
    selectAt (fun t k => controlStep rd tr (start + τ) dt t == (k : K))
        (events.map (fun e => (e.1 + τ, e.2))) k
      = selectAt (fun t k => controlStep rd tr start dt t == (k : K)) events k := by
  apply selectAt_shift
  intro t k
  rw [controlStep_shift]

/-- correlation times given as floats: index into the time grid (`_parse_times`) and the
    returned time axis (`times2 = start_time + dt_ * times`) -/
def corrIndex (start dt t : K) : K :=
  evalX rd tr (envOf 0 [t, start, dt]) (envOf 0 []) s__parse_times__index.expr

def corrAxis (start dt : K) (idx : Int) : K :=
  evalX rd tr (envOf 0 [start, dt]) (envOf 0 [idx]) s_compute_correlations_nt__times2.expr

/-- a float correlation time moved with the origin selects the same grid index, and the
    returned time axis is moved by exactly τ -/
theorem correlation_times_covariant (start dt t τ : K) (idx : Int) :
    corrIndex rd tr (start + τ) dt (t + τ) = corrIndex rd tr start dt t
    ∧ corrAxis rd tr (start + τ) dt idx = corrAxis rd tr start dt idx + τ := by
  have h := Site.shift_of_ok s__parse_times__index (by decide)
    rd tr (envOf 0 [t, start, dt]) (envOf 0 []) τ
  have hm : s__parse_times__index.tmask = [true, true, false] := rfl
  have hr : s__parse_times__index.role = .inv := rfl
  rw [hm, hr, shiftX_three] at h
  have h2 := Site.shift_of_ok s_compute_correlations_nt__times2 (by decide)
    rd tr (envOf 0 [start, dt]) (envOf 0 [idx]) τ
  have hm2 : s_compute_correlations_nt__times2.tmask = [true, false] := rfl
  have hr2 : s_compute_correlations_nt__times2.role = .time := rfl
  rw [hm2, hr2, shiftX_two] at h2
  exact ⟨by simpa [corrIndex, Role.weight] using h, by simpa [corrAxis, Role.weight] using h2⟩

end Instances

/-- non-vacuity of the machine theorems: a 3-step run over ℚ whose state is the list of all
    values the callable returned; the callable `f t = 2t + 1` is genuinely time dependent -/
example : machine (tdsQueries (K := Rat) id id (1/2) (1/10)) (fun t => 2 * t + 1)
    (fun _ vals acc => acc ++ vals) [] 2 = [41/20, 43/20, 9/4, 47/20] := by
  norm_num [machine, tdsQueries, tdsT, evalX, evalOps, fieldOps, envOf, IExpr.eval,
    s_TimeDependentSystem_get_propagators_propagators__t_1,
    s_TimeDependentSystem_get_propagators_propagators__liouvillian_arg0_1,
    s_TimeDependentSystem_get_propagators_propagators__liouvillian_arg0_2]

/-! ### (4)  binary64: what is left once every operation rounds -/

/-- Every extracted *time* is either a time variable handed on unchanged or of the shape
    `time variable + (expression in which times occur at most as differences of two times)` —
    e.g. `start + k·dt`, `t + dt/4`, numpy's `linspace(start, end, n)[k] = start + k·((end − start)/(n−1))`;
    every extracted *invariant* contains times only as differences of two times. -/
theorem site_shapes : sites.all (fun s =>
    match s.role with
    | .time => s.tpi || (match s.expr with | .var _ => true | _ => false)
    | .inv => diffOnly s.tmask s.expr) = true := by decide

/-- binary64 residue of the times and labels (partial: one site; a chain `t = start + k·dt`,
    then `t + dt/4` adds the two bounds).  For every site of shape `x + b` with `x` a time
    variable and `b` containing times at most as differences (by `site_shapes` every extracted time that is not
    a bare variable is of this shape), every binary64 environment and every exact shift τ of
    its time variables: the shifted value minus τ differs from the unshifted value by at most
    one rounding error on each side, `2⁻⁵³·(|x+τ+B| + |x+B|)` with `B` the binary64 value of
    `b` — about one ulp of the time itself. -/
theorem time_sites_binary64_residue_partial : ∀ s ∈ sites, ∀ (i : Nat) (b : TExpr),
    s.expr = .add (.var i) b → s.tpi = true →
    ∀ (env : Nat → Rat) (ienv : Nat → Int) (τ : Rat),
    |evalF (shiftF s.tmask τ env) ienv s.expr - τ - evalF env ienv s.expr|
      ≤ (1 / 2 ^ 53) * (|env i + τ + evalF env ienv b| + |env i + evalF env ienv b|) := by
  intro s _ i b he h env ienv τ
  unfold Site.tpi at h
  rw [he] at h ⊢
  simp only [timePlusInv, Bool.and_eq_true] at h
  exact evalF_timePlusInv_residue s.tmask τ env ienv i b h.1 h.2

/-- binary64, float → step conversions, durations, step counts (`(end − start)/dt`): for an
    exact shift of the inputs they are bit-identical — `(t+τ) − (s+τ)` is the same rational as
    `t − s`, and it is the first thing computed. -/
theorem inv_sites_binary64_exact : ∀ s ∈ sites, s.role = .inv →
    ∀ (env : Nat → Rat) (ienv : Nat → Int) (τ : Rat),
    evalF (shiftF s.tmask τ env) ienv s.expr = evalF env ienv s.expr := by
  intro s hs hr env ienv τ
  have h := List.all_eq_true.mp site_shapes s hs
  simp only [hr] at h
  exact evalF_diffOnly s.tmask τ env ienv s.expr h

/-- non-vacuity: named sites of each shape -/
example : s_Tempo__time__ret.expr = .add (.var 0) (.mul (.ofI (.ivar 0)) (.var 1)) := rfl
example : s_Tempo__time__ret.tpi = true ∧
    s_TimeDependentSystem_get_propagators_propagators__liouvillian_arg0_2.tpi = true ∧
    s_Control_get_controls__a_1.role = .inv ∧ s__parse_times__index.role = .inv := by decide
/-- the binary64 label at start 3.5 (= 0.5 moved by 3), dt 0.1, step 3 against start 0.5:
    3.8 − 3 − 0.8 in binary64 is −2⁻⁵², one rounding -/
example : s_Tempo__time__ret.evalF [7/2, lit 1 1] [3] - 3
    - s_Tempo__time__ret.evalF [1/2, lit 1 1] [3] = -1 / 2 ^ 52 := by
  decide +kernel

end OQuPyVerif.Props.C15
