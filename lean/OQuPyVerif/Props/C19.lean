/-
  C19 — No computation leaves background activity behind, whether it returns or fails.

  Property theorems only (helper lemmas: Lemmas/ProgressData, ProgressStep, ProgressInv,
  ProgressApi; model: Model/Progress).  `Generated.ProgressGuard.*` is regenerated from
  /repo's source on every run: `apiTable` (how every API that calls `get_progress` guards
  its progress object) and `silentProtocol / simpleProtocol / barProtocol` (what the
  progress classes of oqupy/util.py do, statement by statement).  The theorems below are
  therefore re-checked against what the code says now.
-/
import OQuPyVerif.Generated.ProgressGuard
import OQuPyVerif.Lemmas.ProgressApi

namespace OQuPyVerif.Props.C19
open OQuPyVerif.Progress OQuPyVerif.Generated.ProgressGuard

/-! ### Ties to the source -/

/-- (T) Every API that creates a progress object uses it through `with` or
    `enter(); try: ... finally: exit()`.  A finite table regenerated from the source. -/
theorem all_apis_guarded : apiTable.all (fun u => u.style.guarded) = true := by decide

/-- (T) The `ProgressBar` of oqupy/util.py is, statement for statement, the lock +
    active-flag + daemon-timer protocol the invariant proof is about. -/
theorem bar_is_locked_protocol : barProtocol = lockedProtocol := by decide

/-- (T) the progress types are exactly these three -/
theorem progress_kinds : progressKinds.map (fun k => k.1) = ["silent", "simple", "bar"] := by
  decide

/-! ### (1) Whatever fails, a guarded API calls `exit` -/

/-- For every API of the table, every number `N` of loop iterations and every failing work
    item `fail` (or none): the calls made on the progress object are `enter`, `j ≤ N` updates
    and then `exit`. -/
theorem guarded_api_quiescent (u : ApiUse) (hu : u ∈ apiTable) (N : Nat) (fail : Option Nat) :
    ∃ j, j ≤ N ∧
      apiRun u.style N fail = Method.enter :: (List.replicate j Method.update ++ [Method.exit]) := by
  have hg : u.style.guarded = true := by
    have := List.all_eq_true.1 all_apis_guarded u hu
    simpa using this
  exact apiRun_guarded u.style hg N fail

/-- (T) `__exit__` of no progress class can return a truthy value (read from
    `BaseProgress.__exit__` and the `exit()` methods), so a `with progress(...)` block never
    swallows the exception raised inside it. -/
theorem exit_never_suppresses :
    exitReturn.map (fun k => k.1) = progressKinds.map (fun k => k.1) ∧
    exitReturn.all (fun k => !(dunderExit.value k.2).mayBeTruthy) = true := by decide

/-- The failure reaches the caller: for every API of the table, every progress type, every
    `N` and every failing work item `k < N`, the exception propagates out of the API call
    (the skeleton "whatever fails, exit is called" is not bought by hiding the failure). -/
theorem failure_reaches_caller (u : ApiUse) (_hu : u ∈ apiTable) (kind : String × RetVal)
    (hk : kind ∈ exitReturn) (N k : Nat) (hkN : k < N) :
    apiPropagates u.style N (some k) (dunderExit.value kind.2).mayBeTruthy = true := by
  have h := List.all_eq_true.1 exit_never_suppresses.2 kind hk
  have hf : (dunderExit.value kind.2).mayBeTruthy = false := by simpa using h
  rw [hf]
  exact apiPropagates_of_falsy u.style N k hkN

/-- Why it is an obligation: were `__exit__` truthy, every `with`-guarded API would return
    normally from any failure. -/
theorem truthy_exit_swallows (N : Nat) (fail : Option Nat) :
    apiPropagates .withStmt N fail true = false :=
  apiPropagates_truthy_with N fail

/-- Why the guard is needed: with a bare `enter() ... exit()` pair a failing work item `k < N`
    means `exit` is never called (so the armed timer of a `ProgressBar` stays pending). -/
theorem unguarded_failure_skips_exit (N k : Nat) (hk : k < N) :
    Method.exit ∉ apiRun .bare N (some k) := by
  rw [apiRun_bare_fail N k hk]
  simp

/-! ### (1) After `exit`, no timer is pending or running — for every interleaving -/

/-- For every number of updates, every interleaving of main with the timer threads and any
    number of timer firings: once main has returned from `exit` and no callback is executing
    any more, no timer thread is alive. -/
theorem no_timer_after_exit (n : Nat) (g : Bool) (s : State)
    (h : Reachable barProtocol
      (init (Method.enter :: (List.replicate n Method.update ++ [Method.exit])) g) s)
    (hf : s.mainFinished = true) (hr : s.anyRunning = false) : s.aliveTimers = [] := by
  rw [bar_is_locked_protocol] at h
  have hq := inv_quiescent (inv_reachable n g h) hf hr
  simp only [State.aliveTimers, List.filter_eq_nil_iff]
  intro i _
  cases hi : s.timers[i]? with
  | none => simp
  | some r => simp [hq i r hi]

/-- `exit` does return and running callbacks do drain: while main has not finished or a
    callback is executing, some thread can make a step — without any timer having to fire. -/
theorem exit_returns_callbacks_drain (n : Nat) (g : Bool) (s : State)
    (h : Reachable barProtocol
      (init (Method.enter :: (List.replicate n Method.update ++ [Method.exit])) g) s)
    (hm : s.mainFinished = false ∨ s.anyRunning = true) :
    ∃ a s', (a = Action.main ∨ ∃ i, a = Action.timer i) ∧ step barProtocol s a = some s' := by
  rw [bar_is_locked_protocol] at h ⊢
  exact inv_progress (inv_reachable n g h) hm

/-- "The interpreter can exit": at every moment of every run all existing timer threads are
    daemon threads. -/
theorem interpreter_can_exit (n : Nat) (g : Bool) (s : State)
    (h : Reachable barProtocol
      (init (Method.enter :: (List.replicate n Method.update ++ [Method.exit])) g) s) :
    s.blocksExit = false := by
  rw [bar_is_locked_protocol] at h
  exact inv_daemon (inv_reachable n g h)

/-- (1)+(1) composed: any API of the table, any `N`, any failure point, progress type 'bar',
    any interleaving: after the call has returned or raised and running callbacks have
    drained, no thread started by the library is alive. -/
theorem api_leaves_nothing_behind (u : ApiUse) (hu : u ∈ apiTable) (N : Nat)
    (fail : Option Nat) (s : State)
    (h : Reachable barProtocol (init (apiRun u.style N fail) u.style.guarded) s)
    (hf : s.mainFinished = true) (hr : s.anyRunning = false) :
    s.aliveTimers = [] ∧ s.blocksExit = false := by
  obtain ⟨j, _, hj⟩ := guarded_api_quiescent u hu N fail
  rw [hj] at h
  exact ⟨no_timer_after_exit j _ s h hf hr, interpreter_can_exit j _ s h⟩

/-! ### (2) The other progress types start no thread -/

/-- 'silent' and 'simple' never construct a timer: in every reachable state of every call
    sequence (guarded or not, failing or not) there is no thread at all. -/
theorem silent_simple_trivial (script : List Method) (g : Bool) (s : State) :
    (Reachable silentProtocol (init script g) s → s.timers = []) ∧
    (Reachable simpleProtocol (init script g) s → s.timers = []) :=
  ⟨fun h => (no_timer_reachable silentProtocol (by decide) script g h).1,
   fun h => (no_timer_reachable simpleProtocol (by decide) script g h).1⟩

/-! ### (1) Executor pools: the only other threads / processes the library starts -/

/-- (T) Every construction of a thread, timer, process or executor pool anywhere in oqupy/
    (table regenerated from the source) is covered: pools are `with`-scoped, timers are the
    `ProgressBar` timers of the protocol above, nothing else is started. -/
theorem all_spawns_covered : spawnTable.all SpawnSite.covered = true := by decide

/-- For every executor site of the table, every pool size, every number of submitted tasks
    and every failing submission (or none): once the `with` block has been left no worker
    thread / process of that pool exists (given `Executor.__exit__` = `shutdown(wait=True)`). -/
theorem executors_leave_no_worker (s : SpawnSite) (hs : s ∈ spawnTable)
    (hk : s.kind = .threadPool ∨ s.kind = .processPool) (maxWorkers n : Nat)
    (fail : Option Nat) :
    (runPool s.scope maxWorkers n fail).workers = 0 ∧
    (runPool s.scope maxWorkers n fail).shut = true := by
  have hc := List.all_eq_true.1 all_spawns_covered s hs
  have hw : s.scope = .withStmt := by
    rcases hk with h | h <;> simpa [SpawnSite.covered, h] using hc
  rw [hw]
  exact runPool_with maxWorkers n fail

/-- Why the scope matters: a pool that is kept on an object has a live worker after its first
    accepted submission and nothing joins it, for every pool size and number of tasks. -/
theorem stored_executor_leaks (maxWorkers n : Nat) (fail : Option Nat) (hm : 0 < maxWorkers)
    (hn : 0 < n) (hf : fail ≠ some 0) :
    0 < (runPool .stored maxWorkers n fail).workers ∧
    (runPool .stored maxWorkers n fail).shut = false :=
  runPool_stored maxWorkers n fail hm hn hf

/-! ### The published protocol had the race (model-level counter-schedule) -/

/-- For the `ProgressBar` as published (no lock): the schedule "timer fires; main runs all of
    `exit`; then the callback runs" ends with main finished, nothing running, and timer 2
    alive, non-daemon — and it re-arms itself at every later firing. -/
theorem legacy_protocol_leaks :
    legacyRaceFinal.mainFinished = true ∧ legacyRaceFinal.anyRunning = false ∧
    legacyRaceFinal.aliveTimers = [2] ∧ legacyRaceFinal.blocksExit = true ∧
    Reachable legacyProtocol (init [.enter, .update, .exit] true) legacyRaceFinal :=
  ⟨legacy_race_leaks.1, legacy_race_leaks.2.1, legacy_race_leaks.2.2.1, legacy_race_leaks.2.2.2,
   reachable_runSchedule _ _ _ Reachable.init _⟩

/-! ### Non-vacuity -/

/-- the table is not empty and contains the eleven uses the source has -/
example : apiTable.length = 11 := by decide

/-- a concrete member satisfies the hypothesis of `guarded_api_quiescent` -/
example : ∃ u ∈ apiTable, u.func = "compute_dynamics" ∧ u.style.guarded = true := by decide

/-- a failing run of a guarded API: N = 3, item 1 fails: enter, one update, exit -/
example : apiRun .tryFinally 3 (some 1) = [.enter, .update, .exit] := by decide

/-- hypotheses of `no_timer_after_exit` are met by a real interleaved run, the race of the
    legacy protocol replayed on the source's protocol: enter, update (18 main steps), timer 1
    fires, main runs all of `exit` (7 steps), then the callback runs: it finds the bar
    inactive and returns.  Finished, drained, two timers created, nothing alive. -/
example :
    let s := runSchedule barProtocol (init [.enter, .update, .exit] true)
      (List.replicate 18 Action.main ++ [Action.fire 1] ++ List.replicate 7 Action.main ++
        List.replicate 3 (Action.timer 1))
    s.mainFinished = true ∧ s.anyRunning = false ∧ s.timers.length = 2 ∧ s.aliveTimers = [] := by
  decide

/-- `exit_returns_callbacks_drain`: a state with a running callback exists -/
example :
    (runSchedule barProtocol (init [.enter, .update, .exit] true)
      (List.replicate 17 Action.main ++ [Action.fire 1])).anyRunning = true := by decide

/-- the bare style really loses the timer, even with the lock protocol: N = 3, item 1 fails -/
example : (apiFinal lockedProtocol .bare 3 (some 1)).aliveTimers = [1] := by decide

/-- executor sites exist in the table (hypotheses of `executors_leave_no_worker`) -/
example : ∃ s ∈ spawnTable, s.kind = .threadPool ∧ s.func = "PtTebdBackend.apply_nn_gate_layer" := by
  decide

/-- 8 workers, 5 tasks, the 4th submission fails: 3 workers exist inside the block, none after
    it; kept on an object the same run leaves 3 -/
example : (runPool .withStmt 8 5 (some 3)).workers = 0 ∧ (runPool .stored 8 5 (some 3)).workers = 3 := by
  decide

/-- `failure_reaches_caller`: its hypotheses are met (a `with`-guarded row, the bar) -/
example : (∃ u ∈ apiTable, u.style = .withStmt) ∧ ("bar", RetVal.none) ∈ exitReturn := by decide

end OQuPyVerif.Props.C19
