/-
  C18 — Control operations act at the stated time, side of measurement and order.

  Property theorems only (helper lemmas live in Lemmas/Control*.lean).  Everything named
  `Generated.ControlCompose.*` (operand order of every `@` in `Control.add_single`,
  `Control.get_controls`, `ChainControl.get_single_site_controls`; the float-time -> step
  expression; the tensor-leg wiring of the two "apply a superoperator" routines; the statement
  order of the step loops of `compute_dynamics` and `PtTebd`) is regenerated from the source on
  every run, so these theorems are re-checked against what the code says now.

  Notation: superoperators are elements of a monoid `M` acting on a state space `S`
  (`MulAction M S`); `seqProd [c₁, …, c_m] = c_m * ⋯ * c₁` is the product in which the FIRST
  list element acts FIRST; `bucket l = none` for `l = []` and `some (seqProd l)` otherwise.
-/
import OQuPyVerif.Lemmas.Control
import OQuPyVerif.Lemmas.ControlChain
import OQuPyVerif.Lemmas.ControlFloat
import Mathlib.Algebra.FreeMonoid.Basic

namespace OQuPyVerif.Props.C18
open OQuPyVerif.FloatModel OQuPyVerif.Control OQuPyVerif.Generated.ControlCompose

variable {M S R : Type}

/-! ### 0. what "apply a superoperator" does, and which keys are steps / times -/

/-- Both `_apply_system_superoperator` (single system) and `PtTebdBackend.apply_site_gate`
    (chain) contract the tensor legs such that the given superoperator itself (not its transpose)
    is applied to the vectorised state. -/
theorem superop_wiring :
    actsAsGiven sysSuperop_transposed sysSuperop_contract = true ∧
    actsAsGiven siteGate_transposed siteGate_contract = true := by decide

/-- `add_single` tests `isinstance(time, int)` first (→ time step), then `float` (→ time). -/
theorem key_dispatch : addSingle_dispatch = [.intKey, .floatKey, .reject] := rfl

/-! ### 1. each control acts once, at its step, on its side of the measurement -/

/-- `compute_dynamics`, for every number of steps `N`, every assignment of controls, propagators,
    process-tensor MPOs and caps:  the state recorded for step `k` is
    `caps_k (pre_k • X_k)` where `X_0 = x0` and
    `X_{k+1} = P2_k • MPO_k (P1_k • post_k • pre_k • X_k)`  (`stepMap`, `traj`, `seen`);
    with `record_all` all steps `0..N` (first and last included) are recorded, otherwise only
    step `N` — whose pre-measurement control is applied in both cases. -/
theorem acts_once_at_step [SMul M S] (e : Env M S R) (x0 : S) :
    computeDynamics e x0 =
      if e.recordAll then (List.range (e.N + 1)).map (seen e x0) else [seen e x0 e.N] :=
  computeDynamics_eq e x0

/-- First step = last step (`num_steps = 0`): nothing before the step loop returns early
    (`cdLoopRunsForEveryN`, regenerated from the statements between input parsing and the loop), the
    loop body runs once, and the single recorded state is the PRE-controlled initial state
    `caps_0 (pre_0 • x0)` — with and without `record_all`. -/
theorem zero_steps [SMul M S] (e : Env M S R) (x0 : S) (h : e.N = 0) :
    cdLoopRunsForEveryN = true ∧
    computeDynamics e x0 = [e.cap 0 (applyOpt (e.ctl 0).1 x0)] := by
  refine ⟨rfl, ?_⟩
  rw [acts_once_at_step, h]
  cases e.recordAll <;> simp [seen, traj]

/-- non-vacuity of `zero_steps` -/
example : ({ N := 0, ctl := fun _ => (some 2, none), P1 := fun _ => 1, P2 := fun _ => 1,
             mpo := fun _ x => x, cap := fun _ x => x, recordAll := false } : Env Nat Nat Nat).N = 0 :=
  rfl

/-- the formula behind `seen` / `traj`, spelled out -/
theorem seen_unfold [SMul M S] (e : Env M S R) (x0 : S) (k : Nat) :
    seen e x0 k = e.cap k (applyOpt (e.ctl k).1 (traj e x0 k)) ∧
    traj e x0 0 = x0 ∧
    traj e x0 (k + 1) =
      e.P2 k • e.mpo k (e.P1 k • applyOpt (e.ctl k).2 (applyOpt (e.ctl k).1 (traj e x0 k))) :=
  ⟨rfl, rfl, rfl⟩

/-- Side of the measurement, as non-interference: if two control assignments agree before step
    `j` then all states recorded before `j` agree; if moreover their PRE-measurement controls at
    `j` agree (the post-measurement ones may differ) the state recorded AT `j` agrees too.
    So a pre-control is first seen by the recorded state of its own step, a post-control only by
    the next one, and neither by any earlier one. -/
theorem side_of_measurement [SMul M S] (e : Env M S R) (ctl' : Nat → Option M × Option M) (x0 : S)
    (j : Nat) (h : ∀ i < j, e.ctl i = ctl' i) :
    (∀ k < j, seen e x0 k = seen { e with ctl := ctl' } x0 k) ∧
    ((e.ctl j).1 = (ctl' j).1 → seen e x0 j = seen { e with ctl := ctl' } x0 j) := by
  constructor
  · intro k hk
    apply seen_congr <;> try rfl
    · intro i hi x; rw [h i (Nat.lt_of_le_of_lt hi hk)]
    · intro i hi x; rw [h i (Nat.lt_trans hi hk)]
  · intro hj
    apply seen_congr <;> try rfl
    · intro i hi x
      rcases Nat.lt_or_eq_of_le hi with hi | rfl
      · rw [h i hi]
      · show applyOpt (e.ctl i).1 x = applyOpt (ctl' i).1 x
        rw [hj]
    · intro i hi x; rw [h i hi]

/-- non-vacuity of `side_of_measurement`: changing the controls of step `j` only -/
example (e : Env M S R) (j : Nat) (c : Option M × Option M) :
    ∀ i < j, e.ctl i = (Function.update e.ctl j c) i := by
  intro i hi
  rw [Function.update_of_ne (Nat.ne_of_lt hi)]

/-- "exactly once", literally: take the free monoid on the labels `pre k`, `post k` as operators
    (trivial propagators, no environment) acting on words by left multiplication.  Then the word
    recorded at step `k` is `pre_k · post_{k-1} · pre_{k-1} ⋯ post_0 · pre_0`: every control of an
    earlier step and the pre-control of step `k` occur exactly once, in time order, and nothing
    else occurs. -/
theorem recorded_word (N : Nat) (k : Nat) :
    let e : Env (FreeMonoid (Bool × Nat)) (FreeMonoid (Bool × Nat)) (FreeMonoid (Bool × Nat)) :=
      { N := N, ctl := fun i => (some (FreeMonoid.of (false, i)), some (FreeMonoid.of (true, i))),
        P1 := fun _ => 1, P2 := fun _ => 1, mpo := fun _ x => x, cap := fun _ x => x,
        recordAll := true }
    FreeMonoid.toList (seen e 1 k) =
      (false, k) :: (List.range k).reverse.flatMap (fun i => [(true, i), (false, i)]) := by
  intro e
  have ht : ∀ k, FreeMonoid.toList (traj e 1 k) =
      (List.range k).reverse.flatMap (fun i => [(true, i), (false, i)]) := by
    intro k
    induction k with
    | zero => rfl
    | succ k ih =>
      rw [List.range_succ, List.reverse_append, List.reverse_singleton, List.singleton_append,
        List.flatMap_cons, ← ih]
      simp [traj, stepMap, e, applyOpt, FreeMonoid.toList_mul, FreeMonoid.toList_of]
  simp only [seen, e, applyOpt, smul_eq_mul, FreeMonoid.toList_mul, FreeMonoid.toList_of]
  rw [← ht k]
  rfl

/-! ### 3. what `get_controls` returns for ANY sequence of `add_single` calls -/

/-- `mixed_keys`.  For every call sequence, step, `dt`, `start_time`:
    * pre-measurement control  = product of  [float-keyed operators landing on the step, ascending
      in their time, insertion order within one and the same time]  THEN  [int-keyed operators of
      that step in insertion order];
    * post-measurement control = [int-keyed operators in insertion order]  THEN  [float-keyed
      ones, ascending in time];
    * `None` exactly when no operator lands on the step.
    So int- and float-keyed controls of one step are NOT ordered by insertion (see
    `mixed_keys_not_insertion_order`), and neither are two different float times that round to
    the same step (they act in time order). -/
theorem mixed_keys [Monoid M] (adds : List (Call M)) (step : Int) (dt start : Rat) :
    (build adds).getControls step dt start =
      (bucket (floatOps (sideList adds false) (fun t => timeSelect_pre t start dt step)
                ++ sOps (sideList adds false) step),
       bucket (sOps (sideList adds true) step
                ++ floatOps (sideList adds true) (fun t => timeSelect_post t start dt step))) := by
  unfold Ctl.getControls
  rw [(build_halves adds).1, (build_halves adds).2]
  exact Prod.ext (getHalf_floatFirst rfl rfl _ _ _) (getHalf_stepFirst rfl rfl _ _ _)

/-- "Exactly once" for the individual calls: for every call sequence the factors of the pre- (and
    of the post-) measurement control of a step are, as a multiset, exactly the operators of the
    calls of that side landing on the step — each landing call contributes ONE factor and no other
    call contributes any (only their ORDER can differ from insertion order, see above). -/
theorem each_call_once (adds : List (Call M)) (step : Int) (dt start : Rat) :
    (floatOps (sideList adds false) (fun t => timeSelect_pre t start dt step)
        ++ sOps (sideList adds false) step).Perm
      (landingOps (sideList adds false) (fun t => timeSelect_pre t start dt step) step) ∧
    (sOps (sideList adds true) step
        ++ floatOps (sideList adds true) (fun t => timeSelect_post t start dt step)).Perm
      (landingOps (sideList adds true) (fun t => timeSelect_post t start dt step) step) :=
  ⟨(factors_perm _ _ step).1, (factors_perm _ _ step).2⟩

/-- the float times landing on a step are visited in strictly ascending order, each once, and
    they are exactly the distinct float keys given so far that the step test selects -/
theorem landing_times_ascending (l : List (Key × M)) (sel : Rat → Bool) :
    (landingTimes l sel).Pairwise (· < ·) ∧
    ∀ t, t ∈ landingTimes l sel ↔ (sel t = true ∧ ∃ a ∈ l, a.1 = Key.time t) := by
  refine ⟨(tKeys_pairwise l).sublist List.filter_sublist, fun t => ?_⟩
  unfold landingTimes
  rw [List.mem_filter, mem_tKeys, tOps_ne_nil]
  exact and_comm

/-- the excluded point of `stack_order_partial` is real: `add_single(1, A); add_single(0.1, B)`
    with `dt = 0.1`, `start_time = 0` gives the pre-measurement control `A @ B` — the float-keyed
    `B`, added LAST, acts FIRST. -/
theorem mixed_keys_not_insertion_order :
    let A : FreeMonoid Bool := FreeMonoid.of true
    let B : FreeMonoid Bool := FreeMonoid.of false
    ((build [⟨.step 1, false, A⟩, ⟨.time (lit 1 1), false, B⟩]).getControls 1 (lit 1 1) 0).1
      = some (A * B) ∧ A * B ≠ B * A := by
  intro A B
  constructor
  · rw [mixed_keys]
    have h : timeSelect_pre (lit 1 1) 0 (lit 1 1) 1 = true := by decide +kernel
    simp [sideList, floatOps, landingTimes, tKeys, keyStep, ordInsert, h, tOps, sOps, bucket,
      seqProd, A, B]
  · intro h
    have := congrArg FreeMonoid.toList h
    simp [A, B, FreeMonoid.toList_mul, FreeMonoid.toList_of] at this

/-! ### 2. several controls for the same step act in the order in which they were added -/

/-- FULL statement (NOT provable for the current code, refuted by
    `mixed_keys_not_insertion_order`; known finding "Control mixed int+float stack at one step"):

      ∀ adds step dt start,
        (build adds).getControls step dt start =
          (bucket (landingOps (sideList adds false) (timeSelect_pre · start dt step) step),
           bucket (landingOps (sideList adds true) (timeSelect_post · start dt step) step))

    Proved part: the same conclusion under the hypothesis that the controls landing on the step
    (per side) were all given with one and the same key — the same int step, or the same float
    time.  `landingOps` = the operators of all landing calls in insertion order, so the result is
    `c_m ⋯ c₂ c₁` with `c₁` the first one added. -/
theorem stack_order_partial [Monoid M] (adds : List (Call M)) (step : Int) (dt start : Rat)
    (keyPre keyPost : Key)
    (hpre : ∀ a ∈ sideList adds false,
      lands (fun t => timeSelect_pre t start dt step) step a.1 = true → a.1 = keyPre)
    (hpost : ∀ a ∈ sideList adds true,
      lands (fun t => timeSelect_post t start dt step) step a.1 = true → a.1 = keyPost) :
    (build adds).getControls step dt start =
      (bucket (landingOps (sideList adds false) (fun t => timeSelect_pre t start dt step) step),
       bucket (landingOps (sideList adds true) (fun t => timeSelect_post t start dt step) step)) := by
  rw [mixed_keys, (same_key_order _ _ step keyPre hpre).1, (same_key_order _ _ step keyPost hpost).2]

/-- non-vacuity of `stack_order_partial`: three stacked pre-controls and two post-controls at step 2 -/
example :
    let adds : List (Call (FreeMonoid (Fin 5))) :=
      [⟨.step 2, false, FreeMonoid.of 0⟩, ⟨.step 2, true, FreeMonoid.of 3⟩,
       ⟨.step 2, false, FreeMonoid.of 1⟩, ⟨.step 1, false, FreeMonoid.of 4⟩,
       ⟨.step 2, false, FreeMonoid.of 2⟩, ⟨.step 2, true, FreeMonoid.of 4⟩]
    (∀ a ∈ sideList adds false,
      lands (fun t => timeSelect_pre t 0 (lit 1 1) 2) 2 a.1 = true → a.1 = Key.step 2) ∧
    landingOps (sideList adds false) (fun t => timeSelect_pre t 0 (lit 1 1) 2) 2
      = [FreeMonoid.of 0, FreeMonoid.of 1, FreeMonoid.of 2] := by
  intro adds
  constructor
  · intro x hx
    simp [adds, sideList] at hx
    rcases hx with rfl | rfl | rfl | rfl <;> simp [lands]
  · simp [adds, sideList, landingOps, lands]

/-- `ChainControl`: for every registration history, `get_single_site_controls(step, post)`
    holds in slot `i` the product `c_m ⋯ c₂ c₁` of the operators registered for `(i, step)` in
    insertion order (first added acts first); the whole result is `None` iff nothing is registered
    for the step.  (No float keys exist for chains, so no hypothesis is needed.) -/
theorem chain_stack_order [Monoid M] (c : ChainCtl M) (n : Nat) (step : Int) (post : Bool) :
    c.get n step post =
      if ((c.side post).filter (fun e => e.step == step)).isEmpty then none
      else some ((List.range n).map (fun i => bucket (siteOps (c.side post) step i))) :=
  chain_get_eq rfl c n step post

/-- `add_single_site_control` appends to the list selected by `post`, keeping insertion order -/
theorem chain_add_side (c : ChainCtl M) (op : M) (site : Nat) (step : Int) (post : Bool) :
    (c.add op site step post).side post = c.side post ++ [⟨site, step, op⟩] ∧
    (c.add op site step post).side (!post) = c.side (!post) := by
  cases post <;> simp [ChainCtl.add, ChainCtl.side]

/-! ### 4. a control given by a float time acts at the nearest step -/

/-- the step test of `get_controls` selects exactly ONE step for a float time `t`:
    `round_half_even(fl(fl(t - start_time) / dt))` (binary64 operations), for pre and post alike -/
theorem float_time_step (t start dt : Rat) (step : Int) :
    (timeSelect_pre t start dt step = true ↔ roundHalfEven (stepQuotient t start dt) = step) ∧
    (timeSelect_post t start dt step = true ↔ roundHalfEven (stepQuotient t start dt) = step) := by
  constructor
  · unfold timeSelect_pre timeToStep_pre; exact intCast_beq _ _
  · unfold timeSelect_post timeToStep_post; exact intCast_beq _ _

/-- … which is the nearest step: its distance from the exact quotient `(t - start)/dt` is at most
    `1/2` up to the two binary64 roundings (relative `quotTol = 2u + u²`, `u = 2⁻⁵³`) -/
theorem float_time_nearest_step (t start dt : Rat) (step : Int) (hdt : 0 < dt)
    (h : timeSelect_pre t start dt step = true) :
    |(step : Rat) - (t - start) / dt| ≤ 1 / 2 + quotTol * |(t - start) / dt| := by
  have hs := (float_time_step t start dt step).1.1 h
  have h1 := FloatGrid.roundHalfEven_err (stepQuotient t start dt)
  have h2 := stepQuotient_err t start dt hdt
  rw [hs] at h1
  have := abs_sub_le (step : Rat) (stepQuotient t start dt) ((t - start) / dt)
  linarith

/-- … and every step that is nearest by a margin is selected -/
theorem float_time_selects_nearest (t start dt : Rat) (k : Int) (hdt : 0 < dt)
    (h : |(t - start) / dt - k| + quotTol * |(t - start) / dt| < 1 / 2) :
    timeSelect_pre t start dt k = true ∧ timeSelect_post t start dt k = true := by
  have h2 := stepQuotient_err t start dt hdt
  have h3 := abs_sub_le (stepQuotient t start dt) ((t - start) / dt) (k : Rat)
  have hk := FloatGrid.roundHalfEven_eq_of_close (stepQuotient t start dt) k (by linarith)
  exact ⟨(float_time_step t start dt k).1.2 hk, (float_time_step t start dt k).2.2 hk⟩

/-- a time stamp whose nearest grid index is not a step `0..N` of the run (dated before the start
    or after the end) is selected at NO step of the run: such a control never acts -/
theorem float_time_outside_run (t start dt : Rat) (N : Nat)
    (h : roundHalfEven (stepQuotient t start dt) < 0 ∨
         (N : Int) < roundHalfEven (stepQuotient t start dt)) (k : Nat) (hk : k ≤ N) :
    timeSelect_pre t start dt (k : Int) = false ∧ timeSelect_post t start dt (k : Int) = false := by
  have hne : roundHalfEven (stepQuotient t start dt) ≠ (k : Int) := by
    rcases h with h | h <;> omega
  constructor
  · cases hc : timeSelect_pre t start dt (k : Int) with
    | false => rfl
    | true => exact absurd ((float_time_step t start dt k).1.1 hc) hne
  · cases hc : timeSelect_post t start dt (k : Int) with
    | false => rfl
    | true => exact absurd ((float_time_step t start dt k).2.1 hc) hne

/-- non-vacuity: `start_time = 1.0`, `dt = 0.1`, a control dated `t = 0.9` has nearest index -1 -/
example : roundHalfEven (stepQuotient (lit 9 1) (lit 10 1) (lit 1 1)) < 0 := by decide +kernel

/-- ties: a computed quotient exactly half-way between two steps goes to the EVEN one -/
theorem float_time_tie_even (t start dt : Rat) (step : Int)
    (htie : stepQuotient t start dt - ⌊stepQuotient t start dt⌋ = 1 / 2)
    (h : timeSelect_pre t start dt step = true) : step % 2 = 0 := by
  rw [← (float_time_step t start dt step).1.1 h]
  exact roundHalfEven_tie _ htie

/-- non-vacuity / the tie rule at work: with `dt = 0.1`, `t = 0.05` acts at step 0 and
    `t = 0.25` at step 2 (both quotients are exact ties), `t = 0.3` at step 3 -/
example :
    timeSelect_pre (lit 5 2) 0 (lit 1 1) 0 = true ∧ timeSelect_pre (lit 25 2) 0 (lit 1 1) 2 = true ∧
    timeSelect_pre (lit 3 1) 0 (lit 1 1) 3 = true ∧
    stepQuotient (lit 5 2) 0 (lit 1 1) - ⌊stepQuotient (lit 5 2) 0 (lit 1 1)⌋ = 1 / 2 := by
  refine ⟨by decide +kernel, by decide +kernel, by decide +kernel, ?_⟩
  have : stepQuotient (lit 5 2) 0 (lit 1 1) = 1 / 2 := by decide +kernel
  rw [this]; norm_num

/-- non-vacuity of `float_time_selects_nearest` / `float_time_nearest_step` on binary64 literals:
    `t = 0.3`, `dt = 0.1` (neither is exact in binary) is nearest to step 3 by a wide margin -/
example : (0 : Rat) < lit 1 1 ∧
    |(lit 3 1 - 0) / lit 1 1 - ((3 : Int) : Rat)| + quotTol * |(lit 3 1 - 0) / lit 1 1| < 1 / 2 := by
  have h1 : lit 1 1 = 3602879701896397 / 36028797018963968 := by decide +kernel
  have h3 : lit 3 1 = 5404319552844595 / 18014398509481984 := by decide +kernel
  rw [h1, h3]
  constructor
  · norm_num
  · norm_num [quotTol, uHalf, abs_of_pos, abs_of_neg]

/-! ### identity controls change nothing -/

/-- an identity operator registered anywhere in the call sequence (any key, either side) leaves
    the action of both controls of every step unchanged -/
theorem identity_neutral [Monoid M] [MulAction M S] (adds₁ adds₂ : List (Call M)) (key : Key)
    (post : Bool) (step : Int) (dt start : Rat) (x : S) :
    applyOpt ((build (adds₁ ++ ⟨key, post, 1⟩ :: adds₂)).getControls step dt start).1 x
      = applyOpt ((build (adds₁ ++ adds₂)).getControls step dt start).1 x ∧
    applyOpt ((build (adds₁ ++ ⟨key, post, 1⟩ :: adds₂)).getControls step dt start).2 x
      = applyOpt ((build (adds₁ ++ adds₂)).getControls step dt start).2 x := by
  rw [mixed_keys, mixed_keys]
  simp only [applyOpt_bucket, seqProd_append]
  have hs : ∀ p : Bool, sideList (adds₁ ++ ⟨key, post, 1⟩ :: adds₂) p =
      if post = p then sideList adds₁ p ++ (key, (1 : M)) :: sideList adds₂ p
      else sideList adds₁ p ++ sideList adds₂ p := by
    intro p
    unfold sideList
    by_cases h : post = p <;> simp [h]
  have hs0 : ∀ p : Bool, sideList (adds₁ ++ adds₂) p = sideList adds₁ p ++ sideList adds₂ p := by
    intro p; simp [sideList]
  rw [hs false, hs true, hs0 false, hs0 true]
  cases post
  · simp only [if_true, Bool.false_eq_true, if_false]
    have h := seqProd_insert_one (sideList adds₁ false) (sideList adds₂ false) key
      (fun t => timeSelect_pre t start dt step) step
    rw [h.1, h.2]
    constructor <;> trivial
  · simp only [if_true, Bool.true_eq_false, if_false]
    have h := seqProd_insert_one (sideList adds₁ true) (sideList adds₂ true) key
      (fun t => timeSelect_post t start dt step) step
    rw [h.1, h.2]
    constructor <;> trivial

/-- … hence all recorded states of `compute_dynamics` are unchanged -/
theorem identity_changes_nothing [Monoid M] [MulAction M S] (e : Env M S R) (x0 : S)
    (adds₁ adds₂ : List (Call M)) (key : Key) (post : Bool) (dt start : Rat) :
    computeDynamics (e.withControl (build (adds₁ ++ ⟨key, post, 1⟩ :: adds₂)) dt start) x0
      = computeDynamics (e.withControl (build (adds₁ ++ adds₂)) dt start) x0 := by
  rw [acts_once_at_step, acts_once_at_step]
  have hk : ∀ k, seen (e.withControl (build (adds₁ ++ ⟨key, post, 1⟩ :: adds₂)) dt start) x0 k
      = seen (e.withControl (build (adds₁ ++ adds₂)) dt start) x0 k := by
    intro k
    apply seen_congr <;> try rfl
    · intro i _ x; exact (identity_neutral adds₁ adds₂ key post i dt start x).1
    · intro i _ x; exact (identity_neutral adds₁ adds₂ key post i dt start x).2
  rw [funext hk]
  rfl

/-! ### 5. the same rules for chains -/

/-- `PtTebd` (fresh object, `compute(start_step + n)`), for every `n`, chain control, propagator
    and process tensors: the result recorded for step `s = start_step + k` is
    `obs_s (PRE_s Y_k)` with `Y_0 = x0`,
    `Y_{k+1} = layers (pts_{s+1} (layers (POST_s (PRE_s Y_k))))` — the same pre/post placement as
    in `acts_once_at_step`; first (`initialize`) and last step included. -/
theorem chain_same_rules [Mul M] (e : TebdEnv M S R) (s0 : Int) (x0 : S) (n : Nat) :
    tebdRun e s0 x0 n = (List.range (n + 1)).map (tebdSeen e s0 x0) ∧
    (∀ k, tebdSeen e s0 x0 k
        = e.obs (s0 + k) (applyControls e (s0 + k) false (tebdTraj e s0 x0 k))) ∧
    (∀ k, tebdTraj e s0 x0 (k + 1) =
      e.layers (e.pts (s0 + k + 1) (e.layers
        (applyControls e (s0 + k) true (applyControls e (s0 + k) false (tebdTraj e s0 x0 k)))))) :=
  ⟨tebdRun_eq e s0 x0 n, fun _ => rfl, fun _ => rfl⟩

/-- … where `PRE_s` / `POST_s` apply on every site `i` the insertion-ordered product of the
    operators registered for `(i, s)` on that side, and nothing on sites without a control. -/
theorem chain_controls_per_site [Monoid M] (e : TebdEnv M S R) (step : Int) (post : Bool) (x : S) :
    applyControls e step post x =
      applySites e.actSite (fun i => bucket (siteOps (e.ctl.side post) step i)) e.n x :=
  applyControls_eq rfl e step post x

/-- identity controls on a chain: an identity operator registered anywhere in the registration
    history (any site, step, side) changes the action of `_apply_controls` at no step — hence, by
    `chain_same_rules`, no recorded result.  Hypothesis: the site gate of the identity matrix is
    the identity map. -/
theorem chain_identity_neutral [Monoid M] (e e' : TebdEnv M S R) (hn : e.n = e'.n)
    (ha : e.actSite = e'.actSite) (hact1 : ∀ i x, e.actSite i 1 x = x) (post : Bool)
    (l₁ l₂ : List (ChainEntry M)) (site : Nat) (s : Int)
    (h : e.ctl.side post = l₁ ++ ⟨site, s, 1⟩ :: l₂) (h' : e'.ctl.side post = l₁ ++ l₂)
    (step : Int) (x : S) :
    applyControls e step post x = applyControls e' step post x :=
  applyControls_insert_one rfl e e' hn ha hact1 post l₁ l₂ site s h h' step x

/-- non-vacuity of `chain_identity_neutral`: any family of monoid actions has `act i 1 = id`, and
    a registration history with an identity entry in the middle exists -/
example [Monoid M] [MulAction M S] (a b : M) :
    (∀ (i : Nat) (x : S), (fun (_ : Nat) (m : M) (y : S) => m • y) i 1 x = x) ∧
    ((({} : ChainCtl M).add a 0 1 false).add 1 1 1 false).add b 0 1 false
      = { pre := [⟨0, 1, a⟩] ++ ⟨1, 1, 1⟩ :: [⟨0, 1, b⟩], post := [] } := by
  constructor
  · intro i x; exact one_smul M x
  · simp [ChainCtl.add]

/-- Object lifetime.  `PtTebd` holds the `ChainControl` BY REFERENCE and derives nothing from it at
    construction (`tebdControlByReference`, regenerated: the only assignments to
    `self._chain_control` store the given object, no other attribute is computed from it, it is read
    only in `_apply_controls`).  Hence controls registered AFTER the object was built — on the
    shared `ChainControl` or through `tebd.chain_control` — act exactly like controls registered
    before: `construct(c0); add*; compute(start+n)` records what a fresh run with the control
    `c0 + adds` records, for every `c0` (also the empty one), every list of additions and `n`. -/
theorem controls_added_after_construction_act [Mul M] (base : TebdEnv M S R) (c0 : ChainCtl M)
    (s0 : Int) (x0 : S) (adds : List (ChainEntry M × Bool)) (n : Nat) :
    tebdControlByReference = true ∧
    tebdHistory base c0 s0 x0 (addsToOps adds ++ [TebdHistOp.compute (s0 + n)])
      = tebdRun { base with ctl := addAll c0 adds } s0 x0 n :=
  ⟨rfl, history_add_then_compute base c0 s0 x0 adds n⟩

end OQuPyVerif.Props.C18
