/-
  C14 — Splitting or repeating compute calls never changes the result.

  Property theorems only (helper lemmas live in Lemmas/Histories*.lean; the models in
  Model/Histories.lean).  Everything named `Generated.LoopOrder.*` / `Generated.StepCount.*`
  is regenerated from the source tree on every run, so these theorems are re-checked
  against the statement order, loop conditions and step counts the code has now.

  Reading guide.  The persistent state of a method object is modelled by the log of what
  was done to its tensor network (with which step arguments and which user-callable
  results), its step counter and its recorded results.  `Obj.view` is everything that
  decides present and future results; two histories with equal views are
  indistinguishable.
-/
import OQuPyVerif.Generated.StepCount
import OQuPyVerif.Lemmas.HistoriesCompute
import OQuPyVerif.Lemmas.HistoriesFixed
import OQuPyVerif.Lemmas.HistoriesTebd
import OQuPyVerif.Lemmas.FloatGrid

namespace OQuPyVerif.Props.C14
open OQuPyVerif.FloatModel OQuPyVerif.Histories
open OQuPyVerif.TimeGrid hiding compute
open OQuPyVerif.Generated.LoopOrder OQuPyVerif.Generated.StepCount

/-! ## 0. What the regenerated step lists say -/

/-- A fault-free `TempoBackend.compute_step` at counter `k` evaluates the user's propagators
    for step `k` (exactly once), advances the network with step argument `k+1` using them,
    stores the new state and leaves the counter at `k+1`. -/
theorem step_spec_tempo (b : BState) :
    (backendStep noFault tempo_compute_step b).1.core =
      let net' := b.core.net ++ [.adv (b.core.step + 1) [(0, b.core.step)]]
      ⟨b.core.step + 1, net', (net', [(0, b.core.step)])⟩ := by
  simp [backendStep, runOps, tempo_compute_step, Aff.eval, noFault]

/-- … and `MeanFieldTempoBackend.compute_step`: field derivative and propagators of step `k`,
    networks advanced with `k+1`, then the field evolution function for step `k`; the new
    states/field are stored from all of these; counter `k+1`. -/
theorem step_spec_mft (b : BState) :
    (backendStep noFault mft_compute_step b).1.core =
      let net' := b.core.net ++ [.adv (b.core.step + 1) [(0, b.core.step), (1, b.core.step)]]
      ⟨b.core.step + 1, net',
       (net', [(0, b.core.step), (1, b.core.step), (2, b.core.step)])⟩ := by
  simp [backendStep, runOps, mft_compute_step, Aff.eval, noFault]

/-- every path through `PtTempoBackend.compute_step` advances the counter first, and every
    path through `TIBaseBackend.compute_step` (Gibbs) advances it by one and records one state;
    the PT-TEBD lists only contain micro-ops the PT-TEBD model interprets -/
theorem fixed_end_step_shapes :
    ptStepIncFirst = true ∧ gibbsStepShape = true ∧
    tebdOpsOnly tebd_compute_step = true ∧ tebdOpsOnly tebd_initialize = true ∧
    traceOpsOnly tebd_append_results = true ∧ traceOpsOnly tebd_get_dm = true ∧
    traceOpsOnly tebd_get_results = true ∧ traceOpsOnly tebd_get_mps = true := by decide

/-! ## 1. `split_eq_single` — TEMPO, mean-field TEMPO -/

/-- the fault-free computation of exactly `k` steps on a fresh object -/
def faultFree (ops : Int → List MicroOp) (time : Int → Rat) (k : Nat) : Obj :=
  (stepLoop noFault ops time k (startObj time 0 Obj.fresh)).1

theorem stepLoop_noFault_ok (ops : Int → List MicroOp) (time : Int → Rat) (n : Nat) (o : Obj) :
    (stepLoop noFault ops time n o).2 = true := by
  induction n generalizing o with
  | zero => rfl
  | succ n ih =>
    have : (backendStep noFault (ops o.b.core.step) o.b).2 = true := runOps_noFault_ok _ _ _
    simp only [stepLoop, this, if_true]
    exact ih _

private theorem fresh_pre (ops : Int → List MicroOp) (time : Int → Rat) : Pre ops time Obj.fresh 0 :=
  Or.inl ⟨rfl, rfl, rfl, rfl⟩

private theorem toNat_step (endStep : Rat → Int) (k : Nat) (e : Rat) :
    k + (max 0 (endStep e - (k : Int))).toNat = max k (endStep e).toNat := by omega

/-- Invariant of fault-free histories: after the targets `l` the object is in the canonical
    state of step `max k (max over l of endStep)`. -/
private theorem hist_noFault (ops : Int → List MicroOp) (hinc : ∀ k, lastSetStep (ops k) = some ⟨1, 1⟩)
    (endStep : Rat → Int) (numStep : Int → Rat → Int)
    (hns : ∀ k e, numStep k e = max 0 (endStep e - k))
    (time : Int → Rat) (hm : ∀ a b : Int, a ≤ b → time a ≤ time b)
    (l : List Rat) : ∀ (o : Obj) (k : Nat), Pre ops time o k →
    Pre ops time (runHist numStep time 0 ops noFault l o)
      (l.foldl (fun k x => max k (endStep x).toNat) k) ∧
    (l ≠ [] → Canon ops time (runHist numStep time 0 ops noFault l o)
      (l.foldl (fun k x => max k (endStep x).toNat) k)) := by
  induction l with
  | nil => intro o k h; exact ⟨by simpa [runHist] using h, fun h => absurd rfl h⟩
  | cons e es ih =>
    intro o k h
    obtain ⟨j, _, hc, hfin⟩ := compute_canon ops hinc numStep time hm noFault (Or.inr rfl) o k h e
    have hok : (compute numStep time 0 ops noFault o e).2 = true := stepLoop_noFault_ok _ _ _ _
    have hj := hfin hok
    rw [hj, hns, toNat_step] at hc
    have := ih _ _ (Or.inr hc)
    simp only [runHist, List.foldl_cons] at this ⊢
    refine ⟨this.1, fun _ => ?_⟩
    cases es with
    | nil => simpa using hc
    | cons x xs => exact this.2 (by simp)

private theorem foldl_max_le {α} (g : α → Nat) (B : Nat) (l : List α) : ∀ k, k ≤ B →
    (∀ x ∈ l, g x ≤ B) → l.foldl (fun k x => max k (g x)) k ≤ B := by
  induction l with
  | nil => intro k hk _; simpa using hk
  | cons a as ih =>
    intro k hk h
    simp only [List.foldl_cons]
    exact ih _ (by have := h a (by simp); omega) (fun x hx => h x (by simp [hx]))

private theorem le_foldl_max {α} (g : α → Nat) (l : List α) : ∀ k,
    k ≤ l.foldl (fun k x => max k (g x)) k := by
  induction l with
  | nil => intro k; simp
  | cons a as ih =>
    intro k
    simp only [List.foldl_cons]
    have := ih (max k (g a)); omega

private theorem mem_le_foldl_max {α} (g : α → Nat) (T : α) (l : List α) (hT : T ∈ l) : ∀ k,
    g T ≤ l.foldl (fun k x => max k (g x)) k := by
  induction l with
  | nil => cases hT
  | cons a as ih =>
    intro k
    simp only [List.foldl_cons]
    rcases List.mem_cons.mp hT with rfl | h
    · have := le_foldl_max g as (max k (g T)); omega
    · exact ih h _

theorem foldl_max_eq {α} (g : α → Nat) (T : α) (l : List α) (hT : T ∈ l)
    (hmax : ∀ x ∈ l, g x ≤ g T) : l.foldl (fun k x => max k (g x)) 0 = g T := by
  have h1 := foldl_max_le g (g T) l 0 (Nat.zero_le _) hmax
  have h2 := mem_le_foldl_max g T l hT 0
  omega

/-- **split_eq_single.**  For every list of targets (any order, repetitions allowed) the final
    object — dynamics *and* persistent backend state — equals that of ONE call with the
    furthest target `T`.  No assumption on the statement order of the backend step is needed
    for this part.  Hypotheses: the step-count rule of `compute` (`hns`, an `rfl` fact about
    the generated functions, see `tempo_split_eq_single`), monotone end-step function and
    monotone labels. -/
theorem split_eq_single (ops : Int → List MicroOp) (hinc : ∀ k, lastSetStep (ops k) = some ⟨1, 1⟩)
    (endStep : Rat → Int) (hmono : ∀ a b : Rat, a ≤ b → endStep a ≤ endStep b)
    (numStep : Int → Rat → Int) (hns : ∀ k e, numStep k e = max 0 (endStep e - k))
    (time : Int → Rat) (hm : ∀ a b : Int, a ≤ b → time a ≤ time b)
    (targets : List Rat) (T : Rat) (hT : T ∈ targets) (hmax : ∀ x ∈ targets, x ≤ T) :
    (runHist numStep time 0 ops noFault targets Obj.fresh).view =
      (compute numStep time 0 ops noFault Obj.fresh T).1.view := by
  have hne : targets ≠ [] := by intro h; rw [h] at hT; cases hT
  have h1 := (hist_noFault ops hinc endStep numStep hns time hm targets _ 0
    (fresh_pre ops time)).2 hne
  have h2 := (hist_noFault ops hinc endStep numStep hns time hm [T] _ 0
    (fresh_pre ops time)).2 (by simp)
  have hg : ∀ x ∈ targets, (endStep x).toNat ≤ (endStep T).toNat := by
    intro x hx; have := hmono x T (hmax x hx); omega
  rw [foldl_max_eq (fun x => (endStep x).toNat) T targets hT hg] at h1
  simp only [List.foldl_cons, List.foldl_nil, Nat.zero_max, runHist] at h2
  exact canon_view ops time _ _ _ h1 h2

/-- **already-reached targets are no-ops**: nothing at all changes — no backend step, no
    user-callable invocation, no new entry in the dynamics — for any fault oracle. -/
theorem reached_target_noop (ops : Int → List MicroOp) (endStep : Rat → Int)
    (numStep : Int → Rat → Int) (hns : ∀ k e, numStep k e = max 0 (endStep e - k))
    (time : Int → Rat) (faulty : Oracle) (o : Obj) (hs : o.started = true) (e : Rat)
    (h : endStep e ≤ o.b.core.step) :
    compute numStep time 0 ops faulty o e = (o, true) := by
  unfold compute startObj
  simp only [hs, if_true, hns]
  have : (max 0 (endStep e - o.b.core.step)).toNat = 0 := by omega
  rw [this]
  rfl

/-! ## 3. `retry_after_fault` — TEMPO, mean-field TEMPO -/

/-- **Canonical-state invariant for all histories and all fault sequences.**  If every
    `callUser` of the backend step precedes its unprotected effects (`faultSafe`), then after
    ANY non-empty sequence of compute calls — whichever user-callable invocations raised,
    with whatever exception class (`Oracle.base`), whichever calls therefore failed — the
    object is exactly in the state of a fault-free
    computation of some number `k` of steps: nothing is skipped, doubled or shifted. -/
theorem history_canonical (ops : Int → List MicroOp) (hsafe : ∀ k, faultSafe (ops k) = true)
    (hinc : ∀ k, lastSetStep (ops k) = some ⟨1, 1⟩) (numStep : Int → Rat → Int)
    (time : Int → Rat) (hm : ∀ a b : Int, a ≤ b → time a ≤ time b)
    (faulty : Oracle) (e : Rat) (es : List Rat) :
    ∃ k : Nat, (runHist numStep time 0 ops faulty (e :: es) Obj.fresh).view =
      (faultFree ops time k).view := by
  have key : ∀ (l : List Rat) (o : Obj) (k : Nat), Canon ops time o k →
      ∃ k', Canon ops time (runHist numStep time 0 ops faulty l o) k' := by
    intro l
    induction l with
    | nil => intro o k h; exact ⟨k, by simpa [runHist] using h⟩
    | cons x xs ih =>
      intro o k h
      obtain ⟨j, _, hc, _⟩ := compute_canon ops hinc numStep time hm faulty (Or.inl hsafe) o k
        (Or.inr h) x
      simpa [runHist] using ih _ _ hc
  obtain ⟨j, _, hc, _⟩ := compute_canon ops hinc numStep time hm faulty (Or.inl hsafe)
    Obj.fresh 0 (fresh_pre ops time) e
  obtain ⟨k', hk'⟩ := key es _ _ hc
  refine ⟨k', canon_view ops time _ _ k' (by simpa [runHist] using hk') ?_⟩
  obtain ⟨j', _, hc', hfin⟩ := stepLoop_canon ops hinc time hm noFault (Or.inr rfl) k'
    (startObj time 0 Obj.fresh) 0 (startObj_canon ops time _ 0 (fresh_pre ops time))
  have := hfin (stepLoop_noFault_ok _ _ _ _)
  subst this
  simpa [faultFree] using hc'

/-- **retry_after_fault.**  Take any earlier history `pre` (with any failures in it) whose
    targets do not lie beyond `e`, then call `compute(e)` — e.g. the repetition of a call that
    has just failed.  Either this call fails again, or it leaves exactly the object that a
    single fault-free `compute(e)` on a fresh object leaves: the same dynamics as if no failure
    had ever happened. -/
theorem retry_after_fault (ops : Int → List MicroOp) (hsafe : ∀ k, faultSafe (ops k) = true)
    (hinc : ∀ k, lastSetStep (ops k) = some ⟨1, 1⟩)
    (endStep : Rat → Int) (numStep : Int → Rat → Int)
    (hns : ∀ k e, numStep k e = max 0 (endStep e - k))
    (time : Int → Rat) (hm : ∀ a b : Int, a ≤ b → time a ≤ time b)
    (faulty : Oracle) (pre : List Rat) (e : Rat)
    (hpre : ∀ x ∈ pre, endStep x ≤ endStep e) :
    let r := compute numStep time 0 ops faulty (runHist numStep time 0 ops faulty pre Obj.fresh) e
    r.2 = false ∨ r.1.view = (compute numStep time 0 ops noFault Obj.fresh e).1.view := by
  intro r
  have key : ∀ (l : List Rat) (o : Obj) (k : Nat), (∀ x ∈ l, endStep x ≤ endStep e) →
      Pre ops time o k → k ≤ (endStep e).toNat →
      ∃ k', Pre ops time (runHist numStep time 0 ops faulty l o) k' ∧ k' ≤ (endStep e).toNat := by
    intro l
    induction l with
    | nil => intro o k _ h hk; exact ⟨k, by simpa [runHist] using h, hk⟩
    | cons x xs ih =>
      intro o k hl h hk
      obtain ⟨j, hj, hc, _⟩ := compute_canon ops hinc numStep time hm faulty (Or.inl hsafe) o k h x
      have hx := hl x (by simp)
      rw [hns] at hj
      have := ih _ (k + j) (fun y hy => hl y (by simp [hy])) (Or.inr hc) (by omega)
      simpa [runHist] using this
  obtain ⟨k, hk, hkB⟩ := key pre Obj.fresh 0 hpre (fresh_pre ops time) (Nat.zero_le _)
  obtain ⟨j, _, hc, hfin⟩ := compute_canon ops hinc numStep time hm faulty (Or.inl hsafe) _ k hk e
  by_cases hok : r.2 = true
  · right
    have hj := hfin hok
    rw [hj, hns, toNat_step] at hc
    have hkk : max k (endStep e).toNat = (endStep e).toNat := by omega
    rw [hkk] at hc
    obtain ⟨j', _, hc', hfin'⟩ := compute_canon ops hinc numStep time hm noFault (Or.inr rfl)
      Obj.fresh 0 (fresh_pre ops time) e
    have := hfin' (stepLoop_noFault_ok _ _ _ _)
    rw [this, hns] at hc'
    have h0 : 0 + (max 0 (endStep e - ((0 : Nat) : Int))).toNat = (endStep e).toNat := by omega
    rw [h0] at hc'
    exact canon_view ops time _ _ _ hc hc'
  · left; simpa using hok

/-! ### the two instances, on the regenerated lists and step-count functions -/

private theorem tempo_hns (s dt : Rat) : ∀ k e,
    tempo_num_step s dt k e = max 0 (get_number_of_steps s e dt - k) := fun _ _ => rfl
private theorem mft_hns (s dt : Rat) : ∀ k e,
    mft_num_step s dt k e = max 0 (get_number_of_steps s e dt - k) := fun _ _ => rfl

/-- **The ordering obligation, decided on the regenerated lists** (each with
    `compute_system_step` spliced in, so the evaluation of the bath correlations by
    `self._influence` — user callable 9 — is part of the list): in every memory regime and at
    every step, every user callable is invoked before anything that an exception would leave
    behind, and the step advances the counter by one.  This is what breaks when the counter is
    advanced before the propagators are evaluated, when the rollback handler is narrowed or made
    inexact, or when the influence look-ahead is moved behind the network update. -/
theorem tempo_steps_safe (dkmax : Option Int) (k : Int) :
    faultSafe (tempoOpsAt dkmax k) = true ∧ lastSetStep (tempoOpsAt dkmax k) = some ⟨1, 1⟩ := by
  unfold tempoOpsAt
  cases dkmax with
  | none =>
    exact (by decide : faultSafe tempo_step_nocutoff = true ∧
      lastSetStep tempo_step_nocutoff = some ⟨1, 1⟩)
  | some d => simp only []; split <;> decide

theorem mft_steps_safe (dkmax : Option Int) (k : Int) :
    faultSafe (mftOpsAt dkmax k) = true ∧ lastSetStep (mftOpsAt dkmax k) = some ⟨1, 1⟩ := by
  unfold mftOpsAt
  cases dkmax with
  | none =>
    exact (by decide : faultSafe mft_step_nocutoff = true ∧
      lastSetStep mft_step_nocutoff = some ⟨1, 1⟩)
  | some d => simp only []; split <;> decide

/-- `Tempo`: any split of compute calls = one call with the furthest target (`dt > 0`). -/
theorem tempo_split_eq_single (dkmax : Option Int) (s dt : Rat) (hdt : 0 < dt) (targets : List Rat) (T : Rat)
    (hT : T ∈ targets) (hmax : ∀ x ∈ targets, x ≤ T) :
    (runHist (tempo_num_step s dt) (tempo_time s dt) tempo_init_step (tempoOpsAt dkmax) noFault
        targets Obj.fresh).view =
    (compute (tempo_num_step s dt) (tempo_time s dt) tempo_init_step (tempoOpsAt dkmax) noFault
        Obj.fresh T).1.view :=
  split_eq_single (tempoOpsAt dkmax) (fun k => (tempo_steps_safe dkmax k).2) (fun e => get_number_of_steps s e dt)
    (fun _ _ h => FloatGrid.steps_mono s dt hdt h) _ (tempo_hns s dt) _
    (FloatGrid.gridTime_mono s dt hdt.le) targets T hT hmax

/-- `MeanFieldTempo`: the same. -/
theorem mft_split_eq_single (dkmax : Option Int) (s dt : Rat) (hdt : 0 < dt) (targets : List Rat) (T : Rat)
    (hT : T ∈ targets) (hmax : ∀ x ∈ targets, x ≤ T) :
    (runHist (mft_num_step s dt) (mft_time s dt) mft_init_step (mftOpsAt dkmax) noFault
        targets Obj.fresh).view =
    (compute (mft_num_step s dt) (mft_time s dt) mft_init_step (mftOpsAt dkmax) noFault
        Obj.fresh T).1.view :=
  split_eq_single (mftOpsAt dkmax) (fun k => (mft_steps_safe dkmax k).2) (fun e => get_number_of_steps s e dt)
    (fun _ _ h => FloatGrid.steps_mono s dt hdt h) _ (mft_hns s dt) _
    (FloatGrid.gridTime_mono s dt hdt.le) targets T hT hmax

/-- `Tempo`: the statement order of the current `TempoBackend.compute_step` — with
    `compute_system_step` spliced in, for every memory regime — is fault-safe, hence a repeated
    call after a failure of the Hamiltonian / rates / Lindblad operators OR of the bath
    correlation function (user callable 9, evaluated by `self._influence`) fails again or gives
    the no-failure result.  (`by decide` on the regenerated list: this is
    the obligation that breaks when the counter is advanced before the propagators are
    evaluated.) -/
theorem tempo_retry_after_fault (dkmax : Option Int) (s dt : Rat) (hdt : 0 < dt) (faulty : Oracle)
    (pre : List Rat) (e : Rat) (hpre : ∀ x ∈ pre, x ≤ e) :
    let r := compute (tempo_num_step s dt) (tempo_time s dt) tempo_init_step (tempoOpsAt dkmax)
      faulty (runHist (tempo_num_step s dt) (tempo_time s dt) tempo_init_step (tempoOpsAt dkmax)
        faulty pre Obj.fresh) e
    r.2 = false ∨ r.1.view =
      (compute (tempo_num_step s dt) (tempo_time s dt) tempo_init_step (tempoOpsAt dkmax)
        noFault Obj.fresh e).1.view :=
  retry_after_fault (tempoOpsAt dkmax) (fun k => (tempo_steps_safe dkmax k).1)
    (fun k => (tempo_steps_safe dkmax k).2)
    (fun e => get_number_of_steps s e dt) _ (tempo_hns s dt) _
    (FloatGrid.gridTime_mono s dt hdt.le) faulty pre e
    (fun x hx => FloatGrid.steps_mono s dt hdt (hpre x hx))

/-- `MeanFieldTempo`: the same for failures of the field equation of motion (any of its three
    evaluations per step) and of the Hamiltonians. -/
theorem mft_retry_after_fault (dkmax : Option Int) (s dt : Rat) (hdt : 0 < dt) (faulty : Oracle)
    (pre : List Rat) (e : Rat) (hpre : ∀ x ∈ pre, x ≤ e) :
    let r := compute (mft_num_step s dt) (mft_time s dt) mft_init_step (mftOpsAt dkmax)
      faulty (runHist (mft_num_step s dt) (mft_time s dt) mft_init_step (mftOpsAt dkmax)
        faulty pre Obj.fresh) e
    r.2 = false ∨ r.1.view =
      (compute (mft_num_step s dt) (mft_time s dt) mft_init_step (mftOpsAt dkmax)
        noFault Obj.fresh e).1.view :=
  retry_after_fault (mftOpsAt dkmax) (fun k => (mft_steps_safe dkmax k).1)
    (fun k => (mft_steps_safe dkmax k).2)
    (fun e => get_number_of_steps s e dt) _ (mft_hns s dt) _
    (FloatGrid.gridTime_mono s dt hdt.le) faulty pre e
    (fun x hx => FloatGrid.steps_mono s dt hdt (hpre x hx))

/-- all histories / all fault sequences, for both objects -/
theorem tempo_history_canonical (dkmax : Option Int) (s dt : Rat) (hdt : 0 < dt) (faulty : Oracle)
    (e : Rat) (es : List Rat) :
    ∃ k : Nat, (runHist (tempo_num_step s dt) (tempo_time s dt) tempo_init_step
        (tempoOpsAt dkmax) faulty (e :: es) Obj.fresh).view =
      (faultFree (tempoOpsAt dkmax) (tempo_time s dt) k).view :=
  history_canonical (tempoOpsAt dkmax) (fun k => (tempo_steps_safe dkmax k).1)
    (fun k => (tempo_steps_safe dkmax k).2) _ _
    (FloatGrid.gridTime_mono s dt hdt.le) faulty e es

theorem mft_history_canonical (dkmax : Option Int) (s dt : Rat) (hdt : 0 < dt) (faulty : Oracle)
    (e : Rat) (es : List Rat) :
    ∃ k : Nat, (runHist (mft_num_step s dt) (mft_time s dt) mft_init_step
        (mftOpsAt dkmax) faulty (e :: es) Obj.fresh).view =
      (faultFree (mftOpsAt dkmax) (mft_time s dt) k).view :=
  history_canonical (mftOpsAt dkmax) (fun k => (mft_steps_safe dkmax k).1)
    (fun k => (mft_steps_safe dkmax k).2) _ _
    (FloatGrid.gridTime_mono s dt hdt.le) faulty e es

/-- non-vacuity of the instances: the binary64 grid `start = 0`, `dt = 0.1` (`0 < dt`), targets
    0.3, 0.2, 0.5 (furthest: 0.5, a member, all others below it) — the history ends at step 5
    with six labelled states, like the single call. -/
example : (0 : Rat) < lit 1 1 ∧ lit 5 1 ∈ [lit 3 1, lit 2 1, lit 5 1] ∧
    (∀ x ∈ [lit 3 1, lit 2 1, lit 5 1], x ≤ lit 5 1) ∧
    (runHist (tempo_num_step 0 (lit 1 1)) (tempo_time 0 (lit 1 1)) tempo_init_step
      (tempoOpsAt (some 2)) noFault [lit 3 1, lit 2 1, lit 5 1] Obj.fresh).dyn.times.length = 6 := by
  decide +kernel

/-- non-vacuity (hypotheses of the general theorems are met by a concrete instance): the
    regenerated TEMPO step list with an integer time grid; a 3-target history; a fault oracle
    that makes the 2nd user-callable invocation (the bath correlations of step 1) raise. -/
example : (∀ k, faultSafe (tempoOpsAt none k) = true) ∧
    (∀ k, lastSetStep (tempoOpsAt none k) = some ⟨1, 1⟩) ∧
    (∀ a b : Int, a ≤ b → idxTime a ≤ idxTime b) ∧
    (∀ a b : Rat, a ≤ b → a.floor ≤ b.floor) := by
  refine ⟨fun k => (tempo_steps_safe none k).1, fun k => (tempo_steps_safe none k).2,
    idxTime_mono, fun a b h => ?_⟩
  exact Int.floor_le_floor h

/-- … and the fault really bites in that instance: the first call fails, the retry completes
    at step 3 with the four grid states. -/
example :
    let numStep : Int → Rat → Int := fun k e => max 0 (e.floor - k)
    let faulty : Oracle := ⟨fun n => n == 1, fun n => n == 1⟩
    let o1 := compute numStep idxTime 0 (tempoOpsAt none) faulty Obj.fresh 3
    let o2 := compute numStep idxTime 0 (tempoOpsAt none) faulty o1.1 3
    o1.2 = false ∧ o2.2 = true ∧ o2.1.dyn.times.length = 4 ∧ o2.1.b.calls = 8 := by
  decide +kernel

/-! ## 2. `idempotent` — PT-TEMPO, Gibbs TEMPO -/

/-- **PT-TEMPO.**  For a process tensor of `n ≥ 2` steps and every non-empty sequence of
    `compute()` / `get_process_tensor()` calls: no call raises, the backend ends at step `n`
    with each of the steps `2..n` done exactly once, and every `get_process_tensor()` returns
    the process tensor computed from exactly that network. -/
theorem pt_idempotent (n : Int) (hn : 2 ≤ n) (op : FixedOp) (ops : List FixedOp) :
    let r := ptHist n (op :: ops) PtObj.fresh
    PtDone n r.1 ∧ ∀ out ∈ r.2, out = .done ∨ out = .pt (ptSeq 1 (n - 1).toNat) := by
  have key : ∀ (l : List FixedOp) (o : PtObj), PtDone n o →
      PtDone n (ptHist n l o).1 ∧
      ∀ out ∈ (ptHist n l o).2, out = .done ∨ out = .pt (ptSeq 1 (n - 1).toNat) := by
    intro l
    induction l with
    | nil => intro o h; exact ⟨by simpa [ptHist] using h, by simp [ptHist]⟩
    | cons a as ih =>
      intro o h
      cases a with
      | compute =>
        have hc := ptCompute_done n o h
        have := ih o h
        simp only [ptHist, ptOp, hc, if_true]
        exact ⟨this.1, fun out ho => by
          rcases List.mem_cons.mp ho with rfl | h'
          · exact Or.inl rfl
          · exact this.2 out h'⟩
      | get =>
        obtain ⟨hd, hout, _, _⟩ := ptGet_done n hn o h
        have := ih _ hd
        simp only [ptHist, ptOp]
        exact ⟨this.1, fun out ho => by
          rcases List.mem_cons.mp ho with rfl | h'
          · exact Or.inr hout
          · exact this.2 out h'⟩
  intro r
  cases op with
  | compute =>
    have hc := ptCompute_fresh n hn PtObj.fresh rfl rfl
    have hd : PtDone n (ptCompute n PtObj.fresh).1 := by
      rw [hc]; exact ⟨rfl, rfl, Or.inl ⟨rfl, rfl⟩⟩
    have := key ops _ hd
    simp only [r, ptHist, ptOp]
    refine ⟨this.1, fun out ho => ?_⟩
    rcases List.mem_cons.mp ho with rfl | h'
    · left; simp [hc]
    · exact this.2 out h'
  | get =>
    obtain ⟨hd, hout⟩ := ptGet_fresh n hn
    have := key ops _ hd
    simp only [r, ptHist, ptOp]
    refine ⟨this.1, fun out ho => ?_⟩
    rcases List.mem_cons.mp ho with rfl | h'
    · exact Or.inr hout
    · exact this.2 out h'

/-- `compute(); compute()` ≡ `compute()` for PT-TEMPO (the special case the property names). -/
theorem pt_compute_twice (n : Int) (hn : 2 ≤ n) :
    ptCompute n (ptCompute n PtObj.fresh).1 = ((ptCompute n PtObj.fresh).1, true) := by
  have hc := ptCompute_fresh n hn PtObj.fresh rfl rfl
  exact ptCompute_done n _ (by rw [hc]; exact ⟨rfl, rfl, Or.inl ⟨rfl, rfl⟩⟩)

/-- non-vacuity: `n = 4`, history compute, get, compute, get -/
example : (ptHist 4 [.compute, .get, .compute, .get] PtObj.fresh).2 =
    [.done, .pt [2, 3, 4], .done, .pt [2, 3, 4]] := by decide +kernel

/-- **Gibbs TEMPO.**  For `n ≥ 2` imaginary-time steps and every number `k ≥ 1` of `compute()`
    calls the object is the same as after one call: backend at step `n-1`, states recorded
    under the labels `0..n` once each, and `get_state()` is the state of label `n`. -/
theorem gibbs_idempotent (n : Int) (hn : 2 ≤ n) (k : Nat) :
    gibbsHist n (k + 1) = gibbsDone n ∧ gibbsState (gibbsHist n (k + 1)) = some n := by
  have h : gibbsHist n (k + 1) = gibbsDone n := by
    unfold gibbsHist
    simp only [iter]
    rw [gibbsCompute_fresh n hn]
    induction k with
    | zero => rfl
    | succ k ih => simp only [iter]; rw [gibbsCompute_done]; exact ih
  refine ⟨h, ?_⟩
  rw [h]
  unfold gibbsState gibbsDone
  simp only [gridDyn, List.range_succ, List.map_append, List.map_cons, List.map_nil,
    List.getLast?_append, List.getLast?_singleton]
  have : ((n.toNat : Nat) : Int) = n := by omega
  simp [Option.or, this]

/-- non-vacuity: `n = 5`, two computes leave 6 recorded states and the backend at step 4 -/
example : (gibbsHist 5 2).step = some 4 ∧ (gibbsHist 5 2).dyn.states = [0, 1, 2, 3, 4, 5] := by
  decide +kernel

/-! ## 1'. `split_eq_single` — PT-TEBD -/

/-- **PT-TEBD.**  For every list of `end_step` targets the final object (chain state, step,
    recorded results) equals that of one call with the largest target. -/
theorem tebd_split_eq_single (cfg : TebdCfg) (targets : List Int) (T : Int) (hT : T ∈ targets)
    (hmax : ∀ x ∈ targets, x ≤ T) :
    tebdHist cfg targets = tebdCompute cfg Tebd.fresh T := by
  have key : ∀ (l : List Int) (j : Nat),
      l.foldl (tebdCompute cfg) (tebdCanon cfg j) =
        tebdCanon cfg (l.foldl (fun j x => max j (x - cfg.startStep).toNat) j) := by
    intro l
    induction l with
    | nil => intro j; rfl
    | cons x xs ih =>
      intro j
      simp only [List.foldl_cons]
      rw [tebdCompute_canon]
      have : j + (x - (cfg.startStep + (j : Int))).toNat = max j (x - cfg.startStep).toNat := by
        omega
      rw [this]
      exact ih _
  cases targets with
  | nil => cases hT
  | cons e es =>
    unfold tebdHist
    simp only [List.foldl_cons]
    rw [tebdCompute_fresh_canon, tebdCompute_fresh_canon, key]
    congr 1
    have h0 : ∀ x : Int, 0 + (x - (cfg.startStep + ((0 : Nat) : Int))).toNat
        = (x - cfg.startStep).toNat := by intro x; omega
    rw [h0, h0]
    have hg : ∀ x ∈ e :: es, (x - cfg.startStep).toNat ≤ (T - cfg.startStep).toNat := by
      intro x hx; have := hmax x hx; omega
    have := foldl_max_eq (fun x : Int => (x - cfg.startStep).toNat) T (e :: es) hT hg
    simp only [List.foldl_cons, Nat.zero_max] at this
    exact this

/-- non-vacuity: controls before step 1 and after step 2; targets 2, 1, 4 -/
example :
    let cfg : TebdCfg := ⟨0, fun p k => if p then k == 2 else k == 1, []⟩
    (tebdHist cfg [2, 1, 4]).chain =
      [.evolve 1, .ctrl false 1, .evolve 2, .ctrl true 2, .evolve 3, .evolve 4] := by
  decide +kernel

/-! ## 1''. read-only getters between compute calls — PT-TEBD -/

/-- **Getters are pure reads.**  For every history of `compute(end_step)`,
    `get_current_density_matrix`, `get_results`, `get_augmented_mps` calls (any order) the
    object ends with the same step, chain state and recorded results as the history with the
    getters removed — hence (`tebd_split_eq_single`) as the single call with the largest target.
    Rests on two regenerated facts: the getter lists record nothing, and
    `PtTebdBackend.compute_traces` recomputes the traces on every path
    (`tracesAlwaysFresh_true`), so traces left behind by a getter are never reused. -/
theorem tebd_getters_pure (cfg : TebdCfg) (ops : List TebdOp) :
    TebdSame (tebdOpHist cfg ops) (tebdHist cfg (computesOf ops)) := by
  have hdm : tebd_get_dm.all (fun o => o != .record) = true := by decide
  have hres : tebd_get_results.all (fun o => o != .record) = true := by decide
  have hmps : tebd_get_mps.all (fun o => o != .record) = true := by decide
  have key : ∀ (l : List TebdOp) (t u : Tebd), TebdSame t u →
      TebdSame (l.foldl (tebdOp cfg) t) ((computesOf l).foldl (tebdCompute cfg) u) := by
    intro l
    induction l with
    | nil => intro t u h; simpa [computesOf] using h
    | cons o r ih =>
      intro t u h
      have getter : ∀ g, g.all (fun o => o != MicroOp.record) = true →
          TebdSame (tebdGetter g t) u := fun g hg =>
        let a := tebdGetter_same g hg t
        ⟨a.1.trans h.1, a.2.1.trans h.2.1, a.2.2.trans h.2.2⟩
      cases o with
      | compute e =>
        simp only [List.foldl_cons, computesOf, tebdOp]
        exact ih _ _ (tebdCompute_same cfg t u h e)
      | getDM => simp only [List.foldl_cons, computesOf, tebdOp]; exact ih _ _ (getter _ hdm)
      | getResults => simp only [List.foldl_cons, computesOf, tebdOp]; exact ih _ _ (getter _ hres)
      | getMPS => simp only [List.foldl_cons, computesOf, tebdOp]; exact ih _ _ (getter _ hmps)
  exact key ops _ _ (TebdSame.refl _)

/-- non-vacuity / content: compute(2), fetch a density matrix, compute(4) records the chain
    state of step 3 for step 3 (not the traces cached by the fetch) -/
example :
    let cfg : TebdCfg := ⟨0, fun _ _ => false, []⟩
    (tebdOpHist cfg [.compute 2, .getDM, .compute 4]).results =
      (tebdHist cfg [4]).results ∧
    (tebdOpHist cfg [.compute 2, .getDM]).traces ≠ none := by
  decide +kernel

/-! ## 4. `restart_eq_uninterrupted` — PT-TEBD -/

theorem tebdStep_congr (cfg cfg' : TebdCfg) (h : cfg'.hasCtrl = cfg.hasCtrl) (t : Tebd) :
    tebdStep cfg' t = tebdStep cfg t := by
  unfold tebdStep
  simp [tebd_compute_step, tebdRun, h]

/-
  Full statement (NOT provable for the current code, see `restart_double_precontrol`):

    theorem restart_eq_uninterrupted (cfg) (hstart : cfg.startStep = 0) (hinit : cfg.initial = [])
        (m n : Nat) (hmn : m ≤ n) :
      let u := tebdCompute cfg Tebd.fresh m
      let full := tebdCompute cfg Tebd.fresh n
      let r := tebdCompute (tebdRestartCfg cfg u) Tebd.fresh n
      r.chain = full.chain ∧ r.step = full.step ∧ r.results = full.results.drop m

  What is missing: `PtTebd.initialize` applies the pre-measurement controls registered for
  the start step, and the exported chain state of step `m` already contains them; with a
  control at the restart step they are applied twice.
-/

/-- **restart_eq_uninterrupted (partial).**  A computation restarted at step `m` from the
    exported chain state and step number continues exactly as the uninterrupted one — same
    chain state, same step, same recorded results from step `m` on — PROVIDED no
    pre-measurement control is registered for the restart step `m`. -/
theorem restart_eq_uninterrupted_partial (cfg : TebdCfg) (hstart : cfg.startStep = 0)
    (m n : Nat) (hmn : m ≤ n) (hfree : cfg.hasCtrl false (m : Int) = false) :
    let u := tebdCompute cfg Tebd.fresh m
    let full := tebdCompute cfg Tebd.fresh n
    let r := tebdCompute (tebdRestartCfg cfg u) Tebd.fresh n
    r.chain = full.chain ∧ r.step = full.step ∧ r.results = full.results.drop m := by
  intro u full r
  have hu : u = tebdCanon cfg m := by
    simp only [u]; rw [tebdCompute_fresh_canon, hstart]; congr 1; omega
  have hfull : full = iter (tebdStep cfg) (n - m) u := by
    simp only [full]; rw [tebdCompute_fresh_canon, hstart, hu]
    unfold tebdCanon
    rw [← iter_add]
    congr 1; omega
  have hus : u.step = some (m : Int) := by
    rw [hu, tebdCanon_step, hstart]; congr 1; omega
  obtain ⟨pre, hres, hlen⟩ := tebdCanon_last cfg m
  rw [← hu, hstart] at hres
  have hm0 : (0 : Int) + (m : Int) = (m : Int) := by omega
  rw [hm0] at hres
  -- the restarted object after initialize()
  let cfg' := tebdRestartCfg cfg u
  have hcfg : cfg'.hasCtrl = cfg.hasCtrl := rfl
  have hstart' : cfg'.startStep = (m : Int) := by simp [cfg', tebdRestartCfg, hus]
  have hinit' : tebdInit cfg' Tebd.fresh =
      ⟨some (m : Int), u.chain, [((m : Int), u.chain)], none⟩ := by
    rw [tebdInit_eq]
    simp only [hstart', ctl, hcfg, hfree]
    simp [cfg', tebdRestartCfg]
  have hr : r = iter (tebdStep cfg) (n - m) (tebdInit cfg' Tebd.fresh) := by
    simp only [r]
    rw [tebdCompute_fresh _ _ rfl, hstart']
    have : (fun t => tebdStep cfg' t) = tebdStep cfg := funext (tebdStep_congr cfg cfg' hcfg)
    have e1 : ((n : Int) - (m : Int)).toNat = n - m := by omega
    rw [e1]
    show iter (tebdStep cfg') (n - m) _ = _
    rw [show tebdStep cfg' = tebdStep cfg from this]
  obtain ⟨h1, h2, ext, h3, h4⟩ := iter_tebdStep_rel cfg (n - m) (tebdInit cfg' Tebd.fresh) u
    (m : Int) (by rw [hinit']) hus (by rw [hinit'])
  rw [hr, hfull]
  refine ⟨h1, h2, ?_⟩
  rw [h3, h4, hres, hinit']
  simp only [List.append_assoc]
  rw [List.drop_left' hlen]

/-- non-vacuity of the hypothesis, and the theorem's content on a concrete instance: a control
    before step 1 and after step 2, restart at step 2, run to step 4 -/
example :
    let cfg : TebdCfg := ⟨0, fun p k => if p then k == 2 else k == 1, []⟩
    cfg.hasCtrl false 2 = false ∧
    (tebdCompute (tebdRestartCfg cfg (tebdCompute cfg Tebd.fresh 2)) Tebd.fresh 4).chain =
      (tebdCompute cfg Tebd.fresh 4).chain := by
  decide +kernel

/-- **The excluded point is a genuine failure of the current code** (defect #23): with a
    pre-measurement control registered for the restart step `m`, the restarted object applies it
    a second time on top of the exported state (which already contains it). -/
theorem restart_double_precontrol (cfg : TebdCfg) (hstart : cfg.startStep = 0) (m : Nat)
    (hctl : cfg.hasCtrl false (m : Int) = true) :
    let u := tebdCompute cfg Tebd.fresh m
    (tebdCompute (tebdRestartCfg cfg u) Tebd.fresh m).chain = u.chain ++ [.ctrl false (m : Int)] := by
  intro u
  have hus : u.step = some (m : Int) := by
    have : u = tebdCanon cfg m := by
      simp only [u]; rw [tebdCompute_fresh_canon, hstart]; congr 1; omega
    rw [this, tebdCanon_step, hstart]; congr 1; omega
  have hstart' : (tebdRestartCfg cfg u).startStep = (m : Int) := by simp [tebdRestartCfg, hus]
  rw [tebdCompute_fresh _ _ rfl, hstart']
  have : ((m : Int) - (m : Int)).toNat = 0 := by omega
  rw [this]
  simp only [iter]
  rw [tebdInit_eq]
  simp only [hstart', ctl]
  simp [hctl, tebdRestartCfg]

end OQuPyVerif.Props.C14
