/-
  C17 — An interrupted process-tensor file is never mistaken for a complete one.

  Property theorems only (helper lemmas: Lemmas/PTFile*.lean).  `flags` is regenerated from
  oqupy/process_tensor.py and oqupy/pt_tempo.py on every run (fragment FileFlags): the tests
  applied to `attrs["writing"]` in `_read_file` and `close()`, the h5py modes per `mode`,
  the `_removeable` assignments, the statements of `_create_file`, `export()`, `remove()`.
  The theorems below are therefore re-checked against what the code says now.

  Crash model (assumption on HDF5, stated in Model/PTFile.lean (H4) and `CrashState`): when the
  writer dies after it has issued `i ≥ 1` h5py operations the path holds an unreadable file or
  the file produced by a prefix `1 ≤ j ≤ i` of those operations.
-/
import OQuPyVerif.Generated.FileFlags
import OQuPyVerif.Lemmas.PTFileRoundtrip

namespace OQuPyVerif.Props.C17
open OQuPyVerif.PTFile OQuPyVerif.Generated.FileFlags

/-- `mode='write'` creates exclusively -/
theorem hypsWrite : WriterHyps flags "write" false .x := ⟨rfl, rfl, rfl, Or.inr rfl⟩
/-- `mode='overwrite'` creates or truncates -/
theorem hypsOverwrite : WriterHyps flags "overwrite" true .w := ⟨rfl, rfl, rfl, Or.inl rfl⟩

/-- The flag tests do what the flag is for, on the values h5py actually returns
    (`numpy.bool_`): a stored `True` makes the reader warn and makes a writer's `close()`
    clear it (to `False`); a stored `False` is silent; a reader's `close()` never writes. -/
theorem flag_tests_sound :
    flags.readWarn .npTrue = true ∧ flags.readWarn .npFalse = false ∧
    flags.closeReset true .npTrue = true ∧ flags.closeValue = false ∧
    flags.closeReset false .npTrue = false ∧ flags.closeReset false .npFalse = false := by
  decide

/-- … and these tests are applied unconditionally: the reader's test is a top-level statement
    of `_read_file` (no version branch or other condition can skip it), and the guard in
    `close()` depends on nothing but `self._write` and the flag (a writer's `close()` always
    clears it, whatever the file holds). -/
theorem flag_tests_unconditional :
    flags.readWarnUnconditional = true ∧ flags.closeResetPure = true := by
  decide

/-- **Interrupted writers** (file-backed PT-TEMPO, or any other sequence of `set_*` calls in
    any order, with any number of MPO and cap tensors, on a fresh or an overwritten path):
    killed after `i` operations, before `close()` issued its first one, whatever survives is
    opened with an error or with the corruption warning — never silently. -/
theorem interrupted_never_clean (env : Env) (d0 : Disk) (m : Meta) (cmds : List Cmd)
    (mode : String) (hmode : mode = "write" ∨ mode = "overwrite") (w : W)
    (hrun : writerW flags env d0 mode m cmds true = .ok w)
    (i : Nat) (hi : i + 2 ≤ w.trace.length) (d : Disk) (hc : CrashState d0 w.trace i d) :
    readOutcome flags d ≠ .clean := by
  rcases hmode with rfl | rfl
  · exact writer_interrupted_never_clean hypsWrite flag_tests_sound.1 flag_tests_sound.2.2.1
      env d0 m (writerW_ok_open hypsWrite env d0 m cmds true w hrun) cmds w hrun i hi d hc
  · exact writer_interrupted_never_clean hypsOverwrite flag_tests_sound.1 flag_tests_sound.2.2.1
      env d0 m (writerW_ok_open hypsOverwrite env d0 m cmds true w hrun) cmds w hrun i hi d hc

/-- … in particular `SimpleProcessTensor.export()`, for every process tensor. -/
theorem interrupted_export_never_clean (env : Env) (d0 : Disk) (pt : SimplePT) (ovw : Bool) (w : W)
    (hrun : exportW flags env d0 pt ovw = .ok w)
    (i : Nat) (hi : i + 2 ≤ w.trace.length) (d : Disk) (hc : CrashState d0 w.trace i d) :
    readOutcome flags d ≠ .clean := by
  rw [exportW_eq_writerW flags rfl] at hrun
  refine interrupted_never_clean env d0 pt.info (exportCmds pt) (flags.exportMode ovw) ?_ w hrun i hi d hc
  cases ovw
  · exact Or.inl rfl
  · exact Or.inr rfl

/-- **Never mistaken**, at every crash point including those inside `close()`: a surviving
    file that opens silently is the complete file. -/
theorem clean_implies_complete (env : Env) (d0 : Disk) (m : Meta) (cmds : List Cmd)
    (mode : String) (hmode : mode = "write" ∨ mode = "overwrite") (w : W)
    (hrun : writerW flags env d0 mode m cmds true = .ok w)
    (i : Nat) (d : Disk) (hc : CrashState d0 w.trace i d) (hclean : readOutcome flags d = .clean) :
    d = w.d := by
  rcases hmode with rfl | rfl
  · exact writer_clean_implies_complete hypsWrite flag_tests_sound.1 flag_tests_sound.2.2.1
      env d0 m (writerW_ok_open hypsWrite env d0 m cmds true w hrun) cmds w hrun i d hc hclean
  · exact writer_clean_implies_complete hypsOverwrite flag_tests_sound.1 flag_tests_sound.2.2.1
      env d0 m (writerW_ok_open hypsOverwrite env d0 m cmds true w hrun) cmds w hrun i d hc hclean

/-- **Closed normally**: the file opens without the warning, the flag is cleared, every
    attribute and dataset is the result of the `set_*` calls made, and it is exactly what the
    issued operations produce. -/
theorem closed_is_clean (env : Env) (d0 : Disk) (m : Meta) (cmds : List Cmd)
    (mode : String) (hmode : mode = "write" ∨ mode = "overwrite") (w : W)
    (hrun : writerW flags env d0 mode m cmds true = .ok w) :
    readOutcome flags w.d = .clean ∧
    w.d = .file { cmds.foldl pureCmd (freshContent env m) with writing := some false } ∧
    replay d0 w.trace = w.d := by
  obtain ⟨f1, f2, f3, f4, _, _⟩ := flag_tests_sound
  rcases hmode with rfl | rfl
  · exact writer_closed_is_clean hypsWrite f3 f4 f2 rfl env d0 m
      (writerW_ok_open hypsWrite env d0 m cmds true w hrun) cmds w hrun
  · exact writer_closed_is_clean hypsOverwrite f3 f4 f2 rfl env d0 m
      (writerW_ok_open hypsOverwrite env d0 m cmds true w hrun) cmds w hrun

/-- … and for `export()` the content is complete: a reader gets every MPO tensor and every
    cap tensor of the exported process tensor back, and nothing beyond them. -/
theorem closed_export_is_clean_and_complete (env : Env) (d0 : Disk) (pt : SimplePT)
    (ms cs : List Tensor) (g : GoodPT pt ms cs) (ovw : Bool) (w : W)
    (hrun : exportW flags env d0 pt ovw = .ok w) :
    ∃ p, importFile flags w.d = .ok (p, false) ∧ p.length = ms.length ∧
      (∀ k (hk : k < ms.length), p.getMpo k = .ok (some ms[k])) ∧
      (∀ k (hk : k < cs.length), p.getCap k = .ok (some cs[k])) ∧
      p.getCap cs.length = .ok none := by
  obtain ⟨_, f2, f3, f4, _, _⟩ := flag_tests_sound
  have hd : w.d = .file (closedContent env pt) := by
    cases ovw
    · exact (export_disk (ovw := false) hypsWrite rfl f3 f4 f2 rfl env d0 pt w hrun).1
    · exact (export_disk (ovw := true) hypsOverwrite rfl f3 f4 f2 rfl env d0 pt w hrun).1
  refine ⟨⟨pt.info, closedContent env pt⟩, ?_, file_length env pt ms cs g,
    file_getMpo_lt env pt ms cs g, file_getCap_lt env pt ms cs g,
    file_getCap_ge env pt ms cs g _ (Nat.le_refl _)⟩
  rw [hd]
  exact importFile_closed flags rfl f2 env pt ms cs g

/-- **No clobber**: `mode='write'` on a path that exists in any form raises and leaves the
    path exactly as it was. -/
theorem no_clobber (env : Env) (d : Disk) (m : Meta) (hd : d ≠ .missing) :
    createFile flags env d "write" m = .error .osError ∧
    diskAfterCtor flags env d "write" m = d :=
  exclusive_no_clobber hypsWrite env d m hd

/-- … and a constructor that succeeds on an existing path was asked to overwrite. -/
theorem overwrite_only_on_request (env : Env) (d : Disk) (m : Meta) (mode : String) (w : W)
    (hd : d ≠ .missing) (h : createFile flags env d mode m = .ok w) : mode = "overwrite" := by
  by_cases h1 : mode = "overwrite"
  · exact h1
  · exfalso
    by_cases h2 : mode = "write"
    · subst h2
      rw [(no_clobber env d m hd).1] at h
      cases h
    · by_cases h3 : mode = "read"
      · subst h3
        simp [createFile, flags, modeFlags] at h
      · have : flags.modeFlags mode = none := by
          simp [flags, modeFlags, h1, h2, h3]
        unfold createFile at h
        rw [this] at h
        cases h

/-- **No creating entry point clobbers.**  Without `overwrite`, `export()` and the PT-TEMPO
    entry points (`PtTempo(..., process_tensor_file=f)`, `pt_tempo_compute`; whatever else the
    mode selection looks at) hand `mode='write'` to `FileProcessTensor`, so on a path that exists
    in any state — complete, interrupted, unreadable — they raise and leave it as it was; only
    the caller's `overwrite=True` yields `mode='overwrite'`. -/
theorem entry_points_no_clobber :
    (∀ other : Nat → Bool, flags.ptTempoMode false other = "write") ∧
    (∀ other : Nat → Bool, flags.ptTempoMode true other = "overwrite") ∧
    flags.exportMode false = "write" ∧ flags.exportMode true = "overwrite" ∧
    (∀ (env : Env) (d : Disk) (m : Meta) (other : Nat → Bool), d ≠ .missing →
      createFile flags env d (flags.ptTempoMode false other) m = .error .osError ∧
      diskAfterCtor flags env d (flags.ptTempoMode false other) m = d) ∧
    (∀ (env : Env) (d : Disk) (pt : SimplePT), d ≠ .missing →
      exportW flags env d pt false = .error .osError) := by
  have h1 : ∀ other : Nat → Bool, flags.ptTempoMode false other = "write" := fun _ => rfl
  refine ⟨h1, fun _ => rfl, rfl, rfl, ?_, ?_⟩
  · intro env d m other hd
    rw [h1 other]
    exact no_clobber env d m hd
  · intro env d pt hd
    rw [exportW_eq_writerW flags rfl]
    unfold writerW
    rw [show flags.exportMode false = "write" from rfl, (no_clobber env d pt.info hd).1]

/-- … consequently an object obtained from PT-TEMPO with a *named* file and without
    `overwrite` is never entitled to delete that file (whether or not the file existed
    before, whatever else the mode selection looks at); with `overwrite`, or for a temporary
    file it created itself, it is. -/
theorem pttempo_remove_entitlement :
    (∀ other : Nat → Bool, removeableOf flags (flags.ptTempoMode false other) true = some false) ∧
    (∀ other : Nat → Bool, removeableOf flags (flags.ptTempoMode true other) true = some true) ∧
    (∀ (ovw : Bool) (other : Nat → Bool),
      removeableOf flags (flags.ptTempoMode ovw other) false = some true) := by
  refine ⟨fun _ => rfl, fun _ => rfl, ?_⟩
  intro ovw other
  cases ovw <;> rfl

/-- **remove()** deletes exactly when the object is entitled: `remove()` on a
    non-removeable object deletes nothing and raises, on a removeable one it deletes; a
    non-removeable object deletes nothing either when its handle was closed before
    (`close(); remove()`) or when `remove()` is called a second time; and
    `_removeable` is set exactly for temporary files the object created itself and for named
    files it was allowed to overwrite — never for a file opened for reading or created with
    `mode='write'` under a given name. -/
theorem remove_guard :
    removeRun flags.removeSteps false = (false, true) ∧
    removeRun flags.removeSteps true = (true, false) ∧
    (∀ isOpen, (removeRunO flags.removeSteps false isOpen).1 = false) ∧
    (∀ twice, removeSeqDeletes flags.removeSteps false twice = false) ∧
    (∀ hasFilename, removeableOf flags "read" hasFilename = some (entitled "read" hasFilename)) ∧
    (∀ hasFilename, removeableOf flags "write" hasFilename = some (entitled "write" hasFilename)) ∧
    (∀ hasFilename, removeableOf flags "overwrite" hasFilename = some (entitled "overwrite" hasFilename)) := by
  decide

/-- **Readers never alter a file, and keep no state of their own**: every
    `import_process_tensor` call starts by opening the file (so a second import in the same
    process sees — and warns about — exactly what the first did); importing opens read-only, and the reader's `close()`
    does not attempt to write (so it neither raises nor clears the flag of an interrupted
    file). -/
theorem reader_never_alters :
    flags.importOpensFirst = true ∧ flags.readMode = "r" ∧ (∀ d : Disk, h5openDisk d .r = d) ∧
    (∀ (c : H5) (b : Bool), c.writing = some b → readerCloseOk flags c = true) := by
  refine ⟨rfl, rfl, read_leaves_disk, ?_⟩
  intro c b hb
  unfold readerCloseOk
  rw [hb]
  cases b <;> decide

/-- **No handler closes an unfinished file.**  Neither `export()` nor anything on the
    file-backed PT-TEMPO writing path calls `close()` / `remove()` (which clears the flag) from
    an `except` or `finally` block: on the source as it is now, the only way to `close()` is
    the normal path, after every tensor was written. -/
theorem unwind_never_closes : flags.exportUnwind = [] ∧ flags.ptTempoUnwind = [] := by
  decide

/-- **Interrupted by an exception** (an error or KeyboardInterrupt raised after the writer's
    `k`-th operation, before `close()` started; everything issued so far persisted, and the
    library's handlers run while the exception unwinds): the file left behind is not opened
    silently.  `unwind` is the handler list of the writer in question. -/
theorem exception_interrupted_never_clean (env : Env) (d0 : Disk) (m : Meta) (cmds : List Cmd)
    (mode : String) (hmode : mode = "write" ∨ mode = "overwrite") (w : W)
    (hrun : writerW flags env d0 mode m cmds true = .ok w)
    (unwind : List UnwindStep) (hu : unwind = flags.exportUnwind ∨ unwind = flags.ptTempoUnwind)
    (rm : Bool) (n k : Nat) (hk1 : 1 ≤ k) (hk : k + 2 ≤ w.trace.length) :
    readOutcome flags (excState flags rm unwind d0 w.trace n k) ≠ .clean := by
  have hnil : unwind = [] := by
    rcases hu with h | h
    · rw [h]; exact unwind_never_closes.1
    · rw [h]; exact unwind_never_closes.2
  subst hnil
  exact interrupted_never_clean env d0 m cmds mode hmode w hrun k hk _
    (excState_crashState flags rm d0 w.trace n k hk1)

/-- **The flag is cleared only by `close()`.**  Of all assignments to `attrs["writing"]` in
    oqupy/process_tensor.py the only one that stores `False` is the one in `close()` (and the
    only other one is `_create_file` storing `True`); in particular `compute_caps()` of a
    file-backed process tensor writes no attribute. -/
theorem flag_cleared_only_by_close :
    (∀ p ∈ flags.writingAssignments, p.2 = false → p.1 = "close") ∧
    (∀ p ∈ flags.writingAssignments, p.1 = "close" ∨ p.1 = "_create_file") ∧
    flags.computeCapsTail = [] := by
  decide

/-- Hence a writer that calls `compute_caps()` — once, or again after further writes through
    the still-open object — issues exactly the operations of its `set_*` calls: every theorem
    above about `writerW` (crash points after `compute_caps()` and during later writes
    included) applies to it. -/
theorem compute_caps_keeps_flag (env : Env) (d0 : Disk) (mode : String) (m : Meta)
    (segs : List (List Cmd)) (rest : List Cmd) (close : Bool) :
    writerSegW flags env d0 mode m segs rest close =
      writerW flags env d0 mode m (segs.flatten ++ rest) close :=
  writerSegW_eq_writerW flags flag_cleared_only_by_close.2.2 env d0 mode m segs rest close

/-! ### non-vacuity -/

def m0 : Meta := ⟨2, some (mkRat 1 10), none, none, "pt", "d"⟩
def t0 : Tensor := ⟨[1, 1, 4], [.num 1 0, .num 0 0, .num 0 0, .num 1 0]⟩
def cap0 : Tensor := ⟨[1], [.num 1 0]⟩
def pt0 : SimplePT := { info := m0, mpos := [some t0, some t0], caps := [some cap0, some cap0, some cap0] }

/-- the hypotheses of the writer theorems are satisfiable: a PT-TEMPO-ordered writer on a
    fresh path runs, issuing 33 operations -/
example : ∃ w, writerW flags ⟨"0.5.0"⟩ .missing "write" m0
      (ptTempoCmds [some t0, some t0] [some cap0, some cap0, some cap0]) true = .ok w ∧
    w.trace.length = 33 := ⟨_, rfl, rfl⟩

/-- … its crash states are inhabited by readable files (here: after 22 operations the first
    written MPO tensor is at index 1, index 0 is still empty) -/
example : ∃ w, writerW flags ⟨"0.5.0"⟩ .missing "write" m0
      (ptTempoCmds [some t0, some t0] [some cap0, some cap0, some cap0]) true = .ok w ∧
    CrashState .missing w.trace 25 (replay .missing (w.trace.take 22)) :=
  ⟨_, rfl, Or.inr ⟨22, by decide, by decide, rfl⟩⟩

/-- export of a good process tensor on an existing path with overwrite -/
example : ∃ w, exportW flags ⟨"0.5.0"⟩ .unreadable pt0 true = .ok w := ⟨_, rfl⟩
example : GoodPT pt0 [t0, t0] [cap0, cap0, cap0] := by
  refine ⟨rfl, rfl, rfl, ?_, ?_, ?_, ?_⟩
  · intro t ht; simp at ht; subst ht; decide
  · intro t ht; simp at ht; subst ht; decide
  · intro t ht; cases ht
  · intro t ht; cases ht

end OQuPyVerif.Props.C17
