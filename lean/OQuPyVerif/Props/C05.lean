/-
  C05 — Results are basis-covariant; every Hermitian coupling operator is accepted.

  * `covariance`        : rotating H, O, ρ0 by a unitary V rotates every TEMPO state by V
                          (W = V ⊗ V̄ is any invertible table; O' = V O V† is diagonalised by V U).
  * `diag_choice_indep` : any two diagonalisations of the same coupling operator give the same
                          states (Lemmas/PathGauge.lean).
  The predicate `IsDiagonalisation` that both need is evaluated in Lean on the Bath's actual
  output on every run (Model/Diag.lean); LAPACK's correctness for all inputs is not proved.
-/
import OQuPyVerif.Lemmas.MatMul
import OQuPyVerif.Lemmas.PathAmp
import OQuPyVerif.Lemmas.PathGauge
import OQuPyVerif.Model.Tempo

namespace OQuPyVerif.Props.C05
open Finset BigOperators OQuPyVerif.PathSum OQuPyVerif.Tempo
variable {K : Type} [CommRing K]

/-- conjugation of a table by `W`:  `W · A · W⁻¹` -/
def rot (L : ℕ) (W Winv A : ℕ → ℕ → K) : ℕ → ℕ → K := matMul L W (matMul L A Winv)

theorem rot_mul (L : ℕ) (W Winv A B : ℕ → ℕ → K)
    (hinv : ∀ a b, a < L → b < L → matMul L Winv W a b = idTable a b) (a b : ℕ) :
    matMul L (rot L W Winv A) (matMul L W B) a b = matMul L W (matMul L A B) a b := by
  unfold rot
  rw [matMul_assoc]
  apply matMul_congr
  · intro _ _; rfl
  · intro c _; exact matMul_cancel L A B W Winv hinv c b

theorem sysAmpl_congr (M M' : ℕ → ℕ → ℕ → K) (v v' : ℕ → K)
    (hM : ∀ k a b, 2 ≤ k → M' k a b = M k a b) (hv : ∀ a, v' a = v a) (p : List ℕ) :
    sysAmpl M' v' p = sysAmpl M v p := by
  induction p with
  | nil => rfl
  | cons a rest ih =>
    cases rest with
    | nil => simp [sysAmpl, hv]
    | cons b rest' =>
      simp only [sysAmpl]
      rw [hM _ a b (by omega), ih]

/-- **Basis covariance** of TEMPO's reported states, at every step, for every memory setting:
    if the initial state, both half-step propagators and the diagonalising transform are rotated
    by an invertible table `W` (`ρ0' = Wρ0`, `P' = W P W⁻¹`, `Uout' = W Uout`, `Uin' = Uin W⁻¹` —
    i.e. `O' = V O V†` is diagonalised by `V U` with the same eigenvalues), every state is rotated
    by `W`: `ρ'_n = W ρ_n`. -/
theorem covariance (L : ℕ) (ρ0 : ℕ → K) (P1 P2 : ℕ → ℕ → ℕ → K) (Uin Uout : ℕ → ℕ → K)
    (I : ℕ → ℕ → ℕ → ℕ → K) (W Winv : ℕ → ℕ → K)
    (hinv : ∀ a b, a < L → b < L → matMul L Winv W a b = idTable a b) (n out : ℕ) :
    tempoState L (fun a => ∑ b ∈ range L, W a b * ρ0 b)
        (fun k => rot L W Winv (P1 k)) (fun k => rot L W Winv (P2 k))
        (matMul L Uin Winv) (matMul L W Uout) I (n+1) out
      = ∑ o ∈ range L, W out o * tempoState L ρ0 P1 P2 Uin Uout I (n+1) o := by
  unfold tempoState
  simp only [Nat.succ_ne_zero, ite_false]
  rw [pathState_finsum, pathState_ampl, pathState_ampl]
  apply pathSum_congr; intro p _
  -- the test covector
  have hφ : matMul L (rot L W Winv (P2 (n+1))) (matMul L W Uout) out (p.headD 0)
      = ∑ o ∈ range L, W out o * matMul L (P2 (n+1)) Uout o (p.headD 0) := by
    rw [rot_mul L W Winv _ _ hinv]; rfl
  rw [hφ]
  congr 1
  congr 1
  apply sysAmpl_congr
  · -- kernels of steps k ≥ 2 coincide
    intro k a b hk
    unfold kernelM
    have hk' : ¬ k ≤ 1 := by omega
    simp only [hk', ite_false]
    have h1 : ∀ c e, matMul L (rot L W Winv (P2 (k-1))) (matMul L W Uout) c e
        = matMul L W (matMul L (P2 (k-1)) Uout) c e := fun c e => rot_mul L W Winv _ _ hinv c e
    have h2 : ∀ c e, matMul L (rot L W Winv (P1 k))
          (matMul L (rot L W Winv (P2 (k-1))) (matMul L W Uout)) c e
        = matMul L W (matMul L (P1 k) (matMul L (P2 (k-1)) Uout)) c e := by
      intro c e
      rw [matMul_congr L _ _ _ _ c e (fun _ _ => rfl) (fun c' _ => h1 c' e)]
      exact rot_mul L W Winv _ _ hinv c e
    rw [matMul_congr L _ _ _ _ a b (fun _ _ => rfl) (fun c _ => h2 c b)]
    exact matMul_cancel L _ _ W Winv hinv a b
  · -- the amplitude of the first index coincides
    intro a1
    have hk1 : kernelM L (fun k => rot L W Winv (P1 k)) (fun k => rot L W Winv (P2 k))
        (matMul L Uin Winv) (matMul L W Uout) 1
        = matMul L (matMul L Uin Winv) (rot L W Winv (P1 1)) := by
      unfold kernelM; simp
    have hk2 : kernelM L P1 P2 Uin Uout 1 = matMul L Uin (P1 1) := by
      unfold kernelM; simp
    rw [hk1, hk2]
    have hM1 : ∀ a0, matMul L (matMul L Uin Winv) (rot L W Winv (P1 1)) a1 a0
        = matMul L Uin (matMul L (P1 1) Winv) a1 a0 := by
      intro a0; unfold rot; exact matMul_cancel L _ _ W Winv hinv a1 a0
    simp only [hM1]
    -- Σ_{a0} (Uin (P1 Winv))(a1,a0) · Σ_b W(a0,b) ρ0(b)  =  Σ_b (Uin P1)(a1,b) ρ0(b)
    calc ∑ a0 ∈ range L, matMul L Uin (matMul L (P1 1) Winv) a1 a0 * ∑ b ∈ range L, W a0 b * ρ0 b
        = ∑ b ∈ range L, matMul L (matMul L Uin (matMul L (P1 1) Winv)) W a1 b * ρ0 b := by
          simp only [Finset.mul_sum]
          rw [Finset.sum_comm]
          apply Finset.sum_congr rfl; intro b _
          unfold matMul
          rw [Finset.sum_mul]
          apply Finset.sum_congr rfl; intro a0 _
          ring
      _ = ∑ b ∈ range L, matMul L Uin (P1 1) a1 b * ρ0 b := by
          apply Finset.sum_congr rfl; intro b hb
          congr 1
          rw [matMul_assoc, matMul_congr L Uin Uin _ (P1 1) a1 b (fun _ _ => rfl)]
          intro c _
          rw [matMul_assoc]
          have : matMul L (P1 1) (matMul L Winv W) c b = matMul L (P1 1) idTable c b := by
            apply matMul_congr
            · intro _ _; rfl
            · intro e he; exact hinv e b he (Finset.mem_range.mp hb)
          rw [this, matMul_id_right L _ c b (Finset.mem_range.mp hb)]


/-! ### Independence of the choice of diagonalisation -/

/-- kernels with the initial index moved to the eigenbasis as well -/
def kernelE (L : ℕ) (P1 P2 : ℕ → ℕ → ℕ → K) (Uin Uout : ℕ → ℕ → K) (k : ℕ) : ℕ → ℕ → K :=
  if k ≤ 1 then matMul L Uin (matMul L (P1 k) Uout) else kernelM L P1 P2 Uin Uout k

/-- TEMPO's state written entirely in the eigenbasis (`ρ0 ↦ Uin ρ0`), valid when
    `Uout · Uin = 1` on the index range (the transform is unitary). -/
theorem tempoState_eigen_form (L : ℕ) (ρ0 : ℕ → K) (P1 P2 : ℕ → ℕ → ℕ → K)
    (Uin Uout : ℕ → ℕ → K) (I : ℕ → ℕ → ℕ → ℕ → K)
    (hUU : ∀ a b, a < L → b < L → matMul L Uout Uin a b = idTable a b) (n out : ℕ) :
    tempoState L ρ0 P1 P2 Uin Uout I (n+1) out =
      pathState L (fun a => ∑ b ∈ range L, Uin a b * ρ0 b) (kernelE L P1 P2 Uin Uout) I (n+1)
        (fun a => matMul L (P2 (n+1)) Uout out a) := by
  unfold tempoState
  simp only [Nat.succ_ne_zero, ite_false]
  rw [pathState_ampl, pathState_ampl]
  apply pathSum_congr; intro p _
  congr 2
  symm
  apply sysAmpl_congr
  · intro k a b hk
    unfold kernelE
    have : ¬ k ≤ 1 := by omega
    simp [this]
  · intro a1
    have hk1 : kernelE L P1 P2 Uin Uout 1 = matMul L Uin (matMul L (P1 1) Uout) := by
      unfold kernelE; simp
    have hk2 : kernelM L P1 P2 Uin Uout 1 = matMul L Uin (P1 1) := by
      unfold kernelM; simp
    rw [hk1, hk2]
    calc ∑ a0 ∈ range L, matMul L Uin (matMul L (P1 1) Uout) a1 a0 * ∑ b ∈ range L, Uin a0 b * ρ0 b
        = ∑ b ∈ range L, matMul L (matMul L Uin (matMul L (P1 1) Uout)) Uin a1 b * ρ0 b := by
          simp only [Finset.mul_sum]
          rw [Finset.sum_comm]
          apply Finset.sum_congr rfl; intro b _
          unfold matMul
          rw [Finset.sum_mul]
          apply Finset.sum_congr rfl; intro a0 _
          ring
      _ = ∑ b ∈ range L, matMul L Uin (P1 1) a1 b * ρ0 b := by
          apply Finset.sum_congr rfl; intro b hb
          congr 1
          rw [matMul_assoc, matMul_congr L Uin Uin _ (P1 1) a1 b (fun _ _ => rfl)]
          intro c _
          rw [matMul_assoc]
          have : matMul L (P1 1) (matMul L Uout Uin) c b = matMul L (P1 1) idTable c b := by
            apply matMul_congr
            · intro _ _; rfl
            · intro e he; exact hUU e b he (Finset.mem_range.mp hb)
          rw [this, matMul_id_right L _ c b (Finset.mem_range.mp hb)]

/-- **Any two diagonalisations give the same states.**  Let `(Uin, Uout)` and `(Uin', Uout')`
    be the basis changes of two diagonalisations of the same coupling operator (both unitary:
    `Uout·Uin = 1`), related by the table `T` (`= Ũ₂†Ũ₁`): `Uin' = T·Uin`, `Uout'·T = Uout`.
    If `T` only mixes indices with equal keys — `key'` of the second labelling against `key` of
    the first: permutations of the eigenvalue order, phases, and rotations inside degenerate
    eigenspaces all qualify — and both influence tables are the same function `J` of the keys
    (as `influence_matrix`'s are: keys = (difference, sum) of coupling eigenvalues), then every
    TEMPO state agrees, at every step and for every memory setting. -/
theorem diag_choice_indep {κ : Type} (L : ℕ) (ρ0 : ℕ → K) (P1 P2 : ℕ → ℕ → ℕ → K)
    (Uin Uout Uin' Uout' : ℕ → ℕ → K) (I I' : ℕ → ℕ → ℕ → ℕ → K)
    (J : ℕ → ℕ → κ → κ → K) (T : ℕ → ℕ → K) (key key' : ℕ → κ)
    (hUU : ∀ a b, a < L → b < L → matMul L Uout Uin a b = idTable a b)
    (hUU' : ∀ a b, a < L → b < L → matMul L Uout' Uin' a b = idTable a b)
    (hin : ∀ a b, Uin' a b = matMul L T Uin a b)
    (hout : ∀ a b, matMul L Uout' T a b = Uout a b)
    (hI : ∀ n dk a c, a < L → c < L → I n dk a c = J n dk (key a) (key c))
    (hI' : ∀ n dk a c, a < L → c < L → I' n dk a c = J n dk (key' a) (key' c))
    (hT : ∀ a' a, a' < L → a < L → key' a' ≠ key a → T a' a = 0) (n out : ℕ) :
    tempoState L ρ0 P1 P2 Uin' Uout' I' (n+1) out = tempoState L ρ0 P1 P2 Uin Uout I (n+1) out := by
  rw [tempoState_eigen_form L ρ0 P1 P2 Uin' Uout' I' hUU',
      tempoState_eigen_form L ρ0 P1 P2 Uin Uout I hUU]
  -- `X · Uout' · T = X · Uout` and `Uin' · Y = T · Uin · Y`
  have hR : ∀ (X : ℕ → ℕ → K) a b, matMul L (matMul L X Uout') T a b = matMul L X Uout a b := by
    intro X a b
    rw [matMul_assoc]
    exact matMul_congr L X X _ _ a b (fun _ _ => rfl) (fun c _ => hout c b)
  have hLft : ∀ (Y : ℕ → ℕ → K) a b, matMul L Uin' Y a b = matMul L T (matMul L Uin Y) a b := by
    intro Y a b
    rw [← matMul_assoc]
    exact matMul_congr L _ _ Y Y a b (fun c _ => hin a c) (fun _ _ => rfl)
  apply pathState_gauge_table L _ _ _ _ I I' J T key key' hI hI' hT
  · -- initial vector
    intro a' _
    simp only [hin]
    unfold matMul
    simp only [Finset.sum_mul, Finset.mul_sum]
    rw [Finset.sum_comm]
    apply Finset.sum_congr rfl; intro c _
    apply Finset.sum_congr rfl; intro b _
    ring
  · -- kernels:  M'_k · T = T · M_k
    intro k a' b _ _
    show matMul L (kernelE L P1 P2 Uin' Uout' k) T a' b = matMul L T (kernelE L P1 P2 Uin Uout k) a' b
    unfold kernelE kernelM
    split
    · -- k ≤ 1 :  Uin' (P1 Uout') T = T Uin (P1 Uout)
      rw [matMul_assoc, matMul_congr L Uin' Uin' _ (matMul L (P1 k) Uout) a' b (fun _ _ => rfl)
        (fun c _ => hR (P1 k) c b)]
      exact hLft _ a' b
    · -- k ≥ 2 :  Uin' (P1 (P2 Uout')) T = T Uin (P1 (P2 Uout))
      rw [matMul_assoc]
      have h3 : ∀ c, matMul L (matMul L (P1 k) (matMul L (P2 (k-1)) Uout')) T c b
          = matMul L (P1 k) (matMul L (P2 (k-1)) Uout) c b := by
        intro c
        rw [matMul_assoc]
        exact matMul_congr L _ _ _ _ c b (fun _ _ => rfl) (fun e _ => hR (P2 (k-1)) e b)
      rw [matMul_congr L Uin' Uin' _ _ a' b (fun _ _ => rfl) (fun c _ => h3 c)]
      exact hLft _ a' b
  · -- test covector:  φ' · T = φ
    intro a _
    exact hR (P2 (n+1)) out a

end OQuPyVerif.Props.C05
