/-
  C08 — The adjoint gradient equals the derivative of the objective.

  Property theorems only (helper lemmas: Lemmas/Gradient*.lean; model: Model/Gradient.lean).
  Everything named `Generated.GradWiring.*` is regenerated from /repo's source on every run
  (axis numbers of `_apply_pt_mpos`, leg swaps of `_get_pt_mpos_backprop`, wiring of
  `_apply_derivative_pt_mpos`, statement order of the forward and backward loops of
  `compute_gradient_and_dynamics` incl. the ORDER in which the backward pass visits the
  environments, wiring of `_chain_rule`), so these theorems are re-checked against what the
  code says now.

  Chain of ties:
    real compute_gradient_and_dynamics / _chain_rule ≃ `codeFwd`, `codeBwd`, `codeDeriv1/2`,
        `chainEven/Odd`, `codeRecord1/2`                         (correspondence, 1e-9)
    `code…` = `j…` (specification layer)          (`model_backprop_eq_spec_*`, `forward_eq_spec_*`)
    `jZ (P[k ↦ P_k + Δ]) = jZ P + ⟨b_k, Δ, f_k⟩`                 (`adjoint_exact_*`, all N, k, dims)
    over `K[ε]`: `Z(θ + ε) = Z + ε · chain rule`                 (`dual_number_gradient_*`)
-/
import OQuPyVerif.Lemmas.GradientCode
import OQuPyVerif.Lemmas.GradientDual

namespace OQuPyVerif.Props.C08
open Finset BigOperators OQuPyVerif.Grad OQuPyVerif.Generated.GradWiring
open scoped DualNumber
variable {K : Type} [CommRing K] {ι : Type}

/-! ### the statement order the model assumes is the one in the source -/

/-- Forward loop, construction of the last adjoint tensor, backward loop of
    `compute_gradient_and_dynamics` (statement order, indices of the stored forward tensors and
    MPOs), position-based joining of the bond legs being sound, and the result order. -/
theorem wiring_as_modelled :
    fwdLoop = [.getControls, .applyPre, .breakIfLast, .record, .progress, .applyPost,
               .storeForward, .getPropagators, .getMpos, .storeMpos, .applyP1, .applyMpo, .applyP2]
    ∧ firstAdjoint = [.recordFinal, .applyPreT, .useForward (-1), .useMpos (-1), .copyBack,
               .applyDerivMpos, .joinBonds, .contractForwardBack, .appendDeriv]
    ∧ bwdLoop = [.progress, .getControls, .getPropagators, .getMposBackprop, .applyP2T,
               .applyMpoBack, .applyP1T, .applyPostT, .applyPreT, .useForward (-1), .copyBack,
               .useMpos (-1), .applyDerivMpos, .joinBonds, .contractForwardBack, .appendDeriv]
    ∧ bwdJoinAligned = true ∧ adjointListReversed = true ∧ stateGradientShapeChecked = true
    ∧ derivEdgesTail = ["prev_prop_edge", "pre_mpo_edge", "post_mpo_edge"]
    ∧ halfStepRows = (0, 1) := by
  decide

/-- The model takes the half-step propagators `A k`, `B k` and their derivatives as functions of
    the step alone, i.e. of `(dt, parameters[2k], parameters[2k+1])` — not of what the system
    object was used for before.  That is sound only if every cache inside
    `ParameterizedSystem.get_propagators / halfstep_propagator_derivative /
    get_propagator_derivatives` is keyed by everything the cached value can depend on (the
    parameters of the closure AND of the enclosing factory, e.g. `dt`).  The list of caches is
    regenerated from the source; at present it is empty. -/
theorem propagator_memo_keys_complete :
    ∀ s ∈ memoSites, ∀ v ∈ s.dependsOn, v ∈ s.keyVars := by
  decide

/-- The derivative `P'` the chain rule receives for half step `h` of step `k` is the derivative of
    the propagator AT the parameters of that half step (`parameters[2k+h]`): in both closures of
    `get_propagator_derivatives` (user-supplied and numerically differentiated) every assignment
    of the derivatives of half `h` uses row `h`, or copies the other half's derivatives only
    under a test that ALL parameters of the two halves agree (regenerated statement by statement). -/
theorem derivative_rows_match :
    ∀ s ∈ derivSources, s.fromRow = s.half ∨ s.guard = "allEqual" := by
  decide

/-- The numerically differentiated `P'` is `Jacobian(Re P) + i·Jacobian(Im P)` with BOTH numdifftools
    Jacobians evaluated unconditionally (also where `P` happens to be real) in float64 (whatever
    the dtype of the `parameters` array): `halfstep_propagator_derivative` has exactly the body the
    translator knows — any other body is refused. -/
theorem halfstep_derivative_as_modelled :
    halfstepRealJacobianUnconditional = true ∧ halfstepImagJacobianUnconditional = true
      ∧ halfstepDifferentiator = "numdifftools.Jacobian" := by
  decide

/-! ### (1) exact multilinearity: the adjoint identity, any number of environments -/

/-- `adjoint_exact`, first half step.  For every number of steps `N`, every step `k < N`, every
    bond structure (`ι`, `S`: any number of environments), every combined MPO `G`, propagators,
    initial and target tensor: replacing the first half-step propagator `A k` by `A k + Δ` changes
    the objective by EXACTLY the contraction of the adjoint tensor of step `k` (forward tensor
    `f_k` ⊗ MPO ⊗ specification backward tensor `b_{k+1}`) with `Δ` and `B k`. -/
theorem adjoint_exact_first (L : ℕ) (S : ℕ → Finset ι) (G : ℕ → ι → ι → ℕ → ℕ → K)
    (A B : ℕ → ℕ → ℕ → K) (X0 tgt : ι → ℕ → K) (N k : ℕ) (hk : k < N) (Δ : ℕ → ℕ → K) :
    jZ L S G (Function.update A k (A k + Δ)) B X0 tgt N
      = jZ L S G A B X0 tgt N
        + chainFirst L (jDeriv (S k) (S (k+1)) (G k) (jFwd L S G A B X0 k)
            (jBwd L S G A B tgt N (N-k-1))) Δ (B k) :=
  jZ_update_first L S G A B X0 tgt N k hk Δ

/-- `adjoint_exact`, second half step. -/
theorem adjoint_exact_second (L : ℕ) (S : ℕ → Finset ι) (G : ℕ → ι → ι → ℕ → ℕ → K)
    (A B : ℕ → ℕ → ℕ → K) (X0 tgt : ι → ℕ → K) (N k : ℕ) (hk : k < N) (Δ : ℕ → ℕ → K) :
    jZ L S G A (Function.update B k (B k + Δ)) X0 tgt N
      = jZ L S G A B X0 tgt N
        + chainSecond L (jDeriv (S k) (S (k+1)) (G k) (jFwd L S G A B X0 k)
            (jBwd L S G A B tgt N (N-k-1))) (A k) Δ :=
  jZ_update_second L S G A B X0 tgt N k hk Δ

/-- The pairing of backward and forward tensor is the objective at every time — the invariant
    behind the adjoint method. -/
theorem objective_invariant (L : ℕ) (S : ℕ → Finset ι) (G : ℕ → ι → ι → ℕ → ℕ → K)
    (A B : ℕ → ℕ → ℕ → K) (X0 tgt : ι → ℕ → K) (N m : ℕ) (hm : m ≤ N) :
    jZ L S G A B X0 tgt N
      = pair L (S (N-m)) (jBwd L S G A B tgt N m) (jFwd L S G A B X0 (N-m)) :=
  jZ_eq_pair L S G A B X0 tgt N m hm

/-! ### (2) the code's passes are the specification passes -/

/-- forward pass, one environment (regenerated axis numbers) -/
theorem forward_eq_spec_one (L : ℕ) (D : ℕ → ℕ) (T : ℕ → Tensor4 K) (A B : ℕ → ℕ → ℕ → K)
    (X0 : ℕ → ℕ → K) (k : ℕ) :
    codeFwd L (envs1 D T) A B X0 k = jFwd L (fun k => range (D k)) T A B X0 k :=
  codeFwd_one L D T A B X0 k

/-- forward pass, two environments: the combined tensor is `G2` (first environment first) -/
theorem forward_eq_spec_two (L : ℕ) (D0 D1 : ℕ → ℕ) (T0 T1 : ℕ → Tensor4 K) (A B : ℕ → ℕ → ℕ → K)
    (X0 : ℕ × ℕ → ℕ → K) (k : ℕ) :
    codeFwd L (envs2 D0 D1 T0 T1) A B X0 k
      = jFwd L (S2 D0 D1) (fun k => G2 L (T0 k) (T1 k)) A B X0 k :=
  codeFwd_two L D0 D1 T0 T1 A B X0 k

/-- `model_backprop_eq_spec`, one environment: unconditional. -/
theorem model_backprop_eq_spec_one (L : ℕ) (D : ℕ → ℕ) (T : ℕ → Tensor4 K) (A B : ℕ → ℕ → ℕ → K)
    (tgt : ℕ → ℕ → K) (N m : ℕ) (hm : m ≤ N) :
    codeBwd L (envs1 D T) A B tgt N m = jBwd L (fun k => range (D k)) T A B tgt N m :=
  codeBwd_one L D T A B tgt N m hm

/-- The combined tensor that the code's backward pass transposes is the forward one: the
    backward pass visits the environments in REVERSED list order (regenerated flag). -/
theorem backward_order_reversed (L : ℕ) (T0 T1 : Tensor4 K) : G2back L T0 T1 = G2 L T0 T1 := by
  have h : bwdEnvReversed = true := by decide
  unfold G2back
  rw [h]; rfl

/-- `model_backprop_eq_spec`, two environments, ANY tensors (commuting or not): the backward
    tensors built by the code (leg-swapped MPOs, environment order and edge bookkeeping as in
    the source) are the specification backward tensors of the forward combined tensor. -/
theorem model_backprop_eq_spec_two (L : ℕ) (D0 D1 : ℕ → ℕ) (T0 T1 : ℕ → Tensor4 K)
    (A B : ℕ → ℕ → ℕ → K) (tgt : ℕ × ℕ → ℕ → K) (N m : ℕ) (hm : m ≤ N) :
    codeBwd L (envs2 D0 D1 T0 T1) A B tgt N m
      = jBwd L (S2 D0 D1) (fun k => G2 L (T0 k) (T1 k)) A B tgt N m := by
  rw [codeBwd_two L D0 D1 T0 T1 A B tgt N m hm]
  simp only [backward_order_reversed]

/-- Whatever the order of the backward pass, it is right when the two environments' tensors
    commute on the system leg (why the library's own two-copies test could not see the order). -/
theorem model_backprop_eq_spec_of_commute (L : ℕ) (D0 D1 : ℕ → ℕ) (T0 T1 : ℕ → Tensor4 K)
    (A B : ℕ → ℕ → ℕ → K) (tgt : ℕ × ℕ → ℕ → K) (N m : ℕ) (hm : m ≤ N)
    (hc : ∀ k, Commute2 L (T0 k) (T1 k)) :
    codeBwd L (envs2 D0 D1 T0 T1) A B tgt N m
      = jBwd L (S2 D0 D1) (fun k => G2 L (T0 k) (T1 k)) A B tgt N m := by
  rw [codeBwd_two L D0 D1 T0 T1 A B tgt N m hm]
  have : (fun k => G2back L (T0 k) (T1 k)) = fun k => G2 L (T0 k) (T1 k) := by
    funext k
    unfold G2back
    split
    · rfl
    · exact G2swap_eq_of_commute L (T0 k) (T1 k) (hc k)
  rw [this]

/-- Without commutation the SAME-order backward pass is wrong: a two-environment witness
    (bond dimensions 1, `T0 = |0⟩⟨1|`-like, `T1 = |1⟩⟨0|`-like on the system leg). -/
theorem same_order_backward_wrong :
    ∃ (T0 T1 : Tensor4 ℤ) (Y : ℕ × ℕ → ℕ → ℤ),
      bondJT 2 (range 1 ×ˢ range 1) (G2swap 2 T0 T1) Y (0, 0) 0
        ≠ bondJT 2 (range 1 ×ˢ range 1) (G2 2 T0 T1) Y (0, 0) 0 := by
  refine ⟨fun _ _ i o => if i = 0 ∧ o = 1 then 1 else 0,
          fun _ _ i o => if i = 1 ∧ o = 0 then 1 else 0,
          fun _ o => if o = 0 then 1 else 0, ?_⟩
  simp [bondJT, G2, G2swap, Finset.sum_range_succ]

/-! ### end to end on the code layer: gradient w.r.t. each half-step propagator is exact -/

/-- one environment, first half step (`total_derivs[2k][j]` uses `chainEven`) -/
theorem gradient_exact_one_first (L : ℕ) (D : ℕ → ℕ) (T : ℕ → Tensor4 K) (A B : ℕ → ℕ → ℕ → K)
    (X0 tgt : ℕ → ℕ → K) (N k : ℕ) (hk : k < N) (Δ P1' dP2' : ℕ → ℕ → K) :
    codeZ L (range (D N)) (envs1 D T) (Function.update A k (A k + Δ)) B X0 tgt N
      = codeZ L (range (D N)) (envs1 D T) A B X0 tgt N
        + chainEven L (codeDeriv1 (D k) (D (k+1)) (T k) (codeFwd L (envs1 D T) A B X0 k)
            (codeBwd L (envs1 D T) A B tgt N (N-k-1))) P1' (B k) Δ dP2' := by
  unfold codeZ
  rw [chainEven_eq, codeDeriv1_eq, codeBwd_one L D T A B tgt N (N-k-1) (by omega)]
  simp only [codeFwd_one]
  exact jZ_update_first L (fun k => range (D k)) T A B X0 tgt N k hk Δ

/-- one environment, second half step (`total_derivs[2k+1][j]` uses `chainOdd`) -/
theorem gradient_exact_one_second (L : ℕ) (D : ℕ → ℕ) (T : ℕ → Tensor4 K) (A B : ℕ → ℕ → ℕ → K)
    (X0 tgt : ℕ → ℕ → K) (N k : ℕ) (hk : k < N) (Δ P2' dP1' : ℕ → ℕ → K) :
    codeZ L (range (D N)) (envs1 D T) A (Function.update B k (B k + Δ)) X0 tgt N
      = codeZ L (range (D N)) (envs1 D T) A B X0 tgt N
        + chainOdd L (codeDeriv1 (D k) (D (k+1)) (T k) (codeFwd L (envs1 D T) A B X0 k)
            (codeBwd L (envs1 D T) A B tgt N (N-k-1))) (A k) P2' dP1' Δ := by
  unfold codeZ
  rw [chainOdd_eq, codeDeriv1_eq, codeBwd_one L D T A B tgt N (N-k-1) (by omega)]
  simp only [codeFwd_one]
  exact jZ_update_second L (fun k => range (D k)) T A B X0 tgt N k hk Δ

/-- two environments (commuting or not), first half step -/
theorem gradient_exact_two_first (L : ℕ) (D0 D1 : ℕ → ℕ) (T0 T1 : ℕ → Tensor4 K)
    (A B : ℕ → ℕ → ℕ → K) (X0 tgt : ℕ × ℕ → ℕ → K) (N k : ℕ) (hk : k < N) (Δ P1' dP2' : ℕ → ℕ → K) :
    codeZ L (S2 D0 D1 N) (envs2 D0 D1 T0 T1) (Function.update A k (A k + Δ)) B X0 tgt N
      = codeZ L (S2 D0 D1 N) (envs2 D0 D1 T0 T1) A B X0 tgt N
        + chainEven L (codeDeriv2 L (D0 k) (D1 k) (D0 (k+1)) (D1 (k+1)) (T0 k) (T1 k)
            (codeFwd L (envs2 D0 D1 T0 T1) A B X0 k)
            (codeBwd L (envs2 D0 D1 T0 T1) A B tgt N (N-k-1))) P1' (B k) Δ dP2' := by
  unfold codeZ
  rw [chainEven_eq, codeDeriv2_eq,
    model_backprop_eq_spec_two L D0 D1 T0 T1 A B tgt N (N-k-1) (by omega)]
  simp only [codeFwd_two]
  exact jZ_update_first L (S2 D0 D1) (fun k => G2 L (T0 k) (T1 k)) A B X0 tgt N k hk Δ

/-- two environments (commuting or not), second half step -/
theorem gradient_exact_two_second (L : ℕ) (D0 D1 : ℕ → ℕ) (T0 T1 : ℕ → Tensor4 K)
    (A B : ℕ → ℕ → ℕ → K) (X0 tgt : ℕ × ℕ → ℕ → K) (N k : ℕ) (hk : k < N) (Δ P2' dP1' : ℕ → ℕ → K) :
    codeZ L (S2 D0 D1 N) (envs2 D0 D1 T0 T1) A (Function.update B k (B k + Δ)) X0 tgt N
      = codeZ L (S2 D0 D1 N) (envs2 D0 D1 T0 T1) A B X0 tgt N
        + chainOdd L (codeDeriv2 L (D0 k) (D1 k) (D0 (k+1)) (D1 (k+1)) (T0 k) (T1 k)
            (codeFwd L (envs2 D0 D1 T0 T1) A B X0 k)
            (codeBwd L (envs2 D0 D1 T0 T1) A B tgt N (N-k-1))) (A k) P2' dP1' Δ := by
  unfold codeZ
  rw [chainOdd_eq, codeDeriv2_eq,
    model_backprop_eq_spec_two L D0 D1 T0 T1 A B tgt N (N-k-1) (by omega)]
  simp only [codeFwd_two]
  exact jZ_update_second L (S2 D0 D1) (fun k => G2 L (T0 k) (T1 k)) A B X0 tgt N k hk Δ

/-! ### (3) gradient = derivative, over the dual numbers -/

/-- `dual_number_gradient`, first half step.  Embed all data into `K[ε]` (`ε² = 0`) and let the
    first half-step propagator of step `k` be `A k + ε·A'` (`A'` = derivative of the propagator
    w.r.t. the parameter — however obtained; it may come from a parameter-dependent dissipator):
    the objective is `Z + ε · chainFirst(adjoint tensor, A', B k)`, i.e. its `ε`-coefficient —
    the derivative — is the chain-rule value computed from the `K`-valued adjoint tensor. -/
theorem dual_number_gradient_first (L : ℕ) (S : ℕ → Finset ι) (G : ℕ → ι → ι → ℕ → ℕ → K)
    (A B : ℕ → ℕ → ℕ → K) (X0 tgt : ι → ℕ → K) (N k : ℕ) (hk : k < N) (A' : ℕ → ℕ → K) :
    let φ : K →+* K[ε] := TrivSqZeroExt.inlHom K K
    jZ L S (fun j => map4 φ (G j))
        (Function.update (fun j => map2 φ (A j)) k (map2 φ (A k) + fun b a => ε * φ (A' b a)))
        (fun j => map2 φ (B j)) (map2 φ X0) (map2 φ tgt) N
      = φ (jZ L S G A B X0 tgt N)
        + ε * φ (chainFirst L (jDeriv (S k) (S (k+1)) (G k) (jFwd L S G A B X0 k)
            (jBwd L S G A B tgt N (N-k-1))) A' (B k)) := by
  intro φ
  have h := jZ_update_first L S (fun j => map4 φ (G j)) (fun j => map2 φ (A j))
    (fun j => map2 φ (B j)) (map2 φ X0) (map2 φ tgt) N k hk (fun b a => ε * φ (A' b a))
  rw [h, jZ_map, jFwd_map, jBwd_map, jDeriv_map]
  congr 1
  rw [← chainFirst_map, ← chainFirst_smul]
  rfl

/-- `dual_number_gradient`, second half step. -/
theorem dual_number_gradient_second (L : ℕ) (S : ℕ → Finset ι) (G : ℕ → ι → ι → ℕ → ℕ → K)
    (A B : ℕ → ℕ → ℕ → K) (X0 tgt : ι → ℕ → K) (N k : ℕ) (hk : k < N) (B' : ℕ → ℕ → K) :
    let φ : K →+* K[ε] := TrivSqZeroExt.inlHom K K
    jZ L S (fun j => map4 φ (G j)) (fun j => map2 φ (A j))
        (Function.update (fun j => map2 φ (B j)) k (map2 φ (B k) + fun d c => ε * φ (B' d c)))
        (map2 φ X0) (map2 φ tgt) N
      = φ (jZ L S G A B X0 tgt N)
        + ε * φ (chainSecond L (jDeriv (S k) (S (k+1)) (G k) (jFwd L S G A B X0 k)
            (jBwd L S G A B tgt N (N-k-1))) (A k) B') := by
  intro φ
  have h := jZ_update_second L S (fun j => map4 φ (G j)) (fun j => map2 φ (A j))
    (fun j => map2 φ (B j)) (map2 φ X0) (map2 φ tgt) N k hk (fun d c => ε * φ (B' d c))
  rw [h, jZ_map, jFwd_map, jBwd_map, jDeriv_map]
  congr 1
  rw [← chainSecond_map, ← chainSecond_smul]
  rfl

/-- Read off: the `ε`-coefficient of the objective is the chain-rule value, its `ε`-free part
    the unperturbed objective. -/
theorem dual_number_gradient_coeff (L : ℕ) (S : ℕ → Finset ι) (G : ℕ → ι → ι → ℕ → ℕ → K)
    (A B : ℕ → ℕ → ℕ → K) (X0 tgt : ι → ℕ → K) (N k : ℕ) (hk : k < N) (A' : ℕ → ℕ → K) :
    let φ : K →+* K[ε] := TrivSqZeroExt.inlHom K K
    let Zε := jZ L S (fun j => map4 φ (G j))
        (Function.update (fun j => map2 φ (A j)) k (map2 φ (A k) + fun b a => ε * φ (A' b a)))
        (fun j => map2 φ (B j)) (map2 φ X0) (map2 φ tgt) N
    TrivSqZeroExt.fst Zε = jZ L S G A B X0 tgt N ∧
    TrivSqZeroExt.snd Zε = chainFirst L (jDeriv (S k) (S (k+1)) (G k) (jFwd L S G A B X0 k)
            (jBwd L S G A B tgt N (N-k-1))) A' (B k) := by
  intro φ Zε
  have h := dual_number_gradient_first L S G A B X0 tgt N k hk A'
  simp only at h
  change Zε = _ at h
  rw [h]
  constructor <;> simp [TrivSqZeroExt.inlHom]

/-! ### gradient = derivative on the code layer -/

/-- Headline, two environments, first half step: run the CODE's forward pass over `K[ε]` with the
    first half-step propagator of step `k` replaced by `A k + ε·A'`; the `ε`-coefficient of the
    objective — its derivative — is the entry `_chain_rule` computes from the code's adjoint
    tensor (built from `K`-valued forward and backward tensors). -/
theorem gradient_is_derivative_two_first (L : ℕ) (D0 D1 : ℕ → ℕ) (T0 T1 : ℕ → Tensor4 K)
    (A B : ℕ → ℕ → ℕ → K) (X0 tgt : ℕ × ℕ → ℕ → K) (N k : ℕ) (hk : k < N) (A' P1' dP2' : ℕ → ℕ → K) :
    let φ : K →+* K[ε] := TrivSqZeroExt.inlHom K K
    codeZ L (S2 D0 D1 N) (envs2 D0 D1 (fun j => map4 φ (T0 j)) (fun j => map4 φ (T1 j)))
        (Function.update (fun j => map2 φ (A j)) k (map2 φ (A k) + fun b a => ε * φ (A' b a)))
        (fun j => map2 φ (B j)) (map2 φ X0) (map2 φ tgt) N
      = φ (codeZ L (S2 D0 D1 N) (envs2 D0 D1 T0 T1) A B X0 tgt N)
        + ε * φ (chainEven L (codeDeriv2 L (D0 k) (D1 k) (D0 (k+1)) (D1 (k+1)) (T0 k) (T1 k)
            (codeFwd L (envs2 D0 D1 T0 T1) A B X0 k)
            (codeBwd L (envs2 D0 D1 T0 T1) A B tgt N (N-k-1))) P1' (B k) A' dP2') := by
  intro φ
  unfold codeZ
  rw [chainEven_eq, codeDeriv2_eq,
    model_backprop_eq_spec_two L D0 D1 T0 T1 A B tgt N (N-k-1) (by omega)]
  simp only [codeFwd_two, G2_map]
  exact dual_number_gradient_first L (S2 D0 D1) (fun k => G2 L (T0 k) (T1 k)) A B X0 tgt N k hk A'

theorem gradient_is_derivative_two_second (L : ℕ) (D0 D1 : ℕ → ℕ) (T0 T1 : ℕ → Tensor4 K)
    (A B : ℕ → ℕ → ℕ → K) (X0 tgt : ℕ × ℕ → ℕ → K) (N k : ℕ) (hk : k < N) (B' P2' dP1' : ℕ → ℕ → K) :
    let φ : K →+* K[ε] := TrivSqZeroExt.inlHom K K
    codeZ L (S2 D0 D1 N) (envs2 D0 D1 (fun j => map4 φ (T0 j)) (fun j => map4 φ (T1 j)))
        (fun j => map2 φ (A j))
        (Function.update (fun j => map2 φ (B j)) k (map2 φ (B k) + fun d c => ε * φ (B' d c)))
        (map2 φ X0) (map2 φ tgt) N
      = φ (codeZ L (S2 D0 D1 N) (envs2 D0 D1 T0 T1) A B X0 tgt N)
        + ε * φ (chainOdd L (codeDeriv2 L (D0 k) (D1 k) (D0 (k+1)) (D1 (k+1)) (T0 k) (T1 k)
            (codeFwd L (envs2 D0 D1 T0 T1) A B X0 k)
            (codeBwd L (envs2 D0 D1 T0 T1) A B tgt N (N-k-1))) (A k) P2' dP1' B') := by
  intro φ
  unfold codeZ
  rw [chainOdd_eq, codeDeriv2_eq,
    model_backprop_eq_spec_two L D0 D1 T0 T1 A B tgt N (N-k-1) (by omega)]
  simp only [codeFwd_two, G2_map]
  exact dual_number_gradient_second L (S2 D0 D1) (fun k => G2 L (T0 k) (T1 k)) A B X0 tgt N k hk B'

theorem gradient_is_derivative_one_first (L : ℕ) (D : ℕ → ℕ) (T : ℕ → Tensor4 K)
    (A B : ℕ → ℕ → ℕ → K) (X0 tgt : ℕ → ℕ → K) (N k : ℕ) (hk : k < N) (A' P1' dP2' : ℕ → ℕ → K) :
    let φ : K →+* K[ε] := TrivSqZeroExt.inlHom K K
    codeZ L (range (D N)) (envs1 D (fun j => map4 φ (T j)))
        (Function.update (fun j => map2 φ (A j)) k (map2 φ (A k) + fun b a => ε * φ (A' b a)))
        (fun j => map2 φ (B j)) (map2 φ X0) (map2 φ tgt) N
      = φ (codeZ L (range (D N)) (envs1 D T) A B X0 tgt N)
        + ε * φ (chainEven L (codeDeriv1 (D k) (D (k+1)) (T k) (codeFwd L (envs1 D T) A B X0 k)
            (codeBwd L (envs1 D T) A B tgt N (N-k-1))) P1' (B k) A' dP2') := by
  intro φ
  unfold codeZ
  rw [chainEven_eq, codeDeriv1_eq, codeBwd_one L D T A B tgt N (N-k-1) (by omega)]
  simp only [codeFwd_one]
  exact dual_number_gradient_first L (fun k => range (D k)) T A B X0 tgt N k hk A'

theorem gradient_is_derivative_one_second (L : ℕ) (D : ℕ → ℕ) (T : ℕ → Tensor4 K)
    (A B : ℕ → ℕ → ℕ → K) (X0 tgt : ℕ → ℕ → K) (N k : ℕ) (hk : k < N) (B' P2' dP1' : ℕ → ℕ → K) :
    let φ : K →+* K[ε] := TrivSqZeroExt.inlHom K K
    codeZ L (range (D N)) (envs1 D (fun j => map4 φ (T j))) (fun j => map2 φ (A j))
        (Function.update (fun j => map2 φ (B j)) k (map2 φ (B k) + fun d c => ε * φ (B' d c)))
        (map2 φ X0) (map2 φ tgt) N
      = φ (codeZ L (range (D N)) (envs1 D T) A B X0 tgt N)
        + ε * φ (chainOdd L (codeDeriv1 (D k) (D (k+1)) (T k) (codeFwd L (envs1 D T) A B X0 k)
            (codeBwd L (envs1 D T) A B tgt N (N-k-1))) (A k) P2' dP1' B') := by
  intro φ
  unfold codeZ
  rw [chainOdd_eq, codeDeriv1_eq, codeBwd_one L D T A B tgt N (N-k-1) (by omega)]
  simp only [codeFwd_one]
  exact dual_number_gradient_second L (fun k => range (D k)) T A B X0 tgt N k hk B'

/-! ### (4) the dynamics reported by the gradient routine -/

/-- one environment: the recorded states are those of `compute_dynamics` (`mpoRecord`, no
    control) with the same propagators -/
theorem dynamics_same_one (L : ℕ) (D : ℕ → ℕ) (T : ℕ → Tensor4 K) (A B : ℕ → ℕ → ℕ → K)
    (cap : ℕ → ℕ → K) (ρ0 : ℕ → K) (n s : ℕ) (hs : s < L) :
    codeRecord1 L D T A B cap ρ0 n s
      = PT.mpoRecord L D T A B cap (fun a b => if a = b then 1 else 0) ρ0 n s := by
  unfold codeRecord1 PT.mpoRecord
  apply Finset.sum_congr rfl; intro b _
  rw [codeFwd_one, jFwd_eq_mpoState]
  congr 1
  rw [Finset.sum_eq_single s]
  · simp
  · intro s' _ hne; simp [Ne.symm hne]
  · intro h; exact absurd (Finset.mem_range.mpr hs) h

/-- two environments: the recorded states are the specification forward tensors of the combined
    MPO, closed with the product of the two caps -/
theorem dynamics_same_two (L : ℕ) (D0 D1 : ℕ → ℕ) (T0 T1 : ℕ → Tensor4 K) (A B : ℕ → ℕ → ℕ → K)
    (cap0 cap1 : ℕ → ℕ → K) (ρ0 : ℕ → K) (n s : ℕ) :
    codeRecord2 L D0 D1 T0 T1 A B cap0 cap1 ρ0 n s
      = jRecord L (S2 D0 D1) (fun k => G2 L (T0 k) (T1 k)) A B
          (fun n β => cap0 n β.1 * cap1 n β.2) (init2 ρ0) n s := by
  unfold codeRecord2 jRecord
  rw [show S2 D0 D1 n = range (D0 n) ×ˢ range (D1 n) from rfl, Finset.sum_product]
  apply Finset.sum_congr rfl; intro b0 _
  rw [Finset.mul_sum]
  apply Finset.sum_congr rfl; intro b1 _
  rw [codeFwd_two]
  ring

/-! ### non-vacuity -/

/-- `hk : k < N` and `hm : m ≤ N`: e.g. the first of two steps. -/
example : (0 : ℕ) < 2 ∧ (2 - 0 - 1 : ℕ) ≤ 2 := by decide

/-- `Commute2` holds for non-trivial tensors: a raising operator against a multiple of the
    identity on the system leg. -/
example : Commute2 2 (fun _ _ i o => if i = 0 ∧ o = 1 then (1 : ℤ) else 0)
    (fun _ _ i o => if i = o ∧ i < 2 then 3 else 0) := by
  intro b0 b0' b1 b1' i o
  simp only [Finset.sum_range_succ, Finset.sum_range_zero]
  by_cases hi : i = 0 <;> by_cases ho : o = 1 <;> simp [hi, ho]
  all_goals omega

end OQuPyVerif.Props.C08
