/-
  C04 — Every reported state is a physical density matrix.

  Proved here, for every number of steps, every dimension, every influence table and
  every memory setting: unit trace and Hermiticity of the states reported by the
  TEMPO path sum (and, via C02's equivalence, by PT-TEMPO + compute_dynamics).
  Positivity is NOT shown (DESIGN.md §6).
-/
import OQuPyVerif.Lemmas.PathStar
import OQuPyVerif.Model.Tempo
import OQuPyVerif.Props.C02

namespace OQuPyVerif.Props.C04
open Finset BigOperators OQuPyVerif.PathSum OQuPyVerif.Tempo
variable {K : Type} [CommRing K]

/-- Trace preservation of TEMPO, for all `n`:
    * `trv` is the trace covector (`trv (i*d+j) = δ_ij`; any covector works),
    * the half-step propagators and the basis changes preserve it
      (`Σ_a trv a · P a b = trv b`: they are trace preserving),
    * the influence factor is `1` whenever the later index lies in the support of `trv`
      (`Om (i,i) = 0`; discharged for the actual formula in `influence_unit` below).
    Then `Σ_out trv out · ρ_n(out) = Σ_a trv a · ρ_0(a)` at every step `n`. -/
theorem trace_preserved (L : ℕ) (ρ0 : ℕ → K) (P1 P2 : ℕ → ℕ → ℕ → K) (Uin Uout : ℕ → ℕ → K)
    (I : ℕ → ℕ → ℕ → ℕ → K) (trv : ℕ → K)
    (h1 : ∀ k, Preserves L trv (P1 k)) (h2 : ∀ k, Preserves L trv (P2 k))
    (hin : Preserves L trv Uin) (hout : Preserves L trv Uout)
    (hI : ∀ n dk a c, trv a * I n dk a c = trv a) (n : ℕ) :
    ∑ out ∈ range L, trv out * tempoState L ρ0 P1 P2 Uin Uout I n out
      = ∑ a ∈ range L, trv a * ρ0 a := by
  unfold tempoState
  split
  · rfl
  · rw [pathState_finsum]
    rw [pathState_congr L ρ0 _ I n _ trv
      (fun a ha => preserves_matMul L trv _ _ (h2 n) hout a ha)]
    exact pathState_invariant L ρ0 _ I trv
      (fun k b hb => preserves_kernelM L trv P1 P2 Uin Uout h1 h2 hin hout k b hb) hI n

/-- The influence factor built from tables by TEMPO's step machine inherits the unit property
    from the tables, for every memory setting (`dkmax`, additional correlation time). -/
theorem influence_unit_of_tables (dkmax : Option ℕ) (hasAdd : Bool) (tbl : ℤ → ℕ → ℕ → K)
    (trv : ℕ → K) (ht : ∀ id earlier later, trv later * tbl id earlier later = trv later)
    (n dk a c : ℕ) : trv a * inflOfTables dkmax hasAdd tbl n dk a c = trv a := by
  unfold inflOfTables
  split
  · simp
  · exact ht _ _ _

/-- The table entries written by `influence_matrix`:
    `exp(-(Re η · Om[earlier] + i Im η · Op[earlier]) · Om[later])` with `Om` the differences
    and `Op` the sums of coupling eigenvalues; `E` is the exponential (any function with
    `E 0 = 1`).  Wherever `Om later = 0` — in particular on every diagonal index `(i,i)` —
    the entry is `1`. -/
def inflEntry (E : K → K) (reEta imEta iUnit : K) (Om Op : ℕ → K) (earlier later : ℕ) : K :=
  E (-((reEta * Om earlier + iUnit * imEta * Op earlier) * Om later))

theorem influence_unit (E : K → K) (hE : E 0 = 1) (reEta imEta iUnit : K) (Om Op : ℕ → K)
    (trv : ℕ → K) (hsupp : ∀ a, trv a = 0 ∨ Om a = 0) (earlier later : ℕ) :
    trv later * inflEntry E reEta imEta iUnit Om Op earlier later = trv later := by
  unfold inflEntry
  rcases hsupp later with h | h
  · simp [h]
  · simp [h, hE]


/-- Hermiticity preservation of TEMPO, for all `n`: with `σ` the index swap `(i,j) ↦ (j,i)`,
    if the initial state is Hermitian (`ρ0(σa)* = ρ0(a)`), all half-step propagators and basis
    changes are Hermiticity preserving (`A(σa,σb)* = A(a,b)`) and the influence factors satisfy
    `I(σa,σc)* = I(a,c)` (discharged for the actual formula in `influence_conj`), then every
    reported state is Hermitian: `ρ_n(σ out)* = ρ_n(out)`. -/
theorem hermitian_preserved [StarRing K] (L : ℕ) (σ : ℕ → ℕ) (hσ : IsSwap L σ) (ρ0 : ℕ → K)
    (P1 P2 : ℕ → ℕ → ℕ → K) (Uin Uout : ℕ → ℕ → K) (I : ℕ → ℕ → ℕ → ℕ → K)
    (hρ : ∀ a, a < L → star (ρ0 (σ a)) = ρ0 a)
    (h1 : ∀ k, StarSym L σ (P1 k)) (h2 : ∀ k, StarSym L σ (P2 k))
    (hin : StarSym L σ Uin) (hout : StarSym L σ Uout)
    (hI : ∀ n dk a c, a < L → c < L → star (I n dk (σ a) (σ c)) = I n dk a c)
    (n out : ℕ) (hout' : out < L) :
    star (tempoState L ρ0 P1 P2 Uin Uout I n (σ out)) = tempoState L ρ0 P1 P2 Uin Uout I n out := by
  unfold tempoState
  split
  · exact hρ out hout'
  · apply star_pathState hσ ρ0 _ I hρ
      (fun k => starSym_kernelM hσ P1 P2 Uin Uout h1 h2 hin hout k) hI n
    intro a ha
    exact starSym_matMul hσ _ _ (h2 n) hout out a hout' ha

/-- The conjugation symmetry of `influence_matrix`'s entries: with a conjugation-compatible
    exponential (`E(z*) = E(z)*`), real `Re η`, `Im η`, real eigenvalue tables, `i* = -i`, and the
    swap acting as `Om ∘ σ = -Om`, `Op ∘ σ = Op` (differences flip sign, sums do not). -/
theorem influence_conj [StarRing K] (E : K → K) (hE : ∀ z, star (E z) = E (star z))
    (reEta imEta iUnit : K) (hre : star reEta = reEta) (him : star imEta = imEta)
    (hi : star iUnit = -iUnit) (Om Op : ℕ → K) (σ : ℕ → ℕ)
    (hOmr : ∀ a, star (Om a) = Om a) (hOpr : ∀ a, star (Op a) = Op a)
    (hOm : ∀ a, Om (σ a) = -Om a) (hOp : ∀ a, Op (σ a) = Op a) (earlier later : ℕ) :
    star (inflEntry E reEta imEta iUnit Om Op (σ earlier) (σ later))
      = inflEntry E reEta imEta iUnit Om Op earlier later := by
  unfold inflEntry
  rw [hE]
  congr 1
  simp only [star_neg, star_mul', star_add, hOm, hOp, hre, him, hi, hOmr, hOpr]
  ring


/-! ### PT-TEMPO + compute_dynamics -/
open OQuPyVerif.PT

/-- Trace preservation of the states recorded by `compute_dynamics` from a process tensor whose
    dense form is the influence functional (C02: `mpo_dynamics_eq_tempo`), at every step `n+1`,
    when no pre-measurement control is applied at the recording step (`pre = 1`). -/
theorem pt_trace_preserved (L : ℕ) (D : ℕ → ℕ) (T : ℕ → ℕ → ℕ → ℕ → ℕ → K)
    (A B : ℕ → ℕ → ℕ → K) (cap : ℕ → ℕ → K) (Uin Uout : ℕ → ℕ → K)
    (I : ℕ → ℕ → ℕ → ℕ → K) (ρ0 : ℕ → K) (trv : ℕ → K) (n : ℕ)
    (hPT : ∀ p, IsPath L (2 * (n+1)) p →
      densePT D T cap (n+1) p = ptOfInfluence L Uin Uout I (n+1) p)
    (hA : ∀ k, Preserves L trv (A k)) (hB : ∀ k, Preserves L trv (B k))
    (hin : Preserves L trv Uin) (hout : Preserves L trv Uout)
    (hI : ∀ n dk a c, trv a * I n dk a c = trv a) :
    ∑ out ∈ range L, trv out *
        mpoRecord L D T A B cap (fun a b => if a = b then 1 else 0) ρ0 (n+1) out
      = ∑ a ∈ range L, trv a * ρ0 a := by
  have h := fun out => OQuPyVerif.Props.C02.mpo_dynamics_eq_tempo L D T A B cap Uin Uout I
    (fun a b => if a = b then 1 else 0) ρ0 n out hPT
  rw [← trace_preserved L ρ0 (fun k => A (k-1)) (fun k => B (k-1)) Uin Uout I trv
    (fun k => hA (k-1)) (fun k => hB (k-1)) hin hout hI (n+1)]
  apply Finset.sum_congr rfl; intro out hout'
  rw [h out]
  congr 1
  rw [Finset.sum_eq_single out]
  · simp
  · intro b _ hb; simp [Ne.symm hb]
  · intro hno; exact absurd hout' hno

/-- Hermiticity of the states recorded by `compute_dynamics` (same setting). -/
theorem pt_hermitian_preserved [StarRing K] (L : ℕ) (σ : ℕ → ℕ) (hσ : IsSwap L σ)
    (D : ℕ → ℕ) (T : ℕ → ℕ → ℕ → ℕ → ℕ → K)
    (A B : ℕ → ℕ → ℕ → K) (cap : ℕ → ℕ → K) (Uin Uout : ℕ → ℕ → K)
    (I : ℕ → ℕ → ℕ → ℕ → K) (ρ0 : ℕ → K) (n : ℕ)
    (hPT : ∀ p, IsPath L (2 * (n+1)) p →
      densePT D T cap (n+1) p = ptOfInfluence L Uin Uout I (n+1) p)
    (hρ : ∀ a, a < L → star (ρ0 (σ a)) = ρ0 a)
    (hA : ∀ k, StarSym L σ (A k)) (hB : ∀ k, StarSym L σ (B k))
    (hin : StarSym L σ Uin) (hout : StarSym L σ Uout)
    (hI : ∀ n dk a c, a < L → c < L → star (I n dk (σ a) (σ c)) = I n dk a c)
    (out : ℕ) (hout' : out < L) :
    star (mpoRecord L D T A B cap (fun a b => if a = b then 1 else 0) ρ0 (n+1) (σ out))
      = mpoRecord L D T A B cap (fun a b => if a = b then 1 else 0) ρ0 (n+1) out := by
  have h := fun o => OQuPyVerif.Props.C02.mpo_dynamics_eq_tempo L D T A B cap Uin Uout I
    (fun a b => if a = b then 1 else 0) ρ0 n o hPT
  have hsum : ∀ o, o < L → ∑ s ∈ range L, (if o = s then (1:K) else 0) *
      tempoState L ρ0 (fun k => A (k-1)) (fun k => B (k-1)) Uin Uout I (n+1) s
      = tempoState L ρ0 (fun k => A (k-1)) (fun k => B (k-1)) Uin Uout I (n+1) o := by
    intro o ho
    rw [Finset.sum_eq_single o]
    · simp
    · intro b _ hb; simp [Ne.symm hb]
    · intro hno; exact absurd (Finset.mem_range.mpr ho) hno
  rw [h, h, hsum _ (hσ.lt out hout'), hsum _ hout']
  exact hermitian_preserved L σ hσ ρ0 _ _ Uin Uout I hρ (fun k => hA (k-1)) (fun k => hB (k-1))
    hin hout hI (n+1) out hout'

/-- non-vacuity: a 1-level "system" (L = 1) with all tables 1 meets every hypothesis -/
example : ∑ out ∈ range 1, (fun _ => (1:ℚ)) out *
    tempoState 1 (fun _ => (1:ℚ)) (fun _ _ _ => 1) (fun _ _ _ => 1) (fun _ _ => 1) (fun _ _ => 1)
      (fun _ _ _ _ => 1) 3 out = ∑ a ∈ range 1, (fun _ => (1:ℚ)) a * (fun _ => (1:ℚ)) a :=
  trace_preserved 1 _ _ _ _ _ _ _ (by intro k b hb; simp) (by intro k b hb; simp)
    (by intro b hb; simp) (by intro b hb; simp) (by intros; simp) 3

end OQuPyVerif.Props.C04
