/-
  C04 (positivity sector over ℝ / ℂ) — the conclusions of `Props/C04Pos.lean` in Mathlib's terms:
  the reported matrix is `Matrix.PosSemidef`.
-/
import OQuPyVerif.Props.C04Pos
import OQuPyVerif.Lemmas.PositivityComplex

namespace OQuPyVerif.Props.C04
open Finset BigOperators OQuPyVerif.Positivity
open scoped ComplexOrder

/-- over ℂ: after any sequence of Kraus-form steps the reported matrix is positive semidefinite
    (Mathlib's `Matrix.PosSemidef`: Hermitian with non-negative quadratic form) with the initial trace -/
theorem kraus_steps_posSemidef {𝕜 : Type} [RCLike 𝕜] (d : ℕ) (Ps : List (ℕ → ℕ → 𝕜))
    (hPs : ∀ P ∈ Ps, IsKrausStep d P) (v : ℕ → 𝕜) (ρ : ℕ → ℕ → 𝕜) (hρ : IsGram d ρ)
    (hv : ∀ i, i < d → ∀ j, j < d → v (i * d + j) = ρ i j) :
    ∃ ρ' : ℕ → ℕ → 𝕜, (Matrix.of fun (i j : Fin d) => ρ' i j).PosSemidef ∧
      (∀ i, i < d → ∀ j, j < d → runVec d Ps v (i * d + j) = ρ' i j) ∧
      ∑ i ∈ range d, ρ' i i = ∑ i ∈ range d, ρ i i := by
  obtain ⟨ρ', hg, hrun, htr⟩ := kraus_steps_physical d Ps hPs v ρ hρ hv
  exact ⟨ρ', gram_posSemidef d ρ' hg, hrun, htr⟩

/-- over ℂ: the reduced state of a system coupled to an explicit environment is positive
    semidefinite at every step -/
theorem ancilla_states_posSemidef {𝕜 : Type} [RCLike 𝕜] (E d : ℕ) (Ps : List (ℕ → ℕ → 𝕜))
    (hPs : ∀ P ∈ Ps, IsKrausStep (E * d) P) (n : ℕ) (v : ℕ → 𝕜) (ρ : ℕ → ℕ → 𝕜)
    (hρ : IsGram (E * d) ρ)
    (hv : ∀ a, a < E * d → ∀ b, b < E * d → v (a * (E * d) + b) = ρ a b) :
    ∃ ρ' : ℕ → ℕ → 𝕜,
      (∀ a, a < E * d → ∀ b, b < E * d → runVec (E * d) (Ps.take n) v (a * (E * d) + b) = ρ' a b) ∧
      (Matrix.of fun (i j : Fin d) => ptraceEnv E d ρ' i j).PosSemidef := by
  obtain ⟨ρ', hrun, hg, _⟩ := ancilla_states_physical E d Ps hPs n v ρ hρ hv
  exact ⟨ρ', hrun, gram_posSemidef d _ hg⟩

end OQuPyVerif.Props.C04
