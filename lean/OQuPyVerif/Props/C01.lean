/-
  C01 — TEMPO and PT-TEMPO reproduce exactly solvable (commuting) models.

  Shown: for system propagators diagonal in the coupling eigenbasis (H commutes with the
  coupling operator; no Lindblad terms) the reported state is, at every step, the initial
  entry times the free phase times `E(−Om(Re S·Om + i·Im S·Op))` with `S` the sum of the
  η-cells admitted by the memory setting; with full memory `S = η(nΔ) − η(0)` — the double time
  integral over `[0, t_n]` (`tiling`); with a cut-off and an additional correlation time the
  rows are the strip integrals `row_sum_cutoff`, `row_sum_rect`.  Through C02 the same holds
  for PT-TEMPO + compute_dynamics.
  NOT shown: equality with explicitly simulated finite-mode baths for non-commuting systems
  (the Feynman–Vernon derivation), DESIGN.md §6.
-/
import OQuPyVerif.Lemmas.PathDiag
import OQuPyVerif.Lemmas.EtaCells
import OQuPyVerif.Props.C04
import OQuPyVerif.Generated.InfluenceArgs
import OQuPyVerif.Lemmas.FloatGrid

namespace OQuPyVerif.Props.C01
open Finset BigOperators OQuPyVerif.PathSum OQuPyVerif.Tempo OQuPyVerif.EtaCells
open OQuPyVerif.Props.C04 (inflEntry)
variable {K : Type} [CommRing K]

/-- identity table -/
def idTbl : ℕ → ℕ → K := fun a b => if a = b then 1 else 0

theorem matMul_diag_left (L : ℕ) (A B : ℕ → ℕ → K) (hA : ∀ a b, a ≠ b → A a b = 0)
    (a b : ℕ) (ha : a < L) : matMul L A B a b = A a a * B a b := by
  unfold matMul
  rw [Finset.sum_eq_single a]
  · intro c _ hca; rw [hA a c (Ne.symm hca)]; ring
  · intro hna; exact absurd (Finset.mem_range.mpr ha) hna

theorem idTbl_offdiag : ∀ a b : ℕ, a ≠ b → (idTbl : ℕ → ℕ → K) a b = 0 := by
  intro a b h; simp [idTbl, h]

/-- **Collapse for commuting models.**  If both half-step propagators are diagonal at every
    step, TEMPO's state after `n+1` steps is, entry by entry, the initial entry times the
    product of the propagator entries times the product of all admitted influence factors
    `I k j a a` (`k = 1..n+1`, `j < k`) — populations and coherences evolve independently. -/
theorem commuting_collapse (L : ℕ) (ρ0 : ℕ → K) (P1 P2 : ℕ → ℕ → ℕ → K)
    (h1 : ∀ k a b, a ≠ b → P1 k a b = 0) (h2 : ∀ k a b, a ≠ b → P2 k a b = 0)
    (I : ℕ → ℕ → ℕ → ℕ → K) (n out : ℕ) (hout : out < L) :
    tempoState L ρ0 P1 P2 idTbl idTbl I (n+1) out =
      ρ0 out * (∏ k ∈ range (n+1), (P1 (k+1) out out * P2 (k+1) out out)) *
        ∏ k ∈ range (n+1), rowConst I (k+1) out := by
  have hMdiag : ∀ k a b, a < L → a ≠ b → kernelM L P1 P2 idTbl idTbl k a b = 0 := by
    intro k a b ha hab
    unfold kernelM
    split
    · rw [matMul_diag_left L _ _ idTbl_offdiag a b ha, h1 k a b hab]; ring
    · rw [matMul_diag_left L _ _ idTbl_offdiag a b ha,
          matMul_diag_left L _ _ (h1 k) a b ha, matMul_diag_left L _ _ (h2 (k-1)) a b ha,
          idTbl_offdiag a b hab]; ring
  have hM1 : ∀ a, a < L → kernelM L P1 P2 idTbl idTbl 1 a a = P1 1 a a := by
    intro a ha
    unfold kernelM
    simp only [le_refl, ite_true]
    rw [matMul_diag_left L _ _ idTbl_offdiag a a ha]; simp [idTbl]
  have hMk : ∀ k a, a < L → kernelM L P1 P2 idTbl idTbl (k+2) a a = P1 (k+2) a a * P2 (k+1) a a := by
    intro k a ha
    unfold kernelM
    have : ¬ (k + 2 ≤ 1) := by omega
    simp only [this, ite_false]
    rw [matMul_diag_left L _ _ idTbl_offdiag a a ha, matMul_diag_left L _ _ (h1 (k+2)) a a ha,
        matMul_diag_left L _ _ (h2 (k+2-1)) a a ha]
    simp [idTbl]
  -- replace the kernel by one that is diagonal everywhere (only the range matters)
  let M' : ℕ → ℕ → ℕ → K := fun k a b =>
    if a = b then kernelM L P1 P2 idTbl idTbl k a b else 0
  have hswap : ∀ φ : ℕ → K, pathState L ρ0 (kernelM L P1 P2 idTbl idTbl) I (n+1) φ
      = pathState L ρ0 M' I (n+1) φ := by
    intro φ
    unfold pathState
    apply pathSum_congr; intro p hp
    congr 1
    have : ∀ q : List ℕ, (∀ x ∈ q, x < L) →
        weight ρ0 (kernelM L P1 P2 idTbl idTbl) I q = weight ρ0 M' I q := by
      intro q
      induction q with
      | nil => intro _; rfl
      | cons a rest ih =>
        intro hq
        cases rest with
        | nil => rfl
        | cons b rest' =>
          simp only [weight]
          rw [ih (fun x hx => hq x (by simp [List.mem_cons] at hx ⊢; tauto))]
          congr 2
          simp only [M']
          split
          · rfl
          · rename_i hab; exact hMdiag _ a b (hq a (by simp)) hab
    exact this p hp.2
  unfold tempoState
  simp only [Nat.succ_ne_zero, ite_false]
  rw [hswap, pathState_diag L ρ0 M' I (by intro k a b hab; simp [M', hab])]
  rw [Finset.sum_eq_single out]
  · have hφ : matMul L (P2 (n+1)) idTbl out out = P2 (n+1) out out := by
      rw [matMul_diag_left L _ _ (h2 (n+1)) out out hout]; simp [idTbl]
    have hv1 : ∑ a0 ∈ range L, M' 1 out a0 * ρ0 a0 = P1 1 out out * ρ0 out := by
      rw [Finset.sum_eq_single out]
      · simp [M', hM1 out hout]
      · intro b _ hb; simp [M', Ne.symm hb]
      · intro hno; exact absurd (Finset.mem_range.mpr hout) hno
    have hprod : ∏ k ∈ range n, M' (k+2) out out
        = ∏ k ∈ range n, (P1 (k+2) out out * P2 (k+1) out out) := by
      apply Finset.prod_congr rfl; intro k _; simp [M', hMk k out hout]
    rw [hφ, hv1, hprod]
    -- reorganise  P2(n+1) · P1(1) · Π_{k<n} P1(k+2) P2(k+1)  =  Π_{k<n+1} P1(k+1) P2(k+1)
    have hre : P2 (n+1) out out * (P1 1 out out * ∏ k ∈ range n, (P1 (k+2) out out * P2 (k+1) out out))
        = ∏ k ∈ range (n+1), (P1 (k+1) out out * P2 (k+1) out out) := by
      clear hφ hv1 hprod hswap
      induction n with
      | zero => simp; ring
      | succ m ihm =>
        rw [Finset.prod_range_succ, Finset.prod_range_succ (n := m+1), ← ihm]
        ring
    rw [← hre]; ring
  · intro b _ hb
    have : matMul L (P2 (n+1)) idTbl out b = 0 := by
      rw [matMul_diag_left L _ _ (h2 (n+1)) out b hout, idTbl_offdiag out b (Ne.symm hb)]; ring
    rw [this]; ring
  · intro hno; exact absurd (Finset.mem_range.mpr hout) hno

/-- products of exponentials are exponentials of sums -/
theorem prod_exp (E : K → K) (hE0 : E 0 = 1) (hE : ∀ x y, E (x + y) = E x * E y)
    {ι : Type} (s : Finset ι) (x : ι → K) : ∏ i ∈ s, E (x i) = E (∑ i ∈ s, x i) := by
  classical
  induction s using Finset.induction_on with
  | empty => simp [hE0]
  | insert i s hi ih => rw [Finset.prod_insert hi, Finset.sum_insert hi, hE, ih]

/-- **Decoherence factor.**  With the tables of `influence_matrix` (`inflEntry`, real part
    `etaRe id`, imaginary part `etaIm id` of the η-cell of table `id`) and any memory setting,
    the product of all influence factors of the constant path through index `a` is
    `E(−(Re S·Om a + i·Im S·Op a)·Om a)` with `S` the SUM of the admitted η-cells.
    In particular populations (`Om a = 0`) are constant. -/
theorem decoherence_factor (E : K → K) (hE0 : E 0 = 1) (hE : ∀ x y, E (x + y) = E x * E y)
    (iUnit : K) (Om Op : ℕ → K) (etaRe etaIm : ℤ → K) (dkmax : Option ℕ) (hasAdd : Bool)
    (a n : ℕ) :
    ∏ k ∈ range n, rowConst (inflOfTables dkmax hasAdd
        (fun id e l => inflEntry E (etaRe id) (etaIm id) iUnit Om Op e l)) (k+1) a
      = E (-(((∑ k ∈ range n, ∑ j ∈ range (k+1), selEta dkmax hasAdd etaRe (k+1) j) * Om a
              + iUnit * (∑ k ∈ range n, ∑ j ∈ range (k+1), selEta dkmax hasAdd etaIm (k+1) j) * Op a)
            * Om a)) := by
  have hfac : ∀ k j, inflOfTables dkmax hasAdd
        (fun id e l => inflEntry E (etaRe id) (etaIm id) iUnit Om Op e l) k j a a
      = E (-((selEta dkmax hasAdd etaRe k j * Om a
              + iUnit * selEta dkmax hasAdd etaIm k j * Op a) * Om a)) := by
    intro k j
    unfold inflOfTables selEta
    cases inflSel dkmax hasAdd k j with
    | none => simp [hE0]
    | some id => rfl
  unfold rowConst
  simp only [hfac]
  rw [Finset.prod_congr rfl (fun k _ => prod_exp E hE0 hE (range (k+1)) _), prod_exp E hE0 hE]
  congr 1
  have hlin : ∀ k j, -((selEta dkmax hasAdd etaRe (k+1) j * Om a
        + iUnit * selEta dkmax hasAdd etaIm (k+1) j * Op a) * Om a)
      = (-(Om a * Om a)) * selEta dkmax hasAdd etaRe (k+1) j
        + (-(iUnit * Op a * Om a)) * selEta dkmax hasAdd etaIm (k+1) j := by
    intro k j; ring
  simp only [hlin, Finset.sum_add_distrib, ← Finset.mul_sum]
  ring

/-- **Full memory has its documented meaning**: with `dkmax = None` and the cells of
    `correlation_2d_integral`, the admitted η sum is the double integral over the whole
    triangle, `η(nΔ) − η(0)`. -/
theorem full_memory_sum (e : ℤ → K) (n : ℕ) :
    ∑ k ∈ range n, ∑ j ∈ range (k+1), selEta none false (fun id => cell e id.toNat) (k+1) j
      = e n - e 0 := by
  have : ∀ k j, selEta none false (fun id => cell e id.toNat) (k+1) j = cell e j := by
    intro k j; simp [selEta, inflSel]
  simp only [this]
  exact tiling e n

/-- **Cut-off has its documented meaning** (no additional correlation time): row `k+1` keeps
    exactly the cells `dk ≤ dkmax` and sums to the strip integral
    `η((m+1)Δ) − η(mΔ)`, `m = min k dkmax`. -/
theorem cutoff_row_sum (e : ℤ → K) (Kc k : ℕ) :
    ∑ j ∈ range (k+1), selEta (some Kc) false (fun id => cell e id.toNat) (k+1) j
      = e ((min k Kc : ℕ) + 1) - e (min k Kc : ℕ) := by
  rw [← row_sum_cutoff e Kc k]
  have hsel : ∀ j, selEta (some Kc) false (fun id => cell e id.toNat) (k+1) j
      = if j ≤ Kc then cell e j else 0 := by
    intro j
    simp only [selEta, inflSel, Bool.false_eq_true, and_false, ite_false]
    by_cases h : j > Kc
    · simp [h, Nat.not_le.mpr h]
    · simp [h, Nat.le_of_not_gt h]
  simp only [hsel]
  rw [← Finset.sum_filter]
  apply Finset.sum_congr _ (fun _ _ => rfl)
  ext j
  simp only [Finset.mem_filter, Finset.mem_range]
  omega


/-! ### Tie to the source: the regenerated formula and arguments of `influence_matrix` -/
section Generated
open OQuPyVerif.Generated.InfluenceArgs OQuPyVerif.FloatModel

/-- the regenerated entry formula is the model's `inflEntry` -/
theorem infl_entry_is_model (E : K → K) (reEta imEta iUnit : K) (Om Op : ℕ → K) (e l : ℕ) :
    infl_entry E reEta imEta iUnit Om Op e l = inflEntry E reEta imEta iUnit Om Op e l := by
  unfold infl_entry inflEntry
  congr 1 <;> ring

/-- … and the `dk = 0` formula is its diagonal -/
theorem infl_entry_diag_is_model (E : K → K) (reEta imEta iUnit : K) (Om Op : ℕ → K) (a : ℕ) :
    infl_entry_diag E reEta imEta iUnit Om Op a = inflEntry E reEta imEta iUnit Om Op a a := by
  unfold infl_entry_diag inflEntry
  congr 1 <;> ring

/-- what `influence_matrix` asks of `correlation_2d_integral`, per kind of `dk`:
    `dk = 0` the upper triangle at 0; `dk > 0` the square at `dk·dt`; `dk < 0` (only with an
    additional correlation time, else no table) the rectangle from `dkmax·dt` to
    `dkmax·dt + min((−dk)·dt, dt + τ)`. -/
theorem influence_args (dt τ : Rat) (Kc dk : Int) :
    infl_zero_shape = "upper-triangle" ∧ infl_zero_time1 dt dk = 0 ∧
    infl_pos_shape = "square" ∧ infl_pos_time1 dt dk = fmul (ofInt dk) dt ∧
    infl_neg_shape = "rectangle" ∧ infl_neg_time1 dt Kc dk = fmul (ofInt Kc) dt ∧
    infl_neg_time2 dt Kc dk τ =
      fadd (fmul (ofInt Kc) dt) (min (fmul (ofInt (-dk)) dt) (fadd (fmul 1 dt) τ)) ∧
    infl_neg_none_without_add = true := by
  refine ⟨rfl, ?_, rfl, rfl, rfl, rfl, ?_, rfl⟩
  · unfold infl_zero_time1; simp [Rat.mkRat_eq_div]
  · unfold infl_neg_time2; simp [Rat.mkRat_eq_div]

end Generated


/-! ### `tcut` has its documented meaning -/
section Tcut
open OQuPyVerif.Generated.InfluenceArgs OQuPyVerif.FloatModel OQuPyVerif.FloatGrid

theorem ceilInt_intCast (n : Int) : ceilInt (n : Rat) = n := by
  show ⌈(n : Rat)⌉ = n
  exact Int.ceil_intCast n

/-- The memory cut-off given as a time: `dkmax` is the number of steps nearest to `tcut/dt`
    (regenerated expression, binary64 model): whenever the exact quotient is within 1/4 of the
    integer `k` — in particular for every `tcut` written as the literal of `k·dt` — the result is
    `k`, not `k+1`. -/
theorem tcut_general (tcut dt : Rat) (k : Int) (hq : |tcut / dt - k| ≤ 1/4)
    (hbig : |tcut / dt| ≤ 2 ^ 40) : tcut_to_dkmax tcut dt = k := by
  unfold tcut_to_dkmax fdiv
  have herr := rnd_err (tcut / dt)
  have hclose : |rnd (tcut / dt) - k| < 1/2 := by
    have h1 : |rnd (tcut / dt) - k| ≤ |rnd (tcut / dt) - tcut / dt| + |tcut / dt - k| := by
      have := abs_add_le (rnd (tcut / dt) - tcut / dt) (tcut / dt - k)
      simpa using this
    have h2 : (1 / 2 ^ 53 : Rat) * |tcut / dt| ≤ 1 / 2 ^ 13 := by
      have : (1 / 2 ^ 53 : Rat) * |tcut / dt| ≤ (1 / 2 ^ 53) * 2 ^ 40 :=
        mul_le_mul_of_nonneg_left hbig (by positivity)
      have e : (1 / 2 ^ 53 : Rat) * 2 ^ 40 = 1 / 2 ^ 13 := by norm_num
      linarith
    have : (1 / 2 ^ 13 : Rat) + 1/4 < 1/2 := by norm_num
    linarith
  rw [roundHalfEven_eq_of_close _ k hclose, ceilInt_intCast, truncInt_intCast]

/-- the historical trap `0.28/0.04 = 7.000000000000001` gives 7 memory steps -/
example : tcut_to_dkmax (lit 28 2) (lit 4 2) = 7 := by decide +kernel

/-- `dkmax` given as a number of steps corresponds to `tcut = dkmax·dt` -/
theorem dkmax_tcut (dkmax : Int) (dt : Rat) : dkmax_to_tcut dkmax dt = fmul (ofInt dkmax) dt := rfl

end Tcut

/-- non-vacuity of `decoherence_factor`'s hypotheses: `E = fun _ => 1` over ℚ -/
example : (fun _ : ℚ => (1:ℚ)) 0 = 1 ∧ ∀ x y : ℚ, (fun _ : ℚ => (1:ℚ)) (x + y) = 1 * 1 := by simp

end OQuPyVerif.Props.C01
