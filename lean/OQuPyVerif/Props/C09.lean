/-
  C09 — Mean-field evolution agrees across methods and integrates the field correctly.

  Property theorems only.  The models (`Model/MeanField.lean`) are wired from
  `Generated.MeanFieldTimes.*`, which is regenerated from /repo's source on every run:
  the time / step / state-list / field arguments of every `field_eom`, propagator and
  tensor-network call of `MeanFieldTempo` + `MeanFieldTempoBackend.compute_step` and of
  `compute_dynamics_with_field`, the Heun update expressions and the statement orders.  A source
  change that shifts a time argument (as the tree once did: `compute_dynamics_with_field` handed
  the time of the NEXT grid point to the field equation) makes `methods_agree` fail to check.
-/
import OQuPyVerif.Lemmas.MeanField
import OQuPyVerif.Lemmas.MeanFieldCalls
import OQuPyVerif.Lemmas.MeanFieldHeun
import OQuPyVerif.Lemmas.MeanFieldTimeErr
import Mathlib.Data.Rat.Defs
import Mathlib.Algebra.Order.Field.Rat
import Mathlib.Tactic.NormNum

set_option linter.unusedSectionVars false
set_option linter.unusedSimpArgs false

namespace OQuPyVerif.Props.C09
open OQuPyVerif.FloatModel OQuPyVerif.MeanField OQuPyVerif.Generated.MeanFieldTimes

/-! ### (1) Heun's rule; exact for equations of motion linear in time -/

/-- For `f(t, ·, ·) = c₀ + c₁·t` the Heun recursion on the grid `t₀ + n·dt` gives
    `a_n = a₀ + c₀(t_n − t₀) + c₁(t_n² − t₀²)/2` — the exact solution — for every `n`, `t₀`, `dt`
    and any states. -/
theorem heun_linear_exact {S K : Type} [Field K] (h2 : (2 : K) ≠ 0) (f : K → S → K → K) (c0 c1 : K)
    (hf : ∀ t x a, f t x a = c0 + c1 * t) (t0 dt a0 : K) (s : ℕ → S) (n : ℕ) :
    heunSeq f t0 dt a0 s n
      = a0 + c0 * ((t0 + n * dt) - t0) + c1 * ((t0 + n * dt) ^ 2 - t0 ^ 2) / 2 :=
  heunSeq_linear h2 f c0 c1 hf t0 dt a0 s n

/-- non-vacuity / the design's witness: `f = 2t`, `t₀ = 1`, `dt = 1/10`, `a₀ = 3/10`: one step gives
    `0.51` (the tree that evaluated the equation one step late returned `0.53`). -/
example : heunSeq (S := Unit) (fun t _ _ => 0 + 2 * t) (1 : ℚ) (1 / 10) (3 / 10) (fun _ => ()) 1
    = 51 / 100 := by
  norm_num [heunSeq, heun]

/-- a concrete instance for the non-vacuity examples: time-, state- and field-dependent equation of
    motion, field-dependent propagators, start time 1, `K = S = σ = P = ℚ` -/
def exampleSys : Sys ℚ ℚ ℚ ℚ where
  eom := fun t s a => 2 * t + s - a
  props := fun n a d => n + a * d
  net := fun k p x => x + p / k
  netPT := fun k p x => x + p / (k + 1)
  obs := fun x => 3 * x
  cast := fun r => r
  start := 1
  dt := 1 / 8
  nsys := 2

/-- the same with propagators that ignore the field -/
def exampleSysPlain : Sys ℚ ℚ ℚ ℚ := { exampleSys with props := fun n _ _ => n }

section model
variable {S K σ P : Type}

/-- The field update of one `MeanFieldTempoBackend.compute_step` IS Heun's rule with the states and
    (binary64) times at both ends of the step: stage 1 at `(t_n, states_n, a_n)`, stage 2 at
    `(t_n ⊕ dt, states_{n+1}, a_n + dt·rk1)` — up to the rounding of `t_n ⊕ dt` (`ht`). -/
theorem mft_field_is_heun [Field K] (M : Sys S K σ P) (g : K → S → K → K)
    (hg : M.eom = fun t => g (M.cast t)) (n : Int) (st : σ × K)
    (ht : M.cast (fadd (gridT M.start M.dt n) M.dt) = M.cast (gridT M.start M.dt n) + M.cast M.dt) :
    (mftStep M n st).1.2
      = heun g (M.cast (gridT M.start M.dt n)) (M.cast M.dt) st.2 (M.obs st.1)
          (M.obs (mftStep M n st).1.1) := by
  have e : heun2 M.eom = heun2 (fun t => g (M.cast t)) := by rw [hg]
  rw [mftStep_spec]
  show heun2 M.eom _ _ _ _ _ _ = _
  rw [e]
  exact heun2_eq_heun g M.cast _ _ _ _ _ _ ht

/-- `mft_field_is_heun` applies: on the grid `1 + k/8` no rounding occurs -/
example : ((fadd (gridT 1 (1 / 8) 3) (1 / 8) : Rat) : ℚ) = gridT 1 (1 / 8) 3 + 1 / 8 := by
  decide +kernel

/-- The stage times of step `n` are the binary64 values `t_n = start ⊕ n ⊗ dt` and `t_n ⊕ dt`; they
    differ from the exact grid by at most `2⁻⁵³(|start| + (2 + 2⁻⁵³)|n·dt|)` resp. one rounding
    (`ofInt n = n` for `|n| < 2⁵³`), so "exact for equations linear in time" holds up to round-off of
    this size on grids that are not exactly representable. -/
theorem stage_times_accurate (s dt : Rat) (n : Int) :
    mft_cf_rk1_time s dt (mftb_cf_step n) = gridT s dt n ∧
    mft_cf_rk2_time s dt (mftb_cf_step n) = fadd (gridT s dt n) dt ∧
    |gridT s dt n - (s + ofInt n * dt)| ≤ (1 / 2 ^ 53) * (|s| + (2 + 1 / 2 ^ 53) * |ofInt n * dt|) ∧
    |fadd (gridT s dt n) dt - (gridT s dt n + dt)| ≤ (1 / 2 ^ 53) * |gridT s dt n + dt| :=
  ⟨rfl, rfl, gridT_err s dt n, fadd_err _ _⟩

/-- On a time grid that binary64 represents exactly, mean-field TEMPO's field for an equation of
    motion linear in time is the exact solution `a₀ + c₀·nδ + c₁((t₀+nδ)² − t₀²)/2` at every grid
    point, whatever the systems do. -/
theorem mft_linear_exact [Field K] (M : Sys S K σ P) (h2 : (2 : K) ≠ 0) (c0 c1 : K)
    (hf : ∀ t x a, M.eom t x a = c0 + c1 * M.cast t) (t0 δ : K) (hδ : M.cast M.dt = δ) (N : ℕ)
    (hgrid : ∀ k : ℕ, k < N → M.cast (gridT M.start M.dt k) = t0 + k * δ ∧
        M.cast (fadd (gridT M.start M.dt k) M.dt) = t0 + (k + 1) * δ)
    (σ0 : σ) (a0 : K) (n : ℕ) (hn : n ≤ N) :
    (mftIter M σ0 a0 n).1.2 = a0 + c0 * (n * δ) + c1 * ((t0 + n * δ) ^ 2 - t0 ^ 2) / 2 := by
  rw [(mftIter_spec M σ0 a0 n).1]
  exact specIter_linear_exact M h2 c0 c1 hf t0 δ hδ N hgrid σ0 a0 n hn

/-- non-vacuity of `hgrid`: start 1, dt 1/8, eight steps -/
example : ∀ k : ℕ, k < 8 → ((gridT 1 (1 / 8) k : Rat) : ℚ) = 1 + k * (1 / 8) ∧
    (fadd (gridT 1 (1 / 8) k) (1 / 8) : ℚ) = 1 + (k + 1) * (1 / 8) := by
  decide +kernel

/-! ### (2) the two methods agree at every step -/

variable [Add K] [Sub K] [Mul K] [Div K] [OfNat K 2]

/-- `compute_dynamics_with_field(num_steps = N, record_all = True)` returns exactly the (states,
    field) pairs of `MeanFieldTempo.compute` over `N` steps — for every field equation of motion
    (time dependent or not), start time, `dt`, initial field, number and dimensions of systems, `N`
    (including 0).  `hnet`: the process tensors are those of the same baths (PT-MPO number `k`
    advances the joint state like TEMPO's network step `k+1`; property C02). -/
theorem methods_agree (M : Sys S K σ P) (σ0 : σ) (a0 : K)
    (hnet : ∀ k p x, M.netPT k p x = M.net (k + 1) p x) (N : ℕ) :
    (cdwfRun M σ0 a0 true N).map Prod.fst = some (mftRecords M σ0 a0 N) := by
  cases N with
  | zero => rfl
  | succ n =>
    obtain ⟨_, _, _, h4⟩ := cdwfIter_spec M σ0 a0 hnet n
    show some ((cdwfIter M σ0 a0 n).2.1 ++ [(cdwfFinal M ((n + 1 : ℕ) : Int) (cdwfIter M σ0 a0 n).1).1])
      = some (mftIter M σ0 a0 (n + 1)).2.1
    rw [h4, cdwfFinal_spec M σ0 a0 hnet n, (mftIter_spec M σ0 a0 (n + 1)).2, specRecords_succ]

/-- … and with `record_all = False` exactly the last pair. -/
theorem methods_agree_final_only (M : Sys S K σ P) (σ0 : σ) (a0 : K)
    (hnet : ∀ k p x, M.netPT k p x = M.net (k + 1) p x) (N : ℕ) :
    (cdwfRun M σ0 a0 false N).map Prod.fst
      = some [(M.obs (mftIter M σ0 a0 N).1.1, (mftIter M σ0 a0 N).1.2)] := by
  cases N with
  | zero => rfl
  | succ n =>
    show some ([] ++ [(cdwfFinal M ((n + 1 : ℕ) : Int) (cdwfIter M σ0 a0 n).1).1]) = _
    rw [cdwfFinal_spec M σ0 a0 hnet n, (mftIter_spec M σ0 a0 (n + 1)).1]
    rfl

/-- Both methods make the same sequence of `field_eom(t, states, field)` evaluations — same
    (binary64) times, same state lists, same field values, same order: per step `k` the derivative
    evaluation at `(t_k, states_k, a_k)` (once in mean-field TEMPO, `cdwf_fd_evals nsys` times — on
    the current tree once per system — in `compute_dynamics_with_field`), then stage 1 at `(t_k, states_k, a_k)` and stage 2 at
    `(t_k ⊕ dt, states_{k+1}, a_k + rk1·dt)`. -/
theorem eom_calls_agree (M : Sys S K σ P) (σ0 : σ) (a0 : K)
    (hnet : ∀ k p x, M.netPT k p x = M.net (k + 1) p x) (N : ℕ) (rec : Bool) :
    (cdwfRun M σ0 a0 rec N).map Prod.snd = some (specCalls (cdwf_fd_evals M.nsys) M σ0 a0 N) ∧
    mftCalls M σ0 a0 N = specCalls 1 M σ0 a0 N := by
  refine ⟨?_, mftIter_calls M σ0 a0 N⟩
  cases N with
  | zero => rfl
  | succ n =>
    obtain ⟨h1, h2, h3, _⟩ := cdwfIter_spec M σ0 a0 hnet n
    show some ((cdwfIter M σ0 a0 n).2.2 ++
        (cdwfComputeField M (cdwf_final_cf_time M.start M.dt ((n + 1 : ℕ) : Int))
              (cdwf_final_cf_dt M.start M.dt ((n + 1 : ℕ) : Int))
              (cdwf_final_cf_states (cdwfIter M σ0 a0 n).1.prev (M.obs (cdwfIter M σ0 a0 n).1.net))
              (cdwfIter M σ0 a0 n).1.field
              (cdwf_final_cf_next_states (cdwfIter M σ0 a0 n).1.prev
                (M.obs (cdwfIter M σ0 a0 n).1.net))).2) = _
    rw [cdwfIter_calls M σ0 a0 hnet n, h1, h2, h3,
      show ((n + 1 : ℕ) : Int) = (n : Int) + 1 by push_cast; rfl, cdwf_final_calls]
    simp only [specCalls, specCallsStep, List.append_assoc]
    rfl

/-- non-vacuity of `hnet` and of the statements: a run with a genuinely time- and state-dependent
    equation of motion, start time 1 (`K = S = σ = ℚ`): both methods give the same three records. -/
example :
    (∀ k p x, exampleSys.netPT k p x = exampleSys.net (k + 1) p x) ∧
      (cdwfRun exampleSys (1 / 2) (3 / 10) true 2).map Prod.fst
        = some (mftRecords exampleSys (1 / 2) (3 / 10) 2) ∧
      (mftRecords exampleSys (1 / 2) (3 / 10) 2).length = 3 := by
  refine ⟨fun k p x => ?_, by decide +kernel, by decide +kernel⟩
  show x + p / ((k : ℚ) + 1) = x + p / ((k + 1 : Int) : ℚ)
  push_cast
  rfl

/-! ### (3) no field dependence ⇒ each system evolves as in the field-free computation -/

/-- If the propagators ignore the field (and its derivative), the joint state of mean-field TEMPO
    after `n` steps is that of plain TEMPO (`TempoBackend.compute_step`) with those propagators —
    for every equation of motion of the field. -/
theorem no_field_dependence_mft (M : Sys S K σ P) (σ0 : σ) (a0 : K) (props0 : Int → P)
    (h : ∀ n a d, M.props n a d = props0 n) (n : ℕ) :
    (mftIter M σ0 a0 n).1.1 = tempoIter M.net props0 σ0 n := by
  induction n with
  | zero => rfl
  | succ n ih =>
    show (mftStep M (n : Int) (mftIter M σ0 a0 n).1).1.1 = _
    rw [mftStep_spec]
    show M.net ((n : Int) + 1) (M.props (n : Int) _ _) (mftIter M σ0 a0 n).1.1 = _
    rw [h, ih]
    show _ = M.net (tb_sys_step (n : Int)) (props0 (tb_prop_step (n : Int))) _
    simp only [tb_sys_step, tb_prop_step, Int.add_sub_cancel]

/-- … and the joint state of `compute_dynamics_with_field` before its step `n` is that of
    `compute_dynamics` with those propagators and the same process tensors. -/
theorem no_field_dependence_cdwf (M : Sys S K σ P) (σ0 : σ) (a0 : K) (props0 : Int → P)
    (h : ∀ n a d, M.props n a d = props0 n) (n : ℕ) :
    (cdwfIter M σ0 a0 n).1.net = cdIter M.netPT props0 σ0 (n + 1) := by
  induction n with
  | zero =>
    show (cdwfProp M 0 σ0 (M.obs σ0) (M.obs σ0) a0).1 = _
    rw [cdwfProp_net, h]
    rfl
  | succ n ih =>
    show (cdwfProp M ((n + 1 : ℕ) : Int) (cdwfIter M σ0 a0 n).1.net (cdwfIter M σ0 a0 n).1.prev
              (M.obs (cdwfIter M σ0 a0 n).1.net) (cdwfIter M σ0 a0 (n + 1)).1.field).1 = _
    rw [cdwfProp_net, h, ih]
    rfl

/-- non-vacuity: propagators that ignore the field, a field equation that depends on everything -/
example :
    (∀ n a d, exampleSysPlain.props n a d = (fun n => (n : ℚ)) n) ∧
    (mftIter exampleSysPlain (1 / 2) (3 / 10) 3).1.1
      = tempoIter exampleSysPlain.net (fun n => (n : ℚ)) (1 / 2) 3 := by
  exact ⟨fun _ _ _ => rfl, by decide +kernel⟩

/-- A `TimeDependentSystemWithField` whose Hamiltonian ignores the field has its Liouvillian
    sampled / integrated at exactly the times a plain `TimeDependentSystem` uses. -/
theorem plain_sample_times (s dt : Rat) (n : Int) :
    tdsf_sample1 s dt n = tds_sample1 s dt n ∧ tdsf_sample2 s dt n = tds_sample2 s dt n ∧
    tdsf_int1_a s dt n = tds_int1_a s dt n ∧ tdsf_int1_b s dt n = tds_int1_b s dt n ∧
    tdsf_int2_a s dt n = tds_int2_a s dt n ∧ tdsf_int2_b s dt n = tds_int2_b s dt n :=
  ⟨rfl, rfl, rfl, rfl, rfl, rfl⟩

/-- The propagators of step `n` evaluate the Hamiltonian at `t_n ⊕ dt/4` and `t_n ⊕ 3dt/4` with the
    field linearised from its value and derivative at the START of the step (`t_n`). -/
theorem ham_args_linearised (cast : Rat → K) (s dt : Rat) (n : Int) (a d : K) :
    hamArgs cast s dt n a d =
      [(fadd (gridT s dt n) (fdiv dt 4),
          a + d * cast (fsub (fadd (gridT s dt n) (fdiv dt 4)) (gridT s dt n))),
       (fadd (gridT s dt n) (fdiv (fmul dt 3) 4),
          a + d * cast (fsub (fadd (gridT s dt n) (fdiv (fmul dt 3) 4)) (gridT s dt n)))] := rfl

/-- Inside one Liouvillian evaluation `liouvillian(t0, t, …)` of a `TimeDependentSystemWithField`
    the Hamiltonian, the Lindblad rates and the Lindblad operators are all evaluated at the current
    time `t` (never at the linearisation reference `t0`) — exactly as a plain `TimeDependentSystem`
    evaluates them; so a sub-system that ignores the field has the plain system's Liouvillian, also
    with time dependent dissipators. -/
theorem plain_dissipator_times (t0 t : Rat) :
    tdsf_ham_time t0 t = tds_ham_time t ∧ tdsf_gamma_time t0 t = tds_gamma_time t ∧
    tdsf_lop_time t0 t = tds_lop_time t ∧
    tds_ham_time t = t ∧ tds_gamma_time t = t ∧ tds_lop_time t = t :=
  ⟨rfl, rfl, rfl, rfl, rfl, rfl⟩

/-- … hence in the two sampled half-step Liouvillians of step `n` the rates and operators are taken
    at `t_n ⊕ dt/4` and `t_n ⊕ 3dt/4`, the plain system's sample times. -/
theorem diss_args_current_time (s dt : Rat) (n : Int) :
    dissArgs s dt n =
      [(fadd (gridT s dt n) (fdiv dt 4), fadd (gridT s dt n) (fdiv dt 4)),
       (fadd (gridT s dt n) (fdiv (fmul dt 3) 4), fadd (gridT s dt n) (fdiv (fmul dt 3) 4))] ∧
    (dissArgs s dt n).map (fun p => (p.1, p.1, p.2)) = plainArgs s dt n :=
  ⟨rfl, rfl⟩

/-- The methods the property equates build their system propagators with the same DEFAULT
    settings: `subdiv_limit` (`none` would select two-point sampling instead of adaptive
    integration of the Liouvillian) and `liouvillian_epsrel` of `compute_dynamics_with_field` and of
    `compute_dynamics` equal those of `TempoParameters` (used by `MeanFieldTempo` and `Tempo`), and
    integration is the default. -/
theorem defaults_agree :
    cdwf_default_subdiv_limit = tp_default_subdiv_limit ∧
    cd_default_subdiv_limit = tp_default_subdiv_limit ∧
    cdwf_default_liouvillian_epsrel = tp_default_liouvillian_epsrel ∧
    cd_default_liouvillian_epsrel = tp_default_liouvillian_epsrel ∧
    tp_default_subdiv_limit.isSome = true ∧ propagator_settings_passthrough_checked = true :=
  ⟨rfl, rfl, rfl, rfl, rfl, rfl⟩

/-- also when the Liouvillian is integrated, the linearisation starts at `t_n` -/
theorem int_linearised_from_step_start (s dt : Rat) (n : Int) :
    tdsf_int_t0 s dt n = gridT s dt n ∧ tdsf_int1_a s dt n = gridT s dt n ∧
    tdsf_int2_b s dt n = fadd (gridT s dt n) dt ∧ tdsf_int1_b s dt n = tdsf_int2_a s dt n :=
  ⟨rfl, rfl, rfl, rfl⟩

/-! ### bookkeeping the models rely on -/

/-- step indices: the propagators get the index `n` of the grid point the step starts from, the
    TEMPO network step is `n+1`, the PT-MPO is number `n`, the backend's counter advances by one —
    in mean-field TEMPO, plain TEMPO, `compute_dynamics_with_field` and `compute_dynamics` alike. -/
theorem step_indices (n : Int) :
    mftb_fd_step n = n ∧ mftb_prop_step n = n ∧ mftb_cf_step n = n ∧ mftb_sys_step n = n + 1 ∧
    mftb_commit_step n = n + 1 ∧ tb_prop_step n = n ∧ tb_sys_step n = n + 1 ∧
    tb_commit_step n = n + 1 ∧ cdwf_prop_step n = n ∧ cdwf_mpo_step n = n ∧
    cdwf_caps_step n = n ∧ cdwf_final_caps_step n = n ∧ cd_prop_step n = n ∧ cd_mpo_step n = n := by
  simp only [mftb_fd_step, mftb_prop_step, mftb_cf_step, mftb_sys_step, mftb_commit_step,
    tb_prop_step, tb_sys_step, tb_commit_step, cdwf_prop_step, cdwf_mpo_step, cdwf_caps_step,
    cdwf_final_caps_step, cd_prop_step, cd_mpo_step, Int.add_sub_cancel, and_self]

/-- Labels: every (states, field) record `MeanFieldTempo.compute` adds to the dynamics is labelled
    with the time of the ABSOLUTE step the backend returned with it (never a counter of the loop of
    the current `compute` call), i.e. the record produced by the step that starts at grid point `n`
    is stored at `t_{n+1}` — in a first call, a continued call or a retry alike; the initial record
    is stored at the step `initialize()` returns. -/
theorem recorded_labels (s dt : Rat) (n c r : Int) :
    mft_label_step r c = r ∧ mft_init_label_step r = r ∧
    mft_time s dt (mft_label_step (mftb_commit_step n) c) = gridT s dt (n + 1) :=
  ⟨rfl, rfl, rfl⟩

/-- the statement orders the models are written against -/
theorem statement_order :
    mftOrderOK mftb_order = true ∧ cdwfOrderOK cdwf_loop_order = true ∧
    cdwfAfterOK cdwf_after_order = true := by
  decide

end model
end OQuPyVerif.Props.C09
