/-
  C11 — the Gibbs-state computation returns the exact reduced thermal state.

  Model: Model/Gibbs.lean (imaginary-time path sum of `TIBaseBackend` over the system basis
  states, with the orientation of every propagator factor and of the stored array, and the loop
  of `GibbsTempo.compute`, as DATA regenerated from the source: Generated/GibbsLoop.lean packed
  by Lemmas/GibbsSpec.lean into `genOrient`, `genSpec`, `genCoeff`).

  Shown
  * `gibbs_commuting*`: diagonal `H` ⇒ the stored (unnormalised) state is diagonal with entries
    `q_aa^(2n) · E(ops1_a·ops0_a·S)`, `S` = sum of all coefficient cells `= η(n dτ) − η(0)`
    (`tiling`), hence the same for every number of steps `n` that reaches the same `β`;
  * `gibbs_zero_coupling`: all factors 1 ⇒ the stored state after `k` slices is `q^(2k)`
    (`q = expm(−H dτ/2)`), i.e. `expm(−βH)` for `k = n`, for ANY `q` (complex Hermitian `H`
    included).  This statement is about `genOrient`; it type-checks only if the source stores
    the backend's arrays transposed (`gibbs_zero_coupling_orient` is the orientation-generic
    statement: without the transposition the stored state is `(q^(2k))ᵀ`);
  * `gibbs_trace_one`, `gibbs_hermitian`, `gibbs_normalised_hermitian`;
  * `compute_fresh`, `compute_idempotent`, `compute_repeat`: repeated `compute()`;
    `mps_never_truncated`: the imaginary-time chain is never cut, for every number of steps;
  * ties to the regenerated source: `coeff_is_cell`, `coeff_sum_tiling`, `guarded_term_inactive`,
    `infl_formulas_are_model`, `gibbs_ops_symmetric`, `total_imaginary_time`,
    `source_orientation`;
  * `eta_fallback_accurate`, `corr_fallback_accurate`, `matsubara_eta_integrand`: the regenerated
    finite-temperature integrands of `eta_function`/`correlation` — the large-frequency
    fall-back is accurate to `O(e^{−ω/T})` also in imaginary time, and at `τ = β` the η integrand
    is `β·J(ω)/ω`, i.e. the summed cells are `−β ×` reorganisation energy up to quadrature.
  NOT shown: that QUADPACK returns the integral (so `η(β) − η(0) = −β ∫J(ω)/ω dω` holds up to
  the quadrature), positivity, continuity in the coupling strength.
-/
import OQuPyVerif.Lemmas.GibbsState
import OQuPyVerif.Lemmas.GibbsCompute
import OQuPyVerif.Lemmas.GibbsUnique
import OQuPyVerif.Lemmas.EtaCells
import OQuPyVerif.Num.QI
import Mathlib.Algebra.Field.Basic
import Mathlib.Algebra.Star.Basic
import Mathlib.Algebra.BigOperators.Field
import Mathlib.Tactic.FieldSimp
import Mathlib.Tactic.LinearCombination
import Mathlib.Analysis.Complex.Exponential

namespace OQuPyVerif.Props.C11
open Finset BigOperators OQuPyVerif.PathSum OQuPyVerif.Gibbs OQuPyVerif.EtaCells
open OQuPyVerif.Generated.GibbsLoop

variable {K : Type} [CommRing K]

/-! ## 1. commuting models -/

/-- **Collapse.**  If the propagator is diagonal (`H` commutes with the coupling operator),
    what `GibbsTempo` stores after `k+1` imaginary-time slices is diagonal, entry `a` being
    `q_aa^(2(k+1))` times the product of ALL influence factors of the constant path through `a`
    — for every orientation of the propagator factors. -/
theorem gibbs_commuting (d : ℕ) (o : Orient) (q : ℕ → ℕ → K) (hq : ∀ a b, a ≠ b → q a b = 0)
    (G : ℕ → ℕ → ℕ → K) (k a b : ℕ) (ha : a < d) (hb : b < d) :
    stored d o q G (k+1) a b =
      if a = b then (q a a)^(2*(k+1)) * ∏ m ∈ range (k+1), ∏ j ∈ range (m+1), G j a a else 0 := by
  have key : ∀ r l, r < d → backendData d o q G idTbl (k+1) r l =
      if r = l then (q r r)^(2*(k+1)) * ∏ m ∈ range (k+1), ∏ j ∈ range (m+1), G j r r else 0 := by
    intro r l hr
    rw [backendData_diag d o q hq G k r l hr]
    rfl
  unfold stored Gibbs.tr
  cases (if k + 1 ≤ 2 then o.storeInit else o.storeStep)
  · simp only [Bool.false_eq_true, ite_false]
    exact key a b ha
  · simp only [ite_true]
    rw [key b a hb]
    by_cases h : a = b
    · subst h; simp
    · simp [h, Ne.symm h]

/-- **Closed form.**  With the backend's factor formula, a real coefficient function
    (`cIm = 0`) given by the η cells `cell e j`, and `exp` a homomorphism, the diagonal entry is
    `q_aa^(2n) · E(ops1_a·ops0_a·(η(n dτ) − η(0)))` (`n = k+1`): Boltzmann weight of the system
    energy times the exponential of the summed Matsubara cells. -/
theorem gibbs_commuting_exp (E : K → K) (hE0 : E 0 = 1) (hE : ∀ x y, E (x + y) = E x * E y)
    (d : ℕ) (o : Orient) (q : ℕ → ℕ → K) (hq : ∀ a b, a ≠ b → q a b = 0)
    (iUnit : K) (e : ℤ → K) (cIm : ℕ → K) (hc : ∀ j, cIm j = 0) (ops0 ops1 ops2 : ℕ → K)
    (k a : ℕ) (ha : a < d) :
    stored d o q (gInfl E iUnit (fun j => cell e j) cIm ops0 ops1 ops2) (k+1) a a =
      (q a a)^(2*(k+1)) * E (ops1 a * ops0 a * (e ((k+1 : ℕ) : ℤ) - e 0)) := by
  rw [gibbs_commuting d o q hq _ k a a ha ha]
  simp only [ite_true]
  congr 1
  have hfac : ∀ j, gInfl E iUnit (fun j => cell e j) cIm ops0 ops1 ops2 j a a
      = E (ops1 a * ops0 a * cell e j) := by
    intro j
    unfold gInfl o2Vec
    rw [hc j]; congr 1; ring
  simp only [hfac]
  rw [Finset.prod_congr rfl (fun m _ => prod_exp E hE0 hE (range (m+1)) _), prod_exp E hE0 hE]
  congr 1
  simp only [← Finset.mul_sum]
  rw [tiling e (k+1)]

/-- **Independence of the number of steps.**  Two discretisations (`n = k+1` and `n' = k'+1`
    slices, η grids `e`, `e'`, half-slice propagators `q`, `q'`) that reach the same inverse
    temperature — `η` at the end point equal, `q_aa^(2n) = q'_aa^(2n')` — store the same state. -/
theorem gibbs_commuting_steps_independent (E : K → K) (hE0 : E 0 = 1)
    (hE : ∀ x y, E (x + y) = E x * E y) (d : ℕ) (o o' : Orient) (q q' : ℕ → ℕ → K)
    (hq : ∀ a b, a ≠ b → q a b = 0) (hq' : ∀ a b, a ≠ b → q' a b = 0)
    (iUnit : K) (e e' : ℤ → K) (cIm : ℕ → K) (hc : ∀ j, cIm j = 0) (ops0 ops1 ops2 : ℕ → K)
    (k k' : ℕ) (hend : e ((k+1 : ℕ) : ℤ) = e' ((k'+1 : ℕ) : ℤ)) (h0 : e 0 = e' 0)
    (hprop : ∀ a, a < d → (q a a)^(2*(k+1)) = (q' a a)^(2*(k'+1)))
    (a b : ℕ) (ha : a < d) (hb : b < d) :
    stored d o q (gInfl E iUnit (fun j => cell e j) cIm ops0 ops1 ops2) (k+1) a b =
      stored d o' q' (gInfl E iUnit (fun j => cell e' j) cIm ops0 ops1 ops2) (k'+1) a b := by
  by_cases hab : a = b
  · subst hab
    rw [gibbs_commuting_exp E hE0 hE d o q hq iUnit e cIm hc ops0 ops1 ops2 k a ha,
        gibbs_commuting_exp E hE0 hE d o' q' hq' iUnit e' cIm hc ops0 ops1 ops2 k' a ha,
        hprop a ha, hend, h0]
  · rw [gibbs_commuting d o q hq _ k a b ha hb, gibbs_commuting d o' q' hq' _ k' a b ha hb]
    simp [hab]

/-! ## 2. zero coupling -/

/-- **The backend at zero coupling.**  With the four propagator factors transposed as the
    source has them (`source_orientation`) and all influence factors 1, `data[k]` is the
    TRANSPOSE of `q^(2k)`: the backend propagates the rows of `initial_data`. -/
theorem gibbs_backend_zero_coupling (d : ℕ) (o : Orient) (ho : o.backendT) (q : ℕ → ℕ → K)
    (G : ℕ → ℕ → ℕ → K) (hG : ∀ j a b, G j a b = 1) (k r l : ℕ) (hr : r < d) (_hl : l < d) :
    backendData d o q G idTbl k r l = propPow d q (2*k) l r := by
  cases k with
  | zero =>
    simp only [backendData, ite_true, propPow, idTbl]
    by_cases h : r = l
    · subst h; simp
    · simp [h, Ne.symm h]
  | succ k => rw [backendData_backendT d o ho q G k r l hr, natural_zero d q G hG k l r hr]

/-- **Zero coupling, any orientation of the stored array.**  What `GibbsTempo` stores after `k`
    slices is `q^(2k)` if the backend's array is transposed when stored, and `(q^(2k))ᵀ` if it
    is stored as it comes — the two agree exactly when `q^(2k)` is symmetric. -/
theorem gibbs_zero_coupling_orient (d : ℕ) (o : Orient) (ho : o.backendT) (q : ℕ → ℕ → K)
    (G : ℕ → ℕ → ℕ → K) (hG : ∀ j a b, G j a b = 1) (k a b : ℕ) (ha : a < d) (hb : b < d) :
    stored d o q G k a b =
      Gibbs.tr (!(if k ≤ 2 then o.storeInit else o.storeStep)) (propPow d q (2*k)) a b := by
  unfold stored Gibbs.tr
  cases (if k ≤ 2 then o.storeInit else o.storeStep)
  · simp only [Bool.false_eq_true, ite_false, Bool.not_false, ite_true]
    exact gibbs_backend_zero_coupling d o ho q G hG k a b ha hb
  · simp only [ite_true, Bool.not_true, Bool.false_eq_true, ite_false]
    exact gibbs_backend_zero_coupling d o ho q G hG k b a hb ha

/-- **Zero coupling, the source as it stands.**  With the orientation regenerated from the
    source, `GibbsTempo` stores `q^(2k)` after `k` slices — `expm(−H·k·dτ)` for the half-slice
    propagator `q = expm(−H dτ/2)` of ANY Hamiltonian, in particular a complex Hermitian one.
    (Does not type-check for a source that stores the backend's arrays untransposed.) -/
theorem gibbs_zero_coupling (d : ℕ) (q : ℕ → ℕ → K) (G : ℕ → ℕ → ℕ → K)
    (hG : ∀ j a b, G j a b = 1) (k a b : ℕ) (ha : a < d) (hb : b < d) :
    stored d genOrient q G k a b = propPow d q (2*k) a b := by
  rw [gibbs_zero_coupling_orient d genOrient (by decide) q G hG k a b ha hb]
  have h1 : genOrient.storeInit = true := rfl
  have h2 : genOrient.storeStep = true := rfl
  simp [h1, h2, Gibbs.tr]

/-! ## 3. normalised, Hermitian -/

/-- `get_state`: the stored array divided by its trace -/
def normalised {F : Type} [Field F] (d : ℕ) (A : ℕ → ℕ → F) : ℕ → ℕ → F :=
  fun a b => A a b / trace d A

/-- **Trace one** after the division, whenever the trace does not vanish. -/
theorem gibbs_trace_one {F : Type} [Field F] (d : ℕ) (A : ℕ → ℕ → F) (ht : trace d A ≠ 0) :
    trace d (normalised d A) = 1 := by
  unfold normalised
  show ∑ i ∈ range d, A i i / trace d A = 1
  rw [← Finset.sum_div]
  exact div_self ht

/-- **Hermitian.**  For a Hermitian half-slice propagator (`q† = q`) and real, symmetric
    influence factors, every stored array is Hermitian (path reversal). -/
theorem gibbs_hermitian [StarRing K] (d : ℕ) (o : Orient) (ho : o.backendT) (q : ℕ → ℕ → K)
    (hq : ∀ a b, star (q a b) = q b a) (G : ℕ → ℕ → ℕ → K)
    (hGr : ∀ j a b, star (G j a b) = G j a b) (hGs : ∀ j a b, G j a b = G j b a)
    (k a b : ℕ) (ha : a < d) (hb : b < d) :
    star (stored d o q G k a b) = stored d o q G k b a := by
  have key : ∀ r l, r < d → l < d →
      star (backendData d o q G idTbl k r l) = backendData d o q G idTbl k l r := by
    intro r l hr hl
    cases k with
    | zero =>
      simp only [backendData, ite_true, idTbl]
      by_cases h : r = l
      · subst h; simp
      · simp [h, Ne.symm h]
    | succ k =>
      rw [backendData_backendT d o ho q G k r l hr, backendData_backendT d o ho q G k l r hl]
      exact natural_star d q hq G hGr hGs (k+1) l r
  unfold stored Gibbs.tr
  cases (if k ≤ 2 then o.storeInit else o.storeStep)
  · simp only [Bool.false_eq_true, ite_false]
    exact key a b ha hb
  · simp only [ite_true]
    exact key b a hb ha

/-- … and so is the normalised state (its trace is then real). -/
theorem gibbs_normalised_hermitian {F : Type} [Field F] [StarRing F] (d : ℕ) (A : ℕ → ℕ → F)
    (hA : ∀ a b, a < d → b < d → star (A a b) = A b a) (a b : ℕ) (ha : a < d) (hb : b < d) :
    star (normalised d A a b) = normalised d A b a := by
  unfold normalised
  have ht : star (trace d A) = trace d A := by
    unfold trace
    rw [star_sum]
    apply Finset.sum_congr rfl
    intro i hi
    exact hA i i (Finset.mem_range.mp hi) (Finset.mem_range.mp hi)
  rw [star_div₀, hA a b ha hb, ht]

/-! ## 4. repeated `compute()` -/

/-- **First call.**  With `n ≥ 2` steps a fresh object ends with the backend counter at `n−1`,
    `n+1` recorded arrays, the array of `k` slices stored under the label index `k`
    (`k = 0..n`), and `get_state` reads the array of `n` slices (imaginary time `n·dτ = 1/T`). -/
theorem compute_fresh (n : Int) (hn : 2 ≤ n) :
    gCompute genSpec n (GObj.fresh genSpec) = gridObj n.toNat ∧
    gState (gridObj n.toNat) = some (n, n.toNat) := by
  refine ⟨gCompute_fresh n hn, ?_⟩
  unfold gState gridObj
  rw [List.range_succ, List.map_append]
  simp
  omega

/-- **Idempotent.**  `compute(); compute()` leaves the object — counter, recorded arrays,
    dynamics — exactly as one `compute()` does, from ANY state of the object. -/
theorem compute_idempotent (n : Int) (o : GObj) :
    gCompute genSpec n (gCompute genSpec n o) = gCompute genSpec n o :=
  gCompute_idem n o

/-- any number of repeated calls on a fresh object -/
theorem compute_repeat (n : Int) (hn : 2 ≤ n) (m : ℕ) :
    (gCompute genSpec n)^[m+1] (GObj.fresh genSpec) = gridObj n.toNat := by
  induction m with
  | zero => exact (compute_fresh n hn).1
  | succ m ih =>
    rw [Function.iterate_succ_apply', ih, ← (compute_fresh n hn).1]
    exact gCompute_idem n _

/-- **No memory cut-off in imaginary time.**  `compute_step` sums out the first MPS site once
    the chain is longer than `kmax + 1`; Matsubara correlations are periodic in `1/T`, so that
    would be an error, not an approximation.  `GibbsTempo` hands over `max_step = n_steps` and no
    `max_mps_length`; with the default regenerated from the source the chain — `st + 1` sites when
    the counter reaches `st ≤ n − 1` (checked on every correspondence case) — is never cut, for
    EVERY number of steps.  (Fails to type-check if the default is a constant.) -/
theorem mps_never_truncated (n st : Int) (hst : st ≤ n - 1) :
    mps_pops (st + 1) (default_kmax n) = false := by
  unfold mps_pops default_kmax
  simp only [decide_eq_false_iff_not]
  omega

/-! ## 5. ties to the regenerated source -/

/-- `coeffs(k)` is the η cell of the TEMPO model: the upper triangle for `k = 0`, the square
    at distance `k` otherwise (η values on the grid `j ↦ η(j·dτ)`). -/
theorem coeff_is_cell {A : Type} [AddCommGroup A] (e : ℤ → A) (k : ℕ) :
    genCoeff e k = cell e k := by
  unfold genCoeff cell
  cases k with
  | zero =>
    simp [coeff_first_shape, coeff_shape_then, c2d_upper_terms, etaCombo, triCell]
    abel
  | succ k =>
    have h : coeff_first_shape ((k + 1 : ℕ) : ℤ) = false := by
      unfold coeff_first_shape; simp; omega
    simp only [h, Bool.false_eq_true, ite_false, Nat.succ_ne_zero]
    simp [coeff_shape_else, c2d_square_terms, etaCombo, sqCell]
    abel

/-- the coefficients of all pairs among `n` slices sum to `η(n·dτ) − η(0)` -/
theorem coeff_sum_tiling {A : Type} [AddCommGroup A] (e : ℤ → A) (n : ℕ) :
    ∑ m ∈ range n, ∑ j ∈ range (m+1), genCoeff e j = e n - e 0 := by
  simp only [coeff_is_cell]
  exact tiling e n

/-- **The guarded extra term of `correlation_2d_integral` never fires for a Gibbs
    coefficient.**  Some shapes (`c2d_offset_guarded_shapes`: the upper triangle) carry an
    additional term under `if time_1 != 0.0:` which is not part of `c2d_*_terms`.  Whenever
    `coeffs(k)` asks for such a shape, the `time_1` it hands over (`k * dt` in binary64) is
    exactly `0.0`, so the guard is false and `genCoeff` describes the whole branch. -/
theorem guarded_term_inactive (dt : Rat) (k : Int) :
    (if coeff_first_shape k then coeff_shape_then else coeff_shape_else)
        ∈ c2d_offset_guarded_shapes →
      c2d_offset_guard (coeff_time1 dt k) = false := by
  unfold coeff_first_shape
  by_cases hk : k = 0
  · subst hk
    intro _
    have h0 : coeff_time1 dt 0 = 0 := by
      unfold coeff_time1 OQuPyVerif.FloatModel.fmul OQuPyVerif.FloatModel.ofInt
      simp [OQuPyVerif.FloatModel.rnd]
    rw [h0]
    unfold c2d_offset_guard
    simp [Rat.mkRat_eq_div]
  · have : (k == (0 : Int)) = false := by simpa using hk
    simp only [this, Bool.false_eq_true, ite_false]
    intro h
    exact absurd h (by decide)

/-- the backend's factor formulas (both branches of `_influence_tensor` and the self factor of
    `initialise`) are the model's `gInfl`; the tensor for MPS distance `k` uses
    `coefficients(k+1)` -/
theorem infl_formulas_are_model (E : K → K) (iUnit : K) (cRe cIm : ℕ → K)
    (ops0 ops1 ops2 : ℕ → K) (j x y : ℕ) :
    infl_pair0 E (infl_o2 E iUnit (cRe j) (cIm j) ops0 ops1 ops2) ops0 x y
        = gInfl E iUnit cRe cIm ops0 ops1 ops2 j x y ∧
    infl_pairk E (infl_o2 E iUnit (cRe j) (cIm j) ops0 ops1 ops2) ops0 x y
        = gInfl E iUnit cRe cIm ops0 ops1 ops2 j x y ∧
    infl_self E (infl_o2 E iUnit (cRe 0) (cIm 0) ops0 ops1 ops2) ops0 y
        = gInfl E iUnit cRe cIm ops0 ops1 ops2 0 y y ∧
    infl_coeff_index (j : ℤ) = j + 1 := by
  refine ⟨?_, ?_, ?_, rfl⟩
  · unfold infl_pair0 infl_o2 gInfl o2Vec; congr 1
  · unfold infl_pairk infl_o2 gInfl o2Vec; congr 1
  · unfold infl_self infl_o2 gInfl o2Vec; congr 1; ring

/-- the operator tuple `GibbsTempo` hands over: `ops_signs[i] · o` -/
def genOps (o : ℕ → K) (i : ℕ) : ℕ → K := fun a => ((ops_signs.getD i 0 : ℤ) : K) * o a

/-- with that tuple the factor is `E(−c_j·o_x·o_y)` — symmetric in the two sites, which is what
    path reversal (`gibbs_hermitian`) needs -/
theorem gibbs_ops_symmetric (E : K → K) (iUnit : K) (cRe cIm : ℕ → K) (o : ℕ → K) (j x y : ℕ) :
    gInfl E iUnit cRe cIm (genOps o 0) (genOps o 1) (genOps o 2) j x y = E (-(cRe j * o x * o y)) ∧
    gInfl E iUnit cRe cIm (genOps o 0) (genOps o 1) (genOps o 2) j x y
      = gInfl E iUnit cRe cIm (genOps o 0) (genOps o 1) (genOps o 2) j y x := by
  have h : ∀ x y, gInfl E iUnit cRe cIm (genOps o 0) (genOps o 1) (genOps o 2) j x y
      = E (-(cRe j * o x * o y)) := by
    intro x y
    unfold gInfl o2Vec genOps
    simp [ops_signs]
  refine ⟨h x y, ?_⟩
  rw [h x y, h y x]; congr 1; ring

/-- the propagator handed to the backend is `expm(−½·H·dτ)`: `2n` of them make up
    `expm(−H/T)` when `dτ = β/n` -/
theorem total_imaginary_time (β : ℚ) (n : ℕ) (hn : n ≠ 0) :
    prop_coeff_im = 0 ∧ 2 * (n : ℚ) * prop_coeff_re * (β / n) = -β := by
  have hn' : (n : ℚ) ≠ 0 := Nat.cast_ne_zero.mpr hn
  refine ⟨by unfold prop_coeff_im; simp [Rat.mkRat_eq_div], ?_⟩
  unfold prop_coeff_re
  simp only [Rat.mkRat_eq_div]
  field_simp
  ring

/-- the backend's four propagator factors carry `.T` in the source as it stands -/
theorem source_orientation : genOrient.backendT := by decide

/-! ## 6. the Matsubara η integrand (what the summed cells are) -/
section Thermal
variable {F : Type} [Field F]

/-- **The large-frequency fall-back is uniformly accurate.**  `eta_function` switches to a
    simplified integrand once `E(−ω/T)` is below machine epsilon; the simplified integrand
    differs from the full one (written in the source with `expm1(x) = exp(x) − 1`) by `E(−ω/T)`
    times a bounded expression — for real AND for imaginary (`matsubara=True`) time arguments,
    where `E(−(ω/T − iτω)) = e^{−(β−τ)ω}` is not small.  Uses that `exp` is a homomorphism.
    (Fails to type-check for a fall-back that drops that term.) -/
theorem eta_fallback_accurate (E : F → F) (hE : ∀ a b, E (a + b) = E a * E b)
    (iUnit J w tau T : F) (hz : 1 - E (-w / T) ≠ 0) :
    eta_integrand_full E iUnit J w tau T - eta_integrand_fallback E iUnit J w tau T
      = eta_guard E iUnit J w tau T *
        (J / w^2 * ((E (-iUnit * tau * w) + E (-(w / T - iUnit * tau * w)) - 2) / (1 - E (-w / T)))) := by
  unfold eta_integrand_full eta_integrand_fallback eta_guard
  have h1 : (-iUnit) * w * tau = -iUnit * tau * w := by ring
  have hy : E (-(w / T - iUnit * tau * w)) = E (-w / T) * E (iUnit * tau * w) := by
    rw [← hE]; congr 1; ring
  have hd : -(E (-w / T) - 1) = 1 - E (-w / T) := by ring
  rw [h1, hy, hd]
  generalize E (-iUnit * tau * w) = x at *
  generalize E (iUnit * tau * w) = x' at *
  generalize E (-w / T) = z at *
  field_simp
  ring

/-- the same for the correlation function itself -/
theorem corr_fallback_accurate (E : F → F) (iUnit J w tau T : F) (hz : 1 - E (-w / T) ≠ 0) :
    corr_integrand_full E iUnit J w tau T - corr_integrand_fallback E iUnit J w tau T
      = corr_guard E iUnit J w tau T *
        (J * (E (-iUnit * tau * w) + E (-(1 / T * w - iUnit * tau * w))) / (1 - E (-w / T))) := by
  unfold corr_integrand_full corr_integrand_fallback corr_guard
  have h1 : (-iUnit) * w * tau = -iUnit * tau * w := by ring
  rw [h1]
  generalize E (-iUnit * tau * w) = x at *
  generalize E (-(1 / T * w - iUnit * tau * w)) = y at *
  generalize E (-w / T) = z at *
  field_simp
  ring

/-- **What the summed cells are.**  In imaginary time (`tau ↦ −i·τ`) the full integrand of η
    is `β·J(ω)/ω` at `τ = β = 1/T` and `0` at `τ = 0`; `eta_function` returns minus the
    integral (`eta_sign`), so `η(β) − η(0) = −β ∫ J(ω)/ω dω` as far as the quadrature is exact:
    by `coeff_sum_tiling` and `gibbs_commuting_exp` the Boltzmann weights carry the energies
    shifted by `ops1_a·ops0_a·∫J/ω = −o_a²·(reorganisation energy)`. -/
theorem matsubara_eta_integrand (E : F → F) (hE0 : E 0 = 1) (hE : ∀ a b, E (a + b) = E a * E b)
    (iUnit : F) (hi : iUnit * iUnit = -1)
    (J w T : F) (hw : w ≠ 0) (hT : T ≠ 0) (hz : 1 - E (-w / T) ≠ 0) :
    eta_integrand_full E iUnit J w (-iUnit * (1 / T)) T = (1 / T) * J / w ∧
    eta_integrand_full E iUnit J w (-iUnit * 0) T = 0 ∧ eta_sign = -1 := by
  refine ⟨?_, ?_, rfl⟩
  · unfold eta_integrand_full
    have h3 : iUnit * (-iUnit * (1 / T)) * w = w / T := by
      have : iUnit * (-iUnit * (1 / T)) * w = -(iUnit * iUnit) * (w / T) := by ring
      rw [this, hi]; ring
    have h1 : (-iUnit) * (-iUnit * (1 / T)) * w = -w / T := by
      have : (-iUnit) * (-iUnit * (1 / T)) * w = -(iUnit * (-iUnit * (1 / T)) * w) := by ring
      rw [this, h3]; ring
    have hinv : E (-w / T) * E (w / T) = 1 := by
      rw [← hE, ← hE0]; congr 1; ring
    have hz' : -(E (-w / T) - 1) ≠ 0 := by
      intro h; apply hz; rw [← h]; ring
    rw [h1, h3]
    have hnum : (E (-w / T) - 1) + E (-w / T) * (E (w / T) - 1) = 0 := by
      rw [mul_sub, hinv]; ring
    rw [hnum]
    field_simp
    ring
  · unfold eta_integrand_full
    have h1 : (-iUnit) * (-iUnit * 0) * w = 0 := by ring
    have h3 : iUnit * (-iUnit * 0) * w = 0 := by ring
    rw [h1, h3, hE0]
    simp

end Thermal

/-! ## 7. merging equal coupling eigenvalues (`TIBaseBackend._unique`) -/

/-- **The projection sums each class.**  `_unique` replaces the state index on the MPS/MPO bonds
    by the index of its class of equal operator values; the projection it returns must carry
    EVERY member of a class (the bond of class `c` stands for `∑_{a ∈ c}`).  In the model of
    `_unique` (compared with the real function on every correspondence case) every state `a` is
    represented in exactly one class, and two states share a class exactly when their values are
    equal — so contracting with the projection loses no state and merges no distinct values. -/
theorem unique_sums_class {α : Type} [DecidableEq α] (vals : List α) (a b : ℕ)
    (ha : a < vals.length) (hb : b < vals.length) :
    classCount vals a = 1 ∧ (firstIdx vals a = firstIdx vals b ↔ vals[a] = vals[b]) :=
  ⟨Gibbs.unique_sums_class vals a ha, firstIdx_eq_iff vals a b ha hb⟩

/-! ## non-vacuity of the hypotheses -/

/-- diagonal propagator -/
example : ∀ a b : ℕ, a ≠ b → (fun a b : ℕ => if a = b then (2 : ℚ) else 0) a b = 0 := by
  intro a b h; simp [h]
/-- `E` a homomorphism (as in C01: the constant 1 over ℚ; over ℂ: `Complex.exp`) -/
example : (fun _ : ℚ => (1:ℚ)) 0 = 1 ∧ ∀ x y : ℚ, (fun _ : ℚ => (1:ℚ)) (x + y) = 1 * 1 := by simp
/-- all factors 1 -/
example : ∀ j a b : ℕ, (fun _ _ _ : ℕ => (1:ℚ)) j a b = 1 := by intro _ _ _; rfl
/-- a non-zero trace -/
example : trace 2 (idTbl : ℕ → ℕ → ℚ) ≠ 0 := by
  simp [trace, idTbl]
/-- a Hermitian, non-symmetric propagator over the Gaussian rationals (`σ_y`-like) and real
    symmetric factors -/
example : ∀ a b : ℕ, star ((fun a b : ℕ => if a < b then QI.I else if b < a then -QI.I else 1) a b)
    = (fun a b : ℕ => if a < b then QI.I else if b < a then -QI.I else 1) b a := by
  intro a b
  rcases Nat.lt_trichotomy a b with h | h | h
  · have h' : ¬ b < a := by omega
    simp only [h, h', ite_true, ite_false]; ext <;> simp [QI.I]
  · subst h; simp only [Nat.lt_irrefl, ite_false]; ext <;> simp
  · have h' : ¬ a < b := by omega
    simp only [h, h', ite_true, ite_false]; ext <;> simp [QI.I]
example : (∀ j a b : ℕ, star ((fun _ a b : ℕ => ((a + b : ℕ) : ℚ)) j a b : ℚ) = ((a + b : ℕ) : ℚ)) ∧
    ∀ j a b : ℕ, (fun _ a b : ℕ => ((a + b : ℕ) : ℚ)) j a b = (fun _ a b : ℕ => ((a + b : ℕ) : ℚ)) j b a := by
  constructor
  · intro _ a b; rfl
  · intro _ a b; simp [Nat.add_comm]
/-- two discretisations reaching the same end point: `e j = j`, `n = 2`; `e' j = j/2`, `n' = 4`
    has `e 2 = e' 4`; `q = diag(4)`, `q' = diag(2)`: `4^4 = 2^8` -/
example : ((2 : ℕ) : ℚ) = (4 : ℕ) / 2 ∧ (4 : ℚ)^(2*2) = 2^(2*4) := by norm_num
/-- `2 ≤ n` -/
example : (2 : Int) ≤ 5 := by decide
/-- a counter value within the run -/
example : (3 : Int) ≤ 5 - 1 := by decide
/-- repeated values: `[1, 1, -1]` has classes `{0, 1}` and `{2}` -/
example : uniqIndices [(1 : Int), 1, -1] = [0, 2] ∧ uniqProj [(1 : Int), 1, -1] = [[1, 1, 0], [0, 0, 1]] := by decide
/-- the thermal-integrand hypotheses hold jointly over ℂ: `E = Complex.exp` is a homomorphism with
    `E 0 = 1`, `i·i = −1`, and `1 − E(−ω/T) ≠ 0` at `ω = T = 1` -/
example : Complex.exp 0 = 1 ∧ (∀ a b : ℂ, Complex.exp (a + b) = Complex.exp a * Complex.exp b) ∧
    Complex.I * Complex.I = -1 ∧ (1 : ℂ) ≠ 0 ∧ 1 - Complex.exp (-(1 : ℂ) / 1) ≠ 0 := by
  refine ⟨Complex.exp_zero, Complex.exp_add, Complex.I_mul_I, one_ne_zero, ?_⟩
  intro h
  have h1 : Complex.exp (-(1 : ℂ) / 1) = 1 := (sub_eq_zero.mp h).symm
  have h2 : ((Real.exp (-1) : ℝ) : ℂ) = 1 := by
    rw [Complex.ofReal_exp]; simpa using h1
  have h3 : Real.exp (-1) = 1 := by exact_mod_cast h2
  have h4 : Real.exp (-1) < 1 := Real.exp_lt_one_iff.mpr (by norm_num)
  linarith
/-- the guard obligation is not vacuous: for `k = 0` the selected shape IS a guarded one -/
example : (if coeff_first_shape 0 then coeff_shape_then else coeff_shape_else)
    ∈ c2d_offset_guarded_shapes := by decide

end OQuPyVerif.Props.C11
