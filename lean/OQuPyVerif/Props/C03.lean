/-
  C03 — Contracting any process tensor reproduces the exact joint evolution.

  Chain of ties (all theorems: every number of steps, every bond dimension, every tensor content,
  every system propagator / control, over any commutative ring):
    real compute_dynamics with a LIST of process tensors ≃ `multiRecord`      (correspondence, 1e-9;
        wiring of `_apply_pt_mpos`/`_apply_caps`/`get_mpo_tensor`/`compute_caps` regenerated from
        the source: `Generated/MpoWiring.lean`, `wiring_generated`, `get_mpo_tensor_spec`)
    `multiRecord` of a list = `mpoRecord` of ONE combined environment           (`env_list_as_one`)
    = dynamics of the dense form (C02 `contraction_exact`)             (`env_list_contraction_exact`)
    list order: irrelevant for commuting step tensors    (`order_indep_of_commute`, `_adjacent`, `_perm`)
    caps of `compute_caps` close the tensors that are contracted               (`caps_close_transformed`)
    and are the ancilla trace for trace-preserving joint maps        (`caps_fixed_point`, `_joint`)
    `mpoRecord (ptOfJoint U)` = partial trace of the joint evolution            (`dynamics_eq_joint`)
    two baths, one coupling operator = one bath with η₁+η₂                      (`sum_of_baths…`)

  Reading of the property fixed in DESIGN.md §4 C03: list-order independence is exact only for
  environments whose step tensors commute on the system leg; for non-commuting environments the
  two orders differ by the Trotter error and nothing is claimed (nor checked).
-/
import OQuPyVerif.Lemmas.MultiEnvOrder
import OQuPyVerif.Lemmas.MultiEnvBaths
import OQuPyVerif.Lemmas.MultiEnvFinite
import OQuPyVerif.Lemmas.MultiEnvHistory
import OQuPyVerif.Generated.ControlCompose
import OQuPyVerif.Model.Control
import OQuPyVerif.Model.Tempo
import OQuPyVerif.Props.C04

namespace OQuPyVerif.Props.C03
open Finset BigOperators OQuPyVerif.PathSum OQuPyVerif.PT OQuPyVerif.MultiEnv
open OQuPyVerif.Generated.MpoWiring
open OQuPyVerif.Generated.ControlCompose (LoopOp cdLoopBody cdAfterLoop sysSuperop_transposed
  sysSuperop_contract)
variable {K : Type} [CommRing K]

/-! ### 0. what the source says (regenerated on every run) -/

/-- `_apply_pt_mpos` joins bond edge `i` to axis 0 and the system edge to axis 2 of the `i`-th MPO
    tensor, axes 1 / 3 become the new edges, `None` entries are skipped; `_apply_caps` joins axis 0
    of `caps[i]` to bond edge `i`; tensors and caps are fetched in list order, the tensors
    transformed; the initial node has one bond leg of dimension 1 per environment;
    `_apply_system_superoperator` applies the given matrix itself; within a step the order is
    pre-control, record, post-control, first half propagator, MPOs, second half propagator. -/
theorem wiring_generated :
    applyAxes = { bondIn := 0, bondOut := 1, sysIn := 2, sysOut := 3 } ∧ applySkipsNone = true ∧
    capAxis = 0 ∧ capsInListOrder = true ∧ capsGetInListOrder = true ∧
    mposInListOrder = true ∧ mposTransformed = true ∧
    initBondDim = 1 ∧ edgePerEnvironment = true ∧
    OQuPyVerif.Control.actsAsGiven sysSuperop_transposed sysSuperop_contract = true ∧
    cdLoopBody.filter (fun op => op ∈ [LoopOp.applyPre, .record, .applyPost, .applyP1, .applyMpo,
        .applyP2, .recordFinal])
      = [.applyPre, .record, .applyPost, .applyP1, .applyMpo, .applyP2] ∧
    cdAfterLoop = [.recordFinal] := by decide

omit [CommRing K] in
/-- the axis roles read from the source are the ones of the model's tensors `T b b' i o` -/
theorem axes_are_model (T : ℕ → ℕ → ℕ → ℕ → K) : axisPick applyAxes T = T := rfl

/-- The loop of `_apply_pt_mpos` addressed by POSITION (environment `j` ↔ entry `j` of the bond
    tuple, as `current_edges[j]`) is the curried loop `envRec` used below, on every bond tuple
    with one entry per environment. -/
theorem loop_positional (L k : ℕ) (es : List (EnvMpo K)) (X : List ℕ → ℕ → K) (bs : List ℕ)
    (o : ℕ) (h : bs.length = es.length) : envLoop L k 0 es X bs o = envRec L k es X bs o :=
  envLoop_eq_envRec L k es [] X bs o h

/-! ### 1. several environments = one environment -/

/-- **No cross-talk.**  The loop body with two environments: each tensor acts on its own bond leg;
    the only thing they share is the system leg, on which `T1` acts first:
    `X'[b1',b2',o] = Σ_{b1,b2,i} (Σ_m T1[b1,b1',i,m]·T2[b2,b2',m,o]) · X[b1,b2,i]`. -/
theorem two_env_loop_body (L k : ℕ) (e1 e2 : EnvMpo K) (X : List ℕ → ℕ → K) (b1' b2' o : ℕ) :
    envRec L k [e1, e2] X [b1', b2'] o =
      ∑ b1 ∈ range (e1.D k), ∑ b2 ∈ range (e2.D k), ∑ i ∈ range L,
        (∑ m ∈ range L, e1.T k b1 b1' i m * e2.T k b2 b2' m o) * X [b1, b2] i := by
  simp only [envRec]
  rw [Finset.sum_comm (s := range (e1.D k))]
  apply Finset.sum_congr rfl; intro b2 _
  simp only [Finset.mul_sum, Finset.sum_mul]
  rw [Finset.sum_comm]
  apply Finset.sum_congr rfl; intro b1 _
  rw [Finset.sum_comm]
  apply Finset.sum_congr rfl; intro i _
  apply Finset.sum_congr rfl; intro m _
  ring

/-- **Two environments as one.**  `compute_dynamics` with the list `[e1, e2]` records, at every
    step, for all bond dimensions and tensor contents, what it records for the single environment
    with tensors `combineMpo` on the bond pair `(b1,b2) ↦ b1·D2+b2` and caps `cap1·cap2`. -/
theorem two_env_as_one (L : ℕ) (e1 e2 : EnvMpo K) (A B : ℕ → ℕ → ℕ → K) (pre : ℕ → ℕ → K)
    (ρ0 : ℕ → K) (n s' : ℕ) :
    multiRecord L [e1, e2] A B pre ρ0 n s' =
      mpoRecord L (fun k => e1.D k * e2.D k) (combineMpo L e2.D e1.T e2.T) A B
        (combineCap e2.D e1.cap e2.cap) pre ρ0 n s' :=
  multiRecord_eq_mpoRecord L [e1, e2] A B pre ρ0 n s'

/-- **Any number of environments as one** (0 environments: bond dimension 1, identity tensor). -/
theorem env_list_as_one (L : ℕ) (es : List (EnvMpo K)) (A B : ℕ → ℕ → ℕ → K) (pre : ℕ → ℕ → K)
    (ρ0 : ℕ → K) (n s' : ℕ) :
    multiRecord L es A B pre ρ0 n s' =
      mpoRecord L (combineAll L es).D (combineAll L es).T A B (combineAll L es).cap pre ρ0 n s' :=
  multiRecord_eq_mpoRecord L es A B pre ρ0 n s'

/-- … hence C02's `contraction_exact` applies to any list: the recorded states are the dynamics
    of the dense form of the combined process tensor. -/
theorem env_list_contraction_exact (L : ℕ) (es : List (EnvMpo K)) (A B : ℕ → ℕ → ℕ → K)
    (pre : ℕ → ℕ → K) (ρ0 : ℕ → K) (n s' : ℕ) :
    multiRecord L es A B pre ρ0 n s' =
      denseRecord L (densePT (combineAll L es).D (combineAll L es).T (combineAll L es).cap)
        A B pre ρ0 n s' := by
  rw [env_list_as_one]; exact mpoRecord_eq_dense _ _ _ _ _ _ _ _ _ _

/-- one environment in a list is that environment -/
theorem single_env (L : ℕ) (e : EnvMpo K) (A B : ℕ → ℕ → ℕ → K) (pre : ℕ → ℕ → K)
    (ρ0 : ℕ → K) (n s' : ℕ) :
    multiRecord L [e] A B pre ρ0 n s' = mpoRecord L e.D e.T A B e.cap pre ρ0 n s' :=
  multiRecord_eq_mpoRecord L [e] A B pre ρ0 n s'

/-- **A non-existent environment may be skipped.**  `_apply_pt_mpos` skips a `None` entry
    (TrivialProcessTensor); that is the same as applying the identity tensor of an environment with
    bond dimension 1 — the `trivialEnv` that `combineAll` uses for an empty list. -/
theorem skip_trivial (L j k : ℕ) (X : List ℕ → ℕ → K) (bs : List ℕ) (o : ℕ) (ho : o < L)
    (hj : j < bs.length) (hb : bs[j] = 0) :
    envAt L j ((trivialEnv (K := K)).D k) ((trivialEnv (K := K)).T k) X bs o = X bs o :=
  envAt_trivial L j k X bs o ho hj hb

/-! ### 2. order of the list -/

/-- **Order independence for commuting environments.**  If the step tensors of the two
    environments commute on the system leg (`Σ_m T1[·,·,i,m]·T2[·,·,m,o] = Σ_m T2[·,·,i,m]·T1[·,·,m,o]`
    for all bond indices) every recorded state is the same for `[e1, e2]` and `[e2, e1]`. -/
theorem order_indep_of_commute (L : ℕ) (e1 e2 : EnvMpo K) (h : CommuteOn L e1 e2)
    (A B : ℕ → ℕ → ℕ → K) (pre : ℕ → ℕ → K) (ρ0 : ℕ → K) (n s' : ℕ) :
    multiRecord L [e2, e1] A B pre ρ0 n s' = multiRecord L [e1, e2] A B pre ρ0 n s' :=
  multiRecord_swap L e1 e2 h [] [] A B pre ρ0 n s'

/-- the same for two neighbours anywhere in a list of any length -/
theorem order_indep_adjacent (L : ℕ) (e1 e2 : EnvMpo K) (h : CommuteOn L e1 e2)
    (before after : List (EnvMpo K)) (A B : ℕ → ℕ → ℕ → K) (pre : ℕ → ℕ → K) (ρ0 : ℕ → K)
    (n s' : ℕ) :
    multiRecord L (before ++ e2 :: e1 :: after) A B pre ρ0 n s' =
      multiRecord L (before ++ e1 :: e2 :: after) A B pre ρ0 n s' :=
  multiRecord_swap L e1 e2 h before after A B pre ρ0 n s'

/-- … and for every permutation of a list of pairwise commuting environments. -/
theorem order_indep_perm (L : ℕ) (es es' : List (EnvMpo K)) (hp : es.Perm es')
    (hc : es.Pairwise (CommuteOn L)) (A B : ℕ → ℕ → ℕ → K) (pre : ℕ → ℕ → K) (ρ0 : ℕ → K)
    (n s' : ℕ) :
    multiRecord L es A B pre ρ0 n s' = multiRecord L es' A B pre ρ0 n s' := by
  simpa using multiRecord_perm L A B pre ρ0 n s' hp hc []

/-- rank-3 tensors (delta between input and output leg, no transforms) always commute -/
theorem rank3_commute (L : ℕ) (D1 D2 : ℕ → ℕ) (T1 T2 : ℕ → ℕ → ℕ → ℕ → K) (c1 c2 : ℕ → ℕ → K) :
    CommuteOn L (rank3Env D1 T1 c1) (rank3Env D2 T2 c2) := by
  intro k b1 b1' b2 b2' i o
  apply Finset.sum_congr rfl; intro m _
  simp only [rank3Env]
  by_cases h1 : i = m
  · subst h1
    by_cases h2 : i = o
    · subst h2; simp; ring
    · simp [h2]
  · simp [h1]

/-! ### 3. `get_mpo_tensor` and `compute_caps` -/

/-- `SimpleProcessTensor.get_mpo_tensor` and `FileProcessTensor.get_mpo_tensor` as written return
    `Σ_{i,o} transform_in[s,i] · T4[b,b',i,o] · transform_out[o,s']` with `T4 = T` for a rank-4
    tensor and `T4[b,b',i,o] = δ_io·T[b,b',i]` for a rank-3 tensor (each transform only if set). -/
theorem get_mpo_tensor_spec (Lin Lout : ℕ) (raw : RawMpo K) (tin tout : Option (ℕ → ℕ → K)) :
    mpoTensorOf simpleGetMpo Lin Lout raw tin tout = some (mpoTensorSpec Lin Lout raw tin tout) ∧
    mpoTensorOf fileGetMpo Lin Lout raw tin tout = some (mpoTensorSpec Lin Lout raw tin tout) :=
  ⟨mpoTensorOf_known _ (by decide) Lin Lout raw tin tout,
   mpoTensorOf_known _ (by decide) Lin Lout raw tin tout⟩

/-- `BaseProcessTensor.__init__` stores each transform (and the trace vector made from it) whenever
    THAT transform is given — independently of the other one: a process tensor with exactly one
    transform keeps it. -/
theorem transforms_stored_independently :
    transformInGuard = ["transform_in"] ∧ transformOutGuard = ["transform_out"] := by decide

/-- the leg closings of both `compute_caps` as written are consistent with what `get_mpo_tensor`
    returns: a stored tensor is closed with `_trace_in`, `_trace_out` (their elementwise product for
    the single in/out leg of a rank-3 tensor), a transformed tensor with `_trace`. -/
theorem caps_wiring_consistent :
    capsConsistent simpleCaps = true ∧ capsConsistent fileCaps = true ∧
    simpleCaps.lastIsOne = true ∧ fileCaps.lastIsOne = true ∧
    simpleCaps.backwards = true ∧ fileCaps.backwards = true := by decide

/-- **The caps close exactly what `compute_dynamics` contracts**: for both classes, rank-3 and
    rank-4 tensors, with and without transforms, the cap of a step computed by `compute_caps` is the
    contraction of the TRANSFORMED tensor of that step with `_trace` on both system legs and the
    cap of the next step (`capRec`). -/
theorem caps_close_transformed (L Lin Lout Dn : ℕ) (tr : ℕ → K) (raw : RawMpo K)
    (tin tout : Option (ℕ → ℕ → K)) (hin : tin = none → Lin = L) (hout : tout = none → Lout = L)
    (h3 : ∀ T, raw = .rank3 T → Lin = Lout) (capNext : ℕ → K) :
    capStepOf simpleCaps simpleGetMpo L Lin Lout Dn tr raw tin tout capNext =
      some (fun b => capRec L (fun _ => Dn) (fun _ => mpoTensorSpec Lin Lout raw tin tout)
        tr tr capNext 0 b) ∧
    capStepOf fileCaps fileGetMpo L Lin Lout Dn tr raw tin tout capNext =
      some (fun b => capRec L (fun _ => Dn) (fun _ => mpoTensorSpec Lin Lout raw tin tout)
        tr tr capNext 0 b) :=
  ⟨caps_close _ _ caps_wiring_consistent.1 (by decide) L Lin Lout Dn tr raw tin tout hin hout h3
      capNext,
   caps_close _ _ caps_wiring_consistent.2.1 (by decide) L Lin Lout Dn tr raw tin tout hin hout h3
      capNext⟩

/-- **Caps fixed point.**  If the step tensor maps `cap' ⊗ trOut` to `cap ⊗ τ` and
    `Σ_i trIn(i)·τ(i) = 1`, `compute_caps` returns `cap` for that step. -/
theorem caps_fixed_point (L : ℕ) (D : ℕ → ℕ) (T : ℕ → ℕ → ℕ → ℕ → ℕ → K) (trIn trOut τ : ℕ → K)
    (cap cap' : ℕ → K) (k b : ℕ)
    (hT : ∀ i, i < L → ∑ b' ∈ range (D (k+1)), ∑ o ∈ range L, T k b b' i o * trOut o * cap' b'
      = cap b * τ i)
    (hτ : ∑ i ∈ range L, trIn i * τ i = 1) :
    capRec L D T trIn trOut cap' k b = cap b :=
  capRec_fixed L D T trIn trOut τ cap cap' k b hT hτ

/-- … in particular for an ancilla process tensor with trace-preserving joint maps, with
    `trIn·trOut = d⁻¹·(vec 1 ⊗ vec 1)`: the cap of every step is the ancilla trace covector
    (`Σ_b trE(b)·ρE(b)` at step 0, where the bond has dimension 1). -/
theorem caps_fixed_point_joint (L E : ℕ) (U : ℕ → ℕ → ℕ → K) (ρE trE trS : ℕ → K) (dinv : K)
    (hd : dinv * ∑ i ∈ range L, trS i * trS i = 1)
    (hTP : ∀ k b i, b < E → i < L →
      ∑ b' ∈ range E, ∑ o ∈ range L, trE b' * trS o * U k (b' * L + o) (b * L + i) = trE b * trS i)
    (k b : ℕ) (hb : b < (ptOfJoint L E U ρE trE).D k) :
    capRec L (ptOfJoint L E U ρE trE).D (ptOfJoint L E U ρE trE).T (fun i => dinv * trS i) trS
        ((ptOfJoint L E U ρE trE).cap (k+1)) k b = (ptOfJoint L E U ρE trE).cap k b :=
  ptOfJoint_caps L E U ρE trE trS dinv hd hTP k b hb

/-! ### 3b. the process-tensor object under a history of `set_*` / `get_*` calls -/

/-- neither class memoises anything in `get_mpo_tensor` / `get_cap_tensor` that the corresponding
    `set_*` method fails to drop (as read from the source: attributes written by the getters) -/
theorem caches_safe :
    cacheSafe simpleMpoCache = true ∧ cacheSafe simpleCapCache = true ∧
    cacheSafe fileMpoCache = true ∧ cacheSafe fileCapCache = true := by decide

/-- **`get_*` is a function of the CURRENT stored tensor (and the transforms) only.**  After any
    history of `set`/`get` calls on a fresh object, with a getter that does not memoise or whose memo
    is dropped by the setter, `get k` answers `f` of what is stored for step `k` now — `f` being
    `mpoTensorOf` (delta expansion and transforms) for `get_mpo_tensor`, the identity for
    `get_cap_tensor`. -/
theorem get_is_function_of_current {V W : Type} (cw : CacheWiring) (hs : cacheSafe cw = true)
    (f : V → W) (ops : List (PtOp V)) (k : ℕ) :
    (objStep cw f (objRun cw f PtObj.empty ops) (.get k)).2
      = ((objRun cw f PtObj.empty ops).stored k).map f :=
  get_of_ok cw f _ (objRun_ok cw hs f ops _ (cacheOk_empty f) (fun _ _ => rfl)).1 k

/-- what is stored now is the value of the last `set` for that step -/
theorem stored_is_last_set {V W : Type} (cw : CacheWiring) (f : V → W) (ops : List (PtOp V))
    (k : ℕ) :
    (objRun cw f (PtObj.empty : PtObj V W) ops).stored k =
      ops.foldl (fun acc op => match op with
        | .set j v => if k = j then some v else acc
        | .get _ => acc) none :=
  stored_objRun cw f ops PtObj.empty k

/-- **Independence of the history**: two histories that leave the same value stored for step `k`
    (e.g. "set, contract, overwrite, …" and a fresh object that was only given the final tensors)
    get the same answer — in particular with the regenerated wiring of both classes. -/
theorem history_independent {V W : Type} (cw : CacheWiring) (hs : cacheSafe cw = true)
    (f : V → W) (ops ops' : List (PtOp V)) (k : ℕ)
    (h : (objRun cw f (PtObj.empty : PtObj V W) ops).stored k
      = (objRun cw f (PtObj.empty : PtObj V W) ops').stored k) :
    (objStep cw f (objRun cw f PtObj.empty ops) (.get k)).2
      = (objStep cw f (objRun cw f PtObj.empty ops') (.get k)).2 := by
  rw [get_is_function_of_current cw hs, get_is_function_of_current cw hs, h]

/-- `compute_caps` writes nothing besides the caps that `set_mpo_tensor` does not reset on every
    call (an "already up to date" memo would have to be dropped by EVERY tensor write) -/
theorem caps_flags_safe : cacheSafe simpleCapsFlag = true ∧ cacheSafe fileCapsFlag = true := by
  decide

/-- **After `compute_caps()` the caps are a function of the CURRENT tensors only.**  The object as
    a whole: `set` = any write of an MPO tensor (the stored value `ts` is the current list of
    tensors), `get` = `compute_caps()` followed by reading the caps, `capsOf` what the recursion
    computes from a tensor list (`capStepOf`, iterated).  With the memoisation behaviour read from
    the source, after any history of tensor writes and `compute_caps()` calls the caps are
    `capsOf` of the tensors stored now — the same as for a fresh object given the final tensors. -/
theorem caps_are_function_of_current {V W : Type} (cw : CacheWiring) (hs : cacheSafe cw = true)
    (capsOf : V → W) (ops : List (PtOp V)) :
    (objStep cw capsOf (objRun cw capsOf PtObj.empty ops) (.get 0)).2
      = ((objRun cw capsOf PtObj.empty ops).stored 0).map capsOf :=
  get_is_function_of_current cw hs capsOf ops 0

/-- the hypothesis `cacheSafe` is needed: a memo that the setter does not drop goes stale
    (set 1, get, set 2, get answers 1 twice) -/
example : objTrace { cached := true, invalidatedBySet := false } (fun v : ℕ => v) PtObj.empty
    [.set 0 1, .get 0, .set 0 2, .get 0] = [none, some 1, none, some 1] := by decide

/-- … and it is met non-trivially (memoising getter, invalidating setter): the same history -/
example : objTrace { cached := true, invalidatedBySet := true } (fun v : ℕ => v) PtObj.empty
    [.set 0 1, .get 0, .set 0 2, .get 0] = [none, some 1, none, some 2] := by decide

/-! ### 4. an ancilla environment: the exact joint evolution -/

/-- **`compute_dynamics` on the process tensor of an ancilla = the joint evolution, traced over the
    ancilla** — at every step `n`, for every system dimension, ancilla dimension, joint maps
    (unitary or not), ancilla state, half-step propagators and controls (`A k = P1_k·post_k·pre_k`,
    `B k = P2_k`, `pre` the pre-measurement control of the recording step).  The right-hand side
    iterates `Y ↦ (1⊗B_k)·U_k·(1⊗A_k)·Y` on ONE index `y = b·L+s < E·L`. -/
theorem dynamics_eq_joint (L E : ℕ) (U : ℕ → ℕ → ℕ → K) (A B : ℕ → ℕ → ℕ → K) (ρE trE : ℕ → K)
    (pre : ℕ → ℕ → K) (ρ0 : ℕ → K) (n s' : ℕ) :
    mpoRecord L (ptOfJoint L E U ρE trE).D (ptOfJoint L E U ρE trE).T A B
        (ptOfJoint L E U ρE trE).cap pre ρ0 n s'
      = jointRecord L E U A B ρE trE pre ρ0 n s' :=
  ptOfJoint_record L E U A B ρE trE pre ρ0 n s'

/-- **Finite process tensors.**  A process tensor of `N` steps whose last bond is closed inside
    the last tensor (future bond dimension 1, cap `[1.0]` — what `compute_caps` starts from)
    records the same states as the open one with its cap, at every step `n ≤ N`. -/
theorem finite_pt_last_bond (L N : ℕ) (D : ℕ → ℕ) (T : ℕ → ℕ → ℕ → ℕ → ℕ → K)
    (A B : ℕ → ℕ → ℕ → K) (cap : ℕ → ℕ → K) (pre : ℕ → ℕ → K) (ρ0 : ℕ → K) (hN : 0 < N)
    (n s' : ℕ) (hn : n ≤ N) :
    mpoRecord L (foldLastD N D) (foldLastT N D T cap) A B (foldLastCap N cap) pre ρ0 n s'
      = mpoRecord L D T A B cap pre ρ0 n s' :=
  mpoRecord_foldLast L N D T A B cap pre ρ0 hN n s' hn

/-- … so the hand-built `N`-step process tensor of an ancilla (initial ancilla state folded into the
    first tensor, ancilla trace into the last one) gives the traced joint evolution at all steps
    `0 … N`. -/
theorem dynamics_eq_joint_finite (L E N : ℕ) (U : ℕ → ℕ → ℕ → K) (A B : ℕ → ℕ → ℕ → K)
    (ρE trE : ℕ → K) (pre : ℕ → ℕ → K) (ρ0 : ℕ → K) (hN : 0 < N) (n s' : ℕ) (hn : n ≤ N) :
    mpoRecord L (foldLastD N (ptOfJoint L E U ρE trE).D)
        (foldLastT N (ptOfJoint L E U ρE trE).D (ptOfJoint L E U ρE trE).T
          (ptOfJoint L E U ρE trE).cap) A B
        (foldLastCap N (ptOfJoint L E U ρE trE).cap) pre ρ0 n s'
      = jointRecord L E U A B ρE trE pre ρ0 n s' := by
  rw [finite_pt_last_bond _ _ _ _ _ _ _ _ _ hN n s' hn, dynamics_eq_joint]

/-! ### 5. two baths with the same coupling operator -/

/-- the influence functional of the pointwise product of two tables is the product of the two
    influence functionals -/
theorem sum_of_baths_infl (I1 I2 : ℕ → ℕ → ℕ → ℕ → K) (p : List ℕ) :
    inflProd (fun n dk a c => I1 n dk a c * I2 n dk a c) p = inflProd I1 p * inflProd I2 p :=
  inflProd_mul I1 I2 p

/-- the entries of `influence_matrix` for `η₁ + η₂` are the products of the entries for `η₁` and
    `η₂` (same coupling operator: same `Om`, `Op`) — `E` any function with `E(x+y) = E x·E y` -/
theorem sum_of_baths_entry (E : K → K) (hE : ∀ x y, E (x + y) = E x * E y)
    (re1 im1 re2 im2 iUnit : K) (Om Op : ℕ → K) (earlier later : ℕ) :
    OQuPyVerif.Props.C04.inflEntry E (re1 + re2) (im1 + im2) iUnit Om Op earlier later =
      OQuPyVerif.Props.C04.inflEntry E re1 im1 iUnit Om Op earlier later *
        OQuPyVerif.Props.C04.inflEntry E re2 im2 iUnit Om Op earlier later := by
  unfold OQuPyVerif.Props.C04.inflEntry
  rw [← hE]; congr 1; ring

/-- … and so are the tables selected by TEMPO's memory schedule -/
theorem sum_of_baths_tables (dkmax : Option ℕ) (hasAdd : Bool) (t1 t2 : ℤ → ℕ → ℕ → K)
    (n dk a c : ℕ) :
    OQuPyVerif.Tempo.inflOfTables dkmax hasAdd (fun id e l => t1 id e l * t2 id e l) n dk a c =
      OQuPyVerif.Tempo.inflOfTables dkmax hasAdd t1 n dk a c *
        OQuPyVerif.Tempo.inflOfTables dkmax hasAdd t2 n dk a c := by
  unfold OQuPyVerif.Tempo.inflOfTables
  cases OQuPyVerif.Tempo.inflSel dkmax hasAdd n dk <;> simp

/-- the dense form of two combined environments is the series combination of their dense forms -/
theorem combined_dense (L : ℕ) (e1 e2 : EnvMpo K) (n : ℕ) (p : List ℕ) (hp : p.length = 2 * n) :
    densePT (combine2 L e1 e2).D (combine2 L e1 e2).T (combine2 L e1 e2).cap n p
      = denseCombine L (densePT e1.D e1.T e1.cap) (densePT e2.D e2.T e2.cap) n p :=
  densePT_combine L e1.D e2.D e1.T e2.T e1.cap e2.cap n p hp

/-- combining the process tensors of two influence functionals (identity transforms) gives the
    process tensor of the product influence functional -/
theorem sum_of_baths_dense (L : ℕ) (I1 I2 : ℕ → ℕ → ℕ → ℕ → K) (n : ℕ) (p : List ℕ)
    (hp : IsPath L (2 * n) p) :
    denseCombine L (ptOfInfluence L delta delta I1) (ptOfInfluence L delta delta I2) n p
      = ptOfInfluence L delta delta (fun n dk a c => I1 n dk a c * I2 n dk a c) n p :=
  denseCombine_infl L I1 I2 n p hp

/-- **Two baths = one bath with the summed spectral density.**  If the dense forms of two
    environments are the influence functionals `I1`, `I2` (diagonal coupling: identity transforms;
    hypothesis as in C02 `mpo_dynamics_eq_tempo`), `compute_dynamics` with the list `[e1, e2]`
    reports TEMPO's state for the ONE bath with influence table `I1·I2` — by
    `sum_of_baths_entry`/`sum_of_baths_tables` the table of `η₁+η₂`. -/
theorem sum_of_baths (L : ℕ) (e1 e2 : EnvMpo K) (A B : ℕ → ℕ → ℕ → K)
    (I1 I2 : ℕ → ℕ → ℕ → ℕ → K) (pre : ℕ → ℕ → K) (ρ0 : ℕ → K) (n s' : ℕ)
    (h1 : ∀ p, IsPath L (2 * (n+1)) p →
      densePT e1.D e1.T e1.cap (n+1) p = ptOfInfluence L delta delta I1 (n+1) p)
    (h2 : ∀ p, IsPath L (2 * (n+1)) p →
      densePT e2.D e2.T e2.cap (n+1) p = ptOfInfluence L delta delta I2 (n+1) p) :
    multiRecord L [e1, e2] A B pre ρ0 (n+1) s' =
      ∑ s ∈ range L, pre s' s *
        tempoState L ρ0 (fun k => A (k-1)) (fun k => B (k-1)) delta delta
          (fun n dk a c => I1 n dk a c * I2 n dk a c) (n+1) s := by
  rw [env_list_as_one]
  apply OQuPyVerif.Props.C02.mpo_dynamics_eq_tempo
  intro p hp
  show densePT (combine2 L e1 e2).D (combine2 L e1 e2).T (combine2 L e1 e2).cap (n+1) p = _
  rw [combined_dense L e1 e2 (n+1) p hp.1, ← sum_of_baths_dense L I1 I2 (n+1) p hp]
  unfold denseCombine
  apply pathSum_congr; intro ms hms
  obtain ⟨hm1, hm2, _⟩ := mid_facts (K := K) L (n+1) p ms hp hms
  rw [h1 _ hm1, h2 _ hm2]

/-! ### non-vacuity of the hypotheses -/

/-- `CommuteOn`: two different rank-3 environments over ℚ (and, trivially, `e` with itself is not
    needed): the hypothesis of `order_indep_of_commute` is met by non-trivial tensors. -/
example : CommuteOn 2 (rank3Env (fun _ => 2) (fun k b b' i => (k + 2 * b + 3 * b' + 5 * i : ℚ))
      (fun _ _ => 1))
    (rank3Env (fun _ => 3) (fun k b b' i => (7 * k + b * b' + i : ℚ)) (fun _ _ => 1)) :=
  rank3_commute 2 _ _ _ _ _ _

/-- `caps_fixed_point`: `L = 1`, `T = 2`, `trOut = 1`, `cap' = 3`, `cap = 6`, `τ = 1`, `trIn = 1` -/
example : capRec 1 (fun _ => 1) (fun _ _ _ _ _ => (2:ℚ)) (fun _ => 1) (fun _ => 1) (fun _ => 3) 0 0
    = (fun _ => (6:ℚ)) 0 :=
  caps_fixed_point 1 _ _ _ _ (fun _ => 1) (fun _ => 6) _ 0 0 (by intro i _; norm_num) (by norm_num)

/-- `caps_fixed_point_joint`: one-level system and ancilla (`L = E = 1`), `U = 1`, `d⁻¹ = 1` -/
example : (1:ℚ) * ∑ i ∈ range 1, (fun _ => (1:ℚ)) i * (fun _ => (1:ℚ)) i = 1 ∧
    ∀ k b i : ℕ, b < 1 → i < 1 → ∑ b' ∈ range 1, ∑ o ∈ range 1,
      (fun _ => (1:ℚ)) b' * (fun _ => (1:ℚ)) o * (fun (_ _ _ : ℕ) => (1:ℚ)) k (b' * 1 + o) (b * 1 + i)
        = (fun _ => (1:ℚ)) b * (fun _ => (1:ℚ)) i := by
  constructor <;> simp

/-- `sum_of_baths_entry`: `E = fun _ => 1` (as for C01) -/
example : ∀ x y : ℚ, (fun _ : ℚ => (1:ℚ)) (x + y) = (fun _ : ℚ => (1:ℚ)) x * (fun _ : ℚ => (1:ℚ)) y := by
  simp

/-- `sum_of_baths`: the hypotheses hold for the one-level system with bond dimension 1 and all
    tensors / tables equal to 1 -/
example : ∀ p, IsPath 1 (2 * (0+1)) p →
    densePT (fun _ => 1) (fun _ _ _ _ _ => (1:ℚ)) (fun _ _ => 1) (0+1) p
      = ptOfInfluence 1 delta delta (fun _ _ _ _ => (1:ℚ)) (0+1) p := by
  intro p hp
  match p, hp with
  | [o, i], hp =>
    have ho : o = 0 := by have := hp.2 o (by simp); omega
    have hi : i = 0 := by have := hp.2 i (by simp); omega
    subst ho; subst hi
    simp [densePT, bondAmp, ptOfInfluence, pathSum, transAmp, inflProd, inflRowFull, delta]

end OQuPyVerif.Props.C03
