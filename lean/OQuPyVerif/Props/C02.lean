/-
  C02 — TEMPO and PT-TEMPO + compute_dynamics produce the same dynamics.

  Chain of ties:
    real Tempo            ≃ `tempoState`                    (correspondence, 1e-8)
    real compute_dynamics ≃ `mpoRecord`                     (correspondence, 1e-8)
    `mpoRecord` = `denseRecord (densePT …)`                 (theorem `contraction_exact`, all n, all bond dims)
    real PT-TEMPO MPO: `densePT …` ≃ `ptOfInfluence`        (correspondence, up to the SVD tolerance)
    `denseRecord (ptOfInfluence …)` = `tempoState`          (theorem `pt_dynamics_eq_tempo`, all n)
-/
import OQuPyVerif.Lemmas.PtTempo
import OQuPyVerif.Lemmas.PtPrefix
import OQuPyVerif.Model.Tempo

namespace OQuPyVerif.Props.C02
open Finset BigOperators OQuPyVerif.PathSum OQuPyVerif.PT
variable {K : Type} [CommRing K]

/-- Contracting a process tensor in MPO form step by step (what `compute_dynamics` does) gives
    exactly the dynamics of its dense form — for every number of steps, every bond dimension,
    every tensor content, every system propagator / control. -/
theorem contraction_exact (L : ℕ) (D : ℕ → ℕ) (T : ℕ → ℕ → ℕ → ℕ → ℕ → K)
    (A B : ℕ → ℕ → ℕ → K) (cap : ℕ → ℕ → K) (pre : ℕ → ℕ → K) (ρ0 : ℕ → K) (n s' : ℕ) :
    mpoRecord L D T A B cap pre ρ0 n s' = denseRecord L (densePT D T cap) A B pre ρ0 n s' :=
  mpoRecord_eq_dense L D T A B cap pre ρ0 n s'

/-- The process tensor of the influence functional, contracted with the system propagators
    (`A k` before, `B k` after the `k`-th tensor), reproduces TEMPO's state at every step
    `n+1 ≥ 1`, for every influence table (hence every memory setting), every basis change,
    constant or step-dependent propagators. -/
theorem pt_dynamics_eq_tempo (L : ℕ) (A B : ℕ → ℕ → ℕ → K) (Uin Uout : ℕ → ℕ → K)
    (I : ℕ → ℕ → ℕ → ℕ → K) (pre : ℕ → ℕ → K) (ρ0 : ℕ → K) (n s' : ℕ) :
    denseRecord L (ptOfInfluence L Uin Uout I) A B pre ρ0 (n+1) s' =
      ∑ s ∈ range L, pre s' s *
        tempoState L ρ0 (fun k => A (k-1)) (fun k => B (k-1)) Uin Uout I (n+1) s := by
  unfold denseRecord ptOfInfluence tempoState
  simp only [Nat.succ_ne_zero, ite_false, Nat.add_sub_cancel]
  -- left: exchange the two path sums
  have hL : pathSum L (2 * (n+1)) (fun p =>
        pathSum L (n+1) (fun a => transAmp Uin Uout a p * inflProd I a) *
          ∑ s ∈ range L, pre s' s * sysAmp L A B ρ0 p s)
      = pathSum L (n+1) (fun a => ∑ s ∈ range L, pre s' s * (inflProd I a *
          pathSum L (2 * (n+1)) (fun p => transAmp Uin Uout a p * sysAmp L A B ρ0 p s))) := by
    have : ∀ p, pathSum L (n+1) (fun a => transAmp Uin Uout a p * inflProd I a) *
          ∑ s ∈ range L, pre s' s * sysAmp L A B ρ0 p s
        = pathSum L (n+1) (fun a => ∑ s ∈ range L,
            (pre s' s * inflProd I a) * (transAmp Uin Uout a p * sysAmp L A B ρ0 p s)) := by
      intro p
      rw [mul_comm, ← pathSum_mul_left]
      apply pathSum_congr; intro a _
      rw [Finset.sum_mul]
      apply Finset.sum_congr rfl; intro s _; ring
    simp only [this]
    rw [← pathSum_comm]
    apply pathSum_congr; intro a _
    rw [pathSum_finsum]
    apply Finset.sum_congr rfl; intro s _
    rw [pathSum_mul_left]; ring
  rw [hL]
  -- right: amplitude form of TEMPO
  have hR : ∀ s ∈ range L, pre s' s *
        pathState L ρ0 (kernelM L (fun k => A (k-1)) (fun k => B (k-1)) Uin Uout) I (n+1)
          (fun a => matMul L (B n) Uout s a)
      = pathSum L (n+1) (fun a => pre s' s * (matMul L (B n) Uout s (a.headD 0) *
          (inflProd I a * sysAmpl (kernelOfAB L A B Uin Uout)
            (fun a1 => ∑ a0 ∈ range L, kernelOfAB L A B Uin Uout 1 a1 a0 * ρ0 a0) a))) := by
    intro s _
    rw [pathState_ampl, pathSum_mul_left]
    rfl
  rw [Finset.sum_congr rfl hR, ← pathSum_finsum]
  apply pathSum_congr; intro a ha
  apply Finset.sum_congr rfl; intro s _
  obtain ⟨hlen, _⟩ := ha
  match a, hlen with
  | x :: rest, hlen =>
    have hr : rest.length = n := by simpa using hlen
    have := transAmp_sysAmp L A B Uin Uout ρ0 x rest s
    rw [hr] at this
    rw [this]
    simp only [List.headD_cons, matMul]
    ring

/-- Consequence for an arbitrary MPO: if, at step `n+1`, the dense form of the MPO (closed with
    its cap) is the influence functional, `compute_dynamics` reports TEMPO's state. -/
theorem mpo_dynamics_eq_tempo (L : ℕ) (D : ℕ → ℕ) (T : ℕ → ℕ → ℕ → ℕ → ℕ → K)
    (A B : ℕ → ℕ → ℕ → K) (cap : ℕ → ℕ → K) (Uin Uout : ℕ → ℕ → K)
    (I : ℕ → ℕ → ℕ → ℕ → K) (pre : ℕ → ℕ → K) (ρ0 : ℕ → K) (n s' : ℕ)
    (hPT : ∀ p, IsPath L (2 * (n+1)) p → densePT D T cap (n+1) p = ptOfInfluence L Uin Uout I (n+1) p) :
    mpoRecord L D T A B cap pre ρ0 (n+1) s' =
      ∑ s ∈ range L, pre s' s *
        tempoState L ρ0 (fun k => A (k-1)) (fun k => B (k-1)) Uin Uout I (n+1) s := by
  rw [contraction_exact, ← pt_dynamics_eq_tempo]
  unfold denseRecord
  apply pathSum_congr; intro p hp
  rw [hPT p hp]


/-! ### Prefixes: the first `n` steps of a longer process tensor -/

/-- "Computing only the first n steps from a longer process tensor gives the same states as a
    process tensor built for exactly n steps" — at the level of the influence functional:
    closing the newest step of `ptOfInfluence (n+1)` with the trace vectors gives
    `ptOfInfluence n`, when the closing weight sums to one and sits where the influence factors
    are `1` (diagonal indices; unitary basis changes). -/
theorem pt_prefix (L : ℕ) (Uin Uout : ℕ → ℕ → K) (I : ℕ → ℕ → ℕ → ℕ → K) (trIn trOut : ℕ → K)
    (hI : ∀ n dk a c, closeWeight L Uin Uout trIn trOut a * I n dk a c
            = closeWeight L Uin Uout trIn trOut a)
    (hsum : ∑ a ∈ range L, closeWeight L Uin Uout trIn trOut a = 1) (n : ℕ) (p : List ℕ) :
    ∑ o ∈ range L, ∑ i ∈ range L, trOut o * trIn i * ptOfInfluence L Uin Uout I (n+1) (o :: i :: p)
      = ptOfInfluence L Uin Uout I n p :=
  ptOfInfluence_prefix L Uin Uout I trIn trOut hI hsum n p

/-- … and for the MPO: if its caps obey `compute_caps`' recursion and its dense form closed at
    step `n+1` is the influence functional, so is its dense form closed at step `n`.  By
    downward induction the hypothesis `hPT` of `mpo_dynamics_eq_tempo` at the LAST step implies
    it at every earlier step: a longer process tensor reproduces TEMPO at every intermediate
    step. -/
theorem prefix_of_longer_pt (L : ℕ) (D : ℕ → ℕ) (T : ℕ → ℕ → ℕ → ℕ → ℕ → K) (cap : ℕ → ℕ → K)
    (Uin Uout : ℕ → ℕ → K) (I : ℕ → ℕ → ℕ → ℕ → K) (trIn trOut : ℕ → K)
    (hI : ∀ n dk a c, closeWeight L Uin Uout trIn trOut a * I n dk a c
            = closeWeight L Uin Uout trIn trOut a)
    (hsum : ∑ a ∈ range L, closeWeight L Uin Uout trIn trOut a = 1) (n : ℕ)
    (hcap : ∀ b, b < D n → cap n b = capRec L D T trIn trOut (cap (n+1)) n b)
    (hPT : ∀ p, IsPath L (2 * (n+1)) p →
      densePT D T cap (n+1) p = ptOfInfluence L Uin Uout I (n+1) p)
    (p : List ℕ) (hp : IsPath L (2 * n) p) :
    densePT D T cap n p = ptOfInfluence L Uin Uout I n p := by
  rw [densePT_prefix L D T cap trIn trOut n hcap p hp.1, ← pt_prefix L Uin Uout I trIn trOut hI hsum n p]
  apply Finset.sum_congr rfl; intro o ho
  apply Finset.sum_congr rfl; intro i hi
  rw [hPT (o :: i :: p)]
  have h2 : 2 * (n+1) = 2 * n + 1 + 1 := by ring
  rw [h2]
  exact isPath_cons (Finset.mem_range.mp ho) (isPath_cons (Finset.mem_range.mp hi) hp)

end OQuPyVerif.Props.C02
