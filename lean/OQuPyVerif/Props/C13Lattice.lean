/- C13: the full decimal lattice (48 rows × 1001 end literals), exhaustive in the kernel.
   Built only by the thorough tier. -/
import OQuPyVerif.Props.C13Rows.T0
import OQuPyVerif.Props.C13Rows.T1
import OQuPyVerif.Props.C13Rows.T2
import OQuPyVerif.Props.C13Rows.T3
import OQuPyVerif.Props.C13Rows.T4
import OQuPyVerif.Props.C13Rows.T5
import OQuPyVerif.Props.C13Rows.T6
import OQuPyVerif.Props.C13Rows.T7
import OQuPyVerif.Props.C13Rows.T8
import OQuPyVerif.Props.C13Rows.T9
import OQuPyVerif.Props.C13Rows.T10
import OQuPyVerif.Props.C13Rows.T11
import OQuPyVerif.Props.C13Rows.T12
import OQuPyVerif.Props.C13Rows.T13
import OQuPyVerif.Props.C13Rows.T14
import OQuPyVerif.Props.C13Rows.T15
import OQuPyVerif.Props.C13

namespace OQuPyVerif.Props.C13Lattice
open OQuPyVerif.GridLattice

/-- every (start, dt) row of the lattice: Tempo, MeanFieldTempo and PtTempo take exactly `m` steps
    for every end literal `start + m·dt`, `m ≤ 1000`. -/
theorem grid_lattice_full :
    rowOK (0) 0 (1) 2 1000 = true ∧
    rowOK (5) 1 (1) 3 1000 = true ∧
    rowOK (-3) 1 (6) 2 1000 = true ∧
    rowOK (0) 0 (2) 1 1000 = true ∧
    rowOK (5) 1 (7) 2 1000 = true ∧
    rowOK (17) 1 (1) 1 1000 = true ∧
    rowOK (0) 0 (5) 2 1000 = true ∧
    rowOK (5) 1 (4) 1 1000 = true ∧
    rowOK (17) 1 (1) 2 1000 = true ∧
    rowOK (0) 0 (25) 3 1000 = true ∧
    rowOK (5) 1 (125) 3 1000 = true ∧
    rowOK (17) 1 (2) 1 1000 = true ∧
    rowOK (0) 0 (3) 1 1000 = true ∧
    rowOK (5) 1 (15) 1 1000 = true ∧
    rowOK (17) 1 (25) 3 1000 = true ∧
    rowOK (0) 0 (1) 3 1000 = true ∧
    rowOK (5) 1 (6) 2 1000 = true ∧
    rowOK (17) 1 (3) 1 1000 = true ∧
    rowOK (0) 0 (7) 2 1000 = true ∧
    rowOK (-3) 1 (1) 1 1000 = true ∧
    rowOK (17) 1 (1) 3 1000 = true ∧
    rowOK (0) 0 (4) 1 1000 = true ∧
    rowOK (-3) 1 (1) 2 1000 = true ∧
    rowOK (17) 1 (7) 2 1000 = true ∧
    rowOK (0) 0 (125) 3 1000 = true ∧
    rowOK (-3) 1 (5) 2 1000 = true ∧
    rowOK (17) 1 (4) 1 1000 = true ∧
    rowOK (0) 0 (15) 1 1000 = true ∧
    rowOK (-3) 1 (25) 3 1000 = true ∧
    rowOK (17) 1 (125) 3 1000 = true ∧
    rowOK (0) 0 (6) 2 1000 = true ∧
    rowOK (-3) 1 (3) 1 1000 = true ∧
    rowOK (17) 1 (15) 1 1000 = true ∧
    rowOK (5) 1 (1) 1 1000 = true ∧
    rowOK (-3) 1 (1) 3 1000 = true ∧
    rowOK (17) 1 (6) 2 1000 = true ∧
    rowOK (5) 1 (2) 1 1000 = true ∧
    rowOK (-3) 1 (7) 2 1000 = true ∧
    rowOK (5) 1 (5) 2 1000 = true ∧
    rowOK (-3) 1 (4) 1 1000 = true ∧
    rowOK (5) 1 (25) 3 1000 = true ∧
    rowOK (-3) 1 (125) 3 1000 = true ∧
    rowOK (5) 1 (3) 1 1000 = true ∧
    rowOK (-3) 1 (15) 1 1000 = true ∧
    rowOK (0) 0 (1) 1 1000 = true ∧
    rowOK (5) 1 (1) 2 1000 = true ∧
    rowOK (-3) 1 (2) 1 1000 = true ∧
    rowOK (17) 1 (5) 2 1000 = true :=
  ⟨C13Rows.t0_0, C13Rows.t0_1, C13Rows.t0_2, C13Rows.t1_0, C13Rows.t1_1, C13Rows.t1_2, C13Rows.t2_0, C13Rows.t2_1, C13Rows.t2_2, C13Rows.t3_0, C13Rows.t3_1, C13Rows.t3_2, C13Rows.t4_0, C13Rows.t4_1, C13Rows.t4_2, C13Rows.t5_0, C13Rows.t5_1, C13Rows.t5_2, C13Rows.t6_0, C13Rows.t6_1, C13Rows.t6_2, C13Rows.t7_0, C13Rows.t7_1, C13Rows.t7_2, C13Rows.t8_0, C13Rows.t8_1, C13Rows.t8_2, C13Rows.t9_0, C13Rows.t9_1, C13Rows.t9_2, C13Rows.t10_0, C13Rows.t10_1, C13Rows.t10_2, C13Rows.t11_0, C13Rows.t11_1, C13Rows.t11_2, C13Rows.t12_0, C13Rows.t12_1, C13Rows.t13_0, C13Rows.t13_1, C13Rows.t14_0, C13Rows.t14_1, C13Rows.t15_0, C13Rows.t15_1, C13Rows.q0, C13Rows.q1, C13Rows.q2, C13Rows.q3⟩

end OQuPyVerif.Props.C13Lattice
