/-
  C10 / C04 — the generated site Liouvillian of `SystemChain` is of GKSL (Lindblad) form, for
  arbitrary operators in any *-algebra, and its Euler step is a two-operator Kraus map up to one
  `t²` term (first-order complete positivity).  The terms are read from the source
  (`Generated/ChainLindblad.lean`); a changed coefficient, dagger or operand order breaks these.
-/
import OQuPyVerif.Props.C10
namespace OQuPyVerif.Props.C10
section Gksl
open OQuPyVerif.Tebd.Lindblad OQuPyVerif.Generated.ChainLindblad
set_option linter.unusedSimpArgs false
set_option linter.unusedSectionVars false
variable {K : Type} [Field K] [CharZero K] [StarRing K]
variable {R : Type} [Ring R] [StarRing R] [Algebra K R] [StarModule K R]

/-- `add_site_dissipation` adds exactly the GKSL dissipator `γ(AρA† − ½A†Aρ − ½ρA†A)` -/
theorem site_dissipation_is_gksl (imag γ : K) (env : ℕ → R) (x : R) :
    apply1 imag γ env site_dissipation x
      = γ • (env 0 * x * star (env 0)) - (γ / 2) • (star (env 0) * env 0 * x)
        - (γ / 2) • (x * (star (env 0) * env 0)) := by
  simp only [apply1, site_dissipation, OQuPyVerif.Tebd.Lindblad.coefVal, evalOp, List.map_cons, List.map_nil,
    List.sum_cons, List.sum_nil, if_true, mul_one, one_mul, add_zero]
  push_cast
  module

/-- `add_site_hamiltonian` adds exactly `−i[H, ρ]` -/
theorem site_hamiltonian_is_commutator (imag γ : K) (env : ℕ → R) (x : R) :
    apply1 imag γ env site_hamiltonian x = (-imag) • (env 0 * x - x * env 0) := by
  simp only [apply1, site_hamiltonian, OQuPyVerif.Tebd.Lindblad.coefVal, evalOp, List.map_cons, List.map_nil,
    List.sum_cons, List.sum_nil, mul_one, one_mul, add_zero]
  push_cast
  simp only [Bool.false_eq_true, if_false, mul_one, smul_sub]
  module

/-- first-order complete positivity of the generated site Liouvillian: the Euler step
    `ρ + t·L(ρ)` is a two-operator Kraus map up to one `t²` term -/
theorem site_liouvillian_first_order_kraus (imag γ t : K) (H A x : R)
    (hH : star H = H) (hi : star imag = -imag) (hγ : star γ = γ) :
    let G : R := (-imag) • H - (γ / 2) • (star A * A)
    x + t • (apply1 imag γ (fun _ => H) site_hamiltonian x
              + apply1 imag γ (fun _ => A) site_dissipation x)
      = (1 + t • G) * x * (1 + t • star G) + (t * γ) • (A * x * star A)
        - (t * t) • (G * x * star G) := by
  intro G
  have hG : star G = imag • H - (γ / 2) • (star A * A) := by
    simp only [G, star_sub, star_smul, star_neg, hi, neg_neg, hH, star_mul, star_star, star_div₀,
      hγ, star_ofNat]
  rw [site_hamiltonian_is_commutator, site_dissipation_is_gksl, hG]
  simp only [G]
  simp only [mul_add, add_mul, mul_sub, sub_mul, smul_mul_assoc, mul_smul_comm, smul_add, smul_sub,
    smul_smul, mul_one, one_mul, neg_smul, smul_neg, neg_mul, mul_neg]
  module
end Gksl
end OQuPyVerif.Props.C10
