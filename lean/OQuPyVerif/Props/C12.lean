/-
  C12 — Bath correlation functions and their 2D integrals are consistent and correct.

  Property theorems only (helper lemmas: Lemmas/BathCorr*.lean, Lemmas/EtaCells.lean).
  Everything named `Generated.BathShapes.*` is regenerated from `oqupy/bath_correlations.py` on
  every run: the three difference formulas of `CustomSD.correlation_2d_integral` (`shapeTri`,
  `shapeSq`, `shapeRect`, `shapePost`), the region `CustomCorrelations.correlation_2d_integral`
  hands to `dblquad` (`regionLower*`, `regionUpper*`, `regionDefaultTime2`), the integrand
  expressions of `CustomSD.correlation` / `eta_function` (`corr_*`, `eta_*`), the cutoffs, the
  spectral-density composition and `PowerLawSD`'s j-function.  The integrands are terms over an
  arbitrary carrier with a record `ExpFns` of primitives; the theorems instantiate it with ℂ and
  Mathlib's `Complex.exp` (`cFns`), the driver with binary64.

  NOT shown here (see the harness evidence): accuracy of QUADPACK (`quad`, `dblquad`), the
  Γ-function closed form of C(τ) at T = 0, differentiation under the ω-integral (that the
  ω-integral of the η-kernel is a second antiderivative of the ω-integral of the C-kernel).
-/
import OQuPyVerif.Generated.BathShapes
import OQuPyVerif.Lemmas.BathCorr
import OQuPyVerif.Lemmas.BathCorrShapes
import OQuPyVerif.Lemmas.BathCorrIntegral
import Mathlib.Analysis.Complex.RealDeriv
import Mathlib.Analysis.Calculus.Deriv.Pow
import Mathlib.Analysis.Calculus.Deriv.Mul
import Mathlib.Analysis.Complex.ExponentialBounds

namespace OQuPyVerif.Props.C12
open OQuPyVerif.BathCorr OQuPyVerif.Generated.BathShapes OQuPyVerif.EtaCells
open OQuPyVerif.BathCorrLemmas OQuPyVerif.BathCorrShapes OQuPyVerif.BathCorrIntegral
open Finset BigOperators MeasureTheory intervalIntegral Complex
open scoped ComplexConjugate

/-! ### (1) the generated difference formulas are the η-cells of the time grid -/

section shapes
variable {T K : Type} [AddCommGroup T] [DecidableEq T] [Ring K]
  (eta : T → K) (ci : T → T → K) (ι : T → K) (m : Bool) (Δ t2 : T)

/-- What `CustomSD.correlation_2d_integral` computes, on the grid `e k = η(k·Δ)` (any additive
    group of times, any ring of values, Matsubara or not): `'upper-triangle'` at `time_1 = 0` is
    `triCell`, `'square'` at `time_1 = dk·Δ` is `sqCell dk`, `'rectangle'` from `Kc·Δ` to `time_2`
    is `rectCell` — the cells about which C01/C11 prove the tiling. -/
theorem shape_formulas (dk Kc : ℕ) :
    shapeTri eta ci ι m Δ 0 t2 = triCell (grid eta Δ)
    ∧ shapeSq eta ci ι m Δ ((dk : ℤ) • Δ) t2 = sqCell (grid eta Δ) dk
    ∧ shapeRect eta ci ι m Δ ((Kc : ℤ) • Δ) t2
        = rectCell (grid eta Δ) Kc (eta t2) (eta (t2 - Δ)) :=
  ⟨shapeTri_grid eta ci ι m Δ t2, shapeSq_grid eta ci ι m Δ t2 dk, shapeRect_grid eta ci ι m Δ t2 Kc⟩

/-! ### (2) tiling, for the generated formulas -/

/-- the cells of one row `dk = 0..k` sum to the strip `η((k+1)Δ) − η(kΔ)` -/
theorem row_sum_generated (k : ℕ) :
    ∑ dk ∈ range (k + 1), genCell eta ci ι m Δ t2 dk
      = eta (((k : ℤ) + 1) • Δ) - eta ((k : ℤ) • Δ) :=
  gen_row_sum eta ci ι m Δ t2 k

/-- **Tiling**: the cells of the first `n` steps (`dk = 0` upper-triangle at 0, `dk ≥ 1` squares at
    `dk·Δ`, exactly the requests of `influence_matrix`) sum to what the code returns for the whole
    triangle, `'upper-triangle'` with `delta = n·Δ` at `time_1 = 0` — for every `n`. -/
theorem tiling_generated (n : ℕ) :
    ∑ k ∈ range n, ∑ dk ∈ range (k + 1), genCell eta ci ι m Δ t2 dk
      = shapeTri eta ci ι m ((n : ℤ) • Δ) 0 t2 :=
  gen_tiling eta ci ι m Δ t2 n

/-- rectangle additivity `rect(t₁,t₂) + rect(t₂,t₃) = rect(t₁,t₃)` for arbitrary times -/
theorem rect_additive (t1 t2' t3 : T) :
    shapeRect eta ci ι m Δ t1 t2' + shapeRect eta ci ι m Δ t2' t3 = shapeRect eta ci ι m Δ t1 t3 :=
  shapeRect_add eta ci ι m Δ t1 t2' t3

/-- a rectangle of extent `Δ` is the square -/
theorem rect_eq_square (t1 : T) :
    shapeRect eta ci ι m Δ t1 (t1 + Δ) = shapeSq eta ci ι m Δ t1 t2 :=
  shapeRect_eq_sq eta ci ι m Δ t2 t1

/-- memory cut-off `Kc ≥ 1` with an additional correlation time: the kept cells plus the
    rectangle reaching to `time_2` are the strip out to `time_2` -/
theorem row_sum_rect_generated (Kc : ℕ) (hK : 1 ≤ Kc) (time_2 : T) :
    ∑ dk ∈ range Kc, genCell eta ci ι m Δ t2 dk + shapeRect eta ci ι m Δ ((Kc : ℤ) • Δ) time_2
      = eta time_2 - eta (time_2 - Δ) :=
  gen_row_sum_rect eta ci ι m Δ t2 Kc hK time_2

example : (1 : ℕ) ≤ 3 := by norm_num
end shapes

/-! ### (1') the difference formulas *are* the 2D integrals of the documentation

For every continuous correlation function `C` and every `η` with `η'(t) = ∫₀ᵗ C` (so `η'' = C`):
the iterated integral of `C(t' − t'')` over the region that `CustomCorrelations` hands to
`dblquad` equals the value of `CustomSD`'s difference formula — for all `delta`, `time_1`,
`time_2` (no sign or order conditions).  The triangle statement for arbitrary `time_1` fails for
the formula `η(t₁+Δ) − η(t₁)`; it holds once the term `−Δ·∫₀^{t₁} C` is present. -/

section regions
variable {C : ℝ → ℂ} (hC : Continuous C) {η : ℝ → ℂ} (hη : ∀ t, HasDerivAt η (corrInt C 0 t) t)
include hC hη

theorem square_is_region_integral (Δ t1 t2' : ℝ) :
    ∫ x in t1..regionDefaultTime2 Δ t1, ∫ y in regionLowerSq Δ t1 x..regionUpperSq Δ t1 x, C (x - y)
      = shapeSq η (corrInt C) Complex.ofReal false Δ t1 t2' :=
  sq_region hC hη Δ t1 t2'

theorem rectangle_is_region_integral (Δ t1 t2 : ℝ) :
    ∫ x in t1..t2, ∫ y in regionLowerRect Δ t1 x..regionUpperRect Δ t1 x, C (x - y)
      = shapeRect η (corrInt C) Complex.ofReal false Δ t1 t2 :=
  rect_region hC hη Δ t1 t2

/-- at `time_1 = 0` (the only way TEMPO uses it) -/
theorem triangle_is_region_integral_at_zero (Δ t2' : ℝ) :
    ∫ x in (0:ℝ)..regionDefaultTime2 Δ 0, ∫ y in regionLowerTri Δ 0 x..regionUpperTri Δ 0 x, C (x - y)
      = shapeTri η (corrInt C) Complex.ofReal false Δ 0 t2' := by
  rw [tri_region_value hC hη]
  simp [shapeTri, corrInt]

/-- for every cell position -/
theorem triangle_is_region_integral (Δ t1 t2' : ℝ) :
    ∫ x in t1..regionDefaultTime2 Δ t1, ∫ y in regionLowerTri Δ t1 x..regionUpperTri Δ t1 x, C (x - y)
      = shapeTri η (corrInt C) Complex.ofReal false Δ t1 t2' := by
  rw [tri_region_value hC hη]
  by_cases h : t1 = 0
  · subst h; simp [shapeTri, corrInt]
  · simp [shapeTri, h]
end regions

/-- imaginary time: there `η'' = −C` and what is returned is minus the integral of the Matsubara
    correlation function; the `time_1 ≠ 0` term of the upper-triangle carries the opposite sign
    (`if matsubara: eta_prime = -eta_prime`) -/
theorem triangle_is_region_integral_matsubara {C : ℝ → ℂ} (hC : Continuous C) {η : ℝ → ℂ}
    (hη : ∀ t, HasDerivAt η (-corrInt C 0 t) t) (Δ t1 t2' : ℝ) :
    -(∫ x in t1..regionDefaultTime2 Δ t1, ∫ y in regionLowerTri Δ t1 x..regionUpperTri Δ t1 x, C (x - y))
      = shapeTri η (corrInt C) Complex.ofReal true Δ t1 t2' := by
  have hη' : ∀ t, HasDerivAt (fun t => -η t) (corrInt C 0 t) t := by
    intro t
    have := (hη t).neg
    rw [neg_neg] at this
    exact this
  rw [tri_region_value hC hη']
  by_cases h : t1 = 0
  · subst h; simp [shapeTri, corrInt]; ring
  · simp [shapeTri, h]; ring

/-- non-vacuity: `C ≡ 1`, `η(t) = t²/2` -/
example : ∃ (C η : ℝ → ℂ), Continuous C ∧ (∀ t, HasDerivAt η (corrInt C 0 t) t) ∧ C 1 ≠ 0 := by
  refine ⟨fun _ => 1, fun t => ((t : ℂ) ^ 2) / 2, continuous_const, ?_, by simp⟩
  intro t
  have h1 : corrInt (fun _ => (1 : ℂ)) 0 t = (t : ℂ) := by
    simp [corrInt, intervalIntegral.integral_const]
  rw [h1]
  have := HasDerivAt.comp_ofReal (HasDerivAt.div_const (hasDerivAt_pow 2 (t : ℂ)) 2)
  convert this using 1
  simp

/-! ### (1'') the variable of the frequency quadrature

`correlation` and `eta_function` hand the quadrature either the closure `integrand` over
`(0, cutoff)` and `(cutoff, ∞)`, or — after the substitution `x = ω/cutoff`, which makes the
quadrature independent of the unit of frequency — `cutoff·integrand(cutoff·x)` over `(0, 1)` and
`(1, ∞)`.  Either way the integrals are those of the closure (for every closure, every cutoff,
every truncation `R` of the tail). -/

theorem quadrature_variable (f : ℂ → ℂ) (c R : ℝ) :
    ((∫ x in (0:ℝ)..(corr_upper (c : ℂ)).re, corr_scaledIntegrand (c : ℂ) f (x : ℂ))
        = ∫ w in (0:ℝ)..c, f (w : ℂ))
    ∧ ((∫ x in (corr_upper (c : ℂ)).re..(corr_upper (c : ℂ)).re * R,
          corr_scaledIntegrand (c : ℂ) f (x : ℂ)) = ∫ w in c..c * R, f (w : ℂ))
    ∧ ((∫ x in (0:ℝ)..(eta_upper (c : ℂ)).re, eta_scaledIntegrand (c : ℂ) f (x : ℂ))
        = ∫ w in (0:ℝ)..c, f (w : ℂ))
    ∧ ((∫ x in (eta_upper (c : ℂ)).re..(eta_upper (c : ℂ)).re * R,
          eta_scaledIntegrand (c : ℂ) f (x : ℂ)) = ∫ w in c..c * R, f (w : ℂ)) :=
  ⟨(corr_scaled_integral f c R).1, (corr_scaled_integral f c R).2,
   (eta_scaled_integral f c R).1, (eta_scaled_integral f c R).2⟩

/-! ### (3) `C(−τ) = conj C(τ)` -/

/-- pointwise in ω, for the closure `integrand` of `CustomSD.correlation` with its branch
    selection (zero temperature / thermal / overflow guard), any real spectral density -/
theorem corr_conj (J : ℝ → ℝ) (T τ w : ℝ) :
    corrIntegrand J T ((-τ : ℝ) : ℂ) w = conj (corrIntegrand J T τ w) :=
  corr_conj_integrand J T τ w

/-- … hence for any integration functional that commutes with conjugation — e.g.
    `f ↦ Q(re ∘ f) + i·Q(im ∘ f)` for an odd real functional `Q`, the form of `_complex_integral` -/
theorem corr_conj_functional (L : (ℝ → ℂ) → ℂ) (hL : ∀ f, L (fun w => conj (f w)) = conj (L f))
    (J : ℝ → ℝ) (T τ : ℝ) :
    L (corrIntegrand J T ((-τ : ℝ) : ℂ)) = conj (L (corrIntegrand J T τ)) := by
  rw [← hL]
  congr 1
  funext w
  exact corr_conj J T τ w

/-- the same for the η kernel: `η(−τ) = conj η(τ)` -/
theorem eta_conj (J : ℝ → ℝ) (T τ w : ℝ) :
    etaIntegrand J T ((-τ : ℝ) : ℂ) w = conj (etaIntegrand J T τ w) :=
  eta_conj_integrand J T τ w

/-- non-vacuity of `hL`: a quadrature rule with real weights and nodes -/
example : ∃ L : (ℝ → ℂ) → ℂ, (∀ f, L (fun w => conj (f w)) = conj (L f)) ∧ L (fun _ => 1) ≠ 0 := by
  refine ⟨fun f => (2 : ℝ) * f 1 + (3 : ℝ) * f 5, fun f => ?_, ?_⟩
  · simp only [map_add, map_mul, Complex.conj_ofReal]
  · norm_num

/-- the thermal integrand is the documented `J(ω)[coth(ω/2T) cos ωτ − i sin ωτ]`
    (`(1+x)/(1−x) = coth(ω/2T)` for `x = e^{−ω/T}`: `coth_x`) -/
theorem corr_thermal_is_documented (J w τ T : ℝ) (hx : 1 - Real.exp (-w / T) ≠ 0) :
    corr_thermal cFns J w τ T
      = J * (((1 + Real.exp (-w / T)) / (1 - Real.exp (-w / T)) * Real.cos (w * τ) : ℝ)
             - I * (Real.sin (w * τ) : ℝ)) := by
  rw [corr_thermal_eq_X]
  have : -(w : ℂ) / T = ((-w / T : ℝ) : ℂ) := by push_cast; ring
  rw [this, ← Complex.ofReal_exp]
  exact corr_docstring J w τ _ hx

theorem coth_x (y : ℝ) (hy : y ≠ 0) :
    (1 + Real.exp (-(2 * y))) / (1 - Real.exp (-(2 * y))) = Real.cosh y / Real.sinh y :=
  coth_form y hy

example : (1 : ℝ) - Real.exp (-1 / 2) ≠ 0 := by
  have := (exp_neg_div_mem 1 2 one_pos two_pos).2
  linarith

/-! ### (4) the large-frequency fall-back ("overflow guard") branch -/

/-- The thermal expressions contain `x = e^{−ω/T}` in two roles: multiplying `e^{+iτω}` (the source
    writes that product as the single exponential `e^{−(ω/T − iτω)}`; `exp` homomorphism) and
    standing alone (in the denominator `1 − x`, and as `−x` in the η numerator).  `corrXY`/`etaXY`
    separate the two roles.  The thermal branch is `(x, x)`.  The fall-back branch — taken when
    `e^{−ω/T} ≤ eps` — is `(x, 0)` whenever its clamp is inactive (`Re(ω/T − iτω) ≥ 0`): it drops
    exactly the stand-alone `e^{−ω/T}` terms and keeps `e^{−(ω/T − iτω)}`. -/
theorem guard_branch_limit (J w τ T : ℂ) :
    corr_thermal cFns J w τ T = corrXY J w τ (cexp (-w / T)) (cexp (-w / T))
    ∧ eta_thermal cFns J w τ T = etaXY J w τ (cexp (-w / T)) (cexp (-w / T))
    ∧ (¬ (1 / T * w - I * τ * w).re < 0 →
        corr_guard cFns J w τ T = corrXY J w τ (cexp (-w / T)) 0)
    ∧ (¬ (w / T - I * τ * w).re < 0 →
        eta_guard cFns J w τ T = etaXY J w τ (cexp (-w / T)) 0) :=
  ⟨corr_thermal_eq_X J w τ T, eta_thermal_eq_X J w τ T, corr_guard_eq_XY J w τ T,
   eta_guard_eq_XY J w τ T⟩

/-- the fall-back branch exactly as written, clamp included
    (`if expo.real < 0.0: expo = 1j * expo.imag`) -/
theorem guard_branch_as_written (J w τ T : ℂ) :
    corr_guard cFns J w τ T
        = J * (cexp (-I * w * τ) + cexp (-(clampExpo (1 / T * w - I * τ * w))))
    ∧ eta_guard cFns J w τ T
        = J / w ^ 2 * (cexp (-I * w * τ) + cexp (-(clampExpo (w / T - I * τ * w))) - 1 + I * w * τ) :=
  ⟨corr_guard_eq J w τ T, eta_guard_eq J w τ T⟩

/-- exactly what is dropped … -/
theorem guard_branch_difference (J w τ x : ℂ) (hx : 1 - x ≠ 0) :
    corrXY J w τ x x - corrXY J w τ x 0
        = J * (cexp (-I * τ * w) + x * cexp (I * τ * w)) * x / (1 - x)
    ∧ etaXY J w τ x x - etaXY J w τ x 0
        = J / w ^ 2 * (x * (cexp (-I * τ * w) + x * cexp (I * τ * w) - 2) / (1 - x)) :=
  ⟨corrXY_sub J w τ x hx, etaXY_sub J w τ x hx⟩

/-- … and its size in real time: at most `(1+x)x/(1−x)·|J|`, i.e. `≈ eps` relative to `J` where
    the fall-back is taken -/
theorem guard_branch_error (J w τ x : ℝ) (hx0 : 0 ≤ x) (hx1 : x < 1) :
    ‖corrXY J w τ x x - corrXY J w τ x 0‖ ≤ |J| * ((1 + x) * x / (1 - x)) :=
  corr_guard_error J w τ x hx0 hx1

/-- … and in imaginary time (`tau = −1j·τ`), uniformly for `0 ≤ τ ≤ β = 1/T`: at most
    `2x/(1−x)·|J|`.  (Before the term `e^{−(ω/T − iτω)}` was kept, the fall-back dropped
    `J e^{−ω(β−τ)}/(1−x)`, which is of order `J` near `τ = β`.) -/
theorem guard_branch_imaginary_time (J w τ T : ℝ) (hw : 0 ≤ w) (hτ0 : 0 ≤ τ) (hτ1 : τ * w ≤ w / T)
    (hx1 : Real.exp (-w / T) < 1) :
    ‖corrXY J w (-I * τ) (Real.exp (-w / T) : ℝ) (Real.exp (-w / T) : ℝ)
        - corrXY J w (-I * τ) (Real.exp (-w / T) : ℝ) 0‖
      ≤ |J| * (2 * Real.exp (-w / T) / (1 - Real.exp (-w / T))) :=
  corr_guard_error_matsubara J w τ T hw hτ0 hτ1 hx1

/-- the zero-temperature expressions are the thermal ones at `x = 0` -/
theorem zero_temperature_limit (J w τ T : ℂ) :
    corr_zeroT cFns J w τ T = corrXY J w τ 0 0 ∧ eta_zeroT cFns J w τ T = etaXY J w τ 0 0 :=
  ⟨corr_zeroT_eq_X J w τ T, eta_zeroT_eq_X J w τ T⟩

example : (0 : ℝ) ≤ 1 / 4 ∧ (1 / 4 : ℝ) < 1 ∧ (1 : ℂ) - (1 / 4 : ℂ) ≠ 0 := by
  refine ⟨by norm_num, by norm_num, ?_⟩
  norm_num

/-- non-vacuity of `guard_branch_imaginary_time`: `ω = 40`, `T = 1`, `τ = β = 1` -/
example : (0 : ℝ) ≤ 40 ∧ (0 : ℝ) ≤ 1 ∧ (1 : ℝ) * 40 ≤ 40 / 1 ∧ Real.exp (-40 / 1) < 1 := by
  refine ⟨by norm_num, by norm_num, by norm_num, ?_⟩
  rw [Real.exp_lt_one_iff]; norm_num

/-! ### (5) positive real part of the triangle integral -/

/-- the kernel of η for real arguments: `−integrand = J/ω² [coth(ω/2T)(1 − cos ωτ) − i(ωτ − sin ωτ)]` -/
theorem eta_kernel_is_documented (J w τ x : ℝ) (hx : 1 - x ≠ 0) :
    -etaThermalX J w τ x
      = (J / w ^ 2 : ℝ) * (((1 + x) / (1 - x) * (1 - Real.cos (w * τ)) : ℝ)
          - I * ((w * τ - Real.sin (w * τ) : ℝ))) :=
  eta_docstring J w τ x hx

/- Full statement (as designed):
     theorem re_tri_integrand_nonneg (J T τ w) (hT : 0 ≤ T) (hw : 0 < w) (hJ : 0 ≤ J w) :
         0 ≤ (-etaIntegrand J T τ w).re
   It does not hold for the large-frequency fall-back branch as it is written now: that branch
   keeps `x·e^{iτω}` but not the `−x` that cancels it at `τ = 0`, so `Re(−integrand)` is
   `J/ω² (1 − cos ωτ − x cos ωτ)`, which is `−x·J/ω²` at `τ = 0`.  Proved instead: exact
   non-negativity in the zero-temperature and thermal branches (`…_partial`), and the lower bound
   `−eps·J/ω²` in every branch (`re_tri_integrand_lower`; `eps = 2⁻⁵²`). -/

/-- `Re` of the integrand of `η(τ)` — in particular of `η_tri = η(Δ)` — is
    `J·coth·(1 − cos ωτ)/ω² ≥ 0` pointwise for `J(ω) ≥ 0`, `ω > 0`, `T ≥ 0`, in the zero-temperature
    and thermal branches -/
theorem re_tri_integrand_nonneg_partial (J : ℝ → ℝ) (T τ w : ℝ) (hT : 0 ≤ T) (hw : 0 < w)
    (hJ : 0 ≤ J w) (hb : T = 0 ∨ eps64 < Real.exp (-w / T)) :
    0 ≤ (-etaIntegrand J T τ w).re :=
  eta_re_integrand_nonneg J T τ w hT hw hJ hb

/-- … and in every branch it is at least `−eps·J/ω²` -/
theorem re_tri_integrand_lower (J : ℝ → ℝ) (T τ w : ℝ) (hT : 0 ≤ T) (hw : 0 < w) (hJ : 0 ≤ J w) :
    -(J w / w ^ 2 * eps64) ≤ (-etaIntegrand J T τ w).re :=
  eta_re_integrand_lower J T τ w hT hw hJ

/-- … hence `Re η ≥ −eps·Q(J/ω²)` for any positive, additive, odd real integration functional `Q`
    applied to the real part (`eta_function` returns `−(Q(re ∘ f) + i·Q(im ∘ f))`) -/
theorem re_tri_lower_functional (Q : (ℝ → ℝ) → ℝ)
    (hpos : ∀ f, (∀ w, 0 < w → 0 ≤ f w) → 0 ≤ Q f) (hodd : ∀ f, Q (fun w => -f w) = -Q f)
    (hadd : ∀ f g, Q (fun w => f w + g w) = Q f + Q g)
    (J : ℝ → ℝ) (hJ : ∀ w, 0 < w → 0 ≤ J w) (T τ : ℝ) (hT : 0 ≤ T) :
    -(Q (fun w => J w / w ^ 2 * eps64)) ≤ -(Q (fun w => (etaIntegrand J T τ w).re)) := by
  have h := hpos (fun w => -(etaIntegrand J T τ w).re + J w / w ^ 2 * eps64) (by
    intro w hw
    have := re_tri_integrand_lower J T τ w hT hw (hJ w hw)
    simp only [Complex.neg_re] at this
    linarith)
  rw [hadd, hodd] at h
  linarith

/-- non-vacuity: a positive quadrature rule; `J(ω) = ω` -/
example : ∃ Q : (ℝ → ℝ) → ℝ, (∀ f, (∀ w, 0 < w → 0 ≤ f w) → 0 ≤ Q f)
    ∧ (∀ f, Q (fun w => -f w) = -Q f) ∧ (∀ f g, Q (fun w => f w + g w) = Q f + Q g)
    ∧ Q (fun w => w) ≠ 0 := by
  refine ⟨fun f => 2 * f 1 + 3 * f 5, fun f hf => ?_, fun f => by ring, fun f g => by ring,
    by norm_num⟩
  have h1 := hf 1 one_pos
  have h5 := hf 5 (by norm_num)
  positivity

/-- non-vacuity of the branch hypothesis: `ω = T = 1` is in the thermal branch -/
example : eps64 < Real.exp (-1 / 1) := by
  have h1 : eps64 < 1 / 4 := by
    unfold eps64
    rw [zpow_neg, inv_eq_one_div]
    apply one_div_lt_one_div_of_lt <;> norm_num
  have h3 : Real.exp 1 < 4 := by linarith [Real.exp_one_lt_three]
  have h2 : (1 : ℝ) / 4 < Real.exp (-1 / 1) := by
    rw [show (-1 : ℝ) / 1 = -1 by norm_num, Real.exp_neg, ← one_div]
    exact one_div_lt_one_div_of_lt (Real.exp_pos 1) h3
  linarith

/-! ### (6) Matsubara integrals are real -/

/-- with `tau = -1j * tau` every exponent is real: the closures of `correlation` and
    `eta_function` are real-valued (`T ≠ 0` is enforced by `check_true`) … -/
theorem matsubara_integrand_real (J : ℝ → ℝ) (T τ w : ℝ) (hT : T ≠ 0) :
    (corrIntegrand J T (corr_tau cFns true τ) w).im = 0
    ∧ (etaIntegrand J T (eta_tau cFns true τ) w).im = 0 :=
  ⟨corr_matsubara_im J T τ w hT, eta_matsubara_im J T τ w hT⟩

/-- … and whatever the quadrature returns, `correlation_2d_integral(matsubara=True)` passes it
    through `.real` -/
theorem matsubara_shape_real (z : ℂ) : (shapePost cFns.re true z).im = 0 := by
  simp [shapePost, cFns]

example : (2 : ℝ) ≠ 0 := two_ne_zero

/-! ### (7) `PowerLawSD` is `CustomSD` with the power-law `j` -/

/-- `PowerLawSD(α, ζ, ω_c, type)` has the spectral density of `CustomSD(j, ω_c, type)` with
    `j = powerLawJ α ζ ω_c`; it inherits `correlation`, `eta_function`,
    `correlation_2d_integral` unchanged (checked by the translator), so all integrands coincide -/
theorem powerlaw_eq_custom {K : Type} [Add K] [Sub K] [Mul K] [Div K] [Neg K] [IntCast K]
    (F : ExpFns K) (α ζ ωc : K) (ct : String) (ω : K) :
    powerLawSD F α ζ ωc ct ω = spectralDensity F (powerLawJ F α ζ ωc) ct ωc ω := rfl

/-- the j-function is `2 α ω^ζ ω_c^{1−ζ}` … -/
theorem powerlaw_j_formula (α ζ ωc w : ℂ) :
    powerLawJ cFns α ζ ωc w = 2 * α * w ^ ζ * ωc ^ (1 - ζ) :=
  powerlaw_j α ζ ωc w

/-- … which for real parameters is the documented `2 α ω^ζ / ω_c^{ζ−1}` -/
theorem powerlaw_j_documented (α ζ ωc w : ℝ) (hw : 0 ≤ w) (hc : 0 < ωc) :
    powerLawJ cFns α ζ ωc w = ((2 * α * w ^ ζ / ωc ^ (ζ - 1) : ℝ) : ℂ) :=
  powerlaw_j_real α ζ ωc w hw hc

/-- the three cutoffs: `Θ(ω_c − ω)`, `e^{−ω/ω_c}`, `e^{−(ω/ω_c)²}`; any other type is rejected -/
theorem cutoffs (ω ωc : ℂ) :
    cutoffOf cFns "hard" ω ωc = some (if 0 < (ωc - ω).re then 1 else 0)
    ∧ cutoffOf cFns "exponential" ω ωc = some (cexp (-ω / ωc))
    ∧ cutoffOf cFns "gaussian" ω ωc = some (cexp (-(ω / ωc) ^ 2))
    ∧ cutoffOf cFns "lorentzian" ω ωc = none := by
  refine ⟨?_, rfl, rfl, rfl⟩
  simp only [cutoffOf, cutoffHard, cFns, Int.cast_zero, ite_self]

example : (0 : ℝ) ≤ 3 ∧ (0 : ℝ) < 2 := ⟨by norm_num, by norm_num⟩

end OQuPyVerif.Props.C12
