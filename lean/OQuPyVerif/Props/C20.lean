/-
  C20 — Results depend only on current inputs: no mutation, aliasing or stale state.

  Property theorems only (helper lemmas live in Lemmas/Aliasing*.lean).  The tables
  `memoSites`, `publicAttrs`, `copySites`, `arraySites` are regenerated from /repo's
  source on every run (`Generated/CacheKeys.lean`); the three `*_table` theorems below are
  decided on them, so a source change that adds an attribute read outside the cache key, a
  lambda capturing `self`, an aliasing `Bath`, or an in-place reshape of a layout-preserving
  copy makes this file fail to check.
-/
import OQuPyVerif.Generated.CacheKeys
import OQuPyVerif.Lemmas.AliasingMemo
import OQuPyVerif.Lemmas.AliasingArrays

namespace OQuPyVerif.Props.C20
open OQuPyVerif.Aliasing OQuPyVerif.Generated.CacheKeys

/-! ### what the source says (decided on the regenerated tables) -/

/-- every public / memoised method of the memoising classes reads attributes only through
    `self` of the object it is called on, and a memoised one reads only attributes that are
    part of its cache key or that cannot be assigned through the public API -/
theorem memo_table : TableOK isPublic memoSites := by
  unfold TableOK; decide

/-- `Bath` takes and hands out copies of its correlations object -/
theorem copy_table : ∀ c ∈ copySites, copyOK c = true := by decide

/-- every array site passes the static check: in-place operations only on arrays created
    inside the function, `.shape =` only to insert / remove axes of length 1, data writes
    only to private copies -/
theorem array_table : ∀ s ∈ arraySites, siteSafe s = true := by decide

/-! ### (1) cache soundness -/

/-- **cache_sound.**  After *every* history of constructions, copies, public attribute
    assignments, evaluations and cache evictions, evaluating any public or memoised method `k`
    on any live object `i` returns the body's value for the object's *current* attributes
    (`specEnv`): a memoised result is never stale.  `F` is any family of bodies that depend
    only on the attributes the translator saw them read. -/
theorem cache_sound {Out : Type} (F : Nat → (Read → Val) → Args → Out)
    (hF : DependsOnly memoSites F) (hist : List MOp) (hpub : ∀ op ∈ hist, opPublic isPublic op)
    (i k : Nat) (x : Args) (hi : i < (runM memoSites F initM hist).heap.length) :
    (stepM memoSites F (runM memoSites F initM hist) (.eval i k x)).2
      = some (F k (specEnv (runM memoSites F initM hist).heap i) x) :=
  eval_sound isPublic memoSites F memo_table hF _
    (inv_run isPublic memoSites F memo_table hF hist initM (inv_init isPublic memoSites F) hpub)
    i k x hi

/-- non-vacuity: the most general body (it returns what it read) depends only on its reads -/
example : DependsOnly memoSites (freeBody memoSites) := by
  intro k e e' x h
  simp only [freeBody, Prod.mk.injEq, and_true]
  exact List.map_congr_left h

/-- non-vacuity: a history that changes a parameter between two evaluations with equal
    arguments; the second evaluation sees the new value (the reads are printed in table
    order; 1 and then 5 is the temperature) -/
example :
    let k := memoIdx memoSites "PowerLawSD" "eta_function"
    (outsM memoSites (freeBody memoSites) initM
      [.new "PowerLawSD" [("temperature", 1), ("alpha", 2)], .eval 0 k [3],
       .setParam 0 "temperature" 5, .eval 0 k [3]]).map
        (fun o => o.map (fun p => (p.1.contains 1, p.1.contains 5)))
    = [none, some (true, false), none, some (false, true)] := by decide

/-- the model exhibits the stale answer the property text describes when the key omits a
    public attribute that the body reads (the memoisation as it was: bare `lru_cache`) -/
example :
    let old : List MemoSite :=
      [⟨"CustomSD", "eta_function", 0, true, ["tau"], [], [⟨"temperature", .direct⟩], [], .module⟩]
    siteOK isPublic (siteAt old 0) = false ∧
    outsM old (freeBody old) initM
      [.new "CustomSD" [("temperature", 1)], .eval 0 0 [3], .setParam 0 "temperature" 5,
       .eval 0 0 [3]]
    = [none, some ([1], [3]), none, some ([1], [3])] := by decide

/-! ### (2) copies are independent -/

/-- **copy_independent.**  Let `Bath(op, c)` / `bath.correlations` copy object `src` (any
    generated copy site) after any history `pre`.  Whatever is done afterwards to the original
    or to any other object (`post` never assigns an attribute of the copy), the copy `j`
    (a) is a different object, (b) still has the attribute values the original had when the
    copy was made, and (c) answers every method by exactly these values. -/
theorem copy_independent {Out : Type} (F : Nat → (Read → Val) → Args → Out)
    (hF : DependsOnly memoSites F) (cs : CopySite) (hcs : cs ∈ copySites)
    (pre post : List MOp) (hpre : ∀ op ∈ pre, opPublic isPublic op)
    (hpost : ∀ op ∈ post, opPublic isPublic op) (src : Nat)
    (hsrc : src < (runM memoSites F initM pre).heap.length)
    (hno : ∀ op ∈ post, touches (runM memoSites F initM pre).heap.length op = false) :
    let st1 := runM memoSites F initM pre
    let j := copyTarget st1.heap src cs.kind
    let st2 := runM memoSites F (stepM memoSites F st1 (.copy src cs.kind)).1 post
    j ≠ src ∧ paramsOf st2.heap j = paramsOf st1.heap src ∧
    ∀ k x, (stepM memoSites F st2 (.eval j k x)).2
      = some (F k (fun r => getP (paramsOf st1.heap src) r.attr) x) := by
  intro st1 j st2
  have hk : cs.kind = .shallow ∨ cs.kind = .deep := by
    have := copy_table cs hcs
    simpa [copyOK] using this
  have hj : j = st1.heap.length := by
    show copyTarget st1.heap src cs.kind = _
    rcases hk with hk | hk <;> simp [hk, copyTarget]
  have hget : st1.heap[src]? = some st1.heap[src] := List.getElem?_eq_getElem hsrc
  -- the copy step appends an object with the source's attribute values
  have hstep : (stepM memoSites F st1 (.copy src cs.kind)).1.heap.length = st1.heap.length + 1 ∧
      paramsOf (stepM memoSites F st1 (.copy src cs.kind)).1.heap st1.heap.length
        = paramsOf st1.heap src := by
    rcases hk with hk | hk <;> simp [hk, stepM, hget, paramsOf]
  have hI1 := inv_run isPublic memoSites F memo_table hF pre initM
    (inv_init isPublic memoSites F) hpre
  have hI1' := inv_step isPublic memoSites F memo_table hF st1 (.copy src cs.kind) hI1 trivial
  have hI2 := inv_run isPublic memoSites F memo_table hF post _ hI1' hpost
  have hjlt : j < (stepM memoSites F st1 (.copy src cs.kind)).1.heap.length := by
    rw [hstep.1, hj]; omega
  have hpar := paramsOf_run memoSites F post _ j hjlt (by rw [hj]; exact hno)
  have hpj : paramsOf (stepM memoSites F st1 (.copy src cs.kind)).1.heap j
      = paramsOf st1.heap src := by
    rw [hj]; exact hstep.2
  have hsrc' : src < st1.heap.length := hsrc
  refine ⟨by omega, hpar.1.trans hpj, ?_⟩
  intro k x
  have := eval_sound isPublic memoSites F memo_table hF st2 hI2 j k x hpar.2
  rw [this]
  have henv : specEnv st2.heap j = fun r => getP (paramsOf st1.heap src) r.attr := by
    funext r
    simp only [specEnv]
    rw [hpar.1.trans hpj]
  rw [henv]

/-- non-vacuity + the `Bath` scenario: copy, then change the original's `alpha`; the copy
    (object 1) still reads the old value -/
example :
    let k := memoIdx memoSites "PowerLawSD" "correlation"
    (outsM memoSites (freeBody memoSites) initM
      [.new "PowerLawSD" [("alpha", 1), ("temperature", 2)], .copy 0 .shallow,
       .setParam 0 "alpha" 4, .eval 1 k [], .eval 0 k []]).map
        (fun o => o.map (fun p => p.1.contains 4))
    = [none, none, none, some false, some true] := by decide

/-- the model exhibits the defect of lambdas that capture `self` in `__init__`: a read of
    kind `closure` is resolved on the original, so the copy follows the original -/
example :
    let old : List MemoSite :=
      [⟨"PowerLawSD", "correlation", 0, false, [], [], [⟨"alpha", .closure⟩], [], .module⟩]
    siteOK isPublic (siteAt old 0) = false ∧
    outsM old (freeBody old) initM
      [.new "PowerLawSD" [("alpha", 1)], .copy 0 .shallow, .setParam 0 "alpha" 4, .eval 1 0 []]
    = [none, none, none, some ([4], [])] := by decide

/-- the copy may be taken *after* memoised evaluations (`pre` in `copy_independent` is any
    history): evaluate on the original, copy, assign on one of the two, evaluate on both — in
    both directions each object answers by its own values -/
example :
    let k := memoIdx memoSites "PowerLawSD" "eta_function"
    (outsM memoSites (freeBody memoSites) initM
      [.new "PowerLawSD" [("temperature", 1)], .eval 0 k [3], .copy 0 .shallow,
       .setParam 0 "temperature" 5, .eval 0 k [3], .eval 1 k [3],
       .setParam 1 "temperature" 7, .eval 1 k [3], .eval 0 k [3]]).map
        (fun o => o.map (fun p => (p.1.contains 1, p.1.contains 5, p.1.contains 7)))
    = [none, some (true, false, false), none, none, some (false, true, false),
       some (true, false, false), none, some (false, false, true), some (false, true, false)] := by
  decide

/-- the model exhibits what goes wrong when the results are kept in a dict in the instance
    `__dict__` (placement `instance`) with a per-object "filled for" tuple: the shallow copy
    shares the dict, the original refills it for its new temperature, and the copy — whose own
    tuple still matches — returns the original's value (5 instead of 1) -/
example :
    let old : List MemoSite :=
      [⟨"CustomSD", "eta_function", 0, true, ["tau"], ["temperature"], [⟨"temperature", .direct⟩], [],
        .instance⟩]
    siteOK isPublic (siteAt old 0) = false ∧
    outsM old (freeBody old) initM
      [.new "CustomSD" [("temperature", 1)], .eval 0 0 [3], .copy 0 .shallow,
       .setParam 0 "temperature" 5, .eval 0 0 [3], .eval 1 0 [3]]
    = [none, some ([1], [3]), none, none, some ([5], [3]), some ([5], [3])] ∧
    -- a deep copy gets a dict of its own
    outsM old (freeBody old) initM
      [.new "CustomSD" [("temperature", 1)], .eval 0 0 [3], .copy 0 .deep,
       .setParam 0 "temperature" 5, .eval 0 0 [3], .eval 1 0 [3]]
    = [none, some ([1], [3]), none, none, some ([5], [3]), some ([1], [3])] := by decide

/-- what `copy_table` excludes for the object `Bath.correlations` hands out: with a copy made
    once and handed out ever after (`once`), an assignment on the handed-out object is seen by
    the next access (object 1 both times); with a copy per access it is not -/
example :
    let k := memoIdx memoSites "PowerLawSD" "correlation"
    (outsM memoSites (freeBody memoSites) initM
      [.new "PowerLawSD" [("alpha", 1)], .copy 0 .once, .setParam 1 "alpha" 4, .copy 0 .once,
       .eval 1 k []]).map (fun o => o.map (fun p => p.1.contains 4))
    = [none, none, none, none, some true] ∧
    copyTargetS (runM memoSites (freeBody memoSites) initM
      [.new "PowerLawSD" [("alpha", 1)], .copy 0 .once]) 0 .once = 1 ∧
    (outsM memoSites (freeBody memoSites) initM
      [.new "PowerLawSD" [("alpha", 1)], .copy 0 .shallow, .setParam 1 "alpha" 4, .copy 0 .shallow,
       .eval 2 k []]).map (fun o => o.map (fun p => p.1.contains 4))
    = [none, none, none, none, some false] := by decide

/-! ### (3) user arrays: no mutation, no dependence on the memory layout -/

/-- **no_mutation_layout_indep.**  For every array site of the anchored code (object 0 is the
    user's array, or — in the process-tensor getters — the tensor the object holds), every
    array `a0` (object 0; any strides whatsoever — C, Fortran, transposed, sliced, negative,
    broadcast —, writeable or not, any shape of the site's rank without empty axes) and every
    value of the integer variables:
    * if the site's operations succeed, the caller's array object is exactly as before
      (shape, strides, flags), no write went to the caller's buffer 0, and every array the
      site produced has the shape and contents the layout-free reference run `runL` computes
      from `a0`'s shape and values alone;
    * if they raise, the error is the one the layout-free run raises (a size mismatch, decided by
      shapes only) — never numpy's "incompatible shape for in-place modification". -/
theorem no_mutation_layout_indep (s : ArraySite) (hs : s ∈ arraySites) (c : Ctx) (a0 : Arr)
    (hc : c.inShape = a0.shape) (hrank : s.rank = 0 ∨ a0.shape.length = s.rank)
    (hz : ∀ d ∈ a0.shape, d ≠ 0) :
    (∀ st, runA c (initA a0) s.ops = .ok st →
      st.objs[0]? = some a0 ∧ 0 ∉ st.written ∧
      ∃ ls, runL c (initL a0.shape a0.vals) s.ops = .ok ls ∧ st.objs.length = ls.length ∧
        ∀ (j : Nat) (a : Arr) (l : LObj), st.objs[j]? = some a → ls[j]? = some l →
          a.shape = l.shape ∧ a.vals = l.vals) ∧
    (∀ e, runA c (initA a0) s.ops = .error e →
      e ≠ .notInPlace ∧ runL c (initL a0.shape a0.vals) s.ops = .error (.err e)) := by
  have hsafe := array_table s hs
  unfold siteSafe at hsafe
  have hL : runL c (initL a0.shape a0.vals) s.ops ≠ .error .layoutDependent := by
    have := static_run c s.rank (by rw [hc]; exact hrank) s.ops _ _ (srel_init c a0.vals) hsafe
    rwa [hc] at this
  have hA := sim_run c a0 s.ops _ _ (rel_init a0 hz) hL
  constructor
  · intro st hst
    rw [hst] at hA
    cases hl : runL c (initL a0.shape a0.vals) s.ops with
    | error e => rw [hl] at hA; cases e <;> simp [Agrees] at hA
    | ok ls =>
      rw [hl] at hA
      have hR : Rel a0 st ls := by simpa [Agrees] using hA
      exact ⟨hR.first, hR.unwritten, ls, rfl, hR.len,
        fun j a l ha hl' => ⟨(hR.obj j a l ha hl').shape, (hR.obj j a l ha hl').vals⟩⟩
  · intro e he
    rw [he] at hA
    cases hl : runL c (initL a0.shape a0.vals) s.ops with
    | ok ls => rw [hl] at hA; simp [Agrees] at hA
    | error e' =>
      rw [hl] at hA
      cases e' with
      | layoutDependent => exact absurd hl hL
      | err e'' =>
        have : e = e'' := by simpa [Agrees] using hA
        subst this
        exact ⟨runL_err c s.ops _ e hl, rfl⟩

/-- **layout_indep** (corollary): two user arrays with the same shape and values — whatever
    their strides and flags — lead to arrays of the same shapes and contents at every site. -/
theorem layout_indep (s : ArraySite) (hs : s ∈ arraySites) (c : Ctx) (a0 a1 : Arr)
    (hshape : a1.shape = a0.shape) (hvals : a1.vals = a0.vals)
    (hc : c.inShape = a0.shape) (hrank : s.rank = 0 ∨ a0.shape.length = s.rank)
    (hz : ∀ d ∈ a0.shape, d ≠ 0) (st0 st1 : AState)
    (h0 : runA c (initA a0) s.ops = .ok st0) (h1 : runA c (initA a1) s.ops = .ok st1) :
    st0.objs.map (fun a => (a.shape, a.vals)) = st1.objs.map (fun a => (a.shape, a.vals)) := by
  obtain ⟨_, _, ls0, hl0, hlen0, hobj0⟩ := (no_mutation_layout_indep s hs c a0 hc hrank hz).1 st0 h0
  obtain ⟨_, _, ls1, hl1, hlen1, hobj1⟩ :=
    (no_mutation_layout_indep s hs c a1 (hshape ▸ hc) (hshape ▸ hrank) (hshape ▸ hz)).1 st1 h1
  rw [hshape, hvals] at hl1
  have hls : ls0 = ls1 := by
    rw [hl0] at hl1; simpa using hl1
  subst hls
  apply List.ext_getElem?
  intro j
  simp only [List.getElem?_map]
  by_cases hj : j < ls0.length
  · have e0 : st0.objs[j]? = some st0.objs[j] := List.getElem?_eq_getElem (hlen0 ▸ hj)
    have e1 : st1.objs[j]? = some st1.objs[j] := List.getElem?_eq_getElem (hlen1 ▸ hj)
    have el : ls0[j]? = some ls0[j] := List.getElem?_eq_getElem hj
    have r0 := hobj0 j _ _ e0 el
    have r1 := hobj1 j _ _ e1 el
    rw [e0, e1]
    simp [r0.1, r0.2, r1.1, r1.2]
  · rw [List.getElem?_eq_none (by omega), List.getElem?_eq_none (by omega)]

/-- non-vacuity: a Fortran-ordered 2×2 density matrix through `AugmentedMPS` (rank 2):
    succeeds, caller untouched, result shape (1,4,1,1) with the values in logical order -/
example :
    (runA { inShape := [2, 2], par := fun _ => 0 }
        (initA { buf := 0, shape := [2, 2], strides := [1, 2], writeable := false, vals := [1, 2, 3, 4] })
        (arraySiteOf arraySites "AugmentedMPS.__init__" "gammas[*]" 2).ops).toOption.map
      (fun st => (st.objs[0]?.map (·.strides), st.written, st.objs.getLast?.map (fun a => (a.shape, a.vals))))
    = some (some [1, 2], [], some ([1, 4, 1, 1], [1, 2, 3, 4])) := by decide

/-- the model exhibits the defect of assigning `.shape` on the layout-preserving copy: for a
    Fortran-ordered (or transposed) matrix numpy refuses -/
example :
    let old : List AOp := [.npArray 0, .setShape 1 (.items [.dim (.lit 1), .dim (.mul (.inp 0) (.inp 1)),
      .dim (.lit 1), .dim (.lit 1)])]
    (runS 2 [{ shape := .input, own := false, ro := false }] old).isSome = false ∧
    (match runA { inShape := [2, 2], par := fun _ => 0 }
        (initA { buf := 0, shape := [2, 2], strides := [1, 2], writeable := true, vals := [1, 2, 3, 4] }) old with
      | .error e => some e | .ok _ => none) = some Err.notInPlace ∧
    (match runA { inShape := [2, 2], par := fun _ => 0 }
        (initA { buf := 0, shape := [2, 2], strides := [2, 1], writeable := true, vals := [1, 2, 3, 4] }) old with
      | .error e => some e | .ok _ => none) = none := by decide

/-! ### (4) re-use equals fresh objects -/

/-- **reuse_eq_fresh.**  After any history, evaluating method `k` on a re-used object `i`
    gives exactly what the same evaluation gives on a freshly constructed object with the
    same attribute values and an empty cache. -/
theorem reuse_eq_fresh {Out : Type} (F : Nat → (Read → Val) → Args → Out)
    (hF : DependsOnly memoSites F) (hist : List MOp) (hpub : ∀ op ∈ hist, opPublic isPublic op)
    (i k : Nat) (x : Args) (hi : i < (runM memoSites F initM hist).heap.length) (cls : String) :
    (stepM memoSites F (runM memoSites F initM hist) (.eval i k x)).2 =
    (stepM memoSites F
      (runM memoSites F initM [.new cls (paramsOf (runM memoSites F initM hist).heap i)])
      (.eval 0 k x)).2 := by
  rw [cache_sound F hF hist hpub i k x hi]
  have h2 := cache_sound F hF [.new cls (paramsOf (runM memoSites F initM hist).heap i)]
    (by intro op hop; simp only [List.mem_singleton] at hop; subst hop; trivial) 0 k x
    (by simp [runM, stepM, initM])
  rw [h2]
  congr 2

/-! ### (5) results derived from a caller-owned table are found again by its values only -/

/-- no function of the parameterised system / the gradient module recognises a parameter table
    by its identity (`is`, `id()`, a kept reference) -/
theorem arg_table : ∀ s ∈ argStores, argStoreOK s = true := by decide

/-- **arg_store_sound.**  For every listed function, every body `f` of the table's values and
    every history in which the caller creates tables, edits them in place, calls the function and
    the store forgets entries: a call with table `t` returns `f` of the values `t` holds *now*,
    and leaves all of the caller's tables as they are. -/
theorem arg_store_sound {Out : Type} (s : ArgStore) (hs : s ∈ argStores) (f : List Val → Out)
    (hist : List TOp) (t : Nat) (c : List Val)
    (ht : (runT s.kind f initT hist).tables[t]? = some c) :
    (stepT s.kind f (runT s.kind f initT hist) (.call t)).2 = some (f c) ∧
    (stepT s.kind f (runT s.kind f initT hist) (.call t)).1.tables
      = (runT s.kind f initT hist).tables := by
  have hk : s.kind ≠ .identity := by
    have := arg_table s hs
    simpa [argStoreOK] using this
  exact ⟨tcall_sound s.kind f hk _ (tinv_run s.kind f hk hist initT (tinv_init f)) t c ht,
    tcall_keeps_tables s.kind f _ t⟩

/-- non-vacuity, and the optimisation-loop scenario: call, edit the same table in place, call
    again — a store keyed on the values answers with the new values … -/
example :
    outsT .content (fun c => c) initT [.newTable [1, 2], .call 0, .mutate 0 [7, 2], .call 0]
    = [none, some [1, 2], none, some [7, 2]] := by decide

/-- … a store keyed on the table's identity answers with the old ones (what the obligation
    `arg_table` excludes) -/
example :
    outsT .identity (fun c => c) initT [.newTable [1, 2], .call 0, .mutate 0 [7, 2], .call 0]
    = [none, some [1, 2], none, some [1, 2]] := by decide

/-! ### (6) arrays returned by the operator helpers are new objects -/

/-- every public function of `oqupy.operators` (and `util.create_delta`) builds the array it
    returns anew: no memoising decorator, no module-level object, not its own argument -/
theorem return_table : ∀ s ∈ returnSites, returnOK s = true := by decide

/-- **returns_fresh.**  For every listed function and every history of calls and of user writes
    into arrays earlier calls returned: a call returns the pristine value (whatever was written
    into earlier results), in a buffer that no earlier call returned. -/
theorem returns_fresh (s : ReturnSite) (hs : s ∈ returnSites) (pristine : Val) (hist : List ROp) :
    (stepR s.kind pristine (runR s.kind pristine initR hist) .call).2 = some pristine ∧
    (runR s.kind pristine initR (hist ++ [.call])).results.Nodup := by
  have hk : s.kind = .fresh := by
    have := return_table s hs
    simpa [returnOK] using this
  rw [hk]
  refine ⟨rfl, ?_⟩
  exact (rinv_run pristine (hist ++ [.call]) initR rinv_init).2

/-- non-vacuity / the scenario `p = identity(2); p[1,1] = 0; identity(2)`: fresh arrays are
    unaffected, a memoised one hands the edited array out again -/
example :
    outsR .fresh 1 initR [.call, .write 0 9, .call] = [some 1, none, some 1] ∧
    outsR .cached 1 initR [.call, .write 0 9, .call] = [some 1, none, some 9] ∧
    (runR .cached 1 initR [.call, .call]).results = [0, 0] := by decide

/-! ### (7) what `initialize()` derives from the caller's parameter / chain objects -/

/-- every attribute `PtTebd.initialize` computes from `self._parameters` / `self._system_chain`
    is assigned unconditionally -/
theorem derived_table : ∀ s ∈ derivedStores, derivedOK s = true := by decide

/-- **reinit_current.**  For every listed attribute, whatever happened before (earlier
    initialisations, changes of the caller's objects in between): after `initialize()` the
    attribute is the value computed from the objects' *current* state. -/
theorem reinit_current {Out : Type} (s : DerivedStore) (hs : s ∈ derivedStores) (f : Val → Out)
    (st0 : DState Out) (hist : List DOp) :
    (runD s.guard f st0 (hist ++ [.init])).derived = some (f (runD s.guard f st0 hist).source) := by
  have hg : s.guard = .always := by
    have := derived_table s hs
    simpa [derivedOK] using this
  rw [hg]
  have happ : ∀ (l : List DOp) (st : DState Out),
      runD .always f st (l ++ [.init]) = stepD .always f (runD .always f st l) .init := by
    intro l
    induction l with
    | nil => intro st; rfl
    | cons op ops ih => intro st; simp only [List.cons_append, runD]; exact ih _
  rw [happ]
  exact (derived_after_init f _).1

/-- non-vacuity / the restart scenario: initialise, change dt, initialise again -/
example :
    (runD .always (fun v => v) { source := 1, derived := none }
      [.init, .mutate 5, .init]).derived = some 5 ∧
    (runD .onlyIfUnset (fun v => v) { source := 1, derived := none }
      [.init, .mutate 5, .init]).derived = some 1 := by decide

/-! ### (8) getters are functions of their current arguments -/

/-- whatever a getter of `Control` / `ChainControl` keeps between calls is keyed on every
    argument the kept value depends on (the table is empty when the getters keep nothing) -/
theorem getter_table : ∀ s ∈ getterStores, getterOK s = true := by decide

/-- **getter_current.**  For every attribute a getter keeps, any value `f` that depends only on
    the arguments the translator saw it use, and any history of calls (on any time grid) and
    resets: a call returns `f` of its *own* arguments. -/
theorem getter_current {Out : Type} (s : GetterStore) (hs : s ∈ getterStores)
    (f : (String → Val) → Out)
    (hf : ∀ e e' : String → Val, (∀ a ∈ s.used, e a = e' a) → f e = f e')
    (hist : List GOp) (args : List (String × Val)) :
    (stepG s.keyedOn f (runG s.keyedOn f { kept := none } hist) (.call args)).2
      = some (f (gArg args)) := by
  have hsub : ∀ a ∈ s.used, a ∈ s.keyedOn := by
    have := getter_table s hs
    simp only [getterOK, List.all_eq_true] at this
    intro a ha
    simpa using this a ha
  apply gcall_sound
  apply ginv_run s.used s.keyedOn f hsub hf
  intro k out h; simp at h

/-- the general statement does not depend on the table being non-empty: a store keyed on all
    used arguments answers for the second grid, one keyed on nothing answers with the first
    grid's value (`dt` 1 then 2) -/
example :
    outsG ["dt", "start_time"] (fun e => e "dt" + 10 * e "start_time") { kept := none }
      [.call [("dt", 1), ("start_time", 0)], .call [("dt", 2), ("start_time", 0)]]
      = [some 1, some 2] ∧
    outsG [] (fun e => e "dt" + 10 * e "start_time") { kept := none }
      [.call [("dt", 1), ("start_time", 0)], .call [("dt", 2), ("start_time", 0)]]
      = [some 1, some 1] ∧
    getterOK ⟨"", "Control._time_stamp_steps", "_control_steps", 0, ["pre_post", "dt", "start_time"],
      ["pre_post"]⟩ = false := by decide

end OQuPyVerif.Props.C20
