/-
  C10 — PT-TEBD chain dynamics are exact where checkable, in every execution mode.

  Statements are about `Model/Tebd.lean`, whose layer structure, read / write sets, executor
  table and step order are the generated `TebdLayers` / `ControlCompose` (rewritten from the
  source on every run).  The analytic primitive `expm` enters only through named hypotheses:
    hE    one-parameter group of a site propagator   expm(sL)·expm(tL) = expm((s+t)L)
    hgrp  the same for a two-site gate
    hG    zero coupling: the gate of bond i for time t is
            expm(t·factor_l·L_i) ⊗ expm(t·factor_r·L_{i+1})    (expm(A⊗1+1⊗B) = expm A ⊗ expm B)
    hcomm gates of different bonds commute
-/
import Mathlib.Tactic.IntervalCases
import OQuPyVerif.Lemmas.TebdSchedule
import OQuPyVerif.Lemmas.TebdExtra
import OQuPyVerif.Lemmas.TebdLindblad

namespace OQuPyVerif.Props.C10
open OQuPyVerif OQuPyVerif.Tebd OQuPyVerif.Generated
open Finset BigOperators Function

/-! ## 1. every site Liouvillian gets the right total weight -/

/-- For every chain length `n ≥ 2`, both Trotter orders and every site: summed over the layers
    of one propagator (half a step) the site's own Liouvillian is exponentiated for `dt/2`
    in total (first / last site: weight 1 on their single bond; interior sites: ½ + ½). -/
theorem site_weight_one (n : ℕ) (hn : 2 ≤ n) (order : ℤ) (ho : order = 1 ∨ order = 2) (dt : ℚ)
    (j : ℕ) (hj : j < n) : halfStepSiteWeight n order dt j = dt / 2 := by
  unfold halfStepSiteWeight
  rw [halfStep_sum n order ho dt (fun i => siteShare n i j), siteShare_sum n hn j hj, mul_one]

/-- … and the coupling of every bond for `dt/2` (it enters its bond with coefficient one). -/
theorem bond_weight_one (n : ℕ) (order : ℤ) (ho : order = 1 ∨ order = 2) (dt : ℚ)
    (i : ℕ) (hi : i < n - 1) :
    halfStepBondWeight n order dt i = dt / 2 ∧ couplingShare n i = 1 :=
  ⟨labelTime_halfStepGates n order ho dt i hi, couplingShare_eq n i⟩

/-- `compute_step` applies the propagator twice: a full step gives `dt`. -/
theorem full_step_weight (n : ℕ) (hn : 2 ≤ n) (order : ℤ) (ho : order = 1 ∨ order = 2) (dt : ℚ)
    (j : ℕ) (hj : j < n) :
    propagatorsPerStep = 2 ∧ (propagatorsPerStep : ℚ) * halfStepSiteWeight n order dt j = dt := by
  have h2 : propagatorsPerStep = 2 := by decide
  refine ⟨h2, ?_⟩
  rw [site_weight_one n hn order ho dt j hj, h2]
  push_cast; ring

example : halfStepSiteWeight 5 2 (1/10) 2 = 1/20 :=
  (site_weight_one 5 (by omega) 2 (Or.inr rfl) (1/10) 2 (by omega)).trans (by norm_num)

/-! ## 2. execution modes and completion orders -/

/-- every layer of a propagator is one of the two Trotter layers -/
theorem layers_are_trotter (n : ℕ) (order : ℤ) (dt : ℚ) (ly : List ℕ × ℚ)
    (h : ly ∈ halfStepLayers n order dt) : ∃ ℓ, ly.1 = layerBonds n ℓ := by
  unfold halfStepLayers at h
  split at h
  · simp at h
  · simp only [List.mem_map] at h
    obtain ⟨ℓ, _, rfl⟩ := h
    exact ⟨ℓ, rfl⟩

/-- **every gate acts on its own bond**: the gate built from `nn_full_liouvillians[i]` is given
    the site `i` (generated `gate_site`), so the gates of a layer act on exactly the bonds of
    their slice positions, no bond twice, and the two layers together carry every bond once -/
theorem gate_on_own_bond (n : ℕ) :
    (∀ i, gateSite i = i) ∧
    (∀ ℓ sl, TebdLayers.trotter_slices[ℓ]? = some sl → layerBonds n ℓ = sliceBonds (numBonds n) sl) ∧
    (∀ ℓ, (layerBonds n ℓ).Nodup) ∧
    (∀ h : ℕ → ℚ, ((layerBonds n 0).map h).sum + ((layerBonds n 1).map h).sum
        = ∑ i ∈ Finset.range (n - 1), h i) := by
  refine ⟨gateSite_eq, ?_, ?_, fun h => layers_partition n h⟩
  · intro ℓ sl hsl
    unfold layerBonds
    rw [hsl]
    exact map_gateSite _
  · intro ℓ
    exact (layerBonds_pairwise n ℓ).imp (fun {a b} (h : a + 2 ≤ b) => by omega)

/-- within a Trotter layer, different gates replace different tensors, and no gate copies a
    tensor another gate of the layer replaces — for all chain lengths -/
theorem layer_gates_disjoint (n ℓ a b : ℕ) (ha : a ∈ layerBonds n ℓ) (hb : b ∈ layerBonds n ℓ)
    (hab : a ≠ b) :
    (∀ c, c ∈ gateWrites a → c ∉ gateWrites b) ∧ (∀ c, c ∈ gateReads a → c ∉ gateWrites b) := by
  have hp := layerBonds_apart n ℓ
  have hR : (layerBonds n ℓ).Pairwise (fun x y => x = y ∨ Apart x y) := hp.imp (fun h => Or.inr h)
  have hR' : (layerBonds n ℓ).Pairwise (flip (fun x y => x = y ∨ Apart x y)) :=
    hp.imp (fun h => Or.inr h.symm)
  have hall := List.Pairwise.forall_of_forall_of_flip (R := fun x y => x = y ∨ Apart x y)
    (fun x _ => Or.inl rfl) hR hR'
  rcases hall ha hb with e | hap
  · exact absurd e hab
  · exact ⟨writes_disjoint a b hap, reads_writes_disjoint a b hap⟩

/-- **sequential = parallel (map) = any completion order**, for every Trotter layer of every
    chain length, whatever the tensors are and whatever the gates compute. -/
theorem layer_order_indep {V : Type} (n ℓ : ℕ) (f : ℕ → List V → List V) (st : Cell → V) :
    seqRun f (layerBonds n ℓ) st = mapRun f (layerBonds n ℓ) st ∧
    ∀ outs' : List (ℕ × List V), (mapOutputs f (layerBonds n ℓ) st).Perm outs' →
      completionRun st outs' = mapRun f (layerBonds n ℓ) st := by
  refine ⟨seqRun_eq_mapRun f _ (layerBonds_apart n ℓ) st, ?_⟩
  intro outs' hp
  exact (completionRun_perm st _ outs' hp
    (mapOutputs_pairwise f _ st (layerBonds_apart n ℓ))).symm

/-- the execution kinds the back-end can select give the same state after every layer of a
    propagator -/
theorem mode_indep {V : Type} (n : ℕ) (order : ℤ) (dt : ℚ) (k1 k2 : TebdLayers.ExecKind)
    (f : ℕ → List V → List V) (ly : List ℕ × ℚ) (h : ly ∈ halfStepLayers n order dt)
    (st : Cell → V) : runLayer k1 f ly.1 st = runLayer k2 f ly.1 st := by
  obtain ⟨ℓ, hℓ⟩ := layers_are_trotter n order dt ly h
  rw [hℓ]
  have e := (layer_order_indep n ℓ f st).1
  cases k1 <;> cases k2 <;> simp only [runLayer, e]

/-- `backend_config` without `'parallel'` runs the sequential loop; `'multithread'` and
    `'multiprocess'` run read-all / `Executor.map` / write-all -/
theorem exec_modes :
    execKindOf none = some .sequentialLoop ∧
    execKindOf (some "multithread") = some .readAllMapWriteAll ∧
    execKindOf (some "multiprocess") = some .readAllMapWriteAll := by
  refine ⟨rfl, ?_, ?_⟩ <;> decide

/-- every executor class named in `apply_nn_gate_layer` is looked up in a module that the
    import statements of `pt_tebd_backend.py` themselves load (`import concurrent` alone does not
    load `concurrent.futures`) -/
theorem executors_importable :
    ∀ r ∈ TebdLayers.exec_table, resolvable r.2.1 = true := by decide

/-- **a single-site gate applies its matrix, not the transpose**: with the leg wiring of
    `PtTebdBackend.apply_site_gate` read from the source (`ControlCompose.siteGate_*`), a site
    gate (ChainControl superoperator) with matrix `C` on site `j` maps the state to
    `Σ_a C (c_j) a · ψ(c[j ↦ a])`, i.e. the site's `vec ρ` to `C · vec ρ` -/
theorem site_gate_applies_matrix {K : Type} [CommRing K] (ch : Chain K) (j k : ℕ) (hj : j < ch.n)
    (ctl : ℕ → ℕ → Option (ℕ → ℕ → K)) (C : ℕ → ℕ → K) (hC : ctl j k = some C) :
    siteGateActs = true ∧ siteGateTable C = C ∧
    Op.site (physSlot j) (ch.L j) (ch.L j) C ∈ ch.ctrlOps ctl k ∧
    ∀ ψ c, (Op.site (physSlot j) (ch.L j) (ch.L j) C).run ψ c
      = ∑ a ∈ range (ch.L j), C (c (physSlot j)) a * ψ (update c (physSlot j) a) := by
  refine ⟨by decide, siteGateTable_eq C, ?_, fun _ _ => rfl⟩
  unfold Chain.ctrlOps
  simp only [List.mem_filterMap, List.mem_range, Option.map_eq_some_iff]
  exact ⟨j, hj, C, hC, by rw [siteGateTable_eq]⟩

/-! ## 3. uncoupled chains -/

section Uncoupled
variable {K : Type} [CommRing K]

/-- a Kronecker-product gate maps a site-product state to a site-product state, changing
    only the factors of its two sites by the two single-site maps — all chain lengths -/
theorem kron_gate_is_local (n : ℕ) (w : ℕ → Config → K) (hloc : ∀ k, LocalTo k (w k))
    (i : ℕ) (hi : i + 1 < n) (m1 m2 : ℕ) (A B : ℕ → ℕ → K) :
    applyPair (physSlot i) (physSlot (i + 1)) m1 m2 (kron A B) (siteProd n w)
      = siteProd n (update (update w (i + 1) (applySite (physSlot (i + 1)) m2 B (w (i + 1))))
          i (applySite (physSlot i) m1 A (w i))) :=
  applyKron_siteProd n w hloc i hi m1 m2 A B

/-- one propagator of an uncoupled chain is the half-step propagator `E j (dt/2)` on every
    site (on ANY chain state) -/
theorem uncoupled_half_step (ch : Chain K) (E : ℕ → ℚ → ℕ → ℕ → K) (order : ℤ)
    (ho : order = 1 ∨ order = 2) (dt : ℚ) (hdt : dt ≠ 0) (hn : 2 ≤ ch.n)
    (hE : ∀ j s t, mmul (ch.L j) (E j s) (E j t) = E j (s + t))
    (hG : ∀ i t, ch.gate i t = kron (E i (t * TebdLayers.factor_l (i : ℤ) (ch.n : ℤ)))
      (E (i + 1) (t * TebdLayers.factor_r (i : ℤ) (ch.n : ℤ))))
    (ψ : Config → K) :
    runOps (ch.halfOps order dt) ψ
      = (List.range ch.n).foldl (fun φ j => ch.siteOp E j (dt / 2) φ) ψ :=
  halfOps_uncoupled ch E order ho dt hdt hn hE hG ψ

/-- **an uncoupled chain evolves site by site**: a step maps the site-product state with
    factors `w j` to the site-product state whose `j`-th factor is `w j` after the single-site
    step (`siteStepOps`: post-control, `E j (dt/2)`, process-tensor MPO, `E j (dt/2)`,
    pre-control of the next step) -/
theorem uncoupled_is_product (ch : Chain K) (E : ℕ → ℚ → ℕ → ℕ → K) (order : ℤ)
    (ho : order = 1 ∨ order = 2) (dt : ℚ) (hdt : dt ≠ 0) (hn : 2 ≤ ch.n)
    (hE : ∀ j s t, mmul (ch.L j) (E j s) (E j t) = E j (s + t))
    (hG : ∀ i t, ch.gate i t = kron (E i (t * TebdLayers.factor_l (i : ℤ) (ch.n : ℤ)))
      (E (i + 1) (t * TebdLayers.factor_r (i : ℤ) (ch.n : ℤ))))
    (k : ℕ) (w : ℕ → Config → K) (hloc : ∀ j, LocalTo j (w j)) :
    runOps (ch.stepOps order dt k) (siteProd ch.n w)
        = siteProd ch.n (fun j => runOps (ch.siteStepOps E dt j k) (w j))
      ∧ ∀ j, j < ch.n → LocalTo j (runOps (ch.siteStepOps E dt j k) (w j)) :=
  step_uncoupled ch E order ho dt hdt hn hE hG k w hloc

/-- the single-site step is one loop iteration of `compute_dynamics` (`PT.mpoStep`, the model of
    C02/C03) with the site's own process tensor and the propagators `E j (dt/2)` -/
theorem uncoupled_site_is_compute_dynamics (ch : Chain K) (E : ℕ → ℚ → ℕ → ℕ → K) (dt : ℚ)
    (j k : ℕ) (hpost : ch.post j k = none) (hpre : ch.pre j (k + 1) = none)
    (hpt : ch.hasPT j k = true) (X : ℕ → ℕ → K) :
    runOps (ch.siteStepOps E dt j k) (siteFactor j X)
      = siteFactor j (PT.mpoStep (ch.L j) (ch.D j) (ch.T j) (fun _ => E j (dt / 2))
          (fun _ => E j (dt / 2)) k X) :=
  siteStep_eq_mpoStep ch E dt j k hpost hpre hpt X

/-- the reduced state of site `j` of a site-product state is the closing of its own factor
    times the total traces of the other sites' factors -/
theorem uncoupled_reduced_state (ch : Chain K) (k j : ℕ) (hj : j < ch.n) (w : ℕ → Config → K)
    (hloc : ∀ i, LocalTo i (w i)) (c : Config) :
    ch.reduced k [j] (siteProd ch.n w) c
      = runOps (ch.siteClosingOps k [j] j) (w j) c
        * ∏ i ∈ (range ch.n).erase j, runOps (ch.siteClosingOps k [j] i) (w i) c := by
  rw [reduced_siteProd ch k [j] w hloc, siteProd_split _ _ j hj]

end Uncoupled

/-! ### the sequence of operations on a site is that of `compute_dynamics` -/

/-- what happens to the state of a site -/
inductive Act where
  | pre | record | post | halfProp | mpo
  deriving DecidableEq, Repr

def tebdAct : ControlCompose.TebdOp → Option Act
  | .controlsPre => some .pre
  | .controlsPost => some .post
  | .nnLayers => some .halfProp
  | .applyPTs => some .mpo
  | .appendResults => some .record
  | _ => none

def cdAct : ControlCompose.LoopOp → Option Act
  | .applyPre => some .pre
  | .record => some .record
  | .recordFinal => some .record
  | .applyPost => some .post
  | .applyP1 => some .halfProp
  | .applyMpo => some .mpo
  | .applyP2 => some .halfProp
  | _ => none

/-- `PtTebd.initialize` followed by `N` calls of `compute_step` -/
def tebdTrace (N : ℕ) : List Act :=
  ControlCompose.tebdInitialize.filterMap tebdAct
    ++ (List.replicate N (ControlCompose.tebdComputeStep.filterMap tebdAct)).flatten

/-- `compute_dynamics` with `num_steps = N`, `record_all = True`: `N` full loop iterations, the
    iteration that ends at `break`, and the statements after the loop -/
def cdTrace (N : ℕ) : List Act :=
  (List.replicate N (ControlCompose.cdLoopBody.filterMap cdAct)).flatten
    ++ (ControlCompose.cdLoopBody.takeWhile (fun o => o != .breakIfLast)).filterMap cdAct
    ++ ControlCompose.cdAfterLoop.filterMap cdAct

theorem rotate_replicate {α : Type} (a b : List α) (N : ℕ) :
    a ++ (List.replicate N (b ++ a)).flatten = (List.replicate N (a ++ b)).flatten ++ a := by
  induction N with
  | zero => simp
  | succ N ih =>
    rw [List.replicate_succ, List.flatten_cons, List.replicate_succ, List.flatten_cons]
    calc a ++ (b ++ a ++ (List.replicate N (b ++ a)).flatten)
        = a ++ b ++ (a ++ (List.replicate N (b ++ a)).flatten) := by simp [List.append_assoc]
      _ = a ++ b ++ ((List.replicate N (a ++ b)).flatten ++ a) := by rw [ih]
      _ = _ := by simp [List.append_assoc]

/-- **sequence equality**: per site, PT-TEBD applies — for every number of steps — exactly the
    sequence of operations a single-site `compute_dynamics` applies (pre-control, record,
    post-control, half-step propagator, MPO, half-step propagator, …) -/
theorem site_sequence_eq (N : ℕ) : tebdTrace N = cdTrace N := by
  have ha : ControlCompose.tebdInitialize.filterMap tebdAct = [Act.pre, Act.record] := by decide
  have hs : ControlCompose.tebdComputeStep.filterMap tebdAct
      = [Act.post, Act.halfProp, Act.mpo, Act.halfProp] ++ [Act.pre, Act.record] := by decide
  have hb : ControlCompose.cdLoopBody.filterMap cdAct
      = [Act.pre, Act.record] ++ [Act.post, Act.halfProp, Act.mpo, Act.halfProp] := by decide
  have hl : (ControlCompose.cdLoopBody.takeWhile (fun o => o != .breakIfLast)).filterMap cdAct
      = [Act.pre] := by decide
  have hf : ControlCompose.cdAfterLoop.filterMap cdAct = [Act.record] := by decide
  unfold tebdTrace cdTrace
  rw [ha, hs, hb, hl, hf, rotate_replicate, List.append_assoc]
  rfl

/-! ## 4. two-site chains and chains whose gates commute -/

section Exact
variable {K : Type} [CommRing K]

/-- **chains whose gates commute** (and form one-parameter groups): one propagator equals one
    gate per bond for the time `dt/2` — the factorised form of the exact propagator of the sum
    of the commuting bond Liouvillians -/
theorem commuting_gates_exact (ch : Chain K) (order : ℤ) (ho : order = 1 ∨ order = 2) (dt : ℚ)
    (hdt : dt ≠ 0)
    (hgrp : ∀ i s t, pmul (ch.L i) (ch.L (i + 1)) (ch.gate i s) (ch.gate i t) = ch.gate i (s + t))
    (hcomm : ∀ i i' s t (φ : Config → K), i < ch.n - 1 → i' < ch.n - 1 → i ≠ i' →
      ch.bondOp i s (ch.bondOp i' t φ) = ch.bondOp i' t (ch.bondOp i s φ))
    (ψ : Config → K) :
    runOps (ch.halfOps order dt) ψ
      = (List.range (ch.n - 1)).foldl (fun φ i => ch.bondOp i (dt / 2) φ) ψ :=
  halfOps_commuting ch order ho dt hdt hgrp hcomm ψ

/-- **two sites**: the layers of one propagator multiply to the gate for `dt/2`, and a whole
    step without process tensors and controls to the gate for `dt` — the exact propagator
    `expm(dt·L)` of the full Liouvillian, under the one-parameter-group law alone -/
theorem two_site_exact (ch : Chain K) (hn : ch.n = 2) (order : ℤ) (ho : order = 1 ∨ order = 2)
    (dt : ℚ) (hdt : dt ≠ 0)
    (hgrp : ∀ s t, pmul (ch.L 0) (ch.L 1) (ch.gate 0 s) (ch.gate 0 t) = ch.gate 0 (s + t))
    (ψ : Config → K) :
    runOps (ch.halfOps order dt) ψ = ch.bondOp 0 (dt / 2) ψ ∧
    ∀ k, (∀ j, ch.post j k = none) → (∀ j, ch.pre j (k + 1) = none) →
      (∀ j, ch.hasPT j k = false) → runOps (ch.stepOps order dt k) ψ = ch.bondOp 0 dt ψ := by
  have hg : ∀ s t (x : Config → K), ch.bondOp 0 s (ch.bondOp 0 t x) = ch.bondOp 0 (s + t) x := by
    intro s t x
    unfold Chain.bondOp
    rw [applyPair_comp _ _ (physSlot_ne_succ 0), hgrp]
  have hhalf : ∀ φ : Config → K, runOps (ch.halfOps order dt) φ = ch.bondOp 0 (dt / 2) φ := by
    intro φ
    rw [runOps_halfOps]
    have hlt : ∀ g ∈ halfStepGates ch.n order dt, g.1 < 1 := by
      intro g hg'
      have := halfStepGates_lt ch.n order dt g hg'
      omega
    have hocc : ∀ i, i < 1 → ∃ g ∈ halfStepGates ch.n order dt, g.1 = i := by
      intro i hi
      by_contra hno
      have hz := labelTime_of_not_occ (halfStepGates ch.n order dt) i
        (fun g hg' e => hno ⟨g, hg', e⟩)
      rw [labelTime_halfStepGates ch.n order ho dt i (by omega)] at hz
      exact hdt (by linarith)
    have hg1 : ∀ i s t (x : Config → K), ch.bondOp i s (ch.bondOp i t x) = ch.bondOp i (s + t) x ∨ True :=
      fun _ _ _ _ => Or.inr trivial
    -- all gates sit on bond 0: relabel the family so that only bond 0 matters
    let P : ℕ → ℚ → (Config → K) → (Config → K) := fun _ t => ch.bondOp 0 t
    have hPeq : applySeq ch.bondOp (halfStepGates ch.n order dt) φ
        = applySeq P (halfStepGates ch.n order dt) φ := by
      unfold applySeq
      apply List.foldl_ext
      intro y g hg'
      have : g.1 = 0 := by have := hlt g hg'; omega
      show ch.bondOp g.1 g.2 y = ch.bondOp 0 g.2 y
      rw [this]
    rw [hPeq, applySeq_canonical P (fun _ s t x => hg s t x) 1
      (fun i i' _ _ _ hi hi' hne => absurd (by omega : i = i') hne) 1 (le_refl _) _ hlt hocc]
    simp only [List.range_one, List.foldl_cons, List.foldl_nil, P]
    rw [labelTime_halfStepGates ch.n order ho dt 0 (by omega)]
  refine ⟨hhalf ψ, ?_⟩
  intro k hpost hpre hpt
  rw [stepOps_bare ch order dt k hpost hpre hpt, hhalf, hhalf, hg]
  congr 1
  ring

/-- the gates of an uncoupled chain satisfy the hypotheses of `commuting_gates_exact` -/
theorem uncoupled_gates_commute (ch : Chain K) (E : ℕ → ℚ → ℕ → ℕ → K)
    (hE : ∀ j s t, mmul (ch.L j) (E j s) (E j t) = E j (s + t))
    (hG : ∀ i t, ch.gate i t = kron (E i (t * TebdLayers.factor_l (i : ℤ) (ch.n : ℤ)))
      (E (i + 1) (t * TebdLayers.factor_r (i : ℤ) (ch.n : ℤ)))) :
    (∀ i s t, pmul (ch.L i) (ch.L (i + 1)) (ch.gate i s) (ch.gate i t) = ch.gate i (s + t)) ∧
    (∀ i i' s t (φ : Config → K),
      ch.bondOp i s (ch.bondOp i' t φ) = ch.bondOp i' t (ch.bondOp i s φ)) :=
  ⟨gate_group_of_kron ch E hE hG, bondOp_comm_of_kron ch E hE hG⟩

end Exact

/-! ## 5. norm and partial traces -/

section Norm
variable {K : Type} [CommRing K]

/-- a step leaves the total trace unchanged when gates and controls preserve the trace
    covector and every process tensor's cap of step `k+1`, closed over MPO `k` with the
    trace, is its cap of step `k` -/
theorem norm_step (ch : Chain K) (order : ℤ) (dt : ℚ) (k : ℕ)
    (hg : ∀ i t, i + 1 < ch.n →
      TracePres2 (ch.d i) (ch.L i) (ch.d (i + 1)) (ch.L (i + 1)) (ch.gate i t))
    (hpost : ∀ j M, ch.post j k = some M → TracePres (ch.d j) (ch.L j) M)
    (hpre : ∀ j M, ch.pre j (k + 1) = some M → TracePres (ch.d j) (ch.L j) M)
    (hT : ∀ j, j < ch.n → ch.hasPT j k = true → ∀ b i, b < ch.D j k → i < ch.L j →
      ∑ b' ∈ range (ch.D j (k + 1)), ∑ o ∈ range (ch.L j),
        ch.cap j (k + 1) b' * trVec (ch.d j) o * ch.T j k b b' i o
        = ch.cap j k b * trVec (ch.d j) i)
    (hN : ∀ j, j < ch.n → ch.hasPT j k = false →
      ch.D j (k + 1) = ch.D j k ∧ ch.cap j (k + 1) = ch.cap j k)
    (ψ : Config → K) :
    ch.norm (k + 1) (runOps (ch.stepOps order dt k) ψ) = ch.norm k ψ := by
  rw [norm_eq_traceAt, norm_eq_traceAt, traceAt_step ch order dt k hg hpost hpre hT hN]

/-- **the norm stays what it was** along the whole computation (one, for a normalised start) -/
theorem norm_one (ch : Chain K) (order : ℤ) (dt : ℚ) (k0 : ℕ)
    (hg : ∀ i t, i + 1 < ch.n →
      TracePres2 (ch.d i) (ch.L i) (ch.d (i + 1)) (ch.L (i + 1)) (ch.gate i t))
    (hpost : ∀ j k M, ch.post j k = some M → TracePres (ch.d j) (ch.L j) M)
    (hpre : ∀ j k M, ch.pre j k = some M → TracePres (ch.d j) (ch.L j) M)
    (hT : ∀ j k, j < ch.n → ch.hasPT j k = true → ∀ b i, b < ch.D j k → i < ch.L j →
      ∑ b' ∈ range (ch.D j (k + 1)), ∑ o ∈ range (ch.L j),
        ch.cap j (k + 1) b' * trVec (ch.d j) o * ch.T j k b b' i o
        = ch.cap j k b * trVec (ch.d j) i)
    (hN : ∀ j k, j < ch.n → ch.hasPT j k = false →
      ch.D j (k + 1) = ch.D j k ∧ ch.cap j (k + 1) = ch.cap j k)
    (ψ0 : Config → K) (h1 : ch.norm k0 ψ0 = 1) (m : ℕ) :
    ch.norm (k0 + m) (ch.stateAt order dt k0 ψ0 m) = 1 := by
  rw [norm_eq_traceAt, traceAt_stateAt ch order dt k0 hg hpost hpre hT hN ψ0 m, ← norm_eq_traceAt, h1]

/-- **partial-trace consistency**: tracing the kept site `j` out of the reduced state of the
    sites `keep` gives the reduced state of `keep` without `j` — for every chain state -/
theorem partial_trace_consistent (ch : Chain K) (k : ℕ) (keep : List ℕ) (j : ℕ) (hj : j < ch.n)
    (hjk : j ∈ keep) (ψ : Config → K) :
    capOp (ch.physEntry j) (ch.reduced k keep ψ)
      = ch.reduced k (keep.filter (fun i => decide (i ≠ j))) ψ :=
  reduced_trace_out ch k keep j hj hjk ψ

end Norm

/-! ## non-vacuity: a concrete three-site chain satisfying the hypotheses -/

/-- `[[1, t], [0, 1]]` (zero elsewhere): a one-parameter group that is not the identity -/
def shear (t : ℚ) : ℕ → ℕ → ℚ
  | 0, 0 => 1
  | 0, 1 => t
  | 1, 1 => 1
  | _, _ => 0

set_option linter.unnecessarySeqFocus false in
theorem shear_group (s t : ℚ) : mmul 2 (shear s) (shear t) = shear (s + t) := by
  funext x b
  simp only [mmul, Finset.sum_range_succ, Finset.sum_range_zero, zero_add]
  rcases x with _ | _ | x <;> rcases b with _ | _ | b <;> simp [shear] <;> ring

/-- site `j` has the group `t ↦ shear ((j+1)·t)` -/
def exE (j : ℕ) (t : ℚ) : ℕ → ℕ → ℚ := shear ((j + 1 : ℚ) * t)

theorem exE_group (j : ℕ) (s t : ℚ) : mmul 2 (exE j s) (exE j t) = exE j (s + t) := by
  unfold exE
  rw [shear_group, mul_add]

/-- a trace-preserving, non-unitary single-site map for `d = 2` (`L = 4`): decay towards `|0⟩⟨0|` -/
def decay : ℕ → ℕ → ℚ
  | 0, 0 => 1
  | 0, 3 => 1/2
  | 1, 1 => 1/2
  | 2, 2 => 1/2
  | 3, 3 => 1/2
  | _, _ => 0

set_option linter.unnecessarySeqFocus false in
theorem decay_tracePres : TracePres (K := ℚ) 2 4 decay := by
  intro a ha
  simp only [Finset.sum_range_succ, Finset.sum_range_zero, zero_add, trVec]
  interval_cases a <;> simp [decay] <;> norm_num

/-- uncoupled example chain: three two-dimensional "Liouville" sites with shear propagators -/
def exChain : Chain ℚ where
  n := 3
  d := fun _ => 1
  L := fun _ => 2
  gate := fun i t => kron (exE i (t * TebdLayers.factor_l (i : ℤ) 3))
    (exE (i + 1) (t * TebdLayers.factor_r (i : ℤ) 3))
  D := fun _ _ => 1
  hasPT := fun _ _ => false
  T := fun _ _ _ _ _ _ => 0
  cap := fun _ _ b => if b = 0 then 1 else 0
  pre := fun _ _ => none
  post := fun _ _ => none

/-- the hypotheses of `uncoupled_is_product` / `uncoupled_half_step` hold for `exChain` -/
example : runOps (exChain.stepOps 2 (1/10) 0) (siteProd 3 (fun j => siteFactor j (fun _ s => (s : ℚ) + 1)))
    = siteProd 3 (fun j => runOps (exChain.siteStepOps exE (1/10) j 0)
        (siteFactor j (fun _ s => (s : ℚ) + 1))) :=
  (uncoupled_is_product exChain exE 2 (Or.inr rfl) (1/10) (by norm_num) (by decide)
    (fun j s t => exE_group j s t) (fun _ _ => rfl) 0 _
    (fun j => localTo_siteFactor j _)).1

/-- … and so do those of `commuting_gates_exact` (through `uncoupled_gates_commute`) -/
example (ψ : Config → ℚ) : runOps (exChain.halfOps 1 (1/10)) ψ
    = (List.range 2).foldl (fun φ i => exChain.bondOp i (1/10 / 2) φ) ψ :=
  commuting_gates_exact exChain 1 (Or.inl rfl) (1/10) (by norm_num)
    (uncoupled_gates_commute exChain exE (fun j s t => exE_group j s t) (fun _ _ => rfl)).1
    (fun i i' s t φ _ _ _ =>
      (uncoupled_gates_commute exChain exE (fun j s t => exE_group j s t) (fun _ _ => rfl)).2 i i' s t φ)
    ψ

/-- two sites, a gate family that is a one-parameter group but NOT a Kronecker product of
    site maps being required: here `kron (shear s) (shear s)` -/
def exTwo : Chain ℚ where
  n := 2
  d := fun _ => 1
  L := fun _ => 2
  gate := fun _ t => kron (shear t) (shear t)
  D := fun _ _ => 1
  hasPT := fun _ _ => false
  T := fun _ _ _ _ _ _ => 0
  cap := fun _ _ b => if b = 0 then 1 else 0
  pre := fun _ _ => none
  post := fun _ _ => none

example (ψ : Config → ℚ) : runOps (exTwo.stepOps 2 (1/10) 0) ψ = exTwo.bondOp 0 (1/10) ψ :=
  (two_site_exact exTwo rfl 2 (Or.inr rfl) (1/10) (by norm_num)
    (fun s t => by
      show pmul 2 2 (kron (shear s) (shear s)) (kron (shear t) (shear t)) = kron (shear (s+t)) (shear (s+t))
      rw [pmul_kron, shear_group]) ψ).2 0 (fun _ => rfl) (fun _ => rfl) (fun _ => rfl)

/-- a chain of two qubits whose gates are the non-unitary trace-preserving `decay ⊗ decay`,
    with a trace-preserving control: the hypotheses of `norm_one` are satisfiable -/
def exNorm : Chain ℚ where
  n := 2
  d := fun _ => 2
  L := fun _ => 4
  gate := fun _ _ => kron decay decay
  D := fun _ _ => 1
  hasPT := fun _ _ => false
  T := fun _ _ _ _ _ _ => 0
  cap := fun _ _ b => if b = 0 then 1 else 0
  pre := fun j k => if j = 0 ∧ k = 1 then some decay else none
  post := fun _ _ => none

example (ψ0 : Config → ℚ) (h1 : exNorm.norm 0 ψ0 = 1) (m : ℕ) :
    exNorm.norm (0 + m) (exNorm.stateAt 2 (1/10) 0 ψ0 m) = 1 :=
  norm_one exNorm 2 (1/10) 0
    (fun _ _ _ => tracePres2_kron 2 4 2 4 decay decay decay_tracePres decay_tracePres)
    (fun _ _ _ h => by cases h)
    (fun j k M h => by
      simp only [exNorm] at h
      split at h
      · cases h; exact decay_tracePres
      · cases h)
    (fun _ _ _ h => by cases h)
    (fun _ _ _ _ => ⟨rfl, rfl⟩) ψ0 h1 m

/-- schedule: the even layer of a six-site chain has three gates; `layer_order_indep` covers
    all `3! = 6` completion orders -/
example : layerBonds 6 0 = [0, 2, 4] := by decide

/-! ## 6. the Liouvillians the gates are exponentials of

The hypotheses `hg` of `norm_step` (every gate preserves the trace covector) hold for
`expm(t·L)` when `L` annihilates the trace (`expm` law).  Here: the contributions that
`SystemChain.add_site_* / add_nn_*` add to `L` — read from the source as sums of
`coef · np.kron(left, right.T)` terms (`Generated/ChainLindblad.lean`) — annihilate every
trace-like functional and commute with the adjoint, for ARBITRARY operators (elements of any
*-algebra; two sites: any multiplicative *-compatible pairing, e.g. the Kronecker product).
A misplaced dagger or operand order in the source breaks these proofs. -/

section Lindblad
open OQuPyVerif.Tebd.Lindblad OQuPyVerif.Generated.ChainLindblad
set_option linter.unusedSimpArgs false
set_option linter.unusedSectionVars false

variable {K : Type} [Field K] [CharZero K] [StarRing K]
variable {R : Type} [Ring R] [StarRing R] [Algebra K R] [StarModule K R]
variable {R1 R2 R12 : Type} [Ring R1] [StarRing R1] [Ring R2] [StarRing R2] [Ring R12] [StarRing R12]
  [Algebra K R12] [StarModule K R12]

/-- `add_site_dissipation`: `γ(AρA† − ½A†Aρ − ½ρA†A)` has zero trace for every operator `A`,
    rate `γ`, state `ρ` and every trace-like functional `τ` -/
theorem site_dissipator_trace_annihilating (τ : R →ₗ[K] K) (hτ : ∀ a b, τ (a * b) = τ (b * a))
    (imag γ : K) (env : ℕ → R) (x : R) : τ (apply1 imag γ env site_dissipation x) = 0 := by
  have h : dual1 imag γ env site_dissipation = 0 := by
    simp only [dual1, site_dissipation, Lindblad.coefVal, evalOp, List.map_cons, List.map_nil,
      List.sum_cons, List.sum_nil, if_true, mul_one, one_mul, add_zero]
    push_cast
    module
  rw [trace_apply1 τ hτ, h, zero_mul, map_zero]

/-- `add_nn_dissipation`: the two-site dissipator with `A = A_l ⊗ A_r` has zero trace for all
    operators `A_l`, `A_r` -/
theorem nn_dissipator_trace_annihilating (tens : R1 → R2 → R12) (hp : Pairing tens)
    (τ : R12 →ₗ[K] K) (hτ : ∀ a b, τ (a * b) = τ (b * a)) (imag γ : K) (e1 : ℕ → R1)
    (e2 : ℕ → R2) (x : R12) : τ (apply2 tens imag γ e1 e2 nn_dissipation x) = 0 := by
  have h : dual2 tens imag γ e1 e2 nn_dissipation = 0 := by
    simp only [dual2, nn_dissipation, Lindblad.coefVal, evalOp, List.map_cons, List.map_nil,
      List.sum_cons, List.sum_nil, if_true, mul_one, one_mul, add_zero]
    push_cast
    module
  rw [trace_apply2 tens hp τ hτ, h, zero_mul, map_zero]

/-- `add_site_hamiltonian` / `add_nn_hamiltonian`: the commutator terms have zero trace -/
theorem hamiltonian_terms_trace_annihilating (tens : R1 → R2 → R12) (hp : Pairing tens)
    (τ : R →ₗ[K] K) (hτ : ∀ a b, τ (a * b) = τ (b * a))
    (τ2 : R12 →ₗ[K] K) (hτ2 : ∀ a b, τ2 (a * b) = τ2 (b * a))
    (imag γ : K) (env : ℕ → R) (e1 : ℕ → R1) (e2 : ℕ → R2) (x : R) (y : R12) :
    τ (apply1 imag γ env site_hamiltonian x) = 0 ∧
    τ2 (apply2 tens imag γ e1 e2 nn_hamiltonian y) = 0 := by
  have h1 : dual1 imag γ env site_hamiltonian = 0 := by
    simp only [dual1, site_hamiltonian, Lindblad.coefVal, evalOp, List.map_cons, List.map_nil,
      List.sum_cons, List.sum_nil, mul_one, one_mul, add_zero, Bool.false_eq_true, if_false]
    push_cast
    module
  have h2 : dual2 tens imag γ e1 e2 nn_hamiltonian = 0 := by
    simp only [dual2, nn_hamiltonian, Lindblad.coefVal, evalOp, List.map_cons, List.map_nil,
      List.sum_cons, List.sum_nil, mul_one, one_mul, add_zero, Bool.false_eq_true, if_false]
    push_cast
    module
  exact ⟨by rw [trace_apply1 τ hτ, h1, zero_mul, map_zero],
    by rw [trace_apply2 tens hp τ2 hτ2, h2, zero_mul, map_zero]⟩

/-- both dissipators commute with the adjoint (`(Lρ)† = L(ρ†)`) for all operators and real rates -/
theorem dissipators_hermiticity_preserving (tens : R1 → R2 → R12) (hp : Pairing tens)
    (imag γ : K) (himag : star imag = -imag) (hγ : star γ = γ) (env : ℕ → R) (e1 : ℕ → R1)
    (e2 : ℕ → R2) (x : R) (y : R12) :
    star (apply1 imag γ env site_dissipation x) = apply1 imag γ env site_dissipation (star x) ∧
    star (apply2 tens imag γ e1 e2 nn_dissipation y)
      = apply2 tens imag γ e1 e2 nn_dissipation (star y) := by
  constructor
  · simp only [apply1, site_dissipation, Lindblad.coefVal, evalOp, List.map_cons, List.map_nil,
      List.sum_cons, List.sum_nil, if_true, mul_one, one_mul, add_zero, star_add, star_smul,
      star_mul, star_star, star_one, star_ratCast, himag, hγ, mul_assoc]
    push_cast
    module
  · simp only [apply2, nn_dissipation, Lindblad.coefVal, evalOp, List.map_cons, List.map_nil,
      List.sum_cons, List.sum_nil, if_true, mul_one, one_mul, add_zero, star_add, star_smul,
      star_mul, star_star, star_one, star_ratCast, himag, hγ, mul_assoc, hp.star, hp.one]
    push_cast
    module

/-- the commutator terms commute with the adjoint when the Hamiltonian operators are Hermitian -/
theorem hamiltonian_terms_hermiticity_preserving (tens : R1 → R2 → R12) (hp : Pairing tens)
    (imag γ : K) (himag : star imag = -imag) (env : ℕ → R) (hH : star (env 0) = env 0)
    (e1 : ℕ → R1) (e2 : ℕ → R2) (h1 : star (e1 0) = e1 0) (h2 : star (e2 1) = e2 1)
    (x : R) (y : R12) :
    star (apply1 imag γ env site_hamiltonian x) = apply1 imag γ env site_hamiltonian (star x) ∧
    star (apply2 tens imag γ e1 e2 nn_hamiltonian y)
      = apply2 tens imag γ e1 e2 nn_hamiltonian (star y) := by
  constructor
  · simp only [apply1, site_hamiltonian, Lindblad.coefVal, evalOp, List.map_cons, List.map_nil,
      List.sum_cons, List.sum_nil, mul_one, one_mul, add_zero, star_add, star_smul, star_mul,
      star_star, star_one, star_ratCast, himag, hH, mul_assoc, Bool.false_eq_true, if_false]
    push_cast
    module
  · simp only [apply2, nn_hamiltonian, Lindblad.coefVal, evalOp, List.map_cons, List.map_nil,
      List.sum_cons, List.sum_nil, mul_one, one_mul, add_zero, star_add, star_smul, star_mul,
      star_star, star_one, star_ratCast, himag, h1, h2, mul_assoc, hp.star, hp.one,
      Bool.false_eq_true, if_false]
    push_cast
    module

/-- the hypotheses on the pairing hold for the Kronecker product of matrices -/
theorem kronecker_is_pairing {n m : Type} [Fintype n] [Fintype m] [DecidableEq n] [DecidableEq m]
    {F : Type} [CommRing F] [StarRing F] :
    Pairing (R1 := Matrix n n F) (R2 := Matrix m m F) (R12 := Matrix (n × m) (n × m) F)
      (fun a b => Matrix.kroneckerMap (· * ·) a b) :=
  kronecker_pairing

/-- non-vacuity: matrices with the matrix trace and the Kronecker product satisfy the hypotheses
    (rational entries, trivial conjugation) -/
example (A B : Matrix (Fin 2) (Fin 2) ℚ) (ρ : Matrix (Fin 2 × Fin 2) (Fin 2 × Fin 2) ℚ) (γ : ℚ) :
    Matrix.trace (apply2 (K := ℚ) (fun a b => Matrix.kroneckerMap (· * ·) a b) 0 γ
      (fun k => if k = 0 then A else B) (fun k => if k = 0 then A else B) nn_dissipation ρ) = 0 :=
  nn_dissipator_trace_annihilating (K := ℚ) _ kronecker_pairing
    (Matrix.traceLinearMap (Fin 2 × Fin 2) ℚ ℚ) (fun a b => Matrix.trace_mul_comm a b) 0 γ _ _ ρ

end Lindblad

end OQuPyVerif.Props.C10
