/-
  Model of PT-TEBD (property C10): `oqupy/pt_tebd.py`, `oqupy/backends/pt_tebd_backend.py`,
  `oqupy/mps_mpo.py` (Trotter layers), `SystemChain.get_nn_full_liouvillians`.

  Everything that says *which factor a site Liouvillian gets on which bond*, *which bonds
  form a layer*, *which layers make up a propagator and with which time fraction*, *which
  tensors a gate copies and which it replaces* and *how the execution mode is selected* is
  taken from `Generated/TebdLayers.lean`; the statement order of a step from
  `Generated/ControlCompose.lean` (both rewritten from the source on every run).

  Three parts:

  1. **layer structure** — bonds of a layer, gate applications `(bond, time)` of one
     propagator (= half a step), the share of a site Liouvillian carried by a bond;
  2. **schedule model** — the augmented MPS as a finite map cell ↦ value (cells: `gam k`,
     `lam k`), a gate = (cells copied, cells replaced, pure function), and the execution
     modes of `apply_nn_gate_layer`: sequential loop, read-all / `Executor.map` / write-all,
     and write-back in an arbitrary completion order.  `V` and the gate functions are
     arbitrary (the driver runs it with symbolic terms);
  3. **dense model** — the chain state as an amplitude per configuration of local
     indices.  Site `j` owns two *slots*: `2j` (physical / Liouville index) and `2j+1`
     (process-tensor bond).  Gates, process-tensor MPOs, controls, caps and traces are
     all `applySite` / `applyPair` operations on slots.
-/
import Mathlib.Algebra.BigOperators.Ring.Finset
import Mathlib.Algebra.BigOperators.Intervals
import Mathlib.Logic.Function.Basic
import Mathlib.Algebra.Order.Field.Rat
import OQuPyVerif.Generated.TebdLayers
import OQuPyVerif.Generated.ControlCompose
import OQuPyVerif.Generated.ChainLindblad
import Mathlib.Algebra.Star.Basic

namespace OQuPyVerif.Tebd
open OQuPyVerif.Generated
open Finset BigOperators

/-! ### 1. layer structure -/

/-- number of bonds of a chain of `n` sites: the stop of the `range` in
    `get_nn_full_liouvillians` -/
def numBonds (n : ℕ) : ℕ := (TebdLayers.bond_range_stop (n : ℤ)).toNat

/-- Python's `gates[start::step]` for the gate list `[gate 0, …, gate (m-1)]`: the POSITIONS
    (= indices of the bond Liouvillians the gates were built from) of the slice, ascending -/
def sliceBonds (m : ℕ) (sl : ℕ × ℕ) : List ℕ :=
  (List.range m).filter (fun i => decide (sl.1 ≤ i ∧ (i - sl.1) % sl.2 = 0))

/-- the bond (left site) the gate built from `nn_full_liouvillians[i]` acts on: the generated
    `site=` argument of `compute_nn_gate` -/
def gateSite (i : ℕ) : ℕ := (TebdLayers.gate_site (i : ℤ)).toNat

/-- the bonds the gates of Trotter layer `ℓ` (index into `trotter_slices`) act on -/
def layerBonds (n ℓ : ℕ) : List ℕ :=
  match TebdLayers.trotter_slices[ℓ]? with
  | some sl => (sliceBonds (numBonds n) sl).map gateSite
  | none => []

/-- the row of `order_table` for a Trotter order -/
def orderRow (order : ℤ) : Option (ℚ × List ℕ) :=
  (TebdLayers.order_table.find? (fun r => r.1 == order)).map (fun r => r.2)

/-- the layers of ONE propagator (`PtTebd._tebd_propagator`, applied twice per step):
    (bonds, exponentiation time) in application order -/
def halfStepLayers (n : ℕ) (order : ℤ) (dt : ℚ) : List (List ℕ × ℚ) :=
  match orderRow order with
  | none => []
  | some (frac, layers) =>
      layers.map (fun ℓ => (layerBonds n ℓ, frac * (TebdLayers.initialize_fraction * dt)))

/-- the gate applications `(bond, time)` of one propagator, in application order -/
def halfStepGates (n : ℕ) (order : ℤ) (dt : ℚ) : List (ℕ × ℚ) :=
  (halfStepLayers n order dt).flatMap (fun ly => ly.1.map (fun i => (i, ly.2)))

/-- value of a generated coefficient for bond `i` of a chain of `n` sites -/
def coefVal (n i : ℕ) : TebdLayers.Coef → ℚ
  | .factorL => TebdLayers.factor_l (i : ℤ) (n : ℤ)
  | .factorR => TebdLayers.factor_r (i : ℤ) (n : ℤ)
  | .one => 1

/-- how much of the Liouvillian of site `j` a summand of the full Liouvillian of bond `i` is -/
def termShare (i j : ℕ) : TebdLayers.FullTerm → ℚ
  | .leftSite => if j = i then 1 else 0
  | .rightSite => if j = i + TebdLayers.nn_gate_right_site_offset then 1 else 0
  | .nnTerm => 0

/-- the factor with which the Liouvillian of site `j` enters the full Liouvillian of bond `i`
    (summed over the generated summands `nn_full_terms`) -/
def siteShare (n i j : ℕ) : ℚ :=
  (TebdLayers.nn_full_terms.map (fun ct => coefVal n i ct.1 * termShare i j ct.2)).sum

/-- the factor with which the coupling `nn_liouvillians[i]` enters the full Liouvillian of bond `i` -/
def couplingShare (n i : ℕ) : ℚ :=
  (TebdLayers.nn_full_terms.map
    (fun ct => coefVal n i ct.1 * (if ct.2 = TebdLayers.FullTerm.nnTerm then 1 else 0))).sum

/-- total exponentiation time the Liouvillian of site `j` receives in one propagator -/
def halfStepSiteWeight (n : ℕ) (order : ℤ) (dt : ℚ) (j : ℕ) : ℚ :=
  ((halfStepGates n order dt).map (fun g => g.2 * siteShare n g.1 j)).sum

/-- total exponentiation time the coupling of bond `i` receives in one propagator -/
def halfStepBondWeight (n : ℕ) (order : ℤ) (dt : ℚ) (i : ℕ) : ℚ :=
  ((halfStepGates n order dt).map (fun g => if g.1 = i then g.2 else 0)).sum

/-- number of propagator applications in `PtTebd.compute_step` -/
def propagatorsPerStep : ℕ := ControlCompose.tebdComputeStep.count .nnLayers

/-! ### 2. schedule model -/

/-- a tensor of the augmented MPS held by the back-end -/
abbrev Cell := TebdLayers.CellKind × ℕ

/-- the cells copied by `_apply_nn_gate_get_data` for the gate on bond `i` -/
def gateReads (i : ℕ) : List Cell := TebdLayers.gate_reads.map (fun r => (r.1, i + r.2))

/-- the cells replaced by `_apply_nn_gate_replace_gam_lam_gam` -/
def gateWrites (i : ℕ) : List Cell := TebdLayers.gate_writes.map (fun r => (r.1, i + r.2))

section Schedule
variable {V : Type}

/-- assign the values to the cells, one after the other -/
def writeVals (st : Cell → V) : List Cell → List V → (Cell → V)
  | c :: cs, v :: vs => writeVals (Function.update st c v) cs vs
  | _, _ => st

/-- what `_apply_nn_gate` returns for bond `i` when the copies are taken from `st`
    (`f i` is the pure function: values copied ↦ values to store) -/
def gateOut (f : ℕ → List V → List V) (st : Cell → V) (i : ℕ) : List V :=
  f i ((gateReads i).map st)

/-- `PtTebdBackend.apply_nn_gate`: copy, compute, replace -/
def applyGate (f : ℕ → List V → List V) (st : Cell → V) (i : ℕ) : Cell → V :=
  writeVals st (gateWrites i) (gateOut f st i)

/-- `self._parallel is None`: `for gate in gate_layer.gates: self.apply_nn_gate(gate)` -/
def seqRun (f : ℕ → List V → List V) (bonds : List ℕ) (st : Cell → V) : Cell → V :=
  bonds.foldl (applyGate f) st

/-- `_apply_nn_gate_replace_gam_lam_gam(*output_data)` -/
def writeBack (st : Cell → V) (o : ℕ × List V) : Cell → V := writeVals st (gateWrites o.1) o.2

/-- all `_apply_nn_gate_get_data` first, then `Executor.map(apply_nn_gate, input_datas)`:
    the results, in input order -/
def mapOutputs (f : ℕ → List V → List V) (bonds : List ℕ) (st : Cell → V) : List (ℕ × List V) :=
  bonds.map (fun i => (i, gateOut f st i))

/-- the results are written back in the order in which they are handed over -/
def completionRun (st : Cell → V) (outs : List (ℕ × List V)) : Cell → V := outs.foldl writeBack st

/-- `'multithread'` / `'multiprocess'`: `Executor.map` yields the results in input order -/
def mapRun (f : ℕ → List V → List V) (bonds : List ℕ) (st : Cell → V) : Cell → V :=
  completionRun st (mapOutputs f bonds st)

/-- one layer in the execution mode selected by the generated table -/
def runLayer (kind : TebdLayers.ExecKind) (f : ℕ → List V → List V) (bonds : List ℕ)
    (st : Cell → V) : Cell → V :=
  match kind with
  | .sequentialLoop => seqRun f bonds st
  | .readAllMapWriteAll => mapRun f bonds st

/-- the execution kind selected by `backend_config.get('parallel')` (`none` = key absent);
    `none` as result = `NotImplementedError` -/
def execKindOf (parallel : Option String) : Option TebdLayers.ExecKind :=
  match parallel with
  | none => some TebdLayers.exec_absent
  | some key => (TebdLayers.exec_table.find? (fun r => r.1 == key)).map (fun r => r.2.2.2)

end Schedule

/-! #### imports needed by the executor classes -/

/-- the attribute chain `a.b.C` resolves at run time (without relying on what other modules
    happen to have imported) iff the module `a.b` is loaded by a plain `import` of this module -/
def resolvable (module : String) : Bool := TebdLayers.loaded_modules.contains module

/-! ### 3. dense model -/

section Dense
variable {K : Type} [CommRing K]

/-- a configuration assigns a local index to every slot -/
abbrev Config := ℕ → ℕ

/-- physical (Liouville-index) slot of site `j` -/
def physSlot (j : ℕ) : ℕ := 2 * j
/-- process-tensor bond slot of site `j` -/
def ptSlot (j : ℕ) : ℕ := 2 * j + 1

/-- a linear map on slot `s` (input range `m`): `(Mψ)(c) = Σ_a M (c s) a · ψ(c[s ↦ a])` -/
def applySite (s m : ℕ) (M : ℕ → ℕ → K) (ψ : Config → K) : Config → K :=
  fun c => ∑ a ∈ range m, M (c s) a * ψ (Function.update c s a)

/-- a linear map on the slots `s`, `t` with kernel `G out_s out_t in_s in_t` -/
def applyPair (s t m1 m2 : ℕ) (G : ℕ → ℕ → ℕ → ℕ → K) (ψ : Config → K) : Config → K :=
  fun c => ∑ a ∈ range m1, ∑ b ∈ range m2,
    G (c s) (c t) a b * ψ (Function.update (Function.update c s a) t b)

/-- Kronecker product of two single-slot maps as a pair kernel -/
def kron (A B : ℕ → ℕ → K) : ℕ → ℕ → ℕ → ℕ → K := fun x y a b => A x a * B y b

/-- a covector as a (row-constant) single-slot map: closes the slot -/
def cov (τ : ℕ → K) : ℕ → ℕ → K := fun _ a => τ a

/-- matrix product of single-slot maps (inner range `m`) -/
def mmul (m : ℕ) (A B : ℕ → ℕ → K) : ℕ → ℕ → K := fun x b => ∑ a ∈ range m, A x a * B a b

/-- composition of pair kernels (inner ranges `m1`, `m2`) -/
def pmul (m1 m2 : ℕ) (G H : ℕ → ℕ → ℕ → ℕ → K) : ℕ → ℕ → ℕ → ℕ → K :=
  fun x y a b => ∑ u ∈ range m1, ∑ v ∈ range m2, G x y u v * H u v a b

/-- the vectorised identity `np.identity(d).reshape(d**2)`: the trace covector -/
def trVec (d : ℕ) : ℕ → K := fun p => if p / d = p % d then 1 else 0

/-- `get_nn_full_liouvillians()[i]` from the generated summands: `siteL`, `siteR` are the
    Liouvillians of the sites `i`, `i+1` (`Lr` = Liouville dimension of site `i+1`), `nn` the
    coupling; `np.kron(A, B)[a·Lr + b, a'·Lr + b'] = A[a,a'] · B[b,b']` -/
def fullLiouv (cast : ℚ → K) (n i Lr : ℕ) (siteL siteR nn : ℕ → ℕ → K) : ℕ → ℕ → K :=
  fun x y => (TebdLayers.nn_full_terms.map (fun ct => cast (coefVal n i ct.1) *
    (match ct.2 with
     | .leftSite => siteL (x / Lr) (y / Lr) * (if x % Lr = y % Lr then 1 else 0)
     | .rightSite => (if x / Lr = y / Lr then 1 else 0) * siteR (x % Lr) (y % Lr)
     | .nnTerm => nn x y))).sum

/-- `PtTebdBackend.apply_site_gate` (generated wiring, `ControlCompose.siteGate_*`): the node
    holds the gate matrix (or its transpose), its index `siteGate_contract` is joined to the
    physical leg and the other index becomes the physical leg.  `true`: the matrix itself acts
    (`vec ρ ↦ C · vec ρ`); `false`: its transpose does. -/
def siteGateActs : Bool :=
  ControlCompose.siteGate_transposed == (ControlCompose.siteGate_contract == 0)

/-- the table a single-site gate with matrix `M` applies to the physical index of its site -/
def siteGateTable (M : ℕ → ℕ → K) : ℕ → ℕ → K :=
  if siteGateActs then M else fun x a => M a x

/-- operations on the dense state; `o1`, `o2` (`o`) are the index ranges of the slots after the
    operation (used only to tabulate; they do not enter `run`) -/
inductive Op (K : Type) where
  | site (s m o : ℕ) (M : ℕ → ℕ → K)
  | pair (s t m1 m2 o1 o2 : ℕ) (G : ℕ → ℕ → ℕ → ℕ → K)

def Op.run : Op K → (Config → K) → (Config → K)
  | .site s m _ M => applySite s m M
  | .pair s t m1 m2 _ _ G => applyPair s t m1 m2 G

def runOps (ops : List (Op K)) (ψ : Config → K) : Config → K := ops.foldl (fun φ o => o.run φ) ψ

/-- closing slots with covectors: `(slot, range, covector)`, the head is applied last -/
def capAll (l : List (ℕ × ℕ × (ℕ → K))) (ψ : Config → K) : Config → K :=
  l.foldr (fun x φ => applySite x.1 x.2.1 (cov x.2.2) φ) ψ

/-- a product over sites of factors (`w j` is meant to depend on the slots of site `j` only) -/
def siteProd (n : ℕ) (w : ℕ → Config → K) : Config → K := fun c => ∏ j ∈ range n, w j c

/-- the factor of site `j` given by a (pt bond × Liouville index) table, as in
    `PT.mpoState` -/
def siteFactor (j : ℕ) (X : ℕ → ℕ → K) : Config → K := fun c => X (c (ptSlot j)) (c (physSlot j))

/-- what a chain computation consists of (tables as functions; the driver fills them from arrays) -/
structure Chain (K : Type) where
  n : ℕ
  /-- Hilbert space dimension and Liouville dimension (`d²`) of site `j` -/
  d : ℕ → ℕ
  L : ℕ → ℕ
  /-- kernel of the gate of bond `i` for exponentiation time `t`:
      `gate i t out_l out_r in_l in_r` -/
  gate : ℕ → ℚ → ℕ → ℕ → ℕ → ℕ → K
  /-- `D j k`: bond dimension of the process tensor of site `j` before its MPO `k` -/
  D : ℕ → ℕ → ℕ
  /-- `get_mpo_tensor(k)` of site `j` is not `None` -/
  hasPT : ℕ → ℕ → Bool
  /-- `T j k b b' i o`: axes of `get_mpo_tensor` (past bond, future bond, input, output) -/
  T : ℕ → ℕ → ℕ → ℕ → ℕ → ℕ → K
  /-- `cap j k b`: `get_cap_tensor(k)` -/
  cap : ℕ → ℕ → ℕ → K
  /-- single-site controls of site `j` at step `k` (as given by `get_single_site_controls`) -/
  pre : ℕ → ℕ → Option (ℕ → ℕ → K)
  post : ℕ → ℕ → Option (ℕ → ℕ → K)

variable (ch : Chain K)

/-- one propagator: the gates of `halfStepGates` on the physical slots -/
def Chain.halfOps (order : ℤ) (dt : ℚ) : List (Op K) :=
  (halfStepGates ch.n order dt).map (fun g =>
    Op.pair (physSlot g.1) (physSlot (g.1 + TebdLayers.nn_gate_right_site_offset))
      (ch.L g.1) (ch.L (g.1 + TebdLayers.nn_gate_right_site_offset))
      (ch.L g.1) (ch.L (g.1 + TebdLayers.nn_gate_right_site_offset)) (ch.gate g.1 g.2))

/-- `apply_process_tensors(step, …)` with `step - 1 = k`: MPO `k` of every site that has one -/
def Chain.ptOps (k : ℕ) : List (Op K) :=
  (List.range ch.n).filterMap (fun j =>
    if ch.hasPT j k then
      some (Op.pair (ptSlot j) (physSlot j) (ch.D j k) (ch.L j) (ch.D j (k+1)) (ch.L j)
        (fun b' o b i => ch.T j k b b' i o))
    else none)

/-- `_apply_controls`: one site gate per site with a control, in site order; the table that
    acts is the one given by the generated leg wiring of `apply_site_gate` -/
def Chain.ctrlOps (ctl : ℕ → ℕ → Option (ℕ → ℕ → K)) (k : ℕ) : List (Op K) :=
  (List.range ch.n).filterMap (fun j =>
    (ctl j k).map (fun M => Op.site (physSlot j) (ch.L j) (ch.L j) (siteGateTable M)))

/-- `PtTebd.compute_step` entered with `self._step = k`: the generated statement list
    interpreted (`acc.1` is the step counter) -/
def Chain.stepOps (order : ℤ) (dt : ℚ) (k : ℕ) : List (Op K) :=
  (ControlCompose.tebdComputeStep.foldl (fun (acc : ℕ × List (Op K)) tag =>
    match tag with
    | .incStep => (acc.1 + 1, acc.2)
    | .controlsPost => (acc.1, acc.2 ++ ch.ctrlOps ch.post acc.1)
    | .controlsPre => (acc.1, acc.2 ++ ch.ctrlOps ch.pre acc.1)
    | .nnLayers => (acc.1, acc.2 ++ ch.halfOps order dt)
    | .applyPTs => (acc.1, acc.2 ++ ch.ptOps (acc.1 - 1))
    | _ => acc) (k, [])).2

/-- `PtTebd.initialize`: only the pre-measurement controls of the start step act on the state -/
def Chain.initOps (k0 : ℕ) : List (Op K) :=
  (ControlCompose.tebdInitialize.foldl (fun (acc : List (Op K)) tag =>
    match tag with
    | .controlsPre => acc ++ ch.ctrlOps ch.pre k0
    | .controlsPost => acc ++ ch.ctrlOps ch.post k0
    | _ => acc) [])

/-- the caps closing a state in which the process tensor of site `j` has been advanced to step
    `κ j`, for the site list `keep`: every process-tensor slot with its cap, every physical
    slot not kept with the trace -/
def Chain.closingAt (κ : ℕ → ℕ) (keep : List ℕ) : List (ℕ × ℕ × (ℕ → K)) :=
  ((List.range ch.n).map (fun j => (ptSlot j, ch.D j (κ j), ch.cap j (κ j))))
    ++ ((List.range ch.n).filter (fun j => !keep.contains j)).map
        (fun j => (physSlot j, ch.L j, trVec (ch.d j)))

/-- the caps closing the state recorded at step `k` (`compute_traces(step, …)`) -/
def Chain.closing (k : ℕ) (keep : List ℕ) : List (ℕ × ℕ × (ℕ → K)) :=
  ch.closingAt (fun _ => k) keep

/-- reduced (vectorised) density matrix of the sites `keep` at step `k`: a function of the
    physical slots of the kept sites -/
def Chain.reduced (k : ℕ) (keep : List ℕ) (ψ : Config → K) : Config → K :=
  capAll (ch.closing k keep) ψ

/-- `get_norm` -/
def Chain.norm (k : ℕ) (ψ : Config → K) : K := ch.reduced k [] ψ (fun _ => 0)

/-- the dense state after `PtTebd.initialize` (`m = 0`) and `m` calls of `compute_step`, for a
    computation starting at step `k0` from the state `ψ0` -/
def Chain.stateAt (order : ℤ) (dt : ℚ) (k0 : ℕ) (ψ0 : Config → K) : ℕ → (Config → K)
  | 0 => runOps (ch.initOps k0) ψ0
  | m + 1 => runOps (ch.stepOps order dt (k0 + m)) (Chain.stateAt order dt k0 ψ0 m)

end Dense

/-! ### 4. the generated Liouvillian contributions as tables

`Generated/ChainLindblad.lean` lists every contribution of `add_site_hamiltonian`,
`add_site_dissipation`, `add_nn_hamiltonian`, `add_nn_dissipation` as terms
`coef · np.kron(left, right.T)` (two sites: `coef · np.kron(np.kron(l1, r1.T), np.kron(l2, r2.T))`).
Here they are evaluated on concrete operator tables (row-major pair index `p = i·d + j`). -/

section LindbladTables
open ChainLindblad
variable {K : Type} [CommRing K] [StarRing K]

/-- an operator expression as a `d × d` table (`env k` = k-th operator argument) -/
def opTab (d : ℕ) (env : ℕ → ℕ → ℕ → K) : OpE → ℕ → ℕ → K
  | .one => fun i j => if i = j then 1 else 0
  | .var k => env k
  | .dag e => fun i j => star (opTab d env e j i)
  | .mul a b => fun i j => ∑ k ∈ range d, opTab d env a i k * opTab d env b k j

/-- `(re + i·im) · gamma^g` -/
def coefTab (cast : ℚ → K) (imag γ : K) (c : Coef) : K :=
  (cast c.re + cast c.im * imag) * (if c.gamma then γ else 1)

/-- `Σ coef · np.kron(left, right.T)`: entry `[(i,j),(k,l)] = left[i,k] · right[l,j]` -/
def super1Tab (cast : ℚ → K) (imag γ : K) (d : ℕ) (env : ℕ → ℕ → ℕ → K) (terms : List Term1) :
    ℕ → ℕ → K :=
  fun p q => (terms.map (fun t => coefTab cast imag γ t.coef *
    (opTab d env t.left (p / d) (q / d) * opTab d env t.right (q % d) (p % d)))).sum

/-- `Σ coef · np.kron(np.kron(l1, r1.T), np.kron(l2, r2.T))` for site dimensions `d1`, `d2` -/
def super2Tab (cast : ℚ → K) (imag γ : K) (d1 d2 : ℕ) (e1 e2 : ℕ → ℕ → ℕ → K)
    (terms : List Term2) : ℕ → ℕ → K :=
  fun p q =>
    let p1 := p / (d2 * d2); let p2 := p % (d2 * d2)
    let q1 := q / (d2 * d2); let q2 := q % (d2 * d2)
    (terms.map (fun t => coefTab cast imag γ t.coef *
      (opTab d1 e1 t.l1 (p1 / d1) (q1 / d1) * opTab d1 e1 t.r1 (q1 % d1) (p1 % d1)
        * (opTab d2 e2 t.l2 (p2 / d2) (q2 / d2) * opTab d2 e2 t.r2 (q2 % d2) (p2 % d2))))).sum

end LindbladTables

end OQuPyVerif.Tebd
