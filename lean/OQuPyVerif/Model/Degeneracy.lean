/-
  Degeneracy reduction (`unique=True`): `bath._row_degeneracy`, the representative
  positions used by `Tempo._influence` / `PtTempo`, and the tables the reduced tensor
  network effectively uses.
-/
import OQuPyVerif.Model.Tempo

namespace OQuPyVerif.Degeneracy

/-- lexicographic `<` on rows -/
def rowLt : List Rat → List Rat → Bool
  | [], [] => false
  | [], _ => true
  | _, [] => false
  | x :: xs, y :: ys => if x < y then true else if y < x then false else rowLt xs ys

def insertRow (r : List Rat) : List (List Rat) → List (List Rat)
  | [] => [r]
  | s :: ss => if r == s then s :: ss else if rowLt r s then r :: s :: ss else s :: insertRow r ss

/-- `np.unique(mat.T, return_inverse=True, axis=0)[1]`: index of each row in the sorted list of
    distinct rows. -/
def rowDegeneracy (rows : List (List Rat)) : List ℕ :=
  let uniq := rows.foldl (fun acc r => insertRow r acc) []
  rows.map (fun r => (uniq.findIdx? (fun s => s == r)).getD 0)

/-- first index `< L` in class `c` (`np.where(map == c)[0][0]`) -/
def firstIdx (L : ℕ) (m : ℕ → ℕ) (c : ℕ) : ℕ :=
  ((List.range L).find? (fun a => m a == c)).getD 0

/-- the table the reduced network effectively uses for the pair (earlier, later):
    the full table read at the class representatives. -/
def uniqueTbl {K : Type} (L : ℕ) (north west : ℕ → ℕ) (tbl : ℤ → ℕ → ℕ → K) :
    ℤ → ℕ → ℕ → K :=
  fun id e l =>
    if id = 0 then tbl 0 (firstIdx L north (north e)) (firstIdx L north (north l))
    else tbl id (firstIdx L north (north e)) (firstIdx L west (west l))

/-! ### the vectors that close the (reduced) north / west legs of the networks -/

/-- entries of a closing vector -/
inductive Fill where
  | ones            -- every entry is 1
  | classSizes      -- entry `c` is the number of Liouville indices in class `c` (`np.bincount`)
  deriving DecidableEq, Repr

/-- length of a closing vector -/
inductive Len where
  | classCount (leg : String)   -- max(<leg>_degeneracy_map) + 1 : one entry per class
  | full                        -- dim**2 : one entry per Liouville index
  deriving DecidableEq, Repr

structure CloseVec where
  fill : Fill
  len : Len
  deriving DecidableEq, Repr

/-- entry `c` of a closing vector for the degeneracy map `m` on `L` Liouville indices -/
def fillWeight {K : Type} [NatCast K] [One K] (f : Fill) (L : ℕ) (m : ℕ → ℕ) (c : ℕ) : K :=
  match f with
  | .ones => 1
  | .classSizes => (((List.range L).filter (fun a => m a == c)).length : K)

end OQuPyVerif.Degeneracy
