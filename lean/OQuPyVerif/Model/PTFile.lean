/-
  Model of process-tensor persistence (properties C16 and C17), Mathlib-free and executable.

  What is modelled (oqupy/process_tensor.py, oqupy/pt_tempo.py):

  * Python truth values (`True`/`False` versus numpy's `True_`/`False_`) and the
    operators `is`, `==`, `not`, `and`, `or`, `bool()` on them;
  * tensors as (shape, flat row-major data) with a NaN entry, the `HDF5None`
    sentinel `[nan]`, `_set_data_and_shape` / `_get_data_and_shape`;
  * the content of a process-tensor HDF5 file (attributes + datasets), the file on
    disk (`missing` / `unreadable` / `file content`), h5py's open modes;
  * the writer as the list of h5py-level operations (`Op`) issued by
    `FileProcessTensor.__init__/_create_file`, `set_*_tensor`, `close()`,
    `SimpleProcessTensor.export()` and a file-backed PT-TEMPO run, with `replay`
    giving the file produced by any persisted prefix of those operations;
  * the reader `_read_file` (outcome fail / warn / clean), `import_process_tensor`
    for both types, `remove()`.

  Every choice that is read off the source by tools/translate.py (fragment
  `FileFlags`) is a field of `Flags`; the model is a function of `Flags`, the
  property theorems instantiate it with `Generated.FileFlags.flags`.

  Assumptions on h5py/HDF5 (not verified here, exercised by the correspondence):
  (H1) a bool stored in `attrs` is returned as `numpy.bool_`;
  (H2) open modes: 'r' needs a readable file and never changes it; 'x' creates and
       fails on an existing path; 'w' creates or truncates; 'a' creates if missing;
  (H3) a new variable-length row is the empty array; `resize` keeps existing rows;
  (H4) after a crash the file is unreadable or reflects a prefix of the issued
       operations (and the creation/truncation done by the open call itself is
       synchronous).
-/
namespace OQuPyVerif.PTFile

/-! ## 1. Python truth values -/

/-- The Python objects a flag test can see. `pyTrue`/`pyFalse` are the `bool`
    singletons, `npTrue`/`npFalse` numpy's `numpy.bool_` singletons. -/
inductive PyVal
  | pyTrue | pyFalse | npTrue | npFalse | pyNone
  deriving DecidableEq, Repr, Inhabited

namespace PyVal

/-- `bool(v)` -/
def truthy : PyVal → Bool
  | pyTrue => true
  | npTrue => true
  | _ => false

def ofBool (b : Bool) : PyVal := if b then pyTrue else pyFalse
def npOfBool (b : Bool) : PyVal := if b then npTrue else npFalse

def isNumpy : PyVal → Bool
  | npTrue => true
  | npFalse => true
  | _ => false

/-- `a is b` (object identity; all five values are distinct singletons) -/
def pyIs (a b : PyVal) : PyVal := ofBool (decide (a = b))
/-- `a is not b` -/
def pyIsNot (a b : PyVal) : PyVal := ofBool (decide (a ≠ b))
/-- `a == b`: booleans of either kind compare by truth value (a numpy operand makes the
    result a numpy bool); `None` equals only `None`. -/
def pyEq (a b : PyVal) : PyVal :=
  if a = pyNone ∨ b = pyNone then ofBool (decide (a = b))
  else if a.isNumpy || b.isNumpy then npOfBool (a.truthy == b.truthy)
  else ofBool (a.truthy == b.truthy)
/-- `a != b` -/
def pyNe (a b : PyVal) : PyVal :=
  if a = pyNone ∨ b = pyNone then ofBool (decide (a ≠ b))
  else if a.isNumpy || b.isNumpy then npOfBool (a.truthy != b.truthy)
  else ofBool (a.truthy != b.truthy)
/-- `not a` -/
def pyNot (a : PyVal) : PyVal := ofBool (!a.truthy)
/-- `a and b` -/
def pyAnd (a b : PyVal) : PyVal := if a.truthy then b else a
/-- `a or b` -/
def pyOr (a b : PyVal) : PyVal := if a.truthy then a else b
/-- `bool(a)` -/
def pyBool (a : PyVal) : PyVal := ofBool a.truthy

end PyVal

/-- (H1) h5py returns a stored boolean attribute as `numpy.bool_`. -/
def h5AttrRead (b : Bool) : PyVal := PyVal.npOfBool b

/-! ## 2. Entries and tensors -/

/-- A complex128 entry: a finite value (binary64 parts are dyadic rationals) or NaN
    (all NaN payloads identified: `numpy.isnan` is the only observer). -/
inductive Entry
  | num (re im : Rat)
  | nan
  deriving DecidableEq, Repr, Inhabited

def Entry.isNan : Entry → Bool
  | .nan => true
  | .num _ _ => false

/-- number of entries of an array of the given shape -/
def shapeSize : List Nat → Nat
  | [] => 1
  | d :: ds => d * shapeSize ds

/-- numpy array: shape and row-major (logical order) data -/
structure Tensor where
  shape : List Nat
  data : List Entry
  deriving DecidableEq, Repr, Inhabited

/-- well-formed: as many entries as the shape says -/
def Tensor.WF (t : Tensor) : Prop := t.data.length = shapeSize t.shape

instance (t : Tensor) : Decidable t.WF := by unfold Tensor.WF; infer_instance

/-- `HDF5None = [np.nan]` as an array -/
def hdf5None : Tensor := ⟨[1], [Entry.nan]⟩

/-- `_is_hdf5_none(tensor)`: `np.array(tensor).shape == (1,) and np.isnan(tensor[0])` -/
def isHdf5None (t : Tensor) : Bool :=
  t.shape == [1] && (match t.data with
    | e :: _ => e.isNan
    | [] => false)

/-- `np.array(x, dtype=NpDtype)`: `None` becomes the 0-dimensional array `nan`. -/
def npArray : Option Tensor → Tensor
  | none => ⟨[], [Entry.nan]⟩
  | some t => t

/-! ## 3. File content -/

inductive AttrName
  | version | name | description | writing
  deriving DecidableEq, Repr

/-- fixed-shape datasets -/
inductive ArrName
  | hsDim | dt | transformIn | transformOut
  deriving DecidableEq, Repr

/-- the three (data, shape) pairs of variable-length datasets -/
inductive VName
  | init | mpo | cap
  deriving DecidableEq, Repr

/-- a pair of variable-length datasets `<x>_data`, `<x>_shape`; `none` = not created -/
structure VDs where
  data : Option (List (List Entry)) := none
  shape : Option (List (List Nat)) := none
  deriving DecidableEq, Repr

/-- content of a readable process-tensor file; `none` = attribute/dataset absent -/
structure H5 where
  version : Option String := none
  name : Option String := none
  description : Option String := none
  writing : Option Bool := none
  hsDim : Option Nat := none
  dt : Option Tensor := none
  tin : Option Tensor := none
  tout : Option Tensor := none
  init : VDs := {}
  mpo : VDs := {}
  cap : VDs := {}
  deriving DecidableEq, Repr

namespace H5

def vds (c : H5) : VName → VDs
  | .init => c.init
  | .mpo => c.mpo
  | .cap => c.cap

def setVds (c : H5) (v : VName) (x : VDs) : H5 :=
  match v with
  | .init => { c with init := x }
  | .mpo => { c with mpo := x }
  | .cap => { c with cap := x }

def hasAttr (c : H5) : AttrName → Bool
  | .version => c.version.isSome
  | .name => c.name.isSome
  | .description => c.description.isSome
  | .writing => c.writing.isSome

def hasArr (c : H5) : ArrName → Bool
  | .hsDim => c.hsDim.isSome
  | .dt => c.dt.isSome
  | .transformIn => c.tin.isSome
  | .transformOut => c.tout.isSome

/-- `(v, true)` = `<v>_data`, `(v, false)` = `<v>_shape` -/
def hasV (c : H5) (k : VName × Bool) : Bool :=
  if k.2 then (c.vds k.1).data.isSome else (c.vds k.1).shape.isSome

end H5

/-- (H3) `Dataset.resize((n,))` on a 1-D variable-length dataset -/
def resizeRows {α} (rows : List (List α)) (n : Nat) : List (List α) :=
  rows.take n ++ List.replicate (n - rows.length) []

/-- h5py open modes -/
inductive H5Mode
  | r | rplus | w | x | a
  deriving DecidableEq, Repr

def H5Mode.ofString? : String → Option H5Mode
  | "r" => some .r
  | "r+" => some .rplus
  | "w" => some .w
  | "x" => some .x
  | "w-" => some .x
  | "a" => some .a
  | _ => none

/-- the h5py-level operations of the writer -/
inductive Op
  | openMode (m : H5Mode)
  | setAttrStr (a : AttrName) (s : String)
  | setWriting (b : Bool)
  | createHsDim (n : Nat)
  | createArr (a : ArrName) (t : Tensor)
  | createData (v : VName) (n : Nat)
  | createShape (v : VName) (n : Nat)
  | resizeShape (v : VName) (n : Nat)
  | resizeData (v : VName) (n : Nat)
  | writeShape (v : VName) (i : Nat) (row : List Nat)
  | writeData (v : VName) (i : Nat) (row : List Entry)
  | fclose
  deriving DecidableEq, Repr

/-- effect of a non-open operation on the content -/
def applyOpC (c : H5) : Op → H5
  | .openMode _ => c
  | .setAttrStr .version s => { c with version := some s }
  | .setAttrStr .name s => { c with name := some s }
  | .setAttrStr .description s => { c with description := some s }
  | .setAttrStr .writing _ => c
  | .setWriting b => { c with writing := some b }
  | .createHsDim n => { c with hsDim := some n }
  | .createArr .hsDim _ => c
  | .createArr .dt t => { c with dt := some t }
  | .createArr .transformIn t => { c with tin := some t }
  | .createArr .transformOut t => { c with tout := some t }
  | .createData v n => c.setVds v { c.vds v with data := some (List.replicate n []) }
  | .createShape v n => c.setVds v { c.vds v with shape := some (List.replicate n []) }
  | .resizeShape v n => c.setVds v { c.vds v with shape := (c.vds v).shape.map (resizeRows · n) }
  | .resizeData v n => c.setVds v { c.vds v with data := (c.vds v).data.map (resizeRows · n) }
  | .writeShape v i row => c.setVds v { c.vds v with shape := (c.vds v).shape.map (·.set i row) }
  | .writeData v i row => c.setVds v { c.vds v with data := (c.vds v).data.map (·.set i row) }
  | .fclose => c

/-- a path on disk -/
inductive Disk
  | missing
  | unreadable
  | file (c : H5)
  deriving DecidableEq, Repr

/-- (H2) does `h5py.File(path, mode)` succeed? -/
def h5openOk : Disk → H5Mode → Bool
  | .file _, .r => true
  | _, .r => false
  | .file _, .rplus => true
  | _, .rplus => false
  | _, .w => true
  | .missing, .x => true
  | _, .x => false
  | .missing, .a => true
  | .file _, .a => true
  | .unreadable, .a => false

/-- (H2) the path after a successful or failed `h5py.File(path, mode)` -/
def h5openDisk : Disk → H5Mode → Disk
  | _, .w => .file {}
  | .missing, .x => .file {}
  | .missing, .a => .file {}
  | d, _ => d

/-- effect of one operation on the path -/
def applyOp (d : Disk) (op : Op) : Disk :=
  match op with
  | .openMode m => h5openDisk d m
  | _ => match d with
    | .file c => .file (applyOpC c op)
    | d => d

/-- the file that reflects exactly the operations `ops` (in order) -/
def replay (d : Disk) (ops : List Op) : Disk := ops.foldl applyOp d

/-! ## 4. Choices read off the source (`Generated/FileFlags.lean`) -/

/-- where the value of an attribute written by `_create_file` comes from -/
inductive AttrSrc
  | version | name | description | const (b : Bool)
  deriving DecidableEq, Repr

/-- statements of `FileProcessTensor._create_file`, in order -/
inductive CreateStep
  | openFile
  | attr (a : AttrName) (src : AttrSrc)
  | arr (a : ArrName)
  | vdata (v : VName) (n : Nat)
  | vshape (v : VName) (n : Nat)
  | setInitialNone
  deriving DecidableEq, Repr

/-- statements of `SimpleProcessTensor.export`, in order -/
inductive ExportStep
  | create | setInitial | loopMpo | loopCap | close
  deriving DecidableEq, Repr

/-- statements of `FileProcessTensor.remove`, in order -/
inductive RemoveStep
  | close
  | guarded (thenDelete : Bool) (elseRaise : Bool)   -- `if self._removeable: os.remove(..) else: raise`
  | delete                                            -- unguarded `os.remove`
  | ifOpen (s : RemoveStep)      -- a statement inside `if self._f:` (h5py handles are falsy once closed)
  deriving DecidableEq, Repr

/-- PtTempo's choice of process-tensor class -/
inductive PtChoice
  | simple | fileNamed | fileTemp
  deriving DecidableEq, Repr

/-- the two text attributes of a process tensor that have setters -/
inductive MetaField
  | name | description
  deriving DecidableEq, Repr

/-- a property setter of `FileProcessTensor` (`name.setter`, `description.setter`) -/
structure SetterSpec where
  /-- the private attribute the setter assigns (`self._name` / `self._description`) -/
  field : MetaField
  /-- the text stored when `None` is assigned -/
  noneDefault : String
  /-- (`self._write`, `self._f is not None`) ↦ is the file attribute written? -/
  guard : Bool → Bool → Bool
  /-- the key of `self._f.attrs[...]` that is written -/
  attr : AttrName
  /-- the private attribute whose value is written there -/
  src : MetaField

/-- `unitary` and `unitary.conjugate().T` -/
inductive UExpr
  | u | udag
  deriving DecidableEq, Repr

/-- how `PtTempo._init_simple_process_tensor` / `_init_file_process_tensor` build what they hand
    to the process-tensor constructor -/
structure PtInitSpec where
  /-- the condition under which transforms are built (source text) -/
  cond : String
  /-- `transform_in = left_right_super(a, b).T` -/
  tin : UExpr × UExpr
  /-- `transform_out = left_right_super(a, b).T` -/
  tout : UExpr × UExpr
  /-- both are `None` otherwise -/
  elseNone : Bool
  /-- keyword arguments of the constructor call other than `mode`/`filename`, sorted by name:
      (keyword, source text of the value) -/
  kwargs : List (String × String)
  deriving DecidableEq, Repr

/-- a call found in an `except`/`finally` block on the path an exception takes out of a writer -/
inductive UnwindStep
  | close | remove
  deriving DecidableEq, Repr

structure Flags where
  /-- `_read_file`: the test on `attrs["writing"]` that triggers the corruption warning -/
  readWarn : PyVal → Bool
  /-- `close()`: the test (`self._write`, `attrs["writing"]`) guarding the reset of the flag -/
  closeReset : Bool → PyVal → Bool
  /-- the constant `close()` assigns to the flag -/
  closeValue : Bool
  /-- `__init__`: mode ↦ (`_write`, `_overwrite`); `none` = `ValueError` -/
  modeFlags : String → Option (Bool × Bool)
  /-- `_create_file`: `_overwrite` ↦ h5py mode string -/
  createMode : Bool → String
  /-- `_read_file`: h5py mode string -/
  readMode : String
  /-- `__init__`: (`_write`, `_overwrite`, filename given) ↦ `_removeable` -/
  removeable : Bool → Bool → Bool → Bool
  removeSteps : List RemoveStep
  /-- `export(overwrite)` ↦ mode -/
  exportMode : Bool → String
  exportSteps : List ExportStep
  createSteps : List CreateStep
  /-- attributes / datasets `_read_file` accesses unguarded -/
  readAttrs : List AttrName
  readArrs : List ArrName
  readVs : List (VName × Bool)
  /-- `SimpleProcessTensor.set_initial_tensor` as written: (previous `_initial_tensor`,
      argument) ↦ stored `_initial_tensor` -/
  simpleSetInitial : Option Tensor → Option Tensor → Option Tensor
  /-- PtTempo: (`bool(process_tensor_file)`, `isinstance(process_tensor_file, Text)`) ↦ class -/
  ptTempoChoice : Bool → Bool → PtChoice
  /-- PtTempo `_init_file_process_tensor`: (the caller's `overwrite`, the other operands of the
      condition — e.g. looks at the file system — by index) ↦ mode -/
  ptTempoMode : Bool → (Nat → Bool) → String
  /-- `FileProcessTensor.name.setter` / `description.setter` -/
  nameSetter : SetterSpec
  descrSetter : SetterSpec
  /-- the metadata PtTempo hands to the in-memory / file-backed process tensor -/
  ptTempoSimpleInit : PtInitSpec
  ptTempoFileInit : PtInitSpec
  /-- `close()`/`remove()` calls in `except`/`finally` blocks of `export()` after the file was
      created, and of the PT-TEMPO writing path (`pt_tempo_compute`, `PtTempo.compute`,
      `get_process_tensor`, `update_process_tensor`, `compute_caps`, `set_*_tensor`) -/
  exportUnwind : List UnwindStep
  ptTempoUnwind : List UnwindStep
  /-- every assignment to `attrs["writing"]` in oqupy/process_tensor.py:
      (enclosing function, constant assigned) -/
  writingAssignments : List (String × Bool)
  /-- the values `FileProcessTensor.compute_caps()` assigns to `attrs["writing"]` after its
      last cap write, in order (the only attribute writes it may contain) -/
  computeCapsTail : List Bool
  /-- `import_process_tensor(…, 'simple')`: the value of `transformed` in the
      `pt_file.get_mpo_tensor(step, …)` call whose result is passed to `pt.set_mpo_tensor`
      (`simpleOfFile` models the copy of the stored, untransformed tensors) -/
  importMpoTransformed : Bool
  /-- … and the cap tensors are copied from the file (`get_cap_tensor` → `set_cap_tensor`),
      not recomputed -/
  importCopiesCaps : Bool
  /-- `_read_file`: the test on `attrs["writing"]` is a top-level statement, i.e. it is not
      skipped when another condition (e.g. the version check) holds -/
  readWarnUnconditional : Bool
  /-- `close()`: the guard of the flag reset mentions only `self._write` and the flag
      (`closeReset` above takes any further operand as True) -/
  closeResetPure : Bool
  /-- `import_process_tensor` opens the file through `FileProcessTensor(mode="read")` as its
      first statement: no reader-side state (cache, set of verified paths) is consulted first,
      so what a reader observes is a function of the file's content only -/
  importOpensFirst : Bool

/-! ## 5. Process tensors in memory -/

/-- attributes of `BaseProcessTensor` -/
structure Meta where
  hsDim : Nat
  dt : Option Rat
  tin : Option Tensor
  tout : Option Tensor
  name : String
  description : String
  deriving DecidableEq, Repr

/-- `SimpleProcessTensor` -/
structure SimplePT where
  info : Meta
  initial : Option Tensor := none
  mpos : List (Option Tensor) := []
  caps : List (Option Tensor) := []
  deriving DecidableEq, Repr

/-- Python `lst.extend([None]*(step-len+1))` if needed, then `lst[step] = x` -/
def listSetGrow {α} (l : List (Option α)) (step : Nat) (x : α) : List (Option α) :=
  (if step ≥ l.length then l ++ List.replicate (step - l.length + 1) none else l).set step (some x)

namespace SimplePT

def setInitial (F : Flags) (pt : SimplePT) (t : Option Tensor) : SimplePT :=
  { pt with initial := F.simpleSetInitial pt.initial t }

def setMpo (pt : SimplePT) (step : Nat) (t : Option Tensor) : SimplePT :=
  { pt with mpos := listSetGrow pt.mpos step (npArray t) }

def setCap (pt : SimplePT) (step : Nat) (t : Option Tensor) : SimplePT :=
  { pt with caps := listSetGrow pt.caps step (npArray t) }

def length (pt : SimplePT) : Nat := pt.mpos.length

/-- `get_mpo_tensor(step, transformed=False)` before the rank-3 expansion (the stored array) -/
def getMpo (pt : SimplePT) (step : Nat) : Option Tensor := (pt.mpos[step]?).join

/-- `get_cap_tensor(step)` -/
def getCap (pt : SimplePT) (step : Nat) : Option Tensor := (pt.caps[step]?).join

/-- `get_bond_dimensions()`; `none` = raises (empty list / `None` last entry / rank < 2) -/
def bondDims (pt : SimplePT) : Option (List Nat) :=
  match pt.mpos.getLast? with
  | some (some last) =>
    match last.shape with
    | _ :: b :: _ =>
      some (pt.mpos.map (fun m => match m with
        | some t => t.shape.headD 0
        | none => 0) ++ [b])
    | _ => none
  | _ => none

end SimplePT

/-! ## 6. The writer -/

def dtArr : Option Rat → Tensor
  | none => hdf5None
  | some x => ⟨[1], [Entry.num x 0]⟩

def optArr (t : Option Tensor) : Tensor := t.getD hdf5None

/-- writer state: the path as the writer's handle sees it, and the operations issued so far -/
structure W where
  d : Disk
  trace : List Op := []
  deriving DecidableEq, Repr

namespace W

def emit (w : W) (op : Op) : W := ⟨applyOp w.d op, w.trace ++ [op]⟩

def lenShape (w : W) (v : VName) : Nat :=
  match w.d with
  | .file c => match (c.vds v).shape with
    | some l => l.length
    | none => 0
  | _ => 0

def lenData (w : W) (v : VName) : Nat :=
  match w.d with
  | .file c => match (c.vds v).data with
    | some l => l.length
    | none => 0
  | _ => 0

/-- `_set_data_and_shape(step, data, shape, tensor)` statement by statement -/
def setDataShape (w : W) (v : VName) (step : Nat) (t : Option Tensor) : W :=
  let t := t.getD hdf5None                                     -- if tensor is None: tensor = np.array(HDF5None)
  let w := if step ≥ w.lenShape v then w.emit (.resizeShape v (step + 1)) else w
  let w := if step ≥ w.lenData v then w.emit (.resizeData v (step + 1)) else w
  let w := w.emit (.writeShape v step t.shape)                 -- shape[step] = tensor.shape
  w.emit (.writeData v step t.data)                            -- data[step] = tensor.reshape(-1)

end W

/-- `oqupy.__version__` is a parameter of the model -/
structure Env where
  version : String

def attrValue (env : Env) (m : Meta) : AttrSrc → Option String
  | .version => some env.version
  | .name => some m.name
  | .description => some m.description
  | .const _ => none

def arrValue (m : Meta) : ArrName → Tensor
  | .hsDim => hdf5None            -- (not used: `hs_dim` is an integer dataset, see `createHsDim`)
  | .dt => dtArr m.dt
  | .transformIn => optArr m.tin
  | .transformOut => optArr m.tout

/-- one statement of `_create_file` -/
def createStep (env : Env) (m : Meta) (mode : H5Mode) (w : W) : CreateStep → W
  | .openFile => w.emit (.openMode mode)
  | .attr .writing (.const b) => w.emit (.setWriting b)
  | .attr a src => match attrValue env m src with
    | some s => w.emit (.setAttrStr a s)
    | none => w
  | .arr .hsDim => w.emit (.createHsDim m.hsDim)
  | .arr a => w.emit (.createArr a (arrValue m a))
  | .vdata v n => w.emit (.createData v n)
  | .vshape v n => w.emit (.createShape v n)
  | .setInitialNone => w.setDataShape .init 0 none

/-- the high-level calls a writer makes after construction -/
inductive Cmd
  | setInitial (t : Option Tensor)
  | setMpo (step : Nat) (t : Option Tensor)
  | setCap (step : Nat) (t : Option Tensor)
  deriving DecidableEq, Repr

def runCmd (w : W) : Cmd → W
  | .setInitial t => w.setDataShape .init 0 t
  | .setMpo k t => w.setDataShape .mpo k t
  | .setCap k t => w.setDataShape .cap k t

def runCmds (w : W) (cmds : List Cmd) : W := cmds.foldl runCmd w

/-- `FileProcessTensor.close()` on a handle opened with `_write = write` -/
def closeW (F : Flags) (write : Bool) (w : W) : W :=
  match w.d with
  | .file c => match c.writing with
    | some b =>
      let w := if F.closeReset write (h5AttrRead b) then w.emit (.setWriting F.closeValue) else w
      w.emit .fclose
    | none => w            -- KeyError: the handle stays open
  | _ => w

/-- constructor outcome of `FileProcessTensor(mode=…, filename=…)` in a writing mode -/
inductive OpenErr
  | badMode        -- ValueError: mode not one of read/write/overwrite
  | notWriting     -- (model only) a reading mode where a writing one is needed
  | badH5Mode      -- h5py rejects the mode string
  | osError        -- h5py.File raised (exists / missing / unreadable)
  deriving DecidableEq, Repr

/-- `FileProcessTensor.__init__` for a writing mode: creates the file, returns the handle -/
def createFile (F : Flags) (env : Env) (d : Disk) (mode : String) (m : Meta) :
    Except OpenErr W :=
  match F.modeFlags mode with
  | none => .error .badMode
  | some (false, _) => .error .notWriting
  | some (true, ovw) =>
    match H5Mode.ofString? (F.createMode ovw) with
    | none => .error .badH5Mode
    | some hm =>
      if h5openOk d hm then
        .ok (F.createSteps.foldl (createStep env m hm) ⟨d, []⟩)
      else .error .osError

/-- `for step, t in enumerate(lst): f(step, t)` -/
def enumCmds (mk : Nat → Option Tensor → Cmd) : Nat → List (Option Tensor) → List Cmd
  | _, [] => []
  | k, t :: ts => mk k t :: enumCmds mk (k + 1) ts

/-- one statement of `export()` acting on the file handle (after `create`) -/
def exportStep (F : Flags) (pt : SimplePT) (w : W) : ExportStep → W
  | .create => w
  | .setInitial => runCmd w (.setInitial pt.initial)
  | .loopMpo => runCmds w (enumCmds .setMpo 0 pt.mpos)
  | .loopCap => runCmds w (enumCmds .setCap 0 pt.caps)
  | .close => closeW F true w

/-- `SimpleProcessTensor.export(filename, overwrite)`: the handle after the last statement
    (its `trace` is the complete list of operations, its `d` the resulting file). -/
def exportW (F : Flags) (env : Env) (d : Disk) (pt : SimplePT) (overwrite : Bool) :
    Except OpenErr W :=
  match F.exportSteps with
  | .create :: rest =>
    match createFile F env d (F.exportMode overwrite) pt.info with
    | .ok w => .ok (rest.foldl (exportStep F pt) w)
    | .error e => .error e
  | _ => .error .badMode

/-- a file-backed writer in general: construction, any list of `set_*` calls, `close()` -/
def writerW (F : Flags) (env : Env) (d : Disk) (mode : String) (m : Meta) (cmds : List Cmd)
    (close : Bool) : Except OpenErr W :=
  match createFile F env d mode m with
  | .ok w =>
    let w := runCmds w cmds
    .ok (if close then closeW F true w else w)
  | .error e => .error e

/-- the `set_*` calls of a file-backed PT-TEMPO run of `n` steps
    (`update_process_tensor`: MPO tensors in reversed order; `FileProcessTensor.compute_caps`:
    cap `n` first, then `n-1 … 0`) -/
def ptTempoCmds (mpos : List (Option Tensor)) (caps : List (Option Tensor)) : List Cmd :=
  (enumCmds .setMpo 0 mpos).reverse ++ (enumCmds .setCap 0 caps).reverse

/-! ## 7. The reader -/

inductive Outcome
  | fail | warn | clean
  deriving DecidableEq, Repr

/-- `_read_file`: does it raise, warn about an interrupted writer, or return silently? -/
def readOutcome (F : Flags) (d : Disk) : Outcome :=
  match H5Mode.ofString? F.readMode with
  | none => .fail
  | some hm =>
    if !h5openOk d hm then .fail else
    match h5openDisk d hm with
    | .file c =>
      if !(F.readAttrs.all c.hasAttr && F.readArrs.all c.hasArr && F.readVs.all c.hasV) then .fail
      else match c.writing with
        | none => .fail
        | some b => if F.readWarn (h5AttrRead b) then .warn else .clean
    | _ => .fail

inductive GetErr
  | indexError | valueError | keyError
  deriving DecidableEq, Repr

/-- `_get_data_and_shape(step, data, shape)` -/
def getDataShape (p : VDs) (step : Nat) : Except GetErr (Option Tensor) :=
  match p.shape, p.data with
  | some shape, some data =>
    if step ≥ shape.length then .error .indexError else
    match shape[step]?, data[step]? with
    | some sh, some da =>
      if da.length = shapeSize sh then
        let t : Tensor := ⟨sh, da⟩
        .ok (if isHdf5None t then none else some t)
      else .error .valueError
    | _, _ => .error .indexError
  | _, _ => .error .keyError

def dtOfArr (t : Tensor) : Option Rat :=
  if isHdf5None t then none else
  match t.data with
  | Entry.num re _ :: _ => some re
  | _ => none

def noneIfSentinel (t : Tensor) : Option Tensor := if isHdf5None t then none else some t

/-- the constructor arguments `_read_file` returns -/
def readMeta (c : H5) : Option Meta :=
  match c.hsDim, c.dt, c.tin, c.tout, c.name, c.description with
  | some n, some dt, some tin, some tout, some name, some descr =>
    some ⟨n, dtOfArr dt, noneIfSentinel tin, noneIfSentinel tout, name, descr⟩
  | _, _, _, _, _, _ => none

/-- a `FileProcessTensor` opened for reading -/
structure FilePT where
  info : Meta
  c : H5
  deriving DecidableEq, Repr

namespace FilePT
def length (p : FilePT) : Nat :=
  match p.c.mpo.shape with
  | some l => l.length
  | none => 0
def getInitial (p : FilePT) : Except GetErr (Option Tensor) := getDataShape p.c.init 0
/-- `get_mpo_tensor(step, transformed=False)` -/
def getMpo (p : FilePT) (step : Nat) : Except GetErr (Option Tensor) := getDataShape p.c.mpo step
/-- `get_cap_tensor(step)`: `IndexError` becomes `None` -/
def getCap (p : FilePT) (step : Nat) : Except GetErr (Option Tensor) :=
  match getDataShape p.c.cap step with
  | .error .indexError => .ok none
  | r => r
/-- `get_bond_dimensions()`; `none` = raises -/
def bondDims (p : FilePT) : Option (List Nat) :=
  match p.c.mpo.shape with
  | some rows =>
    match rows.getLast? with
    | some (_ :: b :: _) =>
      if rows.all (fun r => !r.isEmpty) then some (rows.map (·.headD 0) ++ [b]) else none
    | _ => none
  | none => none
end FilePT

inductive ImportErr
  | openFailed                -- `_read_file` raised
  | get (e : GetErr)          -- a tensor could not be read
  | badType                   -- ValueError: process_tensor_type
  deriving DecidableEq, Repr

/-- `import_process_tensor(filename, 'file')`: the object and whether the corruption
    warning was issued -/
def importFile (F : Flags) (d : Disk) : Except ImportErr (FilePT × Bool) :=
  match readOutcome F d, d with
  | .fail, _ => .error .openFailed
  | o, .file c =>
    match readMeta c with
    | some m => .ok (⟨m, c⟩, o == .warn)
    | none => .error .openFailed
  | _, _ => .error .openFailed

/-- `[g 0, …, g (n-1)]`, stopping at the first error -/
def tabM {ε α} (g : Nat → Except ε α) : Nat → Except ε (List α)
  | 0 => .ok []
  | n + 1 =>
    match tabM g n with
    | .error e => .error e
    | .ok l => match g n with
      | .error e => .error e
      | .ok x => .ok (l ++ [x])

/-- the `while True` loop over cap tensors: stop at the first `None` -/
def capsLoop (p : FilePT) : Nat → Nat → Except GetErr (List (Option Tensor))
  | _, 0 => .ok []
  | k, fuel + 1 =>
    match p.getCap k with
    | .error e => .error e
    | .ok none => .ok []
    | .ok (some t) =>
      match capsLoop p (k + 1) fuel with
      | .error e => .error e
      | .ok l => .ok (some t :: l)

def capLen (p : FilePT) : Nat :=
  match p.c.cap.shape with
  | some l => l.length
  | none => 0

/-- the `'simple'` branch of `import_process_tensor` -/
def simpleOfFile (F : Flags) (p : FilePT) : Except GetErr SimplePT :=
  match p.getInitial with
  | .error e => .error e
  | .ok ini =>
    match tabM (fun k => p.getMpo k) p.length with
    | .error e => .error e
    | .ok mpos =>
      match capsLoop p 0 (capLen p + 1) with
      | .error e => .error e
      | .ok caps =>
        .ok { info := p.info
              initial := F.simpleSetInitial none ini
              mpos := mpos.map (fun t => some (npArray t))
              caps := caps.map (fun t => some (npArray t)) }

def importSimple (F : Flags) (d : Disk) : Except ImportErr (SimplePT × Bool) :=
  match importFile F d with
  | .error e => .error e
  | .ok (p, warned) =>
    match simpleOfFile F p with
    | .error e => .error (.get e)
    | .ok s => .ok (s, warned)

/-! ## 8. `remove()` and reader-side `close()` -/

inductive RemoveOutcome
  | deleted | refused | deletedUnentitled
  deriving DecidableEq, Repr

/-- one statement of `remove()`; `acc` = (deleted?, raised?); `isOpen` = the h5py handle is
    still open (on a closed handle `close()` raises: it reads `attrs` of a closed file) -/
def removeStepRun (removeable isOpen : Bool) (acc : Bool × Bool) : RemoveStep → Bool × Bool
  | .close => if isOpen then acc else (acc.1, true)
  | .guarded thenDelete elseRaise =>
    if removeable then (acc.1 || thenDelete, acc.2) else (acc.1, elseRaise)
  | .delete => (true, acc.2)
  | .ifOpen s => if isOpen then removeStepRun removeable isOpen acc s else acc

/-- `remove()` on an object with the given `_removeable` whose handle is open or already
    closed: (deleted?, raised?); statements after a raise are not executed -/
def removeRunO (steps : List RemoveStep) (removeable isOpen : Bool) : Bool × Bool :=
  steps.foldl (fun (acc : Bool × Bool) s =>
    if acc.2 then acc else removeStepRun removeable isOpen acc s) (false, false)

/-- `remove()` on a still-open object -/
def removeRun (steps : List RemoveStep) (removeable : Bool) : Bool × Bool :=
  removeRunO steps removeable true

/-- is the file gone after `close(); remove()` (seq = false) / `remove(); remove()` (seq = true)? -/
def removeSeqDeletes (steps : List RemoveStep) (removeable : Bool) (twice : Bool) : Bool :=
  if twice then
    (removeRunO steps removeable true).1 || (removeRunO steps removeable false).1
  else (removeRunO steps removeable false).1

/-- `_removeable` of a `FileProcessTensor(mode, filename)`; `none` = constructor raises -/
def removeableOf (F : Flags) (mode : String) (hasFilename : Bool) : Option Bool :=
  match F.modeFlags mode with
  | none => none
  | some (wr, ovw) => some (F.removeable wr ovw hasFilename)

/-- the specification of entitlement: temporary files the object created itself, and named
    files it was explicitly allowed to overwrite -/
def entitled (mode : String) (hasFilename : Bool) : Bool :=
  (mode == "write" && !hasFilename) || mode == "overwrite"

/-- `close()` of a reader: raises when it tries to write to the read-only handle -/
def readerCloseOk (F : Flags) (c : H5) : Bool :=
  match c.writing with
  | some b => !(F.closeReset false (h5AttrRead b))
  | none => false

/-! ## 9. Metadata assigned after creation -/

def Meta.get (m : Meta) : MetaField → String
  | .name => m.name
  | .description => m.description

def Meta.set (m : Meta) (f : MetaField) (s : String) : Meta :=
  match f with
  | .name => { m with name := s }
  | .description => { m with description := s }

/-- calls on a file-backed process tensor open for writing: tensor writes and assignments to
    `.name` / `.description` (the argument may be `None`) -/
inductive MCmd
  | tensor (c : Cmd)
  | setName (s : Option String)
  | setDescription (s : Option String)
  deriving DecidableEq, Repr

/-- a property setter, statement by statement: assign the private attribute, then (guard)
    write the file attribute -/
def applySetter (sp : SetterSpec) (write : Bool) (st : W × Meta) (v : Option String) : W × Meta :=
  let m' := st.2.set sp.field (v.getD sp.noneDefault)
  let w' := if sp.guard write true then st.1.emit (.setAttrStr sp.attr (m'.get sp.src)) else st.1
  (w', m')

/-- state = (file handle, the live object's attributes) -/
def runM (F : Flags) (st : W × Meta) : MCmd → W × Meta
  | .tensor c => (runCmd st.1 c, st.2)
  | .setName s => applySetter F.nameSetter true st s
  | .setDescription s => applySetter F.descrSetter true st s

/-- a file-backed writer whose name/description are (re)assigned after creation -/
def writerM (F : Flags) (env : Env) (d : Disk) (mode : String) (m : Meta) (cmds : List MCmd)
    (close : Bool) : Except OpenErr (W × Meta) :=
  match createFile F env d mode m with
  | .ok w =>
    let st := cmds.foldl (runM F) (w, m)
    .ok (if close then (closeW F true st.1, st.2) else st)
  | .error e => .error e

/-- the same assignments on an in-memory object (`BaseAPIClass` setters) -/
def metaCmd (F : Flags) (m : Meta) : MCmd → Meta
  | .tensor _ => m
  | .setName s => m.set .name (s.getD F.nameSetter.noneDefault)
  | .setDescription s => m.set .description (s.getD F.descrSetter.noneDefault)

/-! ## 10. Interruption by an exception -/

/-- `close()` of a writer, at the level of the file on disk -/
def closeDisk (F : Flags) : Disk → Disk
  | .file c =>
    match c.writing with
    | some b => if F.closeReset true (h5AttrRead b) then .file { c with writing := some F.closeValue }
                else .file c
    | none => .file c
  | d => d

/-- the handlers that run while an exception unwinds -/
def unwindDisk (F : Flags) (removeable : Bool) : Disk → List UnwindStep → Disk
  | d, [] => d
  | d, .close :: r => unwindDisk F removeable (closeDisk F d) r
  | d, .remove :: r =>
    let d' := closeDisk F d
    unwindDisk F removeable (if (removeRun F.removeSteps removeable).1 then .missing else d') r

/-- The file left behind when an exception (error or KeyboardInterrupt) is raised after the
    writer's `k`-th operation, everything issued so far being persisted (h5py closes open
    files when the interpreter exits): the first `k` operations, then — if construction
    (`nCreate` operations) was complete — whatever the handlers on the way out do. -/
def excState (F : Flags) (removeable : Bool) (unwind : List UnwindStep) (d0 : Disk)
    (trace : List Op) (nCreate k : Nat) : Disk :=
  let d := replay d0 (trace.take k)
  if nCreate ≤ k then unwindDisk F removeable d unwind else d

/-! ## 11. `compute_caps()` of a file-backed process tensor inside the writer's trace -/

/-- what `compute_caps()` writes to the attributes once its caps are stored -/
def capsTail (F : Flags) (w : W) : W := F.computeCapsTail.foldl (fun w b => w.emit (.setWriting b)) w

/-- `segs`: the `set_*` calls up to and including each `compute_caps()` call (its cap writes are
    the last calls of the segment); `rest`: calls after the last `compute_caps()` -/
def runSegs (F : Flags) (w : W) : List (List Cmd) → W
  | [] => w
  | seg :: r => runSegs F (capsTail F (runCmds w seg)) r

def writerSegW (F : Flags) (env : Env) (d : Disk) (mode : String) (m : Meta)
    (segs : List (List Cmd)) (rest : List Cmd) (close : Bool) : Except OpenErr W :=
  match createFile F env d mode m with
  | .ok w =>
    let w := runCmds (runSegs F w segs) rest
    .ok (if close then closeW F true w else w)
  | .error e => .error e

end OQuPyVerif.PTFile
