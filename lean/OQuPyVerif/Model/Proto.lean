/- Line-protocol helpers shared by the drivers (Mathlib-free). -/
namespace OQuPyVerif.Proto

def parseInt? (s : String) : Option Int := s.toInt?

/-- "p/q" (q > 0) or "p" -/
def parseRat? (s : String) : Option Rat :=
  match s.splitOn "/" with
  | [p] => p.toInt?.map (fun (n : Int) => (n : Rat))
  | [p, q] => match p.toInt?, q.toNat? with
    | some n, some d => if d = 0 then none else some (mkRat n d)
    | _, _ => none
  | _ => none

def showRat (r : Rat) : String := s!"{r.num}/{r.den}"

def showRats (l : List Rat) : String := " ".intercalate (l.map showRat)

def words (line : String) : List String :=
  (line.splitOn " ").filter (fun w => w ≠ "")

partial def loop (h : IO.FS.Stream) (step : String → String) : IO Unit := do
  let line ← h.getLine
  if line.isEmpty then return ()
  let l := (line.dropRightWhile (fun c => c == '\n' || c == '\r'))
  IO.println (step l)
  loop h step

def mainLoop (step : String → String) : IO Unit := do
  loop (← IO.getStdin) step

end OQuPyVerif.Proto
