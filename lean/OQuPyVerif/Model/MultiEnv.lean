/-
  `compute_dynamics` with a LIST of process tensors (property C03), the tensors returned by
  `get_mpo_tensor`, the caps of `compute_caps`, and an ancilla environment with known joint
  evolution.  Builds on the single-environment core `Model/ProcessTensor.lean`.

  * `EnvMpo`        one environment as `compute_dynamics` sees it: bond dimensions `D k`, step
                    tensors `T k b b' i o` (axes of `get_mpo_tensor`), caps `cap k b`;
  * `envAt`/`envLoop`  the loop of `_apply_pt_mpos`, literally: environment `j` is joined to entry
                    `j` of the bond tuple and to the system leg (axis roles: `Generated/MpoWiring`);
  * `envRec`        the same loop curried over the bond tuple (`Lemmas/MultiEnvFold:
                    envLoop_eq_envRec`); `multiStep`/`multiState`/`multiRecord`: the step loop and
                    the recorded states (`_apply_caps` = `applyCaps`);
  * `combineMpo`, `combineCap`, `combineAll`: a list of environments folded into ONE environment
                    on the flat bond index `(b1,b2) ↦ b1*D2+b2`;
  * `mpoTensorOf`   `get_mpo_tensor`: rank-3 → delta, `transform_in`, `transform_out`, read through
                    the regenerated wiring; `mpoTensorSpec` what it should be;
  * `capStepOf`     one step of `compute_caps` read through the regenerated wiring;
  * `ptOfJoint`     process tensor of an ancilla with joint maps `U k` on the index `b*L+s`;
                    `jointState`/`jointRecord` the joint evolution written on that one index;
  * `denseCombine`  series combination of two dense process tensors;
  * `foldLastT/D/Cap` a finite process tensor whose last bond is closed inside the last tensor;
  * `PtObj`, `objStep`, `objRun`, `objTrace`: the process-tensor object under a history of
                    `set_*` / `get_*` calls, with the memoisation behaviour read from the source.
-/
import OQuPyVerif.Model.ProcessTensor
import OQuPyVerif.Generated.MpoWiring

namespace OQuPyVerif.MultiEnv
open Finset BigOperators OQuPyVerif.PathSum OQuPyVerif.PT OQuPyVerif.Generated.MpoWiring
variable {K : Type} [CommRing K]


/-- One environment as `compute_dynamics` sees it -/
structure EnvMpo (K : Type) where
  D : ℕ → ℕ
  T : ℕ → ℕ → ℕ → ℕ → ℕ → K
  cap : ℕ → ℕ → K

/-- read a 4-axis tensor through the axis roles of `_apply_pt_mpos` -/
def axisPick (ax : MpoAxes) (T : ℕ → ℕ → ℕ → ℕ → K) (b b' i o : ℕ) : K :=
  let v : ℕ → ℕ := fun p =>
    if p = ax.bondIn then b else if p = ax.bondOut then b' else if p = ax.sysIn then i else o
  T (v 0) (v 1) (v 2) (v 3)

/-- the body of the loop of `_apply_pt_mpos` for environment `j` -/
def envAt (L j D : ℕ) (T : ℕ → ℕ → ℕ → ℕ → K) (X : List ℕ → ℕ → K) : List ℕ → ℕ → K :=
  fun bs o => ∑ b ∈ range D, ∑ i ∈ range L,
    axisPick applyAxes T b (bs.getD j 0) i o * X (bs.set j b) i

def envLoop (L k : ℕ) : ℕ → List (EnvMpo K) → (List ℕ → ℕ → K) → List ℕ → ℕ → K
  | _, [], X => X
  | j, e :: es, X => envLoop L k (j+1) es (envAt L j (e.D k) (e.T k) X)

/-- curried -/
def envRec (L k : ℕ) : List (EnvMpo K) → (List ℕ → ℕ → K) → List ℕ → ℕ → K
  | [], X, bs, o => X bs o
  | _ :: _, _, [], _ => 0
  | e :: es, X, b' :: bt', o =>
      envRec L k es (fun bt m => ∑ b ∈ range (e.D k), ∑ i ∈ range L,
        e.T k b b' i m * X (b :: bt) i) bt' o

/-- `T12((b1,b2),(b1',b2'),i,o) = Σ_m T1(b1,b1',i,m) · T2(b2,b2',m,o)` on the bond pair
    `(b1,b2) ↦ b1*D2+b2` -/
def combineMpo (L : ℕ) (D2 : ℕ → ℕ) (T1 T2 : ℕ → ℕ → ℕ → ℕ → ℕ → K) :
    ℕ → ℕ → ℕ → ℕ → ℕ → K :=
  fun k b b' i o => ∑ m ∈ range L,
    T1 k (b / D2 k) (b' / D2 (k+1)) i m * T2 k (b % D2 k) (b' % D2 (k+1)) m o

def combineCap (D2 : ℕ → ℕ) (c1 c2 : ℕ → ℕ → K) : ℕ → ℕ → K :=
  fun k b => c1 k (b / D2 k) * c2 k (b % D2 k)

def combine2 (L : ℕ) (e1 e2 : EnvMpo K) : EnvMpo K where
  D := fun k => e1.D k * e2.D k
  T := combineMpo L e2.D e1.T e2.T
  cap := combineCap e2.D e1.cap e2.cap

/-- no environment: bond dimension 1, identity tensor, cap `[1]` -/
def trivialEnv : EnvMpo K where
  D := fun _ => 1
  T := fun _ _ _ i o => if i = o then 1 else 0
  cap := fun _ _ => 1

def combineAll (L : ℕ) : List (EnvMpo K) → EnvMpo K
  | [] => trivialEnv
  | [e] => e
  | e :: e' :: es => combine2 L e (combineAll L (e' :: es))

/-- the bond tuple of a flat bond index (row-major, first environment slowest) -/
def unflat : List ℕ → ℕ → List ℕ
  | [], _ => []
  | [_], b => [b]
  | _ :: D' :: Ds, b => (b / (D' :: Ds).prod) :: unflat (D' :: Ds) (b % (D' :: Ds).prod)

/-- one loop iteration of `compute_dynamics` with a list of environments: `A k`, the MPO tensors
    of all environments in list order, `B k` -/
def multiStep (L : ℕ) (es : List (EnvMpo K)) (A B : ℕ → ℕ → ℕ → K) (k : ℕ)
    (X : List ℕ → ℕ → K) : List ℕ → ℕ → K :=
  fun bs s' => ∑ o ∈ range L, B k s' o *
    envRec L k es (fun bt i => ∑ s ∈ range L, A k i s * X bt s) bs o

/-- the propagated node: one bond index per environment (all `0` initially: shape `[1]*m + [L]`) -/
def multiState (L : ℕ) (es : List (EnvMpo K)) (A B : ℕ → ℕ → ℕ → K) (ρ0 : ℕ → K) :
    ℕ → List ℕ → ℕ → K
  | 0 => fun bs s => if bs.sum = 0 then ρ0 s else 0
  | k+1 => multiStep L es A B k (multiState L es A B ρ0 k)

/-- `_apply_caps`: bond edge `j` is closed with `caps[j]` -/
def applyCaps : List (ℕ × (ℕ → K)) → (List ℕ → ℕ → K) → ℕ → K
  | [], X => X []
  | (D, c) :: cs, X => applyCaps cs (fun bt s => ∑ b ∈ range D, c b * X (b :: bt) s)

/-- the state recorded at step `n` (after the pre-measurement control `pre`) -/
def multiRecord (L : ℕ) (es : List (EnvMpo K)) (A B : ℕ → ℕ → ℕ → K) (pre : ℕ → ℕ → K)
    (ρ0 : ℕ → K) (n : ℕ) (s' : ℕ) : K :=
  applyCaps (es.map (fun e => (e.D n, e.cap n)))
    (fun bs s'' => ∑ s ∈ range L, pre s'' s * multiState L es A B ρ0 n bs s) s'

/-- the step tensors of two environments commute on the system leg -/
def CommuteOn (L : ℕ) (e1 e2 : EnvMpo K) : Prop :=
  ∀ k b1 b1' b2 b2' i o, ∑ m ∈ range L, e1.T k b1 b1' i m * e2.T k b2 b2' m o
    = ∑ m ∈ range L, e2.T k b2 b2' i m * e1.T k b1 b1' m o

/-- exchange entries `j` and `j+1` of a bond tuple -/
def swapAt : ℕ → List ℕ → List ℕ
  | 0, x :: y :: r => y :: x :: r
  | 0, l => l
  | _+1, [] => []
  | j+1, x :: r => x :: swapAt j r

/-- a stored MPO tensor -/
inductive RawMpo (K : Type) where
  | rank3 (T : ℕ → ℕ → ℕ → K)
  | rank4 (T : ℕ → ℕ → ℕ → ℕ → K)

/-- `create_delta(T, scr)` of a rank-3 tensor read at the index `(b, b', i, o)`:
    `ret[a[scr[0]], .., a[scr[3]]] = T[a]`, all other entries `0` -/
def deltaExpand (scr : List ℕ) (T : ℕ → ℕ → ℕ → K) (b b' i o : ℕ) : K :=
  let idx : List ℕ := [b, b', i, o]
  let a : ℕ → ℕ := fun m => idx.getD (scr.idxOf m) 0
  if (List.range 4).all (fun p => idx.getD p 0 == a (scr.getD p 0)) then T (a 0) (a 1) (a 2) else 0

/-- entry of a matrix whose axis `axis` carries the contracted index -/
def pickMat (axis : ℕ) (M : ℕ → ℕ → K) (contracted other : ℕ) : K :=
  if axis = 0 then M contracted other else M other contracted

/-- `get_mpo_tensor(step)` (transformed) from the stored tensor, read through the regenerated
    wiring `w`; `none` for a wiring this model does not know. -/
def mpoTensorOf (w : GetMpoWiring) (Lin Lout : ℕ) (raw : RawMpo K)
    (tin tout : Option (ℕ → ℕ → K)) : Option (ℕ → ℕ → ℕ → ℕ → K) :=
  if w.inAxis = -2 ∧ w.outAxis = -1 ∧ w.deltaRank = 3 ∧ w.inBeforeOut = true then
    let T4 : ℕ → ℕ → ℕ → ℕ → K := match raw with
      | .rank4 T => T
      | .rank3 T => deltaExpand w.deltaScramble T
    let T5 : ℕ → ℕ → ℕ → ℕ → K := match tin with
      | none => T4
      | some M => fun b b' s o => ∑ i ∈ range Lin, pickMat w.inMatAxis M i s * T4 b b' i o
    let T6 : ℕ → ℕ → ℕ → ℕ → K := match tout with
      | none => T5
      | some M => fun b b' s s' => ∑ o ∈ range Lout, T5 b b' s o * pickMat w.outMatAxis M o s'
    some T6
  else none

/-- what `get_mpo_tensor` should return: delta between input and output leg for rank 3,
    `transform_in[s, i]` on the input leg, `transform_out[o, s']` on the output leg -/
def mpoTensorSpec (Lin Lout : ℕ) (raw : RawMpo K) (tin tout : Option (ℕ → ℕ → K)) :
    ℕ → ℕ → ℕ → ℕ → K :=
  let T4 : ℕ → ℕ → ℕ → ℕ → K := match raw with
    | .rank4 T => T
    | .rank3 T => fun b b' i o => if i = o then T b b' i else 0
  let T5 : ℕ → ℕ → ℕ → ℕ → K := match tin with
    | none => T4
    | some M => fun b b' s o => ∑ i ∈ range Lin, M s i * T4 b b' i o
  match tout with
    | none => T5
    | some M => fun b b' s s' => ∑ o ∈ range Lout, T5 b b' s o * M o s'

/-- `_trace_in = _trace @ transform_in` (or `_trace`) -/
def traceInVec (L : ℕ) (tr : ℕ → K) : Option (ℕ → ℕ → K) → ℕ → K
  | none => tr
  | some M => fun i => ∑ s ∈ range L, tr s * pickMat traceInMatAxis M s i

/-- `_trace_out = transform_out @ _trace` (or `_trace`) -/
def traceOutVec (L : ℕ) (tr : ℕ → K) : Option (ℕ → ℕ → K) → ℕ → K
  | none => tr
  | some M => fun o => ∑ s ∈ range L, pickMat traceOutMatAxis M s o * tr s

def closerVec (L : ℕ) (tr : ℕ → K) (tin tout : Option (ℕ → ℕ → K)) : Closer → Option (ℕ → K)
  | .lastCap => none
  | .trace => some tr
  | .traceSquare => some (fun i => tr i * tr i)
  | .traceIn => some (traceInVec L tr tin)
  | .traceOut => some (traceOutVec L tr tout)
  | .traceInTimesOut => some (fun i => traceInVec L tr tin i * traceOutVec L tr tout i)

/-- one step of `compute_caps` read through the regenerated wiring: the cap of a step from the cap
    `capNext` of the next step (`Dn` = bond dimension between them); `none`: unknown wiring -/
def capStepOf (w : CapWiring) (g : GetMpoWiring) (L Lin Lout Dn : ℕ) (tr : ℕ → K)
    (raw : RawMpo K) (tin tout : Option (ℕ → ℕ → K)) (capNext : ℕ → K) : Option (ℕ → K) :=
  match w.tensor, raw with
  | .stored, .rank3 T =>
    match w.rank3 with
    | some [(1, .lastCap), (2, c)] =>
      (closerVec L tr tin tout c).map (fun v b =>
        ∑ b' ∈ range Dn, ∑ i ∈ range Lin, T b b' i * v i * capNext b')
    | _ => none
  | .stored, .rank4 T =>
    match w.rank4 with
    | [(1, .lastCap), (2, c2), (3, c3)] =>
      (closerVec L tr tin tout c2).bind (fun v2 => (closerVec L tr tin tout c3).map (fun v3 b =>
        ∑ b' ∈ range Dn, ∑ i ∈ range Lin, ∑ o ∈ range Lout, T b b' i o * v2 i * v3 o * capNext b'))
    | _ => none
  | .transformed, raw =>
    match w.rank3, w.rank4 with
    | none, [(1, .lastCap), (2, c2), (3, c3)] =>
      (mpoTensorOf g Lin Lout raw tin tout).bind (fun T =>
        (closerVec L tr tin tout c2).bind (fun v2 => (closerVec L tr tin tout c3).map (fun v3 b =>
          ∑ b' ∈ range Dn, ∑ s ∈ range L, ∑ s' ∈ range L, T b b' s s' * v2 s * v3 s' * capNext b')))
    | _, _ => none

/-- the wirings under which the caps close exactly the tensors that `compute_dynamics` contracts -/
def capsConsistent (w : CapWiring) : Bool :=
  match w.tensor with
  | .stored => w.rank3 == some [(1, .lastCap), (2, .traceInTimesOut)] &&
      w.rank4 == [(1, .lastCap), (2, .traceIn), (3, .traceOut)]
  | .transformed => w.rank3 == none && w.rank4 == [(1, .lastCap), (2, .trace), (3, .trace)]

def getMpoKnown (w : GetMpoWiring) : Bool :=
  w.inAxis == -2 && w.outAxis == -1 && w.deltaRank == 3 && w.inBeforeOut &&
    w.deltaScramble == [0, 1, 2, 2] && w.inMatAxis == 1 && w.outMatAxis == 0

def inLeg (Lin : ℕ) (tin : Option (ℕ → ℕ → K)) (g : ℕ → K) : ℕ → K :=
  match tin with
  | none => g
  | some M => fun s => ∑ i ∈ range Lin, M s i * g i

def outLeg (Lout : ℕ) (tout : Option (ℕ → ℕ → K)) (h : ℕ → K) : ℕ → K :=
  match tout with
  | none => h
  | some M => fun s' => ∑ o ∈ range Lout, h o * M o s'

def raw4 : RawMpo K → ℕ → ℕ → ℕ → ℕ → K
  | .rank4 T => T
  | .rank3 T => fun b b' i o => if i = o then T b b' i else 0

/-- The process tensor of an ancilla with `E` Liouville indices: `U k` is the joint map of step `k`
    on the combined index `y = b*L + s` (ancilla index `b`, system index `s`), `ρE` the initial
    ancilla state (folded into the first tensor: the first bond has dimension 1), `trE` the trace
    covector of the ancilla (the cap). -/
def ptOfJoint (L E : ℕ) (U : ℕ → ℕ → ℕ → K) (ρE trE : ℕ → K) : EnvMpo K where
  D := fun k => if k = 0 then 1 else E
  T := fun k b b' i o =>
    if k = 0 then ∑ b0 ∈ range E, U 0 (b' * L + o) (b0 * L + i) * ρE b0
    else U k (b' * L + o) (b * L + i)
  cap := fun k b => if k = 0 then ∑ b0 ∈ range E, trE b0 * ρE b0 else trE b

/-- `1_E ⊗ A` on the combined index -/
def kronI (L : ℕ) (A : ℕ → ℕ → K) (y y' : ℕ) : K :=
  if y / L = y' / L then A (y % L) (y' % L) else 0

def matVec (N : ℕ) (M : ℕ → ℕ → K) (v : ℕ → K) (y : ℕ) : K := ∑ y' ∈ range N, M y y' * v y'

/-- the joint state of ancilla and system, on ONE index `y < E*L`:
    `Y₀ = ρE ⊗ ρ0`,  `Y_{k+1} = (1 ⊗ B_k) · U_k · (1 ⊗ A_k) · Y_k` -/
def jointState (L E : ℕ) (U : ℕ → ℕ → ℕ → K) (A B : ℕ → ℕ → ℕ → K) (ρE ρ0 : ℕ → K) : ℕ → ℕ → K
  | 0 => fun y => ρE (y / L) * ρ0 (y % L)
  | k+1 => matVec (E * L) (kronI L (B k)) (matVec (E * L) (U k)
      (matVec (E * L) (kronI L (A k)) (jointState L E U A B ρE ρ0 k)))

/-- the reduced system state after the pre-measurement control: partial trace over the ancilla -/
def jointRecord (L E : ℕ) (U : ℕ → ℕ → ℕ → K) (A B : ℕ → ℕ → ℕ → K) (ρE trE : ℕ → K)
    (pre : ℕ → ℕ → K) (ρ0 : ℕ → K) (n s' : ℕ) : K :=
  ∑ y ∈ range (E * L), trE (y / L) * pre s' (y % L) * jointState L E U A B ρE ρ0 n y

/-- series combination of two dense process tensors: at every step the output of the first is the
    input of the second (`m` lists the legs in between, newest first) -/
def midOut : List ℕ → List ℕ → List ℕ
  | _ :: i :: p, m :: ms => m :: i :: midOut p ms
  | _, _ => []

def midIn : List ℕ → List ℕ → List ℕ
  | o :: _ :: p, m :: ms => o :: m :: midIn p ms
  | _, _ => []

def denseCombine (L : ℕ) (F1 F2 : ℕ → List ℕ → K) (n : ℕ) (p : List ℕ) : K :=
  pathSum L n (fun ms => F1 n (midOut p ms) * F2 n (midIn p ms))

/-- identity table -/
def delta (a b : ℕ) : K := if a = b then 1 else 0

/-- the output legs of a path `[o_{n-1}, i_{n-1}, …]` -/
def outs : List ℕ → List ℕ
  | o :: _ :: p => o :: outs p
  | _ => []

/-- `Π_k δ(o_k, i_k)` -/
def diagAmp : List ℕ → K
  | o :: i :: p => delta o i * diagAmp p
  | _ => 1

/-- an environment with rank-3 tensors (delta between input and output leg), no transforms -/
def rank3Env (D : ℕ → ℕ) (T3 : ℕ → ℕ → ℕ → ℕ → K) (cap : ℕ → ℕ → K) : EnvMpo K where
  D := D
  T := fun k b b' i o => if i = o then T3 k b b' i else 0
  cap := cap

/-! ### a finite process tensor: the last bond closed inside the last tensor -/

/-- the last tensor (step `N-1`) contracted with the cap of step `N` on its future bond -/
def foldLastT (N : ℕ) (D : ℕ → ℕ) (T : ℕ → ℕ → ℕ → ℕ → ℕ → K) (cap : ℕ → ℕ → K) :
    ℕ → ℕ → ℕ → ℕ → ℕ → K :=
  fun k b b' i o =>
    if k + 1 = N then (if b' = 0 then ∑ b'' ∈ range (D N), cap N b'' * T k b b'' i o else 0)
    else T k b b' i o

def foldLastD (N : ℕ) (D : ℕ → ℕ) : ℕ → ℕ := fun k => if k = N then 1 else D k

def foldLastCap (N : ℕ) (cap : ℕ → ℕ → K) : ℕ → ℕ → K := fun k b => if k = N then 1 else cap k b

/-! ### the process-tensor object under a history of `set_*` / `get_*` calls -/

/-- per step: what `set_*` stored last, and what a memoising `get_*` keeps -/
structure PtObj (V W : Type) where
  stored : Nat → Option V
  cache : Nat → Option W

inductive PtOp (V : Type) where
  | set (k : Nat) (v : V)
  | get (k : Nat)

def updAt {α : Type} (f : Nat → α) (k : Nat) (a : α) : Nat → α := fun j => if j = k then a else f j

def PtObj.empty {V W : Type} : PtObj V W := { stored := fun _ => none, cache := fun _ => none }

/-- one call on the object; `f` is what the getter computes from the stored value (for
    `get_mpo_tensor`: delta expansion and transforms; for `get_cap_tensor`: the identity);
    the wiring says whether the getter memoises and whether the setter drops the memo -/
def objStep {V W : Type} (cw : CacheWiring) (f : V → W) (s : PtObj V W) :
    PtOp V → PtObj V W × Option W
  | .set k v =>
    ({ stored := updAt s.stored k (some v),
       cache := if cw.invalidatedBySet then updAt s.cache k none else s.cache }, none)
  | .get k =>
    match s.stored k with
    | none => (s, none)
    | some v =>
      if cw.cached then
        match s.cache k with
        | some w => (s, some w)
        | none => ({ s with cache := updAt s.cache k (some (f v)) }, some (f v))
      else (s, some (f v))

def objRun {V W : Type} (cw : CacheWiring) (f : V → W) (s : PtObj V W) : List (PtOp V) → PtObj V W
  | [] => s
  | op :: ops => objRun cw f (objStep cw f s op).1 ops

/-- answers of all calls, in order -/
def objTrace {V W : Type} (cw : CacheWiring) (f : V → W) (s : PtObj V W) :
    List (PtOp V) → List (Option W)
  | [] => []
  | op :: ops => (objStep cw f s op).2 :: objTrace cw f (objStep cw f s op).1 ops

/-- a memo can never go stale -/
def cacheSafe (cw : CacheWiring) : Bool := !cw.cached || cw.invalidatedBySet

/-- every memo entry is the image of what is stored now -/
def CacheOk {V W : Type} (f : V → W) (s : PtObj V W) : Prop :=
  ∀ k w, s.cache k = some w → ∃ v, s.stored k = some v ∧ w = f v

end OQuPyVerif.MultiEnv
