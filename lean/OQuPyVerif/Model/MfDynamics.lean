/- `MeanFieldDynamics.add` / `Dynamics.add` as interpreters of the statement lists regenerated
   from the source (`Generated/DynamicsAdd.lean`).  Mathlib-free, executable. -/
import OQuPyVerif.Model.TimeGrid
import OQuPyVerif.Generated.DynamicsAdd

namespace OQuPyVerif.MfDynamics
open OQuPyVerif.TimeGrid OQuPyVerif.Generated.DynamicsAdd

/-- times, fields (abstract tags), one `Dynamics` per system, and the `index` variable -/
structure MfSt where
  times : List Rat
  fields : List Int
  sys : List (Dyn Int)
  idx : Nat
deriving Repr

def MfSt.empty : MfSt := ⟨[], [], [], 0⟩

/-- `for i, d in enumerate(self._system_dynamics): d.add(time, states[i])`
    (the per-system objects are created on the first call) -/
def delegateAdd (sys : List (Dyn Int)) (t : Rat) (states : List Int) : List (Dyn Int) :=
  if sys.isEmpty then states.map (fun st => dynAdd Dyn.empty t st)
  else List.zipWith (fun d st => dynAdd d t st) sys states

/-- run the statements of `MeanFieldDynamics.add(t, states, f)` -/
def mfRun (t : Rat) (f : Int) (states : List Int) : List AddOp → MfSt → MfSt
  | [], s => s
  | .find l :: r, s =>
      mfRun t f states r { s with idx := if l == "_times" then bisectRight s.times t
                                         else s.fields.length }
  | .insert l :: r, s =>
      mfRun t f states r
        (if l == "_times" then { s with times := insertAt s.times s.idx t }
         else if l == "_fields" then { s with fields := insertAt s.fields s.idx f }
         else s)
  | .delegate :: r, s => mfRun t f states r { s with sys := delegateAdd s.sys t states }

def mfAdd (s : MfSt) (t : Rat) (states : List Int) (f : Int) : MfSt :=
  mfRun t f states mfd_add_ops s

/-- run the statements of `Dynamics.add(t, x)` on a `Dyn` -/
def dynRun (t : Rat) (x : Int) : List AddOp → Dyn Int × Nat → Dyn Int × Nat
  | [], s => s
  | .find _ :: r, (d, _) => dynRun t x r (d, bisectRight d.times t)
  | .insert l :: r, (d, i) =>
      dynRun t x r (if l == "_times" then (⟨insertAt d.times i t, d.states⟩, i)
                    else if l == "_states" then (⟨d.times, insertAt d.states i x⟩, i) else (d, i))
  | .delegate :: r, s => dynRun t x r s

end OQuPyVerif.MfDynamics
