/-
  C07 — executable model of the time bookkeeping of
  `compute_correlations_nt` / `compute_correlations` (oqupy/system_dynamics.py).

  Mathlib-free.  Everything arithmetic that `_parse_times` and the axis labelling do,
  and the shape of the index write-back, comes from `Generated/CorrTimes.lean`
  (regenerated from the source on every run); the control flow around it is written
  here and tied to the code by the correspondence run of `harness/run_C07.py`.

  The *values* are abstract: the entry written for a tuple of steps is represented by
  that tuple (`List Int`), i.e. by the argument of `val : List Int → V`.  The model says
  WHICH steps every entry of the returned array was computed for.
-/
import OQuPyVerif.Generated.CorrTimes

namespace OQuPyVerif.Correlations
open OQuPyVerif.FloatModel OQuPyVerif.Generated.CorrTimes

/-- A time specification accepted by `_parse_times`.
    (A `list` holds Python ints only: numpy rejects lists that mix in slices, and a list of
    bools is a mask — both outside the model.) -/
inductive TimeSpec
  | int (k : Int)
  | slice (start stop step : Option Int)
  | list (l : List Int)
  | float (t : Rat)
  | interval (t0 t1 : Rat)
  deriving Repr, DecidableEq

/-- exception kinds that the model distinguishes -/
inductive Err
  | index      -- IndexError (out of bound / invalid index / zero slice step)
  | value      -- ValueError (`max()` of an empty selection)
  | dtMissing  -- neither the caller nor the process tensor supplies a time step
  | dtMismatch -- compute_dynamics: process tensor and `dt` disagree
  deriving Repr, DecidableEq

/-! ### Python / numpy indexing -/

/-- `range(start, stop, step)` / `np.arange(start, stop, step)` on ints (`[]` for step 0). -/
def pyRange (start stop step : Int) : List Int :=
  let count : Int :=
    if step > 0 then (if start < stop then (stop - start - 1) / step + 1 else 0)
    else if step < 0 then (if stop < start then (start - stop - 1) / (-step) + 1 else 0)
    else 0
  (List.range count.toNat).map (fun (i : Nat) => start + (i : Int) * step)

/-- CPython `PySlice_AdjustIndices` for one bound that is given explicitly. -/
def clampBound (len step s : Int) : Int :=
  if s < 0 then (if s + len < 0 then (if step < 0 then -1 else 0) else s + len)
  else if s ≥ len then (if step < 0 then len - 1 else len)
  else s

def adjStart (len step : Int) : Option Int → Int
  | none => if step < 0 then len - 1 else 0
  | some s => clampBound len step s

def adjStop (len step : Int) : Option Int → Int
  | none => if step < 0 then -1 else len
  | some s => clampBound len step s

/-- `np.arange(len)[start:stop:step]` (values = indices); a zero step raises. -/
def arangeSlice (len : Int) (start stop step : Option Int) : Except Err (List Int) :=
  let st : Int := step.getD 1
  if st = 0 then .error .index
  else .ok (pyRange (adjStart len st start) (adjStop len st stop) st)

/-- `np.arange(len)[[k₀, k₁, …]]`: negative indices wrap once, anything else raises. -/
def fancyIndex (len : Int) : List Int → Except Err (List Int)
  | [] => .ok []
  | k :: ks =>
    if k < -len ∨ k ≥ len then .error .index
    else match fancyIndex len ks with
      | .error e => .error e
      | .ok r => .ok ((if k < 0 then k + len else k) :: r)

/-- the steps of a float interval, from the generated start/stop/step expressions -/
def intervalSteps (maxStep a b : Int) : Except Err (List Int) :=
  let d := interval_direction a b
  if interval_via_slice then
    arangeSlice (interval_base_len maxStep)
      (some (interval_a a b d)) (some (interval_b a b d)) (some (interval_c a b d))
  else .ok (pyRange (interval_a a b d) (interval_b a b d) (interval_c a b d))

/-- `_parse_times(times, max_step, dt, start_time)` -/
def parseTimes (maxStep : Int) (dt start : Rat) : TimeSpec → Except Err (List Int)
  | .int k => if int_out_of_bound k maxStep then .error .index else .ok [k]
  | .slice a b c => arangeSlice (index_base_len maxStep) a b c
  | .list l => fancyIndex (index_base_len maxStep) l
  | .float t =>
    let i := float_index t start dt
    if float_out_of_bound i maxStep then .error .index else .ok [i]
  | .interval t0 t1 =>
    let a := interval_index_start t0 start dt
    if interval_start_out_of_bound a maxStep then .error .index else
    let b := interval_index_end t1 start dt
    if interval_end_out_of_bound b maxStep then .error .index else
    intervalSteps maxStep a b

def parseAll (maxStep : Int) (dt start : Rat) : List TimeSpec → Except Err (List (List Int))
  | [] => .ok []
  | s :: ss =>
    match parseTimes maxStep dt start s with
    | .error e => .error e
    | .ok r => match parseAll maxStep dt start ss with
      | .error e => .error e
      | .ok rs => .ok (r :: rs)

/-! ### schedule, time-ordering filter, write-back -/

/-- `itertools.product(*ls)` (first factor varies slowest) -/
def product {α} : List (List α) → List (List α)
  | [] => [[]]
  | a :: as => a.flatMap (fun x => (product as).map (fun r => x :: r))

def insertSorted (x : Int) : List Int → List Int
  | [] => [x]
  | y :: ys => if x ≤ y then x :: y :: ys else y :: insertSorted x ys

/-- Python `sorted` on ints -/
def pySorted : List Int → List Int
  | [] => []
  | x :: xs => insertSorted x (pySorted xs)

/-- `np.allclose(a, b)` (rtol 1e-5, atol 1e-8) on integer arrays of equal length:
    every `|a−b| ≤ atol + rtol·|b|`. -/
def allcloseInt (a b : List Int) : Bool :=
  (a.zip b).all (fun p =>
    decide (fabs ((p.1 : Rat) - (p.2 : Rat)) ≤ mkRat 1 100000000 + mkRat 1 100000 * fabs (p.2 : Rat)))

/-- the time-ordering test on the earlier operators' steps: `first_times` against
    `sorted(first_times)` -/
def orderOkWith (exact : Bool) (f : List Int) : Bool :=
  if exact then f == pySorted f else allcloseInt f (pySorted f)

def orderOk (f : List Int) : Bool := orderOkWith (order_check == "exact") f

/-- `ft.max()`; `none` for an empty tuple (numpy raises ValueError) -/
def ftMax? : List Int → Option Int
  | [] => none
  | x :: xs => some (xs.foldl max x)

/-- `List.zip (range n) l` -/
def enum {α} (l : List α) : List (Nat × α) := (List.range l.length).zip l

/-- Which (result index, step) pairs of the last operator are written for a schedule
    entry whose earlier steps have maximum `m`; `none` = the entry is skipped.
    `byMask = false` is the historical `[-len(lt):]` selection. -/
def lastSelWith (byMask : Bool) (m : Int) (last : List Int) : Option (List (Nat × Int)) :=
  let idx := List.range last.length
  if last.any (last_drop_trigger m) then
    let lt := last.filter (last_keep m)
    if lt.length == 0 then none
    else
      let inds : List Nat :=
        if byMask then ((idx.zip last).filter (fun p => last_keep m p.2)).map (fun p => p.1)
        else idx.drop (idx.length - lt.length)
      some (inds.zip lt)
  else some (idx.zip last)

def lastSel (m : Int) (last : List Int) : Option (List (Nat × Int)) :=
  lastSelWith last_index_by_mask m last

/-- a write into the result array: index tuple ↦ the step tuple whose value is stored -/
abbrev Write := List Nat × List Int

/-- writes of one schedule entry (`f` earlier steps, `p` their indices) -/
def entryWrites (last : List Int) (f : List Int) (p : List Nat) : List Write :=
  if orderOk f then
    match ftMax? f with
    | none => []
    | some m =>
      match lastSel m last with
      | none => []
      | some sel => sel.map (fun jl => (p ++ [jl.1], f ++ [jl.2]))
  else []

/-- does the loop reach a `max()` of an empty array?  `ft.max()` with no earlier operator,
    `last_times.max()` when the last selection is empty and some entry passes the order test -/
def raisesValue (firsts : List (List Int)) (last : List Int) : Bool :=
  (product firsts).any (fun f => orderOk f && (f.isEmpty || last.isEmpty))

def schedule (firsts : List (List Int)) : List (List Int × List Nat) :=
  (product firsts).zip (product (firsts.map (fun t => List.range t.length)))

def allWrites (firsts : List (List Int)) (last : List Int) : List Write :=
  (schedule firsts).flatMap (fun fp => entryWrites last fp.1 fp.2)

structure Outcome where
  /-- parsed steps per operator (`ops_times_`) -/
  steps : List (List Int)
  /-- returned time axes (`ret_times`) -/
  axes : List (List Rat)
  /-- the assignments `ret_correlations[sch_indices[i]] = corr`, flattened, in program order -/
  writes : List Write
  deriving Repr, DecidableEq

/-- `compute_correlations_nt` for a process tensor of `maxStep` steps, resolved time step
    `dt` (`dt_`) and `start_time`. -/
def corrNt (maxStep : Int) (dt start : Rat) (specs : List TimeSpec) : Except Err Outcome :=
  match parseAll maxStep dt start specs with
  | .error e => .error e
  | .ok steps =>
    match steps.getLast? with
    | none => .error .index            -- `ops_times[-1]` of an empty list
    | some last =>
      let firsts := steps.dropLast
      if raisesValue firsts last then .error .value
      else .ok { steps := steps
                 axes := steps.map (fun t => t.map (ret_time start dt))
                 writes := allWrites firsts last }

/-- the array entry at index tuple `ι`: `none` = NaN, `some s` = the value for steps `s`
    (the last assignment to that position wins) -/
def entryOf (ws : List Write) (ι : List Nat) : Option (List Int) :=
  (ws.reverse.find? (fun w => w.1 == ι)).map (fun w => w.2)

def Outcome.entry (o : Outcome) (ι : List Nat) : Option (List Int) := entryOf o.writes ι

/-- all index tuples of the result array, row-major -/
def Outcome.indexTuples (o : Outcome) : List (List Nat) :=
  product (o.steps.map (fun t => List.range t.length))

/-! ### the two-time wrapper `compute_correlations` -/

/-- `compute_correlations(…, times_a, times_b, time_order)`: which spec goes first, and the
    post-processing `(corr[0][::-1], corr[-1].transpose())` for `'anti'`. -/
def antiPost (o : Outcome) : Outcome :=
  { steps := o.steps.reverse, axes := o.axes.reverse,
    writes := o.writes.map (fun w => (w.1.reverse, w.2)) }

def pickSpecs (specA specB : TimeSpec) (names : List String) : List TimeSpec :=
  names.filterMap (fun n => if n == "times_a" then some specA
                            else if n == "times_b" then some specB else none)

def corr2 (anti : Bool) (maxStep : Int) (dt start : Rat) (specA specB : TimeSpec) :
    Except Err Outcome :=
  if anti then
    match corrNt maxStep dt start (pickSpecs specA specB anti_ops_times) with
    | .error e => .error e
    | .ok o => .ok (antiPost o)
  else corrNt maxStep dt start (pickSpecs specA specB ordered_ops_times)

/-! ### which time step goes where -/

def lookupKw (k : String) (l : List (String × String)) : Option String :=
  (l.find? (fun p => p.1 == k)).map (fun p => p.2)

/-- the value bound to `dt_` (labels the axes, rounds float times to steps) -/
def resolveDt (userDt ptDt : Option Rat) : Option Rat :=
  match userDt with
  | none => if dt_when_none == "process_tensor.dt" then ptDt else none
  | some d => if dt_when_given == "dt" then some d else none

/-- value of a source expression in the scope of `compute_correlations_nt` that may be
    handed on as a time step; outer `none` = an expression the model does not know -/
def evalDtExpr (userDt ptDt : Option Rat) (e : String) : Option (Option Rat) :=
  if e == "dt_" then some (resolveDt userDt ptDt)
  else if e == "dt" then some userDt
  else if e == "process_tensor.dt" then some ptDt
  else if e == "None" then some none
  else none

/-- the `dt` argument that `_compute_ordered_nt_correlations` receives -/
def orderedDtArg (userDt ptDt : Option Rat) : Option (Option Rat) :=
  match lookupKw "dt" ordered_call_kwargs with
  | some e => evalDtExpr userDt ptDt e
  | none => if ordered_dt_default == "None" then some none else none

/-- the `dt` argument that `compute_dynamics` receives -/
def dynamicsDtArg (userDt ptDt : Option Rat) : Option (Option Rat) :=
  match lookupKw "dt" dynamics_call_kwargs with
  | some e => if e == "dt" then orderedDtArg userDt ptDt
              else if e == "None" then some none else none
  | none => some none

/-- `_compute_dynamics_input_parse` with a single process tensor: the time step that the
    propagators are built with -/
def dynamicsDt (arg ptDt : Option Rat) : Except Err Rat :=
  match ptDt, arg with
  | some p, none => .ok p
  | some p, some d => if p = d then .ok d else .error .dtMismatch
  | none, some d => .ok d
  | none, none => .error .dtMissing

/-- outcome of the time-step plumbing of one call: (dt of the axes, dt of the dynamics) -/
def dtFlow (userDt ptDt : Option Rat) : Except Err (Rat × Rat) :=
  match resolveDt userDt ptDt with
  | none => .error .dtMissing
  | some a =>
    match dynamicsDtArg userDt ptDt with
    | none => .error .dtMissing
    | some arg => match dynamicsDt arg ptDt with
      | .error e => .error e
      | .ok d => .ok (a, d)

end OQuPyVerif.Correlations
