/-
  C07 (bath part) — which system operator `TwoTimeBathCorrelations` rebuilds from what `Bath`
  stores.  Mathlib-free; polymorphic in the matrix type so that the very same definition is
  *run* on Gaussian-rational matrices by `Drivers/C07Bath.lean` and *proved about* on
  `Matrix n n K` in `Props/C07.lean`.
-/
import OQuPyVerif.Generated.CorrBath

namespace OQuPyVerif.CorrelationsBath
open OQuPyVerif.Generated.CorrBath

/-- one factor of the `@` product: `U` = `bath.unitary_transform`, `Ud` = its conjugate
    transpose, `D` = `bath.coupling_operator` (the diagonalised operator) -/
def factorOf {M : Type} (U Ud D : M) (tag : String) : Option M :=
  if tag == "U" then some U else if tag == "Ud" then some Ud else if tag == "D" then some D
  else none

/-- the product `f₀ @ f₁ @ …` (Python's `@` associates to the left) -/
def evalFactors {M : Type} (mul : M → M → M) (U Ud D : M) : List String → Option M
  | [] => none
  | f :: fs =>
    fs.foldl (fun acc g => match acc, factorOf U Ud D g with
      | some x, some y => some (mul x y)
      | _, _ => none) (factorOf U Ud D f)

/-- the operator handed to `compute_correlations` (twice) by `generate_system_correlations` -/
def rebuiltCoupling {M : Type} (mul : M → M → M) (U Ud D : M) : Option M :=
  evalFactors mul U Ud D coup_op_factors

def lookup (k : String) (l : List (String × String)) : Option String :=
  (l.find? (fun p => p.1 == k)).map (fun p => p.2)

end OQuPyVerif.CorrelationsBath
