/-
  Model of OQuPy's control operations (property C18) — Mathlib-free, executable.

  * `Ctl M`      : `oqupy.control.Control`   (step dict + time dict with sorted time array)
  * `ChainCtl M` : `oqupy.control.ChainControl`
  * `computeDynamics` : the step loop of `oqupy.system_dynamics.compute_dynamics`
  * `tebdRun`    : `PtTebd.initialize` followed by `compute_step`s

  Superoperators are elements of an arbitrary type `M` with `*` and `1` acting on a
  state type `S` by `•` (the theorems in Props/C18 assume `Monoid M`, `MulAction M S`;
  the driver instantiates `M` with small rational matrices).

  Everything that says *which operand goes on which side*, *which statement comes
  first* and *how a float time becomes a step* is taken from
  `Generated/ControlCompose.lean`, which the translator rewrites from the source on
  every run.
-/
import OQuPyVerif.Generated.ControlCompose

namespace OQuPyVerif.Control
open OQuPyVerif.Generated.ControlCompose

variable {M S R : Type}

/-! ### operand roles -/

/-- `a @ b` with the roles given by a generated `Side`: `combine side new acc`. -/
def combine [Mul M] : Side → M → M → M
  | .newLeft, new, acc => new * acc
  | .newRight, new, acc => acc * new

/-- A tensornetwork node holding `N` whose index `contract` is joined to the state leg acts on the
    state as `Nᵀ` when `contract = 0` and as `N` when `contract = 1`.  With `N = sup_opᵀ`
    (`transposed`) or `N = sup_op`, the given superoperator itself acts iff this is `true`. -/
def actsAsGiven (transposed : Bool) (contract : Nat) : Bool :=
  transposed == (contract == 0)

/-! ### `Control` -/

inductive Key where
  | step (k : Int)
  | time (t : Rat)
  deriving DecidableEq

/-- one of `'pre'` / `'post'`: `_step_controls[pp]`, and `_time_controls[pp]` together with the
    sorted array `_control_times[pp]` (kept as one list ascending in time). -/
structure Half (M : Type) where
  steps : List (Int × M) := []
  times : List (Rat × M) := []

structure Ctl (M : Type) where
  pre : Half M := {}
  post : Half M := {}

/-- `if time in d: d[time] = <combine> else: d[time] = op` on a dict. -/
def dictUpsert [Mul M] (side : Side) (k : Int) (op : M) : List (Int × M) → List (Int × M)
  | [] => [(k, op)]
  | (k', v) :: r =>
    if k' = k then (k', combine side op v) :: r else (k', v) :: dictUpsert side k op r

/-- `np.append(times, t); times.sort()` for a `t` that is not yet present. -/
def timesInsert (t : Rat) (op : M) : List (Rat × M) → List (Rat × M)
  | [] => [(t, op)]
  | (t', v) :: r => if t < t' then (t, op) :: (t', v) :: r else (t', v) :: timesInsert t op r

/-- `if time in self._control_times[pp]: d[time] = <combine> else: d[time] = op; append; sort`. -/
def timesUpsert [Mul M] (side : Side) (t : Rat) (op : M) (l : List (Rat × M)) : List (Rat × M) :=
  if l.any (fun p => p.1 == t) then
    l.map (fun p => if p.1 == t then (p.1, combine side op p.2) else p)
  else timesInsert t op l

def Half.add [Mul M] (h : Half M) : Key → M → Half M
  | .step k, op => { h with steps := dictUpsert addSingle_step k op h.steps }
  | .time t, op => { h with times := timesUpsert addSingle_time t op h.times }

/-- `Control.add_single(time, control_operation, post)` -/
def Ctl.addSingle [Mul M] (c : Ctl M) (key : Key) (op : M) (post : Bool) : Ctl M :=
  if post then { c with post := c.post.add key op } else { c with pre := c.pre.add key op }

/-- the operators one source contributes at `step` (in the order the code visits them) -/
def contribs (h : Half M) (sel : Rat → Bool) (step : Int) : Src → List M
  | .timeKeyed => (h.times.filter (fun p => sel p.1)).map (·.2)
  | .stepKeyed => ((h.steps.find? (fun p => p.1 == step)).map (·.2)).toList

/-- all contributions with the side on which each is multiplied onto the accumulator -/
def contribList (order : List (Src × Side)) (h : Half M) (sel : Rat → Bool) (step : Int) :
    List (Side × M) :=
  order.flatMap (fun e => (contribs h sel step e.1).map (fun c => (e.2, c)))

/-- one half of `get_controls`: start from the identity, multiply the contributions on in
    statement order; `None` when there was none. -/
def getHalf [Mul M] [One M] (order : List (Src × Side)) (h : Half M) (sel : Rat → Bool)
    (step : Int) : Option M :=
  let cs := contribList order h sel step
  if cs.isEmpty then none else some (cs.foldl (fun acc e => combine e.1 e.2 acc) 1)

/-- `Control.get_controls(step, dt, start_time)` -/
def Ctl.getControls [Mul M] [One M] (c : Ctl M) (step : Int) (dt start : Rat) :
    Option M × Option M :=
  (getHalf getControls_pre c.pre (fun t => timeSelect_pre t start dt step) step,
   getHalf getControls_post c.post (fun t => timeSelect_post t start dt step) step)

/-- a call `add_single(key, op, post)` -/
structure Call (M : Type) where
  key : Key
  post : Bool
  op : M

/-- the `Control` object after a sequence of `add_single` calls -/
def build [Mul M] (adds : List (Call M)) : Ctl M :=
  adds.foldl (fun c a => c.addSingle a.key a.op a.post) {}

/-! ### the step loop of `compute_dynamics` -/

/-- `_apply_system_superoperator(node, edges, sup_op)`; `None` is skipped -/
def applyOpt [SMul M S] : Option M → S → S
  | none, x => x
  | some a, x => a • x

structure Env (M S R : Type) where
  /-- `num_steps` -/
  N : Nat
  /-- `controls(step)` -/
  ctl : Nat → Option M × Option M
  /-- `propagators(step)` -/
  P1 : Nat → M
  P2 : Nat → M
  /-- `_apply_pt_mpos(.., _get_pt_mpos(process_tensors, step))` on the augmented state -/
  mpo : Nat → S → S
  /-- `_apply_caps(.., _get_caps(process_tensors, step))` -/
  cap : Nat → S → R
  recordAll : Bool

structure LoopState (S R : Type) where
  cur : S
  recd : List R
  stopped : Bool

def execOp [SMul M S] (e : Env M S R) (k : Nat) (op : LoopOp) (s : LoopState S R) :
    LoopState S R :=
  match op with
  | .getControls => s
  | .progress => s
  | .getPropagators => s
  | .getMpos => s
  | .applyPre => { s with cur := applyOpt (e.ctl k).1 s.cur }
  | .breakIfLast => if k = e.N then { s with stopped := true } else s
  | .record => if e.recordAll then { s with recd := s.recd ++ [e.cap k s.cur] } else s
  | .applyPost => { s with cur := applyOpt (e.ctl k).2 s.cur }
  | .applyP1 => { s with cur := e.P1 k • s.cur }
  | .applyMpo => { s with cur := e.mpo k s.cur }
  | .applyP2 => { s with cur := e.P2 k • s.cur }
  | .recordFinal => { s with recd := s.recd ++ [e.cap k s.cur] }

/-- a statement list with `break` -/
def execBody [SMul M S] (e : Env M S R) (k : Nat) (ops : List LoopOp) (s : LoopState S R) :
    LoopState S R :=
  ops.foldl (fun s op => if s.stopped then s else execOp e k op s) s

/-- `for step in range(N + 1): body` — returns the state and the last value of `step` -/
def runLoop [SMul M S] (e : Env M S R) (body : List LoopOp) (x0 : S) : LoopState S R × Nat :=
  (List.range (e.N + 1)).foldl
    (fun (p : LoopState S R × Nat) k => if p.1.stopped then p else (execBody e k body p.1, k))
    (⟨x0, [], false⟩, 0)

/-- `compute_dynamics`: the list `states` -/
def computeDynamics [SMul M S] (e : Env M S R) (x0 : S) : List R :=
  let p := runLoop e cdLoopBody x0
  (execBody e p.2 cdAfterLoop { p.1 with stopped := false }).recd

/-! ### `ChainControl` and `PtTebd` -/

structure ChainEntry (M : Type) where
  site : Nat
  step : Int
  op : M

structure ChainCtl (M : Type) where
  pre : List (ChainEntry M) := []
  post : List (ChainEntry M) := []

/-- `ChainControl.add_single_site_control(control, site, step, post)` -/
def ChainCtl.add (c : ChainCtl M) (op : M) (site : Nat) (step : Int) (post : Bool) : ChainCtl M :=
  if !post then { c with pre := c.pre ++ [⟨site, step, op⟩] }
  else { c with post := c.post ++ [⟨site, step, op⟩] }

/-- `controls[site] = contr` if it is `None`, else the generated combination -/
def chainAccum [Mul M] (ctrls : List (Option M)) (e : ChainEntry M) : List (Option M) :=
  match ctrls[e.site]? with
  | some (some acc) => ctrls.set e.site (some (combine chainGet e.op acc))
  | _ => ctrls.set e.site (some e.op)

/-- `ChainControl.get_single_site_controls(step, post)` for a chain of `n` sites -/
def ChainCtl.get [Mul M] (c : ChainCtl M) (n : Nat) (step : Int) (post : Bool) :
    Option (List (Option M)) :=
  let l := if !post then c.pre else c.post
  let hits := l.filter (fun e => e.step == step)
  if hits.isEmpty then none else some (hits.foldl chainAccum (List.replicate n none))

structure TebdEnv (M S R : Type) where
  n : Nat
  ctl : ChainCtl M
  /-- `apply_site_gate(SiteGate(site, a))` -/
  actSite : Nat → M → S → S
  /-- one pass through `self._tebd_propagator.gate_layers` -/
  layers : S → S
  /-- `apply_process_tensors(step, ..)` -/
  pts : Int → S → S
  /-- what `_append_results` reads at the current step -/
  obs : Int → S → R

structure TebdState (S R : Type) where
  step : Int
  cur : S
  recd : List R

/-- one `SiteGate` per site that has a control, applied in site order -/
def applySiteControls (act : Nat → M → S → S) : Nat → List (Option M) → S → S
  | _, [], x => x
  | i, none :: r, x => applySiteControls act (i + 1) r x
  | i, some a :: r, x => applySiteControls act (i + 1) r (act i a x)

/-- `PtTebd._apply_controls(step, post)` -/
def applyControls [Mul M] (e : TebdEnv M S R) (step : Int) (post : Bool) (x : S) : S :=
  match e.ctl.get e.n step post with
  | none => x
  | some cs => applySiteControls e.actSite 0 cs x

def execTebdOp [Mul M] (e : TebdEnv M S R) (op : TebdOp) (s : TebdState S R) : TebdState S R :=
  match op with
  | .setStep => s
  | .buildPropagator => s
  | .clearResults => s
  | .initBackend => s
  | .initResults => s
  | .controlsPre => { s with cur := applyControls e s.step false s.cur }
  | .controlsPost => { s with cur := applyControls e s.step true s.cur }
  | .incStep => { s with step := s.step + 1 }
  | .nnLayers => { s with cur := e.layers s.cur }
  | .applyPTs => { s with cur := e.pts s.step s.cur }
  | .appendResults => { s with recd := s.recd ++ [e.obs s.step s.cur] }

def execTebd [Mul M] (e : TebdEnv M S R) (ops : List TebdOp) (s : TebdState S R) : TebdState S R :=
  ops.foldl (fun s op => execTebdOp e op s) s

def iter {α : Type} (f : α → α) : Nat → α → α
  | 0, x => x
  | n + 1, x => iter f n (f x)

/-- `PtTebd(..., start_step).compute(start_step + nsteps)` on a fresh object: the recorded list -/
def tebdRun [Mul M] (e : TebdEnv M S R) (startStep : Int) (x0 : S) (nsteps : Nat) : List R :=
  (iter (execTebd e tebdComputeStep) nsteps
    (execTebd e tebdInitialize ⟨startStep, x0, []⟩)).recd

/-! ### object lifetime: a `PtTebd` object and the `ChainControl` it refers to -/

/-- what the user does after `PtTebd(..., chain_control=c, start_step=s0)` was constructed:
    register a further control on the (shared) chain control object — directly or through
    `tebd.chain_control` — or call `compute(end_step)` -/
inductive TebdHistOp (M : Type) where
  | add (op : M) (site : Nat) (step : Int) (post : Bool)
  | compute (endStep : Int)

/-- the chain control object (shared by reference) and the PtTebd computation state
    (`none` = not yet initialised, `self._step is None`) -/
structure TebdObj (M S R : Type) where
  ctl : ChainCtl M
  st : Option (TebdState S R)

/-- `compute(end_step)`: `initialize()` if fresh, then `while step < end_step: compute_step()`;
    every control look-up reads the chain control as it is NOW -/
def tebdHistStep [Mul M] (base : TebdEnv M S R) (startStep : Int) (x0 : S)
    (o : TebdObj M S R) : TebdHistOp M → TebdObj M S R
  | .add op site step post => { o with ctl := o.ctl.add op site step post }
  | .compute endStep =>
    let env : TebdEnv M S R := { base with ctl := o.ctl }
    let s := match o.st with
      | none => execTebd env tebdInitialize ⟨startStep, x0, []⟩
      | some s => s
    { o with st := some (iter (execTebd env tebdComputeStep) (endStep - s.step).toNat s) }

/-- the results recorded after a history of operations on an object constructed with chain
    control `c0` -/
def tebdHistory [Mul M] (base : TebdEnv M S R) (c0 : ChainCtl M) (startStep : Int) (x0 : S)
    (ops : List (TebdHistOp M)) : List R :=
  match (ops.foldl (tebdHistStep base startStep x0) ⟨c0, none⟩).st with
  | none => []
  | some s => s.recd

/-! ### executable instance: small rational matrices with a formal identity -/

inductive DMat where
  | one
  | mat (rows : Array (Array Rat))

def matMulRows (a b : Array (Array Rat)) : Array (Array Rat) :=
  let nc := (b.getD 0 #[]).size
  a.map (fun row => (Array.range nc).map (fun j =>
    (Array.range row.size).foldl (fun acc k => acc + row.getD k 0 * (b.getD k #[]).getD j 0) 0))

instance : One DMat := ⟨.one⟩
instance : Mul DMat := ⟨fun a b => match a, b with
  | .one, b => b
  | a, .one => a
  | .mat a, .mat b => .mat (matMulRows a b)⟩

def matVec (a : Array (Array Rat)) (v : Array Rat) : Array Rat :=
  a.map (fun row => (Array.range row.size).foldl (fun acc k => acc + row.getD k 0 * v.getD k 0) 0)

instance : SMul DMat (Array Rat) := ⟨fun a v => match a with
  | .one => v
  | .mat a => matVec a v⟩

end OQuPyVerif.Control
