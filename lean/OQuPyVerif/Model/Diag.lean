/- `IsDiagonalisation`: what `Bath` must deliver for a Hermitian coupling operator:
   a unitary `U`, real eigenvalues `w`, with `U diag(w) U† = O`.  Evaluated exactly on
   Gaussian rationals; the residuals are squared moduli. -/
import OQuPyVerif.Num.QI
import Mathlib.Algebra.BigOperators.Ring.Finset

namespace OQuPyVerif.Diag
open Finset BigOperators

def normSq (z : QI) : ℚ := z.re * z.re + z.im * z.im
def maxQ (l : List ℚ) : ℚ := l.foldl (fun a b => if a < b then b else a) 0

/-- `max_ij |(U U†)_ij − δ_ij|²` -/
def unitarityResidual (d : ℕ) (U : ℕ → ℕ → QI) : ℚ :=
  maxQ ((List.range d).flatMap fun i => (List.range d).map fun j =>
    normSq ((∑ k ∈ range d, U i k * star (U j k)) - (if i = j then 1 else 0)))

/-- `max_ij |(U diag(w) U†)_ij − O_ij|²` -/
def reconstructionResidual (d : ℕ) (U : ℕ → ℕ → QI) (w : ℕ → QI) (O : ℕ → ℕ → QI) : ℚ :=
  maxQ ((List.range d).flatMap fun i => (List.range d).map fun j =>
    normSq ((∑ k ∈ range d, U i k * w k * star (U j k)) - O i j))

/-- `max_i |Im w_i|²` -/
def realityResidual (d : ℕ) (w : ℕ → QI) : ℚ :=
  maxQ ((List.range d).map fun i => (w i).im * (w i).im)

/-- the decidable predicate with tolerance `tol` (on squared moduli) -/
def IsDiagonalisation (d : ℕ) (U : ℕ → ℕ → QI) (w : ℕ → QI) (O : ℕ → ℕ → QI) (tol : ℚ) : Bool :=
  unitarityResidual d U ≤ tol && reconstructionResidual d U w O ≤ tol && realityResidual d w ≤ tol

end OQuPyVerif.Diag
