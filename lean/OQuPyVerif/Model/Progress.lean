/-
  Model/Progress — progress reporting of OQuPy (oqupy/util.py) as a small-step
  machine of the calling ("main") thread plus `threading.Timer` threads.  Mathlib-free,
  executable (state is data), used by Props/C19 and Drivers/C19.

  * `MicroOp`    one statement of a progress class method (what the translator
                 fragment `ProgressGuard` emits per source line);
  * `Protocol`   the micro-op lists of `enter / update / exit / _print_status`;
  * `State`, `step`   interleaving semantics: an `Action` picks the thread that moves;
                 CPython `threading.Timer` semantics: `cancel()` before the interval
                 elapsed => the callback never runs; `cancel()` once the callback runs
                 => no effect; `start()` twice => RuntimeError; `threading.Lock`
                 (non re-entrant, released when a `with` block is left, also by
                 `return` / exception);
  * API skeleton `apiRun`: "enter; (work_i; update) x N; exit" with the guarding style
                 recorded by the translator and an optional failing work item.
-/
namespace OQuPyVerif.Progress

/-! ### What the translator emits -/

/-- which method a `Timer(1.0, self.<cb>)` calls back -/
inductive Callback
  | printStatus
  | update
  deriving DecidableEq, Repr, Inhabited

/-- the three calls an API makes on its progress object -/
inductive Method
  | enter
  | update
  | exit
  deriving DecidableEq, Repr, Inhabited

/-- one source statement of a progress-class method -/
inductive MicroOp
  | print                      -- any write to the output stream
  | cancelTimer                -- self._timer.cancel()
  | newTimer (cb : Callback)   -- self._timer = Timer(1.0, self.<cb>)
  | setDaemon                  -- self._timer.daemon = True
  | startTimer                 -- self._timer.start()
  | setStep                    -- store to a non-protocol attribute (self._step = step, ...)
  | setActive (b : Bool)       -- self._active = b
  | acquire                    -- `with self._lock:`  (entering)
  | release                    -- `with self._lock:`  (leaving)
  | returnUnlessActive         -- if not self._active: return
  deriving DecidableEq, Repr, Inhabited

structure Protocol where
  enter : List MicroOp
  update : List MicroOp
  exit : List MicroOp
  printStatus : List MicroOp
  deriving DecidableEq, Repr

/-- source line of each micro-op (used only by the schedule replay of the harness) -/
structure ProtocolLines where
  enter : List Nat
  update : List Nat
  exit : List Nat
  printStatus : List Nat
  deriving DecidableEq, Repr

def Protocol.code (P : Protocol) : Method → List MicroOp
  | .enter => P.enter
  | .update => P.update
  | .exit => P.exit

def Protocol.cbCode (P : Protocol) : Callback → List MicroOp
  | .printStatus => P.printStatus
  | .update => P.update

def Protocol.allOps (P : Protocol) : List MicroOp :=
  P.enter ++ P.update ++ P.exit ++ P.printStatus

/-- how an API function uses its progress object -/
inductive GuardStyle
  | withStmt      -- with progress(...) as prog_bar: ...
  | tryFinally    -- prog_bar.enter(); try: ... finally: prog_bar.exit()
  | bare          -- prog_bar.enter(); ...; prog_bar.exit()
  deriving DecidableEq, Repr, Inhabited

def GuardStyle.guarded : GuardStyle → Bool
  | .bare => false
  | _ => true

structure ApiUse where
  file : String
  func : String
  index : Nat          -- n-th progress object of that function
  line : Nat
  style : GuardStyle
  deriving DecidableEq, Repr

/-! ### The two `ProgressBar` protocols the theorems talk about -/

/-- `ProgressBar` as published (oqupy 0.5): no lock, the callback re-arms itself. -/
def legacyProtocol : Protocol where
  enter := [.print, .newTimer .printStatus, .startTimer]
  update := [.cancelTimer, .newTimer .update, .startTimer, .setStep, .print]
  exit := [.cancelTimer, .print, .print]
  printStatus := [.print]

/-- lock + active flag + daemon timers: every access to `_timer` / `_active` happens
    under the lock, a callback that finds the bar inactive returns at once. -/
def lockedProtocol : Protocol where
  enter := [.print, .acquire, .setActive true, .newTimer .printStatus, .setDaemon,
            .startTimer, .release]
  update := [.acquire, .returnUnlessActive, .cancelTimer, .newTimer .update, .setDaemon,
             .startTimer, .setStep, .print, .release]
  exit := [.acquire, .setActive false, .cancelTimer, .release, .print, .print]
  printStatus := [.print]

/-! ### Timers, threads, state -/

inductive TState
  | created            -- Timer object constructed, thread not started
  | createdCancelled   -- cancel() came before start()
  | pending            -- started, waiting for its interval
  | running            -- the callback executes (its remaining code is in the record)
  | done               -- the callback returned or raised
  | cancelled          -- cancel() won: the callback never runs
  deriving DecidableEq, Repr, Inhabited

def TState.cancel : TState → TState
  | .created => .createdCancelled
  | .pending => .cancelled
  | s => s

/-- a thread exists and may still act -/
def TState.alive : TState → Bool
  | .pending => true
  | .running => true
  | _ => false

def TState.started : TState → Bool
  | .created => false
  | .createdCancelled => false
  | _ => true

structure TimerRec where
  cb : Callback
  st : TState
  daemon : Bool
  code : List MicroOp
  deriving DecidableEq, Repr, Inhabited

inductive Tid
  | main
  | timer (i : Nat)
  deriving DecidableEq, Repr, Inhabited

structure State where
  timers : List TimerRec      -- in order of construction; index = identity
  cur : Option Nat            -- self._timer
  active : Bool               -- self._active
  lock : Option Tid           -- holder of self._lock
  mainCode : List MicroOp     -- rest of the method main executes
  mainTodo : List Method      -- progress calls main still has to make
  guarded : Bool              -- a raise inside a call still leads to `exit`
  deriving DecidableEq, Repr

def init (script : List Method) (guarded : Bool) : State :=
  { timers := [], cur := none, active := false, lock := none,
    mainCode := [], mainTodo := script, guarded := guarded }

inductive Outcome
  | ok (s : State)       -- statement executed, go on with the next one
  | ret (s : State)      -- `return`
  | raised (s : State)   -- the statement raised
  | blocked              -- cannot move (lock held by somebody else)

def setTimers (s : State) (ts : List TimerRec) : State := { s with timers := ts }

/-- effect of one statement, executed by thread `t`, on the shared state -/
def execOp (s : State) (t : Tid) : MicroOp → Outcome
  | .print => .ok s
  | .setStep => .ok s
  | .setActive b => .ok { s with active := b }
  | .acquire => if s.lock = none then .ok { s with lock := some t } else .blocked
  | .release => if s.lock = some t then .ok { s with lock := none } else .raised s
  | .returnUnlessActive => if s.active then .ok s else .ret s
  | .cancelTimer =>
    match s.cur with
    | none => .raised s
    | some j => .ok (setTimers s (s.timers.modify j (fun r => { r with st := r.st.cancel })))
  | .newTimer cb =>
    .ok { s with timers := s.timers ++ [{ cb := cb, st := .created, daemon := false, code := [] }],
                 cur := some s.timers.length }
  | .setDaemon =>
    match s.cur with
    | none => .raised s
    | some j =>
      match s.timers[j]? with
      | none => .raised s
      | some r =>
        if r.st.started then .raised s
        else .ok (setTimers s (s.timers.modify j (fun r => { r with daemon := true })))
  | .startTimer =>
    match s.cur with
    | none => .raised s
    | some j =>
      match s.timers[j]? with
      | none => .raised s
      | some r =>
        match r.st with
        | .created => .ok (setTimers s (s.timers.modify j (fun r => { r with st := .pending })))
        | .createdCancelled =>
          .ok (setTimers s (s.timers.modify j (fun r => { r with st := .cancelled })))
        | _ => .raised s

/-- what is left to do in a method after `return` / an exception: leave the `with` block -/
def unwind (s : State) (t : Tid) : List MicroOp :=
  if s.lock = some t then [.release] else []

/-- calls main still makes after one of its calls raised -/
def afterRaise (s : State) : List Method :=
  if s.guarded then s.mainTodo.filter (fun m => m == .exit) else []

/-- result of one statement of a thread: new shared state, rest of the thread's method,
    and whether the statement raised -/
structure Moved where
  s : State
  code : List MicroOp
  raised : Bool

/-- thread `t`, whose current method continues with `op :: rest`, executes `op` -/
def threadStep (s : State) (t : Tid) (op : MicroOp) (rest : List MicroOp) : Option Moved :=
  match execOp s t op with
  | .blocked => none
  | .ok s' => some { s := s', code := rest, raised := false }
  | .ret s' => some { s := s', code := unwind s' t, raised := false }
  | .raised s' => some { s := s', code := unwind s' t, raised := true }

def stepMain (P : Protocol) (s : State) : Option State :=
  match s.mainCode with
  | [] =>
    match s.mainTodo with
    | [] => none
    | m :: rest => some { s with mainCode := P.code m, mainTodo := rest }
  | op :: rest =>
    match threadStep s .main op rest with
    | none => none
    | some m =>
      some { m.s with mainCode := m.code,
                      mainTodo := if m.raised then afterRaise m.s else m.s.mainTodo }

/-- install the remaining code of timer thread `i`; a thread with nothing left is done -/
def setCode (s : State) (i : Nat) (c : List MicroOp) : State :=
  setTimers s (s.timers.modify i (fun r =>
    { r with code := c, st := if c.isEmpty then .done else .running }))

def stepFire (P : Protocol) (s : State) (i : Nat) : Option State :=
  match s.timers[i]? with
  | none => none
  | some r => if r.st = .pending then some (setCode s i (P.cbCode r.cb)) else none

def stepTimer (s : State) (i : Nat) : Option State :=
  match s.timers[i]? with
  | none => none
  | some r =>
    if r.st = .running then
      match r.code with
      | [] => some (setCode s i [])
      | op :: rest =>
        match threadStep s (.timer i) op rest with
        | none => none
        | some m => some (setCode m.s i m.code)
    else none

inductive Action
  | main              -- main makes its next call / executes its next statement
  | fire (i : Nat)    -- the interval of timer i elapses
  | timer (i : Nat)   -- timer thread i executes its next statement
  deriving DecidableEq, Repr, Inhabited

def step (P : Protocol) (s : State) : Action → Option State
  | .main => stepMain P s
  | .fire i => stepFire P s i
  | .timer i => stepTimer s i

inductive Reachable (P : Protocol) (s0 : State) : State → Prop
  | init : Reachable P s0 s0
  | step {s s' : State} (a : Action) : Reachable P s0 s → step P s a = some s' →
      Reachable P s0 s'

/-- run a schedule; actions that are not enabled are skipped -/
def runSchedule (P : Protocol) (s : State) : List Action → State
  | [] => s
  | a :: as =>
    match step P s a with
    | some s' => runSchedule P s' as
    | none => runSchedule P s as

theorem reachable_runSchedule (P : Protocol) (s0 s : State) (h : Reachable P s0 s)
    (as : List Action) : Reachable P s0 (runSchedule P s as) := by
  induction as generalizing s with
  | nil => exact h
  | cons a as ih =>
    unfold runSchedule
    cases hs : step P s a with
    | none => exact ih s h
    | some s' => exact ih s' (Reachable.step a h hs)

/-! ### Observations -/

def State.mainFinished (s : State) : Bool := s.mainCode.isEmpty && s.mainTodo.isEmpty

def State.anyRunning (s : State) : Bool := s.timers.any (fun r => r.st == .running)

/-- indices of timers whose thread exists and may still act -/
def State.aliveTimers (s : State) : List Nat :=
  (List.range s.timers.length).filter (fun i =>
    match s.timers[i]? with
    | some r => r.st.alive
    | none => false)

/-- a non-daemon thread that is alive keeps the interpreter from exiting -/
def State.blocksExit (s : State) : Bool := s.timers.any (fun r => r.st.alive && !r.daemon)

def enabledActions (P : Protocol) (s : State) : List Action :=
  let idx := List.range s.timers.length
  ((if (step P s .main).isSome then [Action.main] else [])
    ++ (idx.filter (fun i => (step P s (.fire i)).isSome)).map Action.fire)
    ++ (idx.filter (fun i => (step P s (.timer i)).isSome)).map Action.timer

/-- run main alone until it has nothing left (no timer fires: the computation is much
    shorter than the timer interval); `fuel` bounds the number of statements -/
def runMainOnly (P : Protocol) : Nat → State → State
  | 0, s => s
  | fuel + 1, s =>
    match stepMain P s with
    | some s' => runMainOnly P fuel s'
    | none => s

/-! ### API skeleton -/

/-- progress calls made by the loop body "work_i ; update" for i = i0 .. i0+n-1, where
    work item `fail` raises; returns the calls and whether the body raised -/
def runBody (fail : Option Nat) : Nat → Nat → List Method × Bool
  | _, 0 => ([], false)
  | i, n + 1 =>
    if fail = some i then ([], true)
    else
      let r := runBody fail (i + 1) n
      (Method.update :: r.1, r.2)

/-- the sequence of calls the API makes on its progress object: `N` loop iterations,
    work item `fail` (if any, and if `< N`) raises -/
def apiRun (style : GuardStyle) (N : Nat) (fail : Option Nat) : List Method :=
  let body := runBody fail 0 N
  match style with
  | .bare => Method.enter :: body.1 ++ (if body.2 then [] else [Method.exit])
  | .withStmt => Method.enter :: body.1 ++ [Method.exit]      -- __exit__ runs on every path
  | .tryFinally => Method.enter :: body.1 ++ [Method.exit]    -- finally runs on every path

/-- state after the API call returned / raised, no timer having fired meanwhile -/
def apiFinal (P : Protocol) (style : GuardStyle) (N : Nat) (fail : Option Nat) : State :=
  let script := apiRun style N fail
  runMainOnly P (20 * (script.length + 1)) (init script style.guarded)

/-! ### Exhaustive exploration (driver / correspondence only) -/

/-- number of timer firings already made = timers that are past `pending` by firing -/
def State.fired (s : State) : Nat :=
  (s.timers.filter (fun r => r.st == .running || r.st == .done)).length

/-- all maximal schedules with at most `maxFire` firings, depth-first, at most `cap` of them;
    each with the final state.  `fuel` bounds the depth.  The accumulator carries its length. -/
def exploreAux (P : Protocol) (maxFire cap : Nat) : Nat → State → List Action →
    Nat × List (List Action × State) → Nat × List (List Action × State)
  | 0, s, pre, acc => (acc.1 + 1, (pre.reverse, s) :: acc.2)
  | fuel + 1, s, pre, acc =>
    if acc.1 ≥ cap then acc
    else
      let en := (enabledActions P s).filter (fun a =>
        match a with
        | .fire _ => s.fired < maxFire
        | _ => true)
      if en.isEmpty then (acc.1 + 1, (pre.reverse, s) :: acc.2)
      else en.foldl (fun acc a =>
        match step P s a with
        | some s' => exploreAux P maxFire cap fuel s' (a :: pre) acc
        | none => acc) acc

def explore (P : Protocol) (maxFire : Nat) (fuel : Nat) (s : State) (pre : List Action)
    (cap : Nat) (acc : List (List Action × State)) : List (List Action × State) :=
  (exploreAux P maxFire cap fuel s pre (acc.length, acc)).2

/-! ### Does the failure reach the caller?  (`__exit__` must not swallow it) -/

/-- what a method returns, as far as its truth value is concerned -/
inductive RetVal
  | none      -- falls off the end / `return` / `return None`
  | self      -- `return self`
  | falsy     -- a literal False / 0
  | value     -- any other expression (may be truthy)
  deriving DecidableEq, Repr, Inhabited

def RetVal.mayBeTruthy : RetVal → Bool
  | .none => false
  | .falsy => false
  | .self => true
  | .value => true

/-- body of `BaseProgress.__exit__` -/
inductive ExitDelegation
  | dropsResult              -- self.exit()            (returns None)
  | returnsExit              -- return self.exit()
  | returnsConst (v : RetVal) -- self.exit(); return <constant>
  deriving DecidableEq, Repr, Inhabited

/-- value of `__exit__` given what `exit()` returns -/
def ExitDelegation.value : ExitDelegation → RetVal → RetVal
  | .dropsResult, _ => .none
  | .returnsExit, r => r
  | .returnsConst v, _ => v

/-- does the exception raised by work item `fail` reach the caller of the API?  A `with`
    statement swallows it iff `__exit__` returns a truthy value; `finally` and the bare
    style never do. -/
def apiPropagates (style : GuardStyle) (N : Nat) (fail : Option Nat) (exitTruthy : Bool) : Bool :=
  (runBody fail 0 N).2 && (match style with
    | .withStmt => !exitTruthy
    | _ => true)

/-! ### Other threads / processes the library starts: executor pools -/

inductive SpawnKind
  | threadPool     -- concurrent.futures.ThreadPoolExecutor(...)
  | processPool    -- concurrent.futures.ProcessPoolExecutor(...), multiprocessing.Pool(...)
  | thread         -- threading.Thread(...)
  | timer          -- threading.Timer(...)
  | process        -- multiprocessing.Process(...)
  | other          -- Popen / fork / start_new_thread
  deriving DecidableEq, Repr, Inhabited

/-- how the created object is held -/
inductive SpawnScope
  | withStmt          -- with Executor(...) as e: ...     (__exit__ on every path)
  | progressProtocol  -- self._timer = Timer(...) in a class of PROGRESS_DICT (micro-op lists)
  | stored            -- kept on an object (self.x = ...) or at module level
  | localVar          -- bound to a local name, no `with`
  | other
  deriving DecidableEq, Repr, Inhabited

/-- the shapes for which a theorem shows that nothing stays alive -/
def SpawnScope.scoped : SpawnScope → Bool
  | .withStmt => true
  | .progressProtocol => true
  | _ => false

structure SpawnSite where
  file : String
  func : String
  line : Nat
  kind : SpawnKind
  scope : SpawnScope
  deriving DecidableEq, Repr

/-- a site is covered by a theorem: executor pools must be `with`-scoped, timers must be the
    ProgressBar timers of the micro-op protocol; bare threads / processes are not covered -/
def SpawnSite.covered (s : SpawnSite) : Bool :=
  match s.kind with
  | .threadPool => s.scope == .withStmt
  | .processPool => s.scope == .withStmt
  | .timer => s.scope == .progressProtocol
  | _ => false

/-- an executor: workers are started on submission, at most `maxWorkers` of them
    (CPython starts no more than one per submission; it may reuse an idle one, so
    `workers` is an upper bound that is > 0 as soon as one task was submitted) -/
structure Pool where
  maxWorkers : Nat
  submitted : Nat
  workers : Nat
  shut : Bool
  deriving DecidableEq, Repr

def Pool.fresh (maxWorkers : Nat) : Pool :=
  { maxWorkers := maxWorkers, submitted := 0, workers := 0, shut := false }

def Pool.submit (p : Pool) : Pool :=
  { p with submitted := p.submitted + 1, workers := min (p.workers + 1) p.maxWorkers }

/-- ASSUMPTION on CPython: `Executor.__exit__` is `shutdown(wait=True)`, which returns only
    when every worker thread / process has been joined. -/
def Pool.shutdown (p : Pool) : Pool := { p with workers := 0, shut := true }

/-- the body of the block submits tasks `i, i+1, ...` (`n` of them); submission number
    `fail` raises.  Returns the pool and whether the body raised. -/
def poolBody (fail : Option Nat) : Nat → Nat → Pool → Pool × Bool
  | _, 0, p => (p, false)
  | i, n + 1, p => if fail = some i then (p, true) else poolBody fail (i + 1) n p.submit

/-- the pool after the block was left (normally or by the exception) -/
def runPool (scope : SpawnScope) (maxWorkers n : Nat) (fail : Option Nat) : Pool :=
  let r := poolBody fail 0 n (Pool.fresh maxWorkers)
  match scope with
  | .withStmt => r.1.shutdown
  | _ => r.1

/-! ### The race of the legacy protocol, as a schedule -/

/-- enter; update; then timer 1 (armed by update) fires, main runs all of `exit` (its
    `cancel()` hits the timer whose callback already runs: no effect), finally the callback
    runs: it cancels itself, creates timer 2 and starts it. -/
def legacyRaceSchedule : List Action :=
  List.replicate 11 Action.main ++ [Action.fire 1] ++ List.replicate 3 Action.main ++
    List.replicate 5 (Action.timer 1)

def legacyRaceFinal : State :=
  runSchedule legacyProtocol (init [.enter, .update, .exit] true) legacyRaceSchedule

end OQuPyVerif.Progress
