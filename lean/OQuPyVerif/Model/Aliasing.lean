/-
  C20 — executable model of (a) memoised parameter objects (correlations, systems) with
  shallow copies whose stored lambdas keep the original's `self`, and (b) numpy arrays as
  (buffer, shape, strides, writeable) with `reshape`, in-place `.shape =`, `np.array`,
  `copy.copy`, `setflags`.  Mathlib-free.  The tables describing the source
  (`memoSites`, `copySites`, `arraySites`) come from `Generated/CacheKeys.lean`.
-/
import OQuPyVerif.Generated.CacheKeys

namespace OQuPyVerif.Aliasing
open OQuPyVerif.Generated.CacheKeys

/-! ## (a) memoised objects -/

abbrev Val := Int
abbrev Params := List (String × Val)
abbrev Args := List Val

/-- current value of attribute `a` (the first binding wins; unset attributes read 0) -/
def getP (p : Params) (a : String) : Val := (p.lookup a).getD 0

structure Obj where
  cls : String
  params : Params
  /-- the memo dict in the instance `__dict__` (index into `MState.dicts`), once it exists -/
  memo : Option Nat := none
  /-- the key-attribute values the instance memo was filled for -/
  filled : Option (List Val) := none
  /-- the constructor arguments (what a lambda created in `__init__` captured by value) -/
  snapshot : Params
  /-- the object whose `__init__` created the lambdas stored on this object
      (`copy.copy` and `copy.deepcopy` keep them, hence keep this reference) -/
  bound : Nat
  deriving Repr

/-- `functools.lru_cache` on a method: site, object identity (`self` hashes by identity),
    values of the key attributes (empty for a bare `lru_cache`), call arguments -/
abbrev CKey := Nat × Nat × List Val × Args

structure MState (Out : Type) where
  heap : List Obj
  cache : List (CKey × Out)
  /-- memo dicts held in instance `__dict__`s: key (site, arguments) -/
  dicts : List (List ((Nat × Args) × Out)) := []
  /-- copies made once and handed out ever after: source object ↦ the kept copy -/
  handed : List (Nat × Nat) := []

inductive MOp where
  | new (cls : String) (p : Params)
  | copy (src : Nat) (kind : CopyKind)
  | setParam (i : Nat) (a : String) (v : Val)
  | eval (i : Nat) (k : Nat) (x : Args)
  /-- the LRU policy may drop any entry at any time -/
  | evict (j : Nat)
  deriving Repr

def paramsOf (h : List Obj) (i : Nat) : Params :=
  match h[i]? with
  | some o => o.params
  | none => []

/-- what a read in a method body evaluates to when the method runs on object `i` -/
def resolve (h : List Obj) (i : Nat) (r : Read) : Val :=
  match h[i]? with
  | none => 0
  | some o =>
    match r.kind with
    | .direct => getP o.params r.attr
    | .closure => getP (paramsOf h o.bound) r.attr
    | .frozen =>
      match h[o.bound]? with
      | some b => getP b.snapshot r.attr
      | none => 0

/-- what the property demands: every read sees the current value on the object itself -/
def specEnv (h : List Obj) (i : Nat) (r : Read) : Val := getP (paramsOf h i) r.attr

def emptySite : MemoSite :=
  { cls := "", method := "", line := 0, cached := false, keyParams := [], keyAttrs := [],
    reads := [], calls := [], placement := .module }

def siteAt (sites : List MemoSite) (k : Nat) : MemoSite := sites.getD k emptySite

def keyOf (sites : List MemoSite) (h : List Obj) (i k : Nat) (x : Args) : CKey :=
  (k, i, (siteAt sites k).keyAttrs.map (fun a => getP (paramsOf h i) a), x)

/-- where the reference produced by a copy site points -/
def copyTarget (h : List Obj) (src : Nat) : CopyKind → Nat
  | .alias => src
  | _ => h.length

/-- the same for a state (a copy kept from an earlier access is handed out again) -/
def copyTargetS {Out : Type} (st : MState Out) (src : Nat) : CopyKind → Nat
  | .once => (st.handed.lookup src).getD st.heap.length
  | k => copyTarget st.heap src k

section
variable {Out : Type} (sites : List MemoSite) (F : Nat → (Read → Val) → Args → Out)

/-- a memoised method whose results live in a dict on the instance: the dict is created on first
    use, emptied when the key attributes differ from the ones it was filled for, and looked up by
    (method, arguments).  `copy.copy` hands the *same* dict to the copy. -/
def evalInstance (st : MState Out) (i k : Nat) (x : Args) : MState Out × Option Out :=
  match st.heap[i]? with
  | none => (st, none)
  | some o =>
    let pars := (siteAt sites k).keyAttrs.map (fun a => getP o.params a)
    let d := o.memo.getD st.dicts.length
    let dicts0 := if o.memo.isSome then st.dicts else st.dicts ++ [[]]
    let dicts1 := if o.filled == some pars then dicts0 else dicts0.set d []
    let o' := { o with memo := some d, filled := some pars }
    match (dicts1.getD d []).lookup (k, x) with
    | some out => ({ st with heap := st.heap.set i o', dicts := dicts1 }, some out)
    | none =>
      let out := F k (resolve st.heap i) x
      ({ st with heap := st.heap.set i o',
                 dicts := dicts1.set d (((k, x), out) :: dicts1.getD d []) }, some out)

def stepM (st : MState Out) : MOp → MState Out × Option Out
  | .new cls p =>
    ({ st with heap := st.heap ++ [{ cls := cls, params := p, snapshot := p,
                                     bound := st.heap.length }] }, none)
  | .copy src kind =>
    match st.heap[src]?, kind with
    | none, _ => (st, none)
    | some _, .alias => (st, none)
    | some o, .shallow => ({ st with heap := st.heap ++ [o] }, none)      -- shares `o.memo`
    | some o, .once =>
      match st.handed.lookup src with
      | some _ => (st, none)                                              -- the kept copy again
      | none => ({ st with heap := st.heap ++ [o], handed := (src, st.heap.length) :: st.handed }, none)
    | some o, .deep =>                                                    -- a dict of its own
      ({ st with heap := st.heap ++ [{ o with memo := o.memo.map (fun _ => st.dicts.length) }],
                 dicts := st.dicts ++ [st.dicts.getD (o.memo.getD 0) []] }, none)
  | .setParam i a v =>
    match st.heap[i]? with
    | none => (st, none)
    | some o => ({ st with heap := st.heap.set i { o with params := (a, v) :: o.params } }, none)
  | .eval i k x =>
    if i < st.heap.length then
      if (siteAt sites k).cached then
        if (siteAt sites k).placement == .instance then evalInstance sites F st i k x else
        match st.cache.lookup (keyOf sites st.heap i k x) with
        | some out => (st, some out)
        | none =>
          let out := F k (resolve st.heap i) x
          ({ st with cache := (keyOf sites st.heap i k x, out) :: st.cache }, some out)
      else (st, some (F k (resolve st.heap i) x))
    else (st, none)
  | .evict j => ({ st with cache := st.cache.eraseIdx j }, none)

def runM (st : MState Out) : List MOp → MState Out
  | [] => st
  | op :: ops => runM (stepM sites F st op).1 ops

/-- outputs of the evaluations of a history, in order -/
def outsM (st : MState Out) : List MOp → List (Option Out)
  | [] => []
  | op :: ops => (stepM sites F st op).2 :: outsM (stepM sites F st op).1 ops

end

def initM {Out : Type} : MState Out := { heap := [], cache := [], dicts := [], handed := [] }

/-- the most general body reading `reads`: it returns what it read and its arguments -/
def freeBody (sites : List MemoSite) (k : Nat) (e : Read → Val) (x : Args) : List Val × Args :=
  ((siteAt sites k).reads.map e, x)

/-- attributes the user can set (generated list: no leading underscore) -/
def isPublic (a : String) : Bool := publicAttrs.contains a

/-- the static condition: no read goes through a stored lambda, and a memoised body reads
    only attributes that are in its key or that the public API cannot change -/
def siteOK (pub : String → Bool) (s : MemoSite) : Bool :=
  s.reads.all (fun r => r.kind == .direct) &&
  (!s.cached || s.reads.all (fun r => s.keyAttrs.contains r.attr || !pub r.attr)) &&
  (!s.cached || s.placement == .module)

def copyOK (c : CopySite) : Bool := c.kind == .shallow || c.kind == .deep

/-- index of a method of a class in a table (the table's length if absent) -/
def memoIdx (sites : List MemoSite) (cls method : String) : Nat :=
  sites.findIdx (fun s => s.cls == cls && s.method == method)

/-! ## (b) numpy arrays -/

structure Arr where
  buf : Nat
  shape : List Nat
  strides : List Int          -- in elements
  writeable : Bool
  vals : List Int             -- logical contents in C order (only carried along)
  deriving DecidableEq, Repr

def prodN : List Nat → Nat
  | [] => 1
  | d :: ds => d * prodN ds

def cStrides : List Nat → List Int
  | [] => []
  | _ :: ds => (prodN ds : Int) :: cStrides ds

def fStridesFrom : List Nat → Int → List Int
  | [], _ => []
  | d :: ds, sd => sd :: fStridesFrom ds (sd * d)

def fStrides (sh : List Nat) : List Int := fStridesFrom sh 1

/-- axes as (dim, stride); a missing stride reads 0 -/
def axesOf : List Nat → List Int → List (Nat × Int)
  | [], _ => []
  | d :: ds, [] => (d, 0) :: axesOf ds []
  | d :: ds, s :: ss => (d, s) :: axesOf ds ss

/-- numpy's contiguity flag, walking from the fastest axis (axes of length 1 do not count) -/
def contigFrom : List (Nat × Int) → Int → Bool
  | [], _ => true
  | (d, s) :: rest, sd => if d = 1 then contigFrom rest sd else (s == sd && contigFrom rest (sd * d))

def isCContig (sh : List Nat) (st : List Int) : Bool := contigFrom (axesOf sh st).reverse 1
def isFContig (sh : List Nat) (st : List Int) : Bool := contigFrom (axesOf sh st) 1

/-- insertion into a list sorted by decreasing |stride|, ties by axis number -/
def insertByStride (x : Nat × Nat × Int) : List (Nat × Nat × Int) → List (Nat × Nat × Int)
  | [] => [x]
  | y :: ys => if x.2.2.natAbs > y.2.2.natAbs then x :: y :: ys else y :: insertByStride x ys

def sortByStride (l : List (Nat × Nat × Int)) : List (Nat × Nat × Int) :=
  l.foldl (fun acc x => insertByStride x acc) []

def indexAxes : List (Nat × Int) → Nat → List (Nat × Nat × Int)
  | [], _ => []
  | (d, s) :: rest, i => (i, d, s) :: indexAxes rest (i + 1)

/-- assign strides walking the permutation from its last (fastest) entry -/
def assignStrides : List (Nat × Nat × Int) → Int → List (Nat × Int)
  | [], _ => []
  | (i, d, _) :: rest, sd => (i, sd) :: assignStrides rest (sd * d)

/-- strides of a copy made with order 'K' (`np.array(x)`, `copy.copy(x)`) -/
def kOrderStrides (sh : List Nat) (st : List Int) : List Int :=
  if sh.length ≤ 1 || isCContig sh st then cStrides sh
  else if isFContig sh st then fStrides sh
  else
    let perm := sortByStride (indexAxes (axesOf sh st) 0)
    let asg := assignStrides perm.reverse 1
    (List.range sh.length).map (fun i => (asg.lookup i).getD 0)

def stripOnes (sh : List Nat) (st : List Int) : List (Nat × Int) :=
  (axesOf sh st).filter (fun p => p.1 != 1)

/-- old axes `(d₀,s₀),(d₁,s₁),…` can be merged into one C-ordered axis -/
def mergeableC : List (Nat × Int) → Bool
  | (_, s0) :: (d1, s1) :: rest => s0 == (d1 : Int) * s1 && mergeableC ((d1, s1) :: rest)
  | _ => true

/-- strides of the new axes of one group whose last axis gets stride `s` -/
def groupStrides : List Nat → Int → List Int
  | [], _ => []
  | _ :: rest, s => (s * (prodN rest : Int)) :: groupStrides rest s

/-- numpy's inner loop: extend the smaller of the two groups until the products agree -/
def grow : Nat → Nat → Nat → List Nat → List (Nat × Int) → List Nat → List (Nat × Int)
    → Option (List Nat × List (Nat × Int) × List Nat × List (Nat × Int))
  | 0, _, _, _, _, _, _ => none
  | fuel + 1, np, op, ng, og, nr, orr =>
    if np = op then some (ng, og, nr, orr)
    else if np < op then
      match nr with
      | [] => none
      | d :: nr' => grow fuel (np * d) op (ng ++ [d]) og nr' orr
    else
      match orr with
      | [] => none
      | p :: or' => grow fuel np (op * p.1) ng (og ++ [p]) nr or'

/-- `_attempt_nocopy_reshape` (C order): new strides if the array can be viewed with
    the new shape.  `new` = remaining new dims, `old` = remaining old axes (1s removed). -/
def nocopyLoop : Nat → List Nat → List (Nat × Int) → List Int → Option (List Int)
  | _, [], _, acc => some acc
  | _, n :: nr, [], acc => some (acc ++ (n :: nr).map (fun _ => acc.getLast?.getD 1))
  | 0, _ :: _, _ :: _, _ => none
  | fuel + 1, n :: nr, o :: orr, acc =>
    match grow (nr.length + orr.length + 3) n o.1 [n] [o] nr orr with
    | none => none
    | some (ng, og, nr', or') =>
      if mergeableC og then
        nocopyLoop fuel nr' or' (acc ++ groupStrides ng ((og.getLast?.map (·.2)).getD 1))
      else none

def attemptNocopy (sh : List Nat) (st : List Int) (ns : List Nat) : Option (List Int) :=
  nocopyLoop (sh.length + 1) ns (stripOnes sh st) []

/-- strides of `x.reshape(ns)` when it is a view (same size assumed), `none` when numpy copies -/
def reshapeView? (a : Arr) (ns : List Nat) : Option (List Int) :=
  if ns = a.shape then some a.strides
  else if isCContig a.shape a.strides then some (cStrides ns)
  else attemptNocopy a.shape a.strides ns

inductive Err where
  | sizeMismatch | notInPlace | readOnly | badRef
  deriving DecidableEq, Repr

structure AState where
  objs : List Arr
  nextBuf : Nat
  written : List Nat
  deriving Repr

/-- values of the integer variables / the user array's shape at the call -/
structure Ctx where
  inShape : List Nat
  par : String → Int

def evalDim (c : Ctx) : Dim → Nat
  | .lit n => n
  | .inp k => c.inShape.getD k 1
  | .par s => (c.par s).toNat
  | .mul a b => evalDim c a * evalDim c b
  | .pow a n => evalDim c a ^ n

def evalItem (c : Ctx) : ShapeItem → List Nat
  | .dim d => [evalDim c d]
  | .rep d cnt => List.replicate (c.par cnt).toNat (evalDim c d)

def evalItems (c : Ctx) : List ShapeItem → List Nat
  | [] => []
  | it :: rest => evalItem c it ++ evalItems c rest

/-- position at which Python's `list.insert(i, x)` inserts -/
def pyInsertPos (len : Nat) (i : Int) : Nat :=
  if i < 0 then (len + i).toNat else min i.toNat len

def insertAt : List Nat → Nat → Nat → List Nat
  | l, 0, x => x :: l
  | [], _ + 1, x => [x]
  | d :: ds, n + 1, x => d :: insertAt ds n x

def evalShape (c : Ctx) : ShapeE → List Nat
  | .items l => evalItems c l
  | .inputInsertOne p => insertAt c.inShape (pyInsertPos c.inShape.length (c.par p)) 1

def copyOf (st : AState) (a : Arr) (strides : List Int) : AState :=
  { st with objs := st.objs ++ [{ buf := st.nextBuf, shape := a.shape, strides := strides,
                                  writeable := true, vals := a.vals }],
            nextBuf := st.nextBuf + 1 }

def stepA (c : Ctx) (st : AState) : AOp → Except Err AState
  | .reshape src sh =>
    match st.objs[src]? with
    | none => .error .badRef
    | some a =>
      let ns := evalShape c sh
      if prodN ns ≠ prodN a.shape then .error .sizeMismatch
      else match reshapeView? a ns with
        | some strides =>
          .ok { st with objs := st.objs ++ [{ a with shape := ns, strides := strides }] }
        | none =>
          .ok { st with objs := st.objs ++ [{ buf := st.nextBuf, shape := ns, strides := cStrides ns,
                                              writeable := true, vals := a.vals }],
                        nextBuf := st.nextBuf + 1 }
  | .setShape tgt sh =>
    match st.objs[tgt]? with
    | none => .error .badRef
    | some a =>
      let ns := evalShape c sh
      if prodN ns ≠ prodN a.shape then .error .sizeMismatch
      else match reshapeView? a ns with
        | some strides => .ok { st with objs := st.objs.set tgt { a with shape := ns, strides := strides } }
        | none => .error .notInPlace
  | .npArray src =>
    match st.objs[src]? with
    | none => .error .badRef
    | some a => .ok (copyOf st a (kOrderStrides a.shape a.strides))
  | .copyK src =>
    match st.objs[src]? with
    | none => .error .badRef
    | some a => .ok (copyOf st a (kOrderStrides a.shape a.strides))
  | .npArrayC src =>
    match st.objs[src]? with
    | none => .error .badRef
    | some a => .ok (copyOf st a (cStrides a.shape))
  | .setReadonly tgt =>
    match st.objs[tgt]? with
    | none => .error .badRef
    | some a => .ok { st with objs := st.objs.set tgt { a with writeable := false } }
  | .writeData tgt =>
    match st.objs[tgt]? with
    | none => .error .badRef
    | some a => if a.writeable then .ok { st with written := a.buf :: st.written }
                else .error .readOnly
  | .viewOf src =>
    -- np.moveaxis / .T / basic indexing: another array object on the same buffer (its shape is
    -- not followed: the record is carried over)
    match st.objs[src]? with
    | none => .error .badRef
    | some a => .ok { st with objs := st.objs ++ [a] }
  | .computed =>
    -- the result of an arithmetic routine: a new writeable array in a new buffer (contents not
    -- followed)
    .ok { st with objs := st.objs ++ [{ buf := st.nextBuf, shape := [1], strides := [1],
                                        writeable := true, vals := [] }],
                  nextBuf := st.nextBuf + 1 }

def runA (c : Ctx) (st : AState) : List AOp → Except Err AState
  | [] => .ok st
  | op :: ops =>
    match stepA c st op with
    | .error e => .error e
    | .ok st' => runA c st' ops

/-- the caller's array is object 0 in buffer 0 -/
def initA (a : Arr) : AState := { objs := [a], nextBuf := 1, written := [] }

/-! ### layout-free reference semantics -/

/-- an array as the user sees it, plus what the site may rely on: `own` = created by a copy
    inside the site (cannot share the caller's buffer), `ro` = made read-only by the site -/
structure LObj where
  shape : List Nat
  vals : List Int
  own : Bool
  ro : Bool
  deriving DecidableEq, Repr

inductive SErr where
  | err (e : Err)
  /-- the site does something whose outcome depends on the memory layout or touches the caller -/
  | layoutDependent
  deriving DecidableEq, Repr

def dropOnesN (l : List Nat) : List Nat := l.filter (fun d => d != 1)

def stepL (c : Ctx) (ls : List LObj) : AOp → Except SErr (List LObj)
  | .reshape src sh =>
    match ls[src]? with
    | none => .error (.err .badRef)
    | some a =>
      let ns := evalShape c sh
      if prodN ns ≠ prodN a.shape then .error (.err .sizeMismatch)
      -- a reshape of a read-only array is writeable iff numpy had to copy: not relied upon
      else .ok (ls ++ [{ a with shape := ns, own := a.own && !a.ro }])
  | .setShape tgt sh =>
    match ls[tgt]? with
    | none => .error (.err .badRef)
    | some a =>
      let ns := evalShape c sh
      if prodN ns ≠ prodN a.shape then .error (.err .sizeMismatch)
      else if tgt ≠ 0 ∧ dropOnesN ns = dropOnesN a.shape then .ok (ls.set tgt { a with shape := ns })
      else .error .layoutDependent
  | .npArray src | .copyK src | .npArrayC src =>
    match ls[src]? with
    | none => .error (.err .badRef)
    | some a => .ok (ls ++ [{ a with own := true, ro := false }])
  | .setReadonly tgt =>
    match ls[tgt]? with
    | none => .error (.err .badRef)
    | some a => if tgt ≠ 0 then .ok (ls.set tgt { a with ro := true }) else .error .layoutDependent
  | .writeData tgt =>
    match ls[tgt]? with
    | none => .error (.err .badRef)
    | some a => if a.own then (if a.ro then .error (.err .readOnly) else .ok ls)
                else .error .layoutDependent
  | .viewOf src =>
    match ls[src]? with
    | none => .error (.err .badRef)
    | some a => .ok (ls ++ [a])
  | .computed => .ok (ls ++ [{ shape := [1], vals := [], own := true, ro := false }])

def runL (c : Ctx) (ls : List LObj) : List AOp → Except SErr (List LObj)
  | [] => .ok ls
  | op :: ops =>
    match stepL c ls op with
    | .error e => .error e
    | .ok ls' => runL c ls' ops

def initL (shape : List Nat) (vals : List Int) : List LObj :=
  [{ shape := shape, vals := vals, own := false, ro := false }]

/-! ### static check of a site (symbolic shapes) -/

inductive SymShape where
  | input                       -- the user array's own shape
  | items (l : List ShapeItem)
  | unknown
  deriving DecidableEq, Repr

structure SymObj where
  shape : SymShape
  own : Bool
  ro : Bool
  deriving DecidableEq, Repr

def isOneItem : ShapeItem → Bool
  | .dim d => d == .lit 1
  | .rep d _ => d == .lit 1

def dropOnesS (l : List ShapeItem) : List ShapeItem := l.filter (fun it => !isOneItem it)

def inputItems (rank : Nat) : List ShapeItem := (List.range rank).map (fun k => .dim (.inp k))

def symItems (rank : Nat) : SymShape → Option (List ShapeItem)
  | .input => if rank = 0 then none else some (inputItems rank)
  | .items l => some l
  | .unknown => none

/-- may `.shape = sh` be applied to an array of symbolic shape `cur`?  Only when the new
    shape is the old one with axes of length 1 inserted or removed. -/
def insertsOnes (rank : Nat) (cur : SymShape) (sh : ShapeE) : Bool :=
  match cur, sh with
  | .input, .inputInsertOne _ => true
  | _, .inputInsertOne _ => false
  | cur, .items l =>
    match symItems rank cur with
    | some lc => dropOnesS l == dropOnesS lc
    | none => false

def symOfShapeE : ShapeE → Option SymShape
  | .items l => some (.items l)
  | .inputInsertOne _ => none

def stepS (rank : Nat) (ss : List SymObj) : AOp → Option (List SymObj)
  | .reshape src sh =>
    match ss[src]?, symOfShapeE sh with
    | some a, some s => some (ss ++ [{ a with shape := s, own := a.own && !a.ro }])
    | _, _ => none
  | .setShape tgt sh =>
    match ss[tgt]? with
    | some a =>
      if tgt ≠ 0 && insertsOnes rank a.shape sh then
        match sh with
        | .items l => some (ss.set tgt { a with shape := .items l })
        | .inputInsertOne _ => some (ss.set tgt { a with shape := .unknown })
      else none
    | none => none
  | .npArray src | .copyK src | .npArrayC src =>
    match ss[src]? with
    | some a => some (ss ++ [{ a with own := true, ro := false }])
    | none => none
  | .setReadonly tgt =>
    match ss[tgt]? with
    | some a => if tgt ≠ 0 then some (ss.set tgt { a with ro := true }) else none
    | none => none
  | .writeData tgt =>
    match ss[tgt]? with
    | some a => if a.own && !a.ro then some ss else none
    | none => none
  | .viewOf src =>
    match ss[src]? with
    | some a => some (ss ++ [{ a with shape := .unknown }])
    | none => none
  | .computed => some (ss ++ [{ shape := .unknown, own := true, ro := false }])

def runS (rank : Nat) (ss : List SymObj) : List AOp → Option (List SymObj)
  | [] => some ss
  | op :: ops =>
    match stepS rank ss op with
    | none => none
    | some ss' => runS rank ss' ops

def emptyArraySite : ArraySite := { file := "", func := "", param := "", line := 0, rank := 0, ops := [] }

/-- the array site of function `func` on parameter `param` for arrays of rank `rank` -/
def arraySiteOf (sites : List ArraySite) (func param : String) (rank : Nat) : ArraySite :=
  (sites.find? (fun s => s.func == func && s.param == param && s.rank == rank)).getD emptyArraySite

def siteSafe (s : ArraySite) : Bool :=
  (runS s.rank [{ shape := .input, own := false, ro := false }] s.ops).isSome

/-! ## (c) results a method keeps on its object that derive from a caller-owned table -/

/-- the caller's parameter tables: object identity (index) ↦ current values -/
abbrev Tables := List (List Val)

inductive TOp where
  | newTable (content : List Val)
  /-- the caller edits its own table in place (`table[:] = …`, `table -= rate * gradient`) -/
  | mutate (t : Nat) (content : List Val)
  /-- a library method is called with table `t` -/
  | call (t : Nat)
  /-- the store may forget any entry -/
  | drop (j : Nat)
  deriving Repr

/-- how the kept result is found again: by the table's identity or by its values -/
abbrev TKey := Option Nat × Option (List Val)

structure TState (Out : Type) where
  tables : Tables
  store : List (TKey × Out)

def tkey (kind : ArgKeyKind) (t : Nat) (content : List Val) : Option TKey :=
  match kind with
  | .none => none
  | .identity => some (some t, none)
  | .content => some (none, some content)

section
variable {Out : Type} (kind : ArgKeyKind) (f : List Val → Out)

def stepT (st : TState Out) : TOp → TState Out × Option Out
  | .newTable c => ({ st with tables := st.tables ++ [c] }, none)
  | .mutate t c => ({ st with tables := st.tables.set t c }, none)
  | .call t =>
    match st.tables[t]? with
    | none => (st, none)
    | some c =>
      match tkey kind t c with
      | none => (st, some (f c))
      | some k =>
        match st.store.lookup k with
        | some out => (st, some out)
        | none => ({ st with store := (k, f c) :: st.store }, some (f c))
  | .drop j => ({ st with store := st.store.eraseIdx j }, none)

def runT (st : TState Out) : List TOp → TState Out
  | [] => st
  | op :: ops => runT (stepT kind f st op).1 ops

def outsT (st : TState Out) : List TOp → List (Option Out)
  | [] => []
  | op :: ops => (stepT kind f st op).2 :: outsT (stepT kind f st op).1 ops

end

def initT {Out : Type} : TState Out := { tables := [], store := [] }

def argStoreOK (s : ArgStore) : Bool := s.kind != .identity

/-! ## (d) arrays returned by public helper functions -/

inductive ROp where
  /-- the function is called (by the user or by the library, e.g. `commutator` building on it) -/
  | call
  /-- the user writes `v` into the array the `r`-th call returned -/
  | write (r : Nat) (v : Val)
  deriving Repr

structure RState where
  /-- contents of the buffers (one value stands for the whole array) -/
  bufs : List Val
  /-- buffer of the array returned by the k-th call -/
  results : List Nat
  /-- the buffer a memoising decorator / module constant keeps, once it exists -/
  kept : Option Nat

def initR : RState := { bufs := [], results := [], kept := none }

/-- `pristine` is what the function computes; a call reports what the caller finds in the
    returned array -/
def stepR (kind : ReturnKind) (pristine : Val) (st : RState) : ROp → RState × Option Val
  | .write r v =>
    match st.results[r]? with
    | none => (st, none)
    | some b => ({ st with bufs := st.bufs.set b v }, none)
  | .call =>
    match kind with
    | .fresh =>
      ({ st with bufs := st.bufs ++ [pristine], results := st.results ++ [st.bufs.length] },
       some pristine)
    | _ =>
      match st.kept with
      | some b => ({ st with results := st.results ++ [b] }, some (st.bufs.getD b pristine))
      | none =>
        ({ bufs := st.bufs ++ [pristine], results := st.results ++ [st.bufs.length],
           kept := some st.bufs.length }, some pristine)

def runR (kind : ReturnKind) (pristine : Val) (st : RState) : List ROp → RState
  | [] => st
  | op :: ops => runR kind pristine (stepR kind pristine st op).1 ops

def outsR (kind : ReturnKind) (pristine : Val) (st : RState) : List ROp → List (Option Val)
  | [] => []
  | op :: ops => (stepR kind pristine st op).2 :: outsR kind pristine (stepR kind pristine st op).1 ops

def returnOK (s : ReturnSite) : Bool := s.kind == .fresh

/-! ## (e) attributes derived from caller-owned mutable objects at (re-)initialisation -/

inductive DOp where
  /-- the caller changes the parameters / adds a term to the chain -/
  | mutate (v : Val)
  /-- `initialize()` -/
  | init
  deriving Repr

structure DState (Out : Type) where
  source : Val
  derived : Option Out

def stepD {Out : Type} (guard : DerivedGuard) (f : Val → Out) (st : DState Out) : DOp → DState Out
  | .mutate v => { st with source := v }
  | .init =>
    match guard, st.derived with
    | .onlyIfUnset, some _ => st
    | _, _ => { st with derived := some (f st.source) }

def runD {Out : Type} (guard : DerivedGuard) (f : Val → Out) (st : DState Out) : List DOp → DState Out
  | [] => st
  | op :: ops => runD guard f (stepD guard f st op) ops

def derivedOK (s : DerivedStore) : Bool := s.guard == .always

/-! ## (f) values a getter keeps between calls -/

/-- a getter called with named arguments keeps one result together with the values of the
    arguments it is keyed on; `reset` is what `add_…` methods do -/
inductive GOp where
  | call (args : List (String × Val))
  | reset
  deriving Repr

structure GState (Out : Type) where
  kept : Option (List Val × Out)

def gArg (args : List (String × Val)) (a : String) : Val := (args.lookup a).getD 0

def stepG {Out : Type} (keyed : List String) (f : (String → Val) → Out) (st : GState Out) :
    GOp → GState Out × Option Out
  | .reset => ({ kept := none }, none)
  | .call args =>
    let k := keyed.map (gArg args)
    match st.kept with
    | some (k', out) =>
      if k' = k then (st, some out)
      else ({ kept := some (k, f (gArg args)) }, some (f (gArg args)))
    | none => ({ kept := some (k, f (gArg args)) }, some (f (gArg args)))

def runG {Out : Type} (keyed : List String) (f : (String → Val) → Out) (st : GState Out) :
    List GOp → GState Out
  | [] => st
  | op :: ops => runG keyed f (stepG keyed f st op).1 ops

def outsG {Out : Type} (keyed : List String) (f : (String → Val) → Out) (st : GState Out) :
    List GOp → List (Option Out)
  | [] => []
  | op :: ops => (stepG keyed f st op).2 :: outsG keyed f (stepG keyed f st op).1 ops

def getterOK (s : GetterStore) : Bool := s.used.all (fun a => s.keyedOn.contains a)

end OQuPyVerif.Aliasing
