/-
  Model of the *call histories* of OQuPy's method objects (C14).  Mathlib-free, executable.

  Every method object is a small state machine; the persistent state carried from one
  call to the next is modelled *abstractly but faithfully*:

  * the tensor network is the log (`Net`) of the in-place changes made to it, each with
    the step argument it was made with and the user-callable results that entered it;
  * the step counter is an integer;
  * recorded results are (label, snapshot-of-the-log) pairs.

  Two runs of the real (deterministic) code that produce the same abstract state produce
  the same numbers; runs with different logs generically do not.

  The order in which a backend step does these things is NOT written here: it is the
  micro-op list regenerated from the source (`Generated/LoopOrder.lean`), interpreted by
  `runOps` (TEMPO / mean-field TEMPO, with fault injection into user callables) and by
  `tebdRun` (PT-TEBD).  The loop conditions and step counts of `PtTempo.compute`,
  `PtTempo.get_process_tensor`, `GibbsTempo.compute` and `PtTebd.compute` are generated
  functions as well.
-/
import OQuPyVerif.Model.TimeGrid
import OQuPyVerif.Generated.LoopOrder

namespace OQuPyVerif.Histories
open OQuPyVerif.TimeGrid OQuPyVerif.Generated.LoopOrder

/-! ## TEMPO / mean-field TEMPO: backend step with transient faults -/

/-- one in-place change of a persistent tensor network -/
inductive NetEv where
  /-- advanced by one step with step argument `arg`, using the results of the user-callable
      invocations `inputs` = (callable id, step argument) made earlier in the same step -/
  | adv (arg : Int) (inputs : List (Nat × Int))
deriving DecidableEq, Repr

abbrev Net := List NetEv

/-- what a `store` keeps (`self._state`, `self._state_list`, `self._field`): a function of
    the network and of the user-callable results of that step -/
abbrev Snap := Net × List (Nat × Int)

/-- the state that decides all later results -/
structure Core where
  step : Int
  net : Net
  stored : Snap
deriving DecidableEq, Repr

/-- backend state: the core plus book-keeping of the user-callable invocations
    (`calls` indexes the fault oracle, `trace` is compared with the real code) -/
structure BState where
  core : Core
  calls : Nat
  trace : List (Nat × Int)
deriving DecidableEq, Repr

/-- local variables of one `compute_step` invocation -/
structure Local where
  entry : Int
  pending : List (Nat × Int)
  snapshot : Option Net
  /-- does the handler of the open try-region catch every `BaseException`? -/
  catchAll : Bool
  /-- does it put back exactly the full copies saved before the region? -/
  exact : Bool
deriving Repr

/-- Fault oracle: `raises n` — the `n`-th invocation of a user callable (counted over the whole
    life of the object) raises; `base n` — what it raises is a `BaseException` that is NOT an
    `Exception` (KeyboardInterrupt, a user abort class).  The property does not restrict the
    exception type. -/
structure Oracle where
  raises : Nat → Bool
  base : Nat → Bool

/-- Interpretation of a micro-op list.  An exception aborts the list at that point, leaving
    the effects of the earlier micro-ops, except that the handler of an enclosing
    `tryBegin … tryEnd` region — if it catches the class of the exception — first restores the
    network saved at `tryBegin`.  Returns the new state and whether the step completed. -/
def runOps (faulty : Oracle) : List MicroOp → Local → BState → BState × Bool
  | [], _, b => (b, true)
  | .callUser i v :: rest, l, b =>
    let arg := v.eval l.entry
    let b1 : BState := { b with calls := b.calls + 1, trace := b.trace ++ [(i, arg)] }
    if faulty.raises b.calls then
      (match l.snapshot with
        | some n0 =>
          if l.catchAll || !faulty.base b.calls then
            -- an exact handler is the identity on the saved network; one that rebuilds the
            -- network from partial information yields SOME network, not known to be the saved one
            { b1 with core := { b1.core with
                net := if l.exact then n0 else n0 ++ [.adv (-1) []] } }
          else b1
        | none => b1, false)
    else runOps faulty rest { l with pending := l.pending ++ [(i, arg)] } b1
  | .setStep v :: rest, l, b =>
    runOps faulty rest l { b with core := { b.core with step := v.eval l.entry } }
  | .mutate v :: rest, l, b =>
    runOps faulty rest l
      { b with core := { b.core with net := b.core.net ++ [.adv (v.eval l.entry) l.pending] } }
  | .store :: rest, l, b =>
    runOps faulty rest l { b with core := { b.core with stored := (b.core.net, l.pending) } }
  | .tryBegin ca ex :: rest, l, b =>
    runOps faulty rest { l with snapshot := some b.core.net, catchAll := ca, exact := ex } b
  | .tryEnd :: rest, l, b => runOps faulty rest { l with snapshot := none } b
  -- not produced for these backends (`faultSafe`/`stepOpsOnly` reject lists containing them)
  | .initStep :: rest, l, b => runOps faulty rest l b
  | .loadNet :: rest, l, b => runOps faulty rest l b
  | .control _ _ :: rest, l, b => runOps faulty rest l b
  | .record :: rest, l, b => runOps faulty rest l b
  | .initResults :: rest, l, b => runOps faulty rest l b
  | .traceCompute :: rest, l, b => runOps faulty rest l b
  | .traceRead :: rest, l, b => runOps faulty rest l b
  | .traceClear :: rest, l, b => runOps faulty rest l b

/-- one `compute_step()` of the backend -/
def backendStep (faulty : Oracle) (ops : List MicroOp) (b : BState) : BState × Bool :=
  runOps faulty ops ⟨b.core.step, [], none, false, false⟩ b

def noFault : Oracle := ⟨fun _ => false, fun _ => false⟩

/-- scan state of `faultSafe` -/
structure Scan where
  /-- an effect that an exception would leave behind has been executed -/
  dirty : Bool
  /-- the network was changed inside the current try region (undone by its handler) -/
  prot : Bool
  inTry : Bool
deriving Repr

def scanOps : List MicroOp → Scan → Bool
  | [], _ => true
  | .callUser _ _ :: rest, s => !s.dirty && scanOps rest s
  | .setStep _ :: rest, s => scanOps rest { s with dirty := true }
  | .store :: rest, s => scanOps rest { s with dirty := true }
  | .mutate _ :: rest, s =>
    if s.inTry then scanOps rest { s with prot := true } else scanOps rest { s with dirty := true }
  -- a handler that does not catch every BaseException, or does not put back exactly the saved
  -- copies, protects nothing
  | .tryBegin ca ex :: rest, s =>
    !s.inTry && (ca && ex) && scanOps rest { s with inTry := true, prot := false }
  | .tryEnd :: rest, s =>
    s.inTry && scanOps rest { dirty := s.dirty || s.prot, prot := false, inTry := false }
  | _ :: _, _ => false

/-- The ordering property: whenever a user callable is invoked, nothing that the step has done
    so far would survive an exception — every `callUser` comes before all `setStep` / `store`
    and before every `mutate` that is not inside a restoring try-region still open at the call
    whose handler catches EVERY exception class and restores EXACTLY the saved copies
    (`tryBegin true true`). -/
def faultSafe (ops : List MicroOp) : Bool := scanOps ops ⟨false, false, false⟩

/-- only the micro-ops that `runOps` gives a meaning to -/
def stepOpsOnly : List MicroOp → Bool
  | [] => true
  | .callUser _ _ :: r | .setStep _ :: r | .mutate _ :: r | .store :: r
  | .tryBegin _ _ :: r | .tryEnd :: r => stepOpsOnly r
  | _ :: _ => false

/-- the last assignment of the step counter in the list -/
def lastSetStep : List MicroOp → Option Aff
  | [] => none
  | .setStep v :: rest => (lastSetStep rest).orElse (fun _ => some v)
  | _ :: rest => lastSetStep rest

/-! ## TEMPO / mean-field TEMPO: `compute(end_time)` -/

structure Obj where
  started : Bool
  b : BState
  dyn : Dyn Snap
deriving Repr

def Obj.fresh : Obj := ⟨false, ⟨⟨0, [], ([], [])⟩, 0, []⟩, Dyn.empty⟩

/-- the loop of `compute`: `n` backend steps, each followed by `dynamics.add`.  `ops k` is the
    micro-op list of the step taken at counter `k` (which control-flow path of the step is taken
    depends on the counter: within / beyond the memory cut-off). -/
def stepLoop (faulty : Oracle) (ops : Int → List MicroOp) (time : Int → Rat) :
    Nat → Obj → Obj × Bool
  | 0, o => (o, true)
  | n+1, o =>
    let r := backendStep faulty (ops o.b.core.step) o.b
    if r.2 then
      stepLoop faulty ops time n
        { o with b := r.1, dyn := dynAdd o.dyn (time r.1.core.step) r.1.core.stored }
    else ({ o with b := r.1 }, false)

/-- `backend.initialize()` + first `dynamics.add` -/
def startObj (time : Int → Rat) (initStep : Int) (o : Obj) : Obj :=
  if o.started then o else
    let c : Core := { o.b.core with step := initStep }
    { started := true, b := { o.b with core := c }, dyn := dynAdd o.dyn (time c.step) c.stored }

/-- `Tempo.compute(end_time)` / `MeanFieldTempo.compute(end_time)`; the Boolean says whether
    the call returned normally (`false`: the user callable's exception propagated). -/
def compute (numStep : Int → Rat → Int) (time : Int → Rat) (initStep : Int)
    (ops : Int → List MicroOp) (faulty : Oracle) (o : Obj) (e : Rat) : Obj × Bool :=
  let o1 := startObj time initStep o
  stepLoop faulty ops time (numStep o1.b.core.step e).toNat o1

/-- The micro-op list of the TEMPO backend step taken at counter `k`, with
    `compute_system_step` spliced in: which of its control-flow branches runs depends on the
    memory cut-off (`dkmax = none`: no cut-off) and on the step number passed to it. -/
def tempoOpsAt (dkmax : Option Int) (k : Int) : List MicroOp :=
  match dkmax with
  | none => tempo_step_nocutoff
  | some d => if css_within_cond (tempo_css_arg.eval k) d then tempo_step_within else tempo_step_beyond

def mftOpsAt (dkmax : Option Int) (k : Int) : List MicroOp :=
  match dkmax with
  | none => mft_step_nocutoff
  | some d => if css_within_cond (mft_css_arg.eval k) d then mft_step_within else mft_step_beyond

/-- a history of compute calls; a failed call is simply followed by the next one -/
def runHist (numStep : Int → Rat → Int) (time : Int → Rat) (initStep : Int)
    (ops : Int → List MicroOp) (faulty : Oracle) (targets : List Rat) (o : Obj) : Obj :=
  targets.foldl (fun o e => (compute numStep time initStep ops faulty o e).1) o

/-- what `get_dynamics()` shows plus the persistent backend state, without the book-keeping -/
structure View where
  started : Bool
  core : Core
  times : List Rat
  states : List Snap
deriving DecidableEq, Repr

def Obj.view (o : Obj) : View := ⟨o.started, o.b.core, o.dyn.times, o.dyn.states⟩

/-! ## PT-TEMPO: `compute()` / `get_process_tensor()` -/

structure PtObj where
  step : Option Int
  /-- step arguments of the network updates done so far -/
  net : List Int
  /-- number of tensors stored in the process tensor object, and what they were computed from -/
  ptLen : Int
  ptContent : List Int
deriving DecidableEq, Repr

def PtObj.fresh : PtObj := ⟨none, [], 0, []⟩

inductive PtOut where
  | done
  | raised
  | pt (content : List Int)
deriving DecidableEq, Repr

/-- every control-flow path of `PtTempoBackend.compute_step` starts by advancing the counter -/
def ptStepIncFirst : Bool := pt_step_paths.all (fun p => p.head? == some (.setStep ⟨1, 1⟩))

/-- The stepping loop of `PtTempo.compute`.  A backend step first advances the counter
    (`ptStepIncFirst`); a step beyond `n` finds no influence tensor left and raises. -/
def ptLoop (n : Int) : Nat → Int × List Int → (Int × List Int) × Bool
  | 0, st => (st, true)
  | f+1, (s, net) =>
    if pt_loop_pre s n then
      if s + 1 > n then ((s + 1, net), false)
      else
        let st' := (s + 1, net ++ [s + 1])
        if pt_loop_post (pt_step_returns (s + 1) n) then ptLoop n f st' else (st', true)
    else ((s, net), true)

def ptCompute (n : Int) (o : PtObj) : PtObj × Bool :=
  let s0 : Int := match o.step with | none => pt_init_step | some s => s
  let r := ptLoop n ((n - s0).toNat + 2) (s0, o.net)
  ({ o with step := some r.1.1, net := r.1.2 }, r.2)

def ptGet (n : Int) (o : PtObj) : PtObj × PtOut :=
  let needC := match o.step with
    | none => pt_get_needs_compute true 0 n
    | some s => pt_get_needs_compute false s n
  let r := if needC then ptCompute n o else (o, true)
  if !r.2 then (r.1, .raised) else
  let o1 := r.1
  if pt_get_needs_update o1.ptLen n then
    -- update_process_tensor asserts that the computation is complete
    match o1.step with
    | some s => if s ≥ n ∧ (o1.net.length : Int) + 1 = n then
        let o2 := { o1 with ptLen := n, ptContent := o1.net }
        (o2, .pt o2.ptContent)
      else (o1, .raised)
    | none => (o1, .raised)
  else (o1, .pt o1.ptContent)

inductive FixedOp where
  | compute
  | get
deriving DecidableEq, Repr

def ptOp (n : Int) (o : PtObj) : FixedOp → PtObj × PtOut
  | .compute => let r := ptCompute n o; (r.1, if r.2 then .done else .raised)
  | .get => ptGet n o

/-- run a history, collecting the outputs -/
def ptHist (n : Int) : List FixedOp → PtObj → PtObj × List PtOut
  | [], o => (o, [])
  | op :: rest, o =>
    let r := ptOp n o op
    let r2 := ptHist n rest r.1
    (r2.1, r.2 :: r2.2)

/-! ## Gibbs TEMPO: `compute()` / `get_state()` -/

structure GObj where
  step : Option Int
  /-- recorded (label index → backend counter when recorded), kept like `Dynamics` -/
  dyn : Dyn Int
deriving Repr

def GObj.fresh : GObj := ⟨none, Dyn.empty⟩

/-- every path of `TIBaseBackend.compute_step` advances the counter by one and appends one result -/
def gibbsStepShape : Bool :=
  gibbs_step_paths.all (fun p =>
    lastSetStep p == some ⟨1, 1⟩ && (p.filter (· == .record)).length == 1)

def gibbsLoop : Nat → Int × Dyn Int → Int × Dyn Int
  | 0, st => st
  | k+1, (s, d) =>
    let s' := s + 1
    gibbsLoop k (s', dynAdd d ((gibbs_label_index s' : Int) : Rat) (gibbs_label_index s'))

/-- `initialise()` precomputes two steps: three entries are recorded with labels 0, 1, 2 -/
def gibbsStart (o : GObj) : Int × Dyn Int :=
  match o.step with
  | some s => (s, o.dyn)
  | none => (gibbs_init_step,
      dynAdd (dynAdd (dynAdd o.dyn 0 0) 1 1) 2 2)

def gibbsCompute (n : Int) (o : GObj) : GObj :=
  let st := gibbsStart o
  let r := gibbsLoop (gibbs_num_step n st.1).toNat st
  ⟨some r.1, r.2⟩

/-- `get_state()`: the last recorded state (normalised) -/
def gibbsState (o : GObj) : Option Int := o.dyn.states.getLast?

def gibbsHist (n : Int) (k : Nat) : GObj := iter (gibbsCompute n) k GObj.fresh

/-! ## PT-TEBD: `compute(end_step)`, export and restart -/

/-- operations applied to the chain state (augmented MPS), on top of the initial one -/
inductive ChainEv where
  | ctrl (post : Bool) (step : Int)
  | evolve (step : Int)
deriving DecidableEq, Repr

structure Tebd where
  step : Option Int
  chain : List ChainEv
  /-- recorded results: (step, the chain state whose traces were read for this entry) -/
  results : List (Int × List ChainEv)
  /-- the temporary traces kept in the backend: which chain state they were computed from -/
  traces : Option (List ChainEv)
deriving DecidableEq, Repr

/-- static configuration of a `PtTebd` object -/
structure TebdCfg where
  startStep : Int
  /-- is a control registered for (`post`, step)? -/
  hasCtrl : Bool → Int → Bool
  /-- the operations already contained in the supplied initial augmented MPS -/
  initial : List ChainEv

/-- does every control-flow path of `PtTebdBackend.compute_traces` recompute the traces? -/
def tracesAlwaysFresh : Bool := tebd_compute_traces_paths.all (fun p => p.contains .traceCompute)

/-- `backend.compute_traces(..)`: if some path returns without recomputing, that path is
    assumed to be the one taken whenever traces are still present (worst case). -/
def computeTraces (t : Tebd) : Tebd :=
  if tracesAlwaysFresh then { t with traces := some t.chain }
  else match t.traces with
    | some _ => t
    | none => { t with traces := some t.chain }

/-- Interpretation of the result-recording / getter lists: state, the traces last read
    (`none`: nothing read yet), and whether a result was recorded. -/
def traceRun : List MicroOp → Tebd → Option (List ChainEv) → Bool →
    Tebd × Option (List ChainEv) × Bool
  | [], t, rd, rc => (t, rd, rc)
  | .traceCompute :: r, t, rd, rc => traceRun r (computeTraces t) rd rc
  | .traceRead :: r, t, _, rc => traceRun r t t.traces rc
  | .traceClear :: r, t, rd, rc => traceRun r { t with traces := none } rd rc
  | .record :: r, t, rd, _ => traceRun r t rd true
  | _ :: r, t, rd, rc => traceRun r t rd rc

/-- `PtTebd._append_results()`: one entry made from the traces that were read -/
def tebdAppend (t : Tebd) : Tebd :=
  let r := traceRun tebd_append_results t none false
  if r.2.2 then { r.1 with results := r.1.results ++ [(t.step.getD 0, r.2.1.getD [])] } else r.1

def tebdRun (cfg : TebdCfg) (entry : Int) : List MicroOp → Tebd → Tebd
  | [], t => t
  | .initStep :: rest, t => tebdRun cfg entry rest { t with step := some cfg.startStep }
  | .loadNet :: rest, t => tebdRun cfg entry rest { t with chain := cfg.initial }
  | .initResults :: rest, t => tebdRun cfg entry rest { t with results := [] }
  | .control post v :: rest, t =>
    let k := v.eval entry
    tebdRun cfg entry rest
      (if cfg.hasCtrl post k then { t with chain := t.chain ++ [.ctrl post k] } else t)
  | .setStep v :: rest, t => tebdRun cfg entry rest { t with step := some (v.eval entry) }
  | .mutate v :: rest, t =>
    tebdRun cfg entry rest { t with chain := t.chain ++ [.evolve (v.eval entry)] }
  | .record :: rest, t => tebdRun cfg entry rest (tebdAppend t)
  | .store :: rest, t => tebdRun cfg entry rest t
  | .callUser _ _ :: rest, t => tebdRun cfg entry rest t
  | .tryBegin _ _ :: rest, t => tebdRun cfg entry rest t
  | .tryEnd :: rest, t => tebdRun cfg entry rest t
  | .traceCompute :: rest, t => tebdRun cfg entry rest t
  | .traceRead :: rest, t => tebdRun cfg entry rest t
  | .traceClear :: rest, t => tebdRun cfg entry rest t

def tebdOpsOnly : List MicroOp → Bool
  | [] => true
  | .callUser _ _ :: _ | .tryBegin _ _ :: _ | .tryEnd :: _ => false
  | .traceCompute :: _ | .traceRead :: _ | .traceClear :: _ => false
  | _ :: r => tebdOpsOnly r

/-- the result-recording / getter lists may only touch the traces and record -/
def traceOpsOnly : List MicroOp → Bool
  | [] => true
  | .traceCompute :: r | .traceRead :: r | .traceClear :: r | .record :: r => traceOpsOnly r
  | _ :: _ => false

def Tebd.fresh : Tebd := ⟨none, [], [], none⟩

/-- `PtTebd.initialize()`; step values in the list are relative to the start step -/
def tebdInit (cfg : TebdCfg) (t : Tebd) : Tebd := tebdRun cfg cfg.startStep tebd_initialize t

/-- `PtTebd.compute_step()` -/
def tebdStep (cfg : TebdCfg) (t : Tebd) : Tebd := tebdRun cfg (t.step.getD 0) tebd_compute_step t

def tebdLoop (cfg : TebdCfg) (endStep : Int) : Nat → Tebd → Tebd
  | 0, t => t
  | f+1, t => if tebd_loop_cond (t.step.getD 0) endStep then tebdLoop cfg endStep f (tebdStep cfg t) else t

/-- `PtTebd.compute(end_step)` -/
def tebdCompute (cfg : TebdCfg) (t : Tebd) (endStep : Int) : Tebd :=
  let t1 := match t.step with | none => tebdInit cfg t | some _ => t
  tebdLoop cfg endStep ((endStep - t1.step.getD 0).toNat + 1) t1

def tebdHist (cfg : TebdCfg) (targets : List Int) : Tebd :=
  targets.foldl (tebdCompute cfg) Tebd.fresh

/-- calls a user can make on a `PtTebd` object -/
inductive TebdOp where
  | compute (endStep : Int)
  | getDM        -- get_current_density_matrix(sites)
  | getResults   -- get_results()
  | getMPS       -- get_augmented_mps()
deriving DecidableEq, Repr

/-- a read-only getter, interpreted from its regenerated list (on an object that has not
    been initialised yet the getters have nothing to read: modelled as no-ops) -/
def tebdGetter (ops : List MicroOp) (t : Tebd) : Tebd :=
  match t.step with
  | none => t
  | some _ => (traceRun ops t none false).1

def tebdOp (cfg : TebdCfg) (t : Tebd) : TebdOp → Tebd
  | .compute e => tebdCompute cfg t e
  | .getDM => tebdGetter tebd_get_dm t
  | .getResults => tebdGetter tebd_get_results t
  | .getMPS => tebdGetter tebd_get_mps t

def tebdOpHist (cfg : TebdCfg) (ops : List TebdOp) : Tebd := ops.foldl (tebdOp cfg) Tebd.fresh

/-- the compute calls of a history -/
def computesOf : List TebdOp → List Int
  | [] => []
  | .compute e :: r => e :: computesOf r
  | _ :: r => computesOf r

/-- a new object built from the exported chain state and step number of `t` -/
def tebdRestartCfg (cfg : TebdCfg) (t : Tebd) : TebdCfg :=
  { cfg with startStep := t.step.getD cfg.startStep, initial := t.chain }

end OQuPyVerif.Histories
