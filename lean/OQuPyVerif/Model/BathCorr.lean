/-
  C12 — bath correlations: the small, Mathlib-free vocabulary the generated fragment
  `Generated/BathShapes.lean` is written in, and the three carriers it is *run* at.

  * `ExpFns K`   : the analytic primitives the Python integrands call (`np.exp`, `1j`, `**`,
                   `np.heaviside`, `.real`) as a record of functions on an arbitrary carrier `K`
                   (arithmetic comes from the core classes `Add Sub Mul Div Neg IntCast`).
                   At `K = ℂ` (Lemmas/BathCorr.lean) they are Mathlib's functions and the
                   theorems are about them; at `K = CF` (complex binary64) the same generated
                   terms are executed by the driver and compared with the Python closures.
  * `CF`         : complex numbers over Lean's `Float` (libm `exp cos sin pow`).
  * `CQ`         : exact complex rationals — the carrier of the *values* in the shape formulas.
  * `F64`        : binary64 times (a rational with `+`/`-` rounded by `FloatModel`), so that the
                   time arguments the shape formulas hand to `eta_function` are reproduced
                   bit-exactly.
-/
import OQuPyVerif.Num.FloatModel

namespace OQuPyVerif.BathCorr

/-- the non-arithmetic primitives used by `bath_correlations.py` -/
structure ExpFns (K : Type) where
  /-- `np.exp` -/
  exp : K → K
  /-- `np.expm1` (`exp z - 1` evaluated without cancellation) -/
  expm1 : K → K
  /-- `1j` -/
  I : K
  /-- `x ** n` with an integer literal `n` -/
  npow : K → Nat → K
  /-- `x ** y` -/
  pow : K → K → K
  /-- `np.heaviside(x, h0)` -/
  heaviside : K → K → K
  /-- `.real` -/
  re : K → K
  /-- `.imag` (as an element of the carrier) -/
  im : K → K
  /-- `a < b` for two real-valued quantities -/
  lt : K → K → Bool

/-- the Python closure `integrand(w)` of `correlation` / `eta_function`: the zero-temperature
    expression if `self.temperature == 0.0`; otherwise the thermal expression while
    `np.exp(-w / T) > eps` holds and the guard expression when it does not -/
def pick {K : Type} (zeroT guardHolds : Bool) (z t g : K) : K :=
  if zeroT then z else if guardHolds then t else g

/-! ### complex binary64 -/

structure CF where
  re : Float
  im : Float

namespace CF
instance : Add CF := ⟨fun a b => ⟨a.re + b.re, a.im + b.im⟩⟩
instance : Sub CF := ⟨fun a b => ⟨a.re - b.re, a.im - b.im⟩⟩
instance : Neg CF := ⟨fun a => ⟨-a.re, -a.im⟩⟩
instance : Mul CF := ⟨fun a b => ⟨a.re * b.re - a.im * b.im, a.re * b.im + a.im * b.re⟩⟩
instance : Div CF := ⟨fun a b =>
  if b.im == 0.0 then ⟨a.re / b.re, a.im / b.re⟩
  else
    let d := b.re * b.re + b.im * b.im
    ⟨(a.re * b.re + a.im * b.im) / d, (a.im * b.re - a.re * b.im) / d⟩⟩
instance : IntCast CF := ⟨fun n => ⟨Float.ofInt n, 0.0⟩⟩
instance : NatCast CF := ⟨fun n => ⟨Float.ofNat n, 0.0⟩⟩

def cexp (z : CF) : CF :=
  let m := Float.exp z.re
  if z.im == 0.0 then ⟨m, 0.0⟩ else ⟨m * Float.cos z.im, m * Float.sin z.im⟩

/-- `e^z − 1` without cancellation: `e^a − 1 = 2 e^{a/2} sinh(a/2)`, `cos b − 1 = −2 sin²(b/2)` -/
def cexpm1 (z : CF) : CF :=
  let em1 := 2.0 * Float.exp (z.re / 2.0) * Float.sinh (z.re / 2.0)
  if z.im == 0.0 then ⟨em1, 0.0⟩
  else
    let s := Float.sin (z.im / 2.0)
    ⟨em1 * Float.cos z.im - 2.0 * s * s, Float.exp z.re * Float.sin z.im⟩

def cnpow (z : CF) : Nat → CF
  | 0 => ⟨1.0, 0.0⟩
  | 1 => z
  | n + 2 => cnpow z (n + 1) * z

/-- `x ** y`: real power for a non-negative real base and a real exponent (the only use in the
    source: `w ** zeta`, `cutoff ** (1 - zeta)`), principal branch otherwise -/
def cpow (z p : CF) : CF :=
  if z.im == 0.0 && p.im == 0.0 && z.re >= 0.0 then ⟨Float.pow z.re p.re, 0.0⟩
  else
    let r := Float.sqrt (z.re * z.re + z.im * z.im)
    let lg : CF := ⟨Float.log r, Float.atan2 z.im z.re⟩
    cexp (p * lg)

def cheaviside (x h0 : CF) : CF :=
  if x.re > 0.0 then ⟨1.0, 0.0⟩ else if x.re == 0.0 then h0 else ⟨0.0, 0.0⟩

def fns : ExpFns CF :=
  { exp := cexp, expm1 := cexpm1, I := ⟨0.0, 1.0⟩, npow := cnpow, pow := cpow, heaviside := cheaviside,
    re := fun z => ⟨z.re, 0.0⟩, im := fun z => ⟨z.im, 0.0⟩, lt := fun a b => a.re < b.re }
end CF

/-! ### exact complex rationals -/

structure CQ where
  re : Rat
  im : Rat
  deriving DecidableEq

namespace CQ
instance : Add CQ := ⟨fun a b => ⟨a.re + b.re, a.im + b.im⟩⟩
instance : Sub CQ := ⟨fun a b => ⟨a.re - b.re, a.im - b.im⟩⟩
instance : Neg CQ := ⟨fun a => ⟨-a.re, -a.im⟩⟩
instance : Mul CQ := ⟨fun a b => ⟨a.re * b.re - a.im * b.im, a.re * b.im + a.im * b.re⟩⟩
instance : NatCast CQ := ⟨fun n => ⟨(n : Rat), 0⟩⟩
instance : IntCast CQ := ⟨fun n => ⟨(n : Rat), 0⟩⟩
def realPart (z : CQ) : CQ := ⟨z.re, 0⟩
def ofRat (r : Rat) : CQ := ⟨r, 0⟩
end CQ

/-! ### binary64 times -/

structure F64 where
  val : Rat
  deriving DecidableEq

namespace F64
open OQuPyVerif.FloatModel
instance : Add F64 := ⟨fun a b => ⟨fadd a.val b.val⟩⟩
instance : Sub F64 := ⟨fun a b => ⟨fsub a.val b.val⟩⟩
instance : Zero F64 := ⟨⟨0⟩⟩
end F64

/-- values that may be missing (an `eta_function` argument the implementation never evaluated);
    arithmetic propagates `none` -/
structure OCQ where
  v : Option CQ

namespace OCQ
def lift2 (f : CQ → CQ → CQ) (a b : OCQ) : OCQ :=
  match a.v, b.v with
  | some x, some y => ⟨some (f x y)⟩
  | _, _ => ⟨none⟩
instance : Add OCQ := ⟨lift2 (· + ·)⟩
instance : Sub OCQ := ⟨lift2 (· - ·)⟩
instance : Mul OCQ := ⟨lift2 (· * ·)⟩
instance : Neg OCQ := ⟨fun a => ⟨a.v.map (fun x => -x)⟩⟩
instance : NatCast OCQ := ⟨fun n => ⟨some (n : CQ)⟩⟩
def realPart (a : OCQ) : OCQ := ⟨a.v.map CQ.realPart⟩
end OCQ

/-- a finite table of `eta_function` values (time ↦ value) as a function; a time that was not
    evaluated by the implementation is reported by `none` -/
def lookup (tab : List (Rat × CQ)) (t : F64) : Option CQ :=
  (tab.find? (fun p => p.1 == t.val)).map (·.2)

end OQuPyVerif.BathCorr
