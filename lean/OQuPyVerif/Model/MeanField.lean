/-
  C09 — executable model of one mean-field computation, in both methods:

  * `mftStep` / `mftIter` / `mftRun`   : `MeanFieldTempo.compute` → `MeanFieldTempoBackend.compute_step`
                                          → `MeanFieldTempo._compute_field_derivative / _compute_field`
  * `cdwfHead` / `cdwfBody` / `cdwfFinal` / `cdwfRun` : the step loop of `compute_dynamics_with_field`
  * `tempoIter` / `cdIter`             : the field-free references (`TempoBackend.compute_step`,
                                          the loop of `compute_dynamics`)

  Every time, step index, state list and field value handed to the user's `field_eom`, to the
  propagators and to the tensor-network step is taken from `Generated/MeanFieldTimes.lean`
  (regenerated from the source on every run); this file only wires them together.

  Abstract parts (parameters `Sys`): the user's `field_eom`, the propagators as a function of
  (step, field, derivative), the tensor-network step of TEMPO (`net`) and of the process tensor
  (`netPT`) as functions of (step index, propagators, joint state), the read-out `obs`.
  Times are binary64 values (rationals of the `FloatModel`), the field lives in any type `K` with
  `+ - * /` and a numeral `2`; `cast` embeds a float into `K` (Python's float→complex coercion).

  Mathlib-free.  Controls of `compute_dynamics_with_field` are not modelled (the property compares
  runs without controls; `MeanFieldTempo` has none).
-/
import OQuPyVerif.Generated.MeanFieldTimes

namespace OQuPyVerif.MeanField
open OQuPyVerif.FloatModel OQuPyVerif.Generated.MeanFieldTimes

/-- one evaluation `field_eom(t, states, field)` of the user's equation of motion -/
structure Call (S K : Type) where
  t : Rat
  states : S
  field : K
deriving Repr

/-- The inputs of a mean-field computation. -/
structure Sys (S K σ P : Type) where
  /-- the user's `field_eom(t, state_list, field)` -/
  eom : Rat → S → K → K
  /-- `propagators(step, field, field_derivative)` of all systems -/
  props : Int → K → K → P
  /-- TEMPO: `compute_system_step(step, prop_1, prop_2)` on all tensor networks -/
  net : Int → P → σ → σ
  /-- process tensors: first half propagator, PT-MPO number `step`, second half propagator -/
  netPT : Int → P → σ → σ
  /-- reduced states of all systems -/
  obs : σ → S
  /-- a float used in complex arithmetic -/
  cast : Rat → K
  start : Rat
  dt : Rat
  /-- number of systems in the mean-field system -/
  nsys : Nat

section
variable {S K σ P : Type} [Add K] [Sub K] [Mul K] [Div K] [OfNat K 2]

def Call.eval (M : Sys S K σ P) (c : Call S K) : K := M.eom c.t c.states c.field

/-- the documented time grid `start + k·dt`, in binary64 -/
def gridT (s dt : Rat) (k : Int) : Rat := fadd s (fmul (ofInt k) dt)

/-- Heun's rule with the stage times given explicitly, written exactly as the code writes it:
    `rk1 = f(t₁, s, a)`, `rk2 = f(t₂, s', a + rk1·dt)`, result `a + dt·(rk1 + rk2)/2`. -/
def heun2 (f : Rat → S → K → K) (t1 t2 : Rat) (dtK a : K) (s s' : S) : K :=
  a + dtK * (f t1 s a + f t2 s' (a + f t1 s a * dtK)) / 2

/-! ### mean-field TEMPO -/

/-- `MeanFieldTempo._compute_field(step, state_list, field, next_state_list)` -/
def mftComputeField (M : Sys S K σ P) (step : Int) (sl : S) (fl : K) (nsl : S) :
    K × List (Call S K) :=
  let dtK := M.cast M.dt
  let c1 : Call S K := ⟨mft_cf_rk1_time M.start M.dt step, mft_cf_rk1_states sl nsl,
                        mft_cf_rk1_field fl dtK⟩
  let rk1 := c1.eval M
  let c2 : Call S K := ⟨mft_cf_rk2_time M.start M.dt step, mft_cf_rk2_states sl nsl,
                        mft_cf_rk2_field fl dtK rk1⟩
  let rk2 := c2.eval M
  (mft_cf_result fl dtK rk1 rk2, [c1, c2])

/-- `MeanFieldTempo._compute_field_derivative(step, state_list, field)` -/
def mftFieldDerivative (M : Sys S K σ P) (step : Int) (sl : S) (fl : K) : K × List (Call S K) :=
  let c : Call S K := ⟨mft_fd_time M.start M.dt step, mft_fd_states sl, mft_fd_field fl⟩
  (c.eval M, [c])

/-- `MeanFieldTempoBackend.compute_step` with `self._step = n`, `(self._state_list, self._field)`
    the read-out of / the field in `st`.  Returns the new (joint state, field) and the
    `field_eom` evaluations in call order. -/
def mftStep (M : Sys S K σ P) (n : Int) (st : σ × K) : (σ × K) × List (Call S K) :=
  let cur := M.obs st.1
  let a := st.2
  let (d, calls0) := mftFieldDerivative M (mftb_fd_step n) (mftb_fd_states cur) (mftb_fd_field a)
  let p := M.props (mftb_prop_step n) (mftb_prop_field a d) (mftb_prop_deriv a d)
  let net' := M.net (mftb_sys_step n) p st.1
  let nxt := M.obs net'
  let (a', calls1) := mftComputeField M (mftb_cf_step n) (mftb_cf_states cur nxt)
                        (mftb_cf_field a d) (mftb_cf_next_states cur nxt)
  ((net', a'), calls0 ++ calls1)

/-- `MeanFieldTempo.compute`: state after `n` steps, the recorded (states, field) pairs
    (initial one first) and all `field_eom` evaluations -/
def mftIter (M : Sys S K σ P) (σ0 : σ) (a0 : K) : Nat → (σ × K) × List (S × K) × List (Call S K)
  | 0 => ((σ0, a0), [(M.obs σ0, a0)], [])
  | n + 1 =>
    let r := mftIter M σ0 a0 n
    let s := mftStep M (n : Int) r.1
    (s.1, r.2.1 ++ [(M.obs s.1.1, s.1.2)], r.2.2 ++ s.2)

def mftRecords (M : Sys S K σ P) (σ0 : σ) (a0 : K) (N : Nat) : List (S × K) :=
  (mftIter M σ0 a0 N).2.1

def mftCalls (M : Sys S K σ P) (σ0 : σ) (a0 : K) (N : Nat) : List (Call S K) :=
  (mftIter M σ0 a0 N).2.2

/-! ### compute_dynamics_with_field -/

/-- the loop-carried variables `(nodes_and_edges_list, field, previous_state_list)` -/
structure LoopSt (S K σ : Type) where
  net : σ
  field : K
  prev : S

/-- the closure `compute_field(t, dt, state_list, field, next_state_list)` -/
def cdwfComputeField (M : Sys S K σ P) (t dtArg : Rat) (sl : S) (fl : K) (nsl : S) :
    K × List (Call S K) :=
  let dtK := M.cast dtArg
  let c1 : Call S K := ⟨cdwf_cf_rk1_time t dtArg, cdwf_cf_rk1_states sl nsl, cdwf_cf_rk1_field fl dtK⟩
  let rk1 := c1.eval M
  let c2 : Call S K := ⟨cdwf_cf_rk2_time t dtArg, cdwf_cf_rk2_states sl nsl,
                        cdwf_cf_rk2_field fl dtK rk1⟩
  let rk2 := c2.eval M
  (cdwf_cf_result fl dtK rk1 rk2, [c1, c2])

/-- "propagate one time step" of iteration `k`: derivative of the field at the current states,
    propagators, PT-MPOs.  `prev` is the value `previous_state_list` had when the iteration began.
    (The derivative is evaluated `cdwf_fd_evals nsys` times: the call sits inside the
    comprehension over the systems' propagators.) -/
def cdwfProp (M : Sys S K σ P) (k : Int) (net : σ) (prev cur : S) (fl : K) :
    σ × List (Call S K) :=
  let c : Call S K := ⟨cdwf_fd_time M.start M.dt k, cdwf_fd_states prev cur, fl⟩
  let d := c.eval M
  (M.netPT (cdwf_mpo_step k) (M.props (cdwf_prop_step k) fl d) net,
    List.replicate (cdwf_fd_evals M.nsys) c)

/-- iteration `step = 0`: `field = initial_field` -/
def cdwfHead (M : Sys S K σ P) (σ0 : σ) (a0 : K) : LoopSt S K σ × (S × K) × List (Call S K) :=
  let cur := M.obs σ0
  let r := cdwfProp M 0 σ0 cur cur a0
  (⟨r.1, a0, cur⟩, (cur, a0), r.2)

/-- iteration `step = k ≥ 1` (not the last): field update from the previous step, then propagate -/
def cdwfBody (M : Sys S K σ P) (k : Int) (st : LoopSt S K σ) :
    LoopSt S K σ × (S × K) × List (Call S K) :=
  let cur := M.obs st.net
  let u := cdwfComputeField M (cdwf_loop_cf_time M.start M.dt k) (cdwf_loop_cf_dt M.start M.dt k)
             (cdwf_loop_cf_states st.prev cur) st.field (cdwf_loop_cf_next_states st.prev cur)
  let r := cdwfProp M k st.net st.prev cur u.1
  (⟨r.1, u.1, cur⟩, (cur, u.1), u.2 ++ r.2)

/-- the block after the loop (`num_steps = N ≥ 1`): final states and final field -/
def cdwfFinal (M : Sys S K σ P) (N : Int) (st : LoopSt S K σ) : (S × K) × List (Call S K) :=
  let cur := M.obs st.net
  let u := cdwfComputeField M (cdwf_final_cf_time M.start M.dt N) (cdwf_final_cf_dt M.start M.dt N)
             (cdwf_final_cf_states st.prev cur) st.field (cdwf_final_cf_next_states st.prev cur)
  ((cur, u.1), u.2)

/-- loop state after iterations `0 … n`, the (states, field) pairs recorded by them with
    `record_all`, and their `field_eom` evaluations -/
def cdwfIter (M : Sys S K σ P) (σ0 : σ) (a0 : K) :
    Nat → LoopSt S K σ × List (S × K) × List (Call S K)
  | 0 => let h := cdwfHead M σ0 a0; (h.1, [h.2.1], h.2.2)
  | n + 1 =>
    let r := cdwfIter M σ0 a0 n
    let b := cdwfBody M ((n + 1 : Nat) : Int) r.1
    (b.1, r.2.1 ++ [b.2.1], r.2.2 ++ b.2.2)

/-- `compute_dynamics_with_field(num_steps = N, record_all)`: the `(system_states_list, fields)`
    pairs of the returned dynamics and all `field_eom` evaluations; `none` = the call raises
    (`num_steps = 0` reads `field` / `previous_state_list` before any iteration bound them). -/
def cdwfRun (M : Sys S K σ P) (σ0 : σ) (a0 : K) (recordAll : Bool) :
    Nat → Option (List (S × K) × List (Call S K))
  | 0 => if cdwf_zero_steps_guarded then some ([(M.obs σ0, a0)], []) else none
  | n + 1 =>
    let r := cdwfIter M σ0 a0 n
    let f := cdwfFinal M ((n + 1 : Nat) : Int) r.1
    some ((if recordAll then r.2.1 else []) ++ [f.1], r.2.2 ++ f.2)

/-! ### field-free references -/

/-- plain TEMPO (`TempoBackend.compute_step` with counter `n`) for propagators `props0(step)` -/
def tempoIter (net : Int → P → σ → σ) (props0 : Int → P) (σ0 : σ) : Nat → σ
  | 0 => σ0
  | n + 1 => net (tb_sys_step (n : Int)) (props0 (tb_prop_step (n : Int))) (tempoIter net props0 σ0 n)

/-- the loop of `compute_dynamics` for propagators `props0(step)` -/
def cdIter (netPT : Int → P → σ → σ) (props0 : Int → P) (σ0 : σ) : Nat → σ
  | 0 => σ0
  | n + 1 => netPT (cd_mpo_step (n : Int)) (props0 (cd_prop_step (n : Int))) (cdIter netPT props0 σ0 n)

/-! ### the Hamiltonian evaluations of one step (sampling propagators, `subdiv_limit = None`) -/

/-- `(t, field)` arguments of the user's Hamiltonian in `propagators(step, field, derivative)` of a
    `TimeDependentSystemWithField`, first and second half step -/
def hamArgs (cast : Rat → K) (start dt : Rat) (step : Int) (a d : K) : List (Rat × K) :=
  [(tdsf_ham_time (tdsf_sample1_t0 start dt step) (tdsf_sample1 start dt step),
      tdsf_lin_field a d (cast (tdsf_lin_delta (tdsf_sample1_t0 start dt step) (tdsf_sample1 start dt step)))),
   (tdsf_ham_time (tdsf_sample2_t0 start dt step) (tdsf_sample2 start dt step),
      tdsf_lin_field a d (cast (tdsf_lin_delta (tdsf_sample2_t0 start dt step) (tdsf_sample2 start dt step))))]

/-- times handed to the user's Lindblad rates and Lindblad operators in the same two Liouvillian
    evaluations: `(time of gamma(·), time of l_op(·))`, first and second half step -/
def dissArgs (start dt : Rat) (step : Int) : List (Rat × Rat) :=
  [(tdsf_gamma_time (tdsf_sample1_t0 start dt step) (tdsf_sample1 start dt step),
    tdsf_lop_time (tdsf_sample1_t0 start dt step) (tdsf_sample1 start dt step)),
   (tdsf_gamma_time (tdsf_sample2_t0 start dt step) (tdsf_sample2 start dt step),
    tdsf_lop_time (tdsf_sample2_t0 start dt step) (tdsf_sample2 start dt step))]

/-- the same for a plain `TimeDependentSystem` (Hamiltonian, rate, operator times) -/
def plainArgs (start dt : Rat) (step : Int) : List (Rat × Rat × Rat) :=
  [(tds_ham_time (tds_sample1 start dt step), tds_gamma_time (tds_sample1 start dt step),
    tds_lop_time (tds_sample1 start dt step)),
   (tds_ham_time (tds_sample2 start dt step), tds_gamma_time (tds_sample2 start dt step),
    tds_lop_time (tds_sample2 start dt step))]

/-! ### statement order -/

/-- `a` occurs in `l`, and before `b` -/
def before {α : Type} [DecidableEq α] (l : List α) (a b : α) : Bool :=
  decide (l.idxOf a < l.idxOf b) && decide (l.idxOf b < l.length)

/-- the order `mftStep` assumes: derivative → propagators → network step → field → commits -/
def mftOrderOK (l : List MftOp) : Bool :=
  before l .readStep .fieldDerivative && before l .copyStates .fieldDerivative &&
  before l .readField .fieldDerivative && before l .fieldDerivative .propagators &&
  before l .propagators .systemStep && before l .systemStep .computeField &&
  before l .computeField .commitStates && before l .computeField .commitField &&
  before l .computeField .commitStep && before l .commitStep .returnResult &&
  before l .commitStates .returnResult && before l .commitField .returnResult

/-- the order `cdwfBody` assumes: time → break test → read-out → field update → remember the
    states → record → propagators → half step, PT-MPO, half step -/
def cdwfOrderOK (l : List CdwfOp) : Bool :=
  before l .time .breakIfLast && before l .breakIfLast .getCaps && before l .getCaps .applyCaps &&
  before l .applyCaps .reshapeStates && before l .reshapeStates .fieldUpdate &&
  before l .fieldUpdate .aliasStates && before l .fieldUpdate .record &&
  before l .fieldUpdate .propagators && before l .record .applyP1 &&
  before l .propagators .applyP1 && before l .getMpos .applyMpo &&
  before l .applyP1 .applyMpo && before l .applyMpo .applyP2

def cdwfAfterOK (l : List CdwfOp) : Bool :=
  before l .getCaps .applyCaps && before l .applyCaps .reshapeStates &&
  before l .reshapeStates .appendStates && before l .reshapeStates .finalField &&
  before l .finalField .appendField && before l .appendField .returnResult &&
  before l .appendStates .returnResult

end
end OQuPyVerif.MeanField
