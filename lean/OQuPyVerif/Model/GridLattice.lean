/- The finite lattice of decimal literals used by C13's `grid_lattice` theorem. -/
import OQuPyVerif.Generated.StepCount
namespace OQuPyVerif.GridLattice
open OQuPyVerif.FloatModel OQuPyVerif.Generated.StepCount

/-- the literal a user writes for `s + m·dt`: the exact decimal sum, parsed (= rounded once). -/
def endLit (sn : Int) (sd : Nat) (dn : Int) (dd : Nat) (m : Nat) : Rat :=
  rnd ((sn : Rat) / ((10 ^ sd : Nat) : Rat) + (m : Rat) * ((dn : Rat) / ((10 ^ dd : Nat) : Rat)))

/-- the step count of every API for `start = sn/10^sd`, `dt = dn/10^dd`, `end = literal(start+m·dt)`
    is `m`: Tempo / MeanFieldTempo (from step 0) and PtTempo. -/
def rowOK (sn : Int) (sd : Nat) (dn : Int) (dd : Nat) (M : Nat) : Bool :=
  (List.range (M+1)).all fun m =>
    let s := lit sn sd; let d := lit dn dd; let e := endLit sn sd dn dd m
    tempo_num_step s d 0 e == (m : Int) && mft_num_step s d 0 e == (m : Int)
      && pt_num_steps s d e == (m : Int)

end OQuPyVerif.GridLattice
