/-
  C11 — the imaginary-time network of `TIBaseBackend` as driven by `GibbsTempo`,
  written as an explicit sum over paths of SYSTEM BASIS STATES (not Liouville indices).

  What the code does (oqupy/backends/tempo_backend.py, oqupy/tempo.py), for a diagonal
  coupling operator with eigenvalues `o`:

  * `prop = q = expm(-H·dτ/2)` (HALF an imaginary-time slice, `dτ = 1/(T·n_steps)`),
    operators `ops = (-o, o, 0)`, coefficients `c_j = coeffs(j)` (Matsubara η cells);
  * `data[0] = initial_data` (identity), and for `k ≥ 1` sites `s_0 … s_{k-1}`
      data[k][r, l] = Σ_i Σ_s init[r,i] · A[i, s_0] · Π_{m=1}^{k-1} B[s_{m-1}, s_m] · C[s_{k-1}, l]
                       · Π_m Π_{j ≤ m} G j s_{m-j} s_m
    with `A = prop.T` (`initialise`), `B = np.dot(prop, prop).T` (`_influence_tensor(0)`),
    `C = prop.T` (`initialise` for `k = 1`, `readout` for `k ≥ 2`) and
    `G j x y = exp((c_j.real·ops1[x] − 1j·c_j.imag·ops2[x])·ops0[y])`
    (`x` the earlier, `y` the later site);  which of `A, B, C` carry a `.T` is DATA
    (`Orient`, regenerated from the source);
  * `GibbsTempo.compute` stores `data[k]` (or its transpose — again data) under the label
    `k·dτ`; `get_state` divides the last stored array by its trace.

  A path is a `List ℕ`, NEWEST FIRST `[s_{k-1}, …, s_0]`; `inflProd`/`sysAmpl`/`pathSum` are
  those of the TEMPO model (Model/PathSum.lean) at `L = d`.
-/
import OQuPyVerif.Model.PathSum

namespace OQuPyVerif.Gibbs
open Finset BigOperators OQuPyVerif.PathSum

variable {K : Type} [CommRing K]

/-- which propagator factors carry a `.T`, and whether `GibbsTempo.compute` stores the
    backend's array or its transpose (all read from the source by the translator) -/
structure Orient where
  /-- `initialise`: `np.dot(self._initial_data, self._prop.T * exp(o_1 * o_2))` -/
  initProp : Bool
  /-- `initialise`: `self.data.append(np.dot(tensor, self._prop.T))` -/
  initData : Bool
  /-- `_influence_tensor(0)`: `np.dot(prop, prop).T` -/
  inflPP : Bool
  /-- `readout`: `result = self._prop.T` -/
  readout : Bool
  /-- `GibbsTempo.compute`, states of `initialise`: `self._dynamics.add(.., state.T)` -/
  storeInit : Bool
  /-- `GibbsTempo.compute`, loop: `self._dynamics.add(.., state.T)` -/
  storeStep : Bool
  deriving DecidableEq, Repr

/-- optional transposition of a table -/
def tr (b : Bool) (A : ℕ → ℕ → K) : ℕ → ℕ → K := fun a c => if b then A c a else A a c

/-- identity table -/
def idTbl : ℕ → ℕ → K := fun a b => if a = b then 1 else 0

/-- `o_2 = c.real * ops[1] - 1j * c.imag * ops[2]`, entry `x` -/
def o2Vec (iUnit cRe cIm : K) (ops1 ops2 : ℕ → K) (x : ℕ) : K :=
  cRe * ops1 x - iUnit * cIm * ops2 x

/-- the influence factor of `TIBaseBackend` between an earlier site in state `x` and a later
    site in state `y` at distance `j` (`j = 0`: the site with itself) -/
def gInfl (E : K → K) (iUnit : K) (cRe cIm : ℕ → K) (ops0 ops1 ops2 : ℕ → K) (j x y : ℕ) : K :=
  E (o2Vec iUnit (cRe j) (cIm j) ops1 ops2 x * ops0 y)

/-- a factor table `G j earlier later` as the 4-index influence table of `PathSum`
    (`I n dk later earlier`; the same at every step) -/
def inflOf (G : ℕ → ℕ → ℕ → K) : ℕ → ℕ → ℕ → ℕ → K := fun _ j later earlier => G j earlier later

/-- kernel between neighbouring sites (`later`, `earlier`): `B[earlier, later]` -/
def siteKernel (d : ℕ) (o : Orient) (q : ℕ → ℕ → K) : ℕ → ℕ → ℕ → K :=
  fun _ later earlier => tr o.inflPP (matMul d q q) earlier later

/-- amplitude of the first site: `Σ_i init[r,i] · A[i, s_0]` -/
def firstAmp (d : ℕ) (o : Orient) (q init : ℕ → ℕ → K) (r : ℕ) : ℕ → K :=
  fun s0 => ∑ i ∈ range d, init r i * tr o.initProp q i s0

/-- read-out factor `C[s_{k-1}, l]` for `k` sites -/
def lastAmp (o : Orient) (q : ℕ → ℕ → K) (k : ℕ) (l : ℕ) : ℕ → K :=
  fun s => (if k ≤ 1 then tr o.initData q else tr o.readout q) s l

/-- **`TIBaseBackend.data[k]`**, entry `[r, l]` -/
def backendData (d : ℕ) (o : Orient) (q : ℕ → ℕ → K) (G : ℕ → ℕ → ℕ → K) (init : ℕ → ℕ → K)
    (k r l : ℕ) : K :=
  if k = 0 then init r l
  else pathSum d k (fun p =>
    lastAmp o q k l (p.headD 0) *
      (inflProd (inflOf G) p * sysAmpl (siteKernel d o q) (firstAmp d o q init r) p))

/-- **what `GibbsTempo.compute` stores** for `k` imaginary-time slices, entry `[a, b]`
    (`data[0..2]` are stored by the initialisation block, later ones by the loop) -/
def stored (d : ℕ) (o : Orient) (q : ℕ → ℕ → K) (G : ℕ → ℕ → ℕ → K) (k : ℕ) : ℕ → ℕ → K :=
  tr (if k ≤ 2 then o.storeInit else o.storeStep) (backendData d o q G idTbl k)

/-- trace of a `d × d` table -/
def trace (d : ℕ) (A : ℕ → ℕ → K) : K := ∑ i ∈ range d, A i i

/-- `m`-th power of `q` (as `d × d` tables) -/
def propPow (d : ℕ) (q : ℕ → ℕ → K) : ℕ → ℕ → ℕ → K
  | 0 => idTbl
  | m+1 => matMul d q (propPow d q m)

/-- a weighted combination `Σ w · e(k + m)` of grid values of the η function
    (`correlation_2d_integral` as (weight, offset) pairs) -/
def etaCombo {A : Type} [AddCommGroup A] (e : ℤ → A) (k : ℤ) (terms : List (ℤ × ℤ)) : A :=
  (terms.map (fun t => t.1 • e (k + t.2))).sum

/-! ### `GibbsTempo.compute` / `get_state` as a state machine -/

/-- what the call history can depend on: the backend's step counter, the length of
    `backend.data`, and the dynamics as (label index, index into `backend.data`) in insertion
    order -/
structure GObj where
  step : Option Int
  dataLen : Nat
  dyn : List (Int × Nat)
  deriving DecidableEq, Repr

/-- the loop parameters read from the source -/
structure LoopSpec where
  initDataLen : Nat          -- `TIBaseBackend.__init__`: `data = [initial_data]`
  initStep : Int             -- `initialise`: `self._step = ..`
  initAppends : Nat          -- `initialise`: number of `data.append`
  stepInc : Int              -- `compute_step`: `self._step += ..`
  stepAppends : Nat
  initLabel : Int → Int      -- label index of `data[ii]` stored by the initialisation block
  stepLabel : Int → Int      -- label index of the state returned by `compute_step` (returned counter)
  numStep : Int → Int → Int  -- `num_step` as a function of `n_steps` and the counter

def GObj.fresh (s : LoopSpec) : GObj := ⟨none, s.initDataLen, []⟩

/-- the initialisation block: `initialise()`, then every entry of `backend.data` is added -/
def gInitialise (s : LoopSpec) (o : GObj) : GObj :=
  let len := o.dataLen + s.initAppends
  ⟨some s.initStep, len, (List.range len).map (fun ii => (s.initLabel (ii : Nat), ii))⟩

/-- one loop iteration: `compute_step()`, then the returned state (the last entry of
    `backend.data`) is added under the label of the returned counter -/
def gStep (s : LoopSpec) (o : GObj) : GObj :=
  let st := o.step.getD 0 + s.stepInc
  ⟨some st, o.dataLen + s.stepAppends, o.dyn ++ [(s.stepLabel st, o.dataLen + s.stepAppends - 1)]⟩

def gIter (s : LoopSpec) : Nat → GObj → GObj
  | 0, o => o
  | k+1, o => gIter s k (gStep s o)

/-- `GibbsTempo.compute()` with `n_steps = n` -/
def gCompute (s : LoopSpec) (n : Int) (o : GObj) : GObj :=
  let o1 := match o.step with
    | none => gInitialise s o
    | some _ => o
  gIter s (s.numStep n (o1.step.getD 0)).toNat o1

/-- `get_state()` reads the last entry of the dynamics -/
def gState (o : GObj) : Option (Int × Nat) := o.dyn.getLast?

/-! ### `TIBaseBackend._unique`: merging equal coupling eigenvalues into one bond index -/
section Unique
variable {α : Type} [DecidableEq α]

/-- `vals.index(vals[a])`: position of the first entry equal to entry `a` -/
def firstIdx (vals : List α) (a : ℕ) : ℕ :=
  match vals[a]? with
  | some v => vals.idxOf v
  | none => a

/-- `indices = sorted(set(inverse), key=inverse.index)`: the first occurrences, ascending -/
def uniqIndices (vals : List α) : List ℕ :=
  (List.range vals.length).filter (fun a => firstIdx vals a == a)

/-- the projection `[[int(i == j) for i in inverse] for j in indices]`: row `c` marks the members
    of class `c` -/
def uniqProj (vals : List α) : List (List ℕ) :=
  (uniqIndices vals).map (fun j =>
    (List.range vals.length).map (fun a => if firstIdx vals a = j then 1 else 0))

/-- column sum of the projection: in how many classes state `a` is represented -/
def classCount (vals : List α) (a : ℕ) : ℕ :=
  ((uniqIndices vals).map (fun j => if firstIdx vals a = j then 1 else 0)).sum

end Unique

end OQuPyVerif.Gibbs
