/-
  `compute_dynamics` with one process tensor in MPO form, and the dense ("all bonds
  summed") form of that process tensor.

  * `T k b b' i o` — MPO tensor of step `k` (0-based) with the axes of `get_mpo_tensor`:
    past bond, future bond, input (from system), output (to system); bond dimension
    `D k` on the past side (`D 0 = 1`);
  * `cap k b` — cap tensor of step `k`;
  * `A k`, `B k` — system super-operators applied before / after MPO `k`
    (`A k = P1_k · post_k · pre_k`, `B k = P2_k`), acting on vectors by `(A x)(a) = Σ_s A a s · x s`;
  * a path lists, NEWEST FIRST, the output and input index of every step:
    `[o_{n-1}, i_{n-1}, …, o_0, i_0]`.
-/
import OQuPyVerif.Model.PathSum

namespace OQuPyVerif.PT
open Finset BigOperators OQuPyVerif.PathSum
variable {K : Type} [CommRing K]

/-- one loop iteration of `compute_dynamics`: `A k`, then the MPO, then `B k`. -/
def mpoStep (L : ℕ) (D : ℕ → ℕ) (T : ℕ → ℕ → ℕ → ℕ → ℕ → K) (A B : ℕ → ℕ → ℕ → K)
    (k : ℕ) (X : ℕ → ℕ → K) : ℕ → ℕ → K :=
  fun b' s' => ∑ o ∈ range L, B k s' o *
    ∑ b ∈ range (D k), ∑ i ∈ range L, T k b b' i o * ∑ s ∈ range L, A k i s * X b s

/-- the tensor carried through the loop: bond leg × system leg -/
def mpoState (L : ℕ) (D : ℕ → ℕ) (T : ℕ → ℕ → ℕ → ℕ → ℕ → K) (A B : ℕ → ℕ → ℕ → K)
    (ρ0 : ℕ → K) : ℕ → ℕ → ℕ → K
  | 0 => fun b s => if b = 0 then ρ0 s else 0
  | k+1 => mpoStep L D T A B k (mpoState L D T A B ρ0 k)

/-- the recorded state at step `n`: `_apply_caps`, after the pre-measurement control `pre`. -/
def mpoRecord (L : ℕ) (D : ℕ → ℕ) (T : ℕ → ℕ → ℕ → ℕ → ℕ → K) (A B : ℕ → ℕ → ℕ → K)
    (cap : ℕ → ℕ → K) (pre : ℕ → ℕ → K) (ρ0 : ℕ → K) (n : ℕ) (s' : ℕ) : K :=
  ∑ b ∈ range (D n), cap n b * ∑ s ∈ range L, pre s' s * mpoState L D T A B ρ0 n b s

/-- bond part of a path: `Σ_{b_1…} Π_k T k b_k b_{k+1} i_k o_k`, free final bond `b'`. -/
def bondAmp (D : ℕ → ℕ) (T : ℕ → ℕ → ℕ → ℕ → ℕ → K) : List ℕ → ℕ → K
  | [] => fun b => if b = 0 then 1 else 0
  | [_] => fun _ => 0
  | o :: i :: p => fun b' => ∑ b ∈ range (D (p.length / 2)), T (p.length / 2) b b' i o * bondAmp D T p b

/-- system part of a path: the system vector obtained when step `k` forces input `i_k`
    and output `o_k`. -/
def sysAmp (L : ℕ) (A B : ℕ → ℕ → ℕ → K) (ρ0 : ℕ → K) : List ℕ → ℕ → K
  | [] => ρ0
  | [_] => fun _ => 0
  | o :: i :: p => fun s' => B (p.length / 2) s' o * ∑ s ∈ range L, A (p.length / 2) i s * sysAmp L A B ρ0 p s

/-- the dense process tensor closed at step `n` with the cap: a number per path. -/
def densePT (D : ℕ → ℕ) (T : ℕ → ℕ → ℕ → ℕ → ℕ → K) (cap : ℕ → ℕ → K) (n : ℕ)
    (p : List ℕ) : K :=
  ∑ b ∈ range (D n), cap n b * bondAmp D T p b

/-- dynamics from a dense process tensor `F` (any function of the path). -/
def denseRecord (L : ℕ) (F : ℕ → List ℕ → K) (A B : ℕ → ℕ → ℕ → K) (pre : ℕ → ℕ → K)
    (ρ0 : ℕ → K) (n : ℕ) (s' : ℕ) : K :=
  pathSum L (2*n) (fun p => F n p * ∑ s ∈ range L, pre s' s * sysAmp L A B ρ0 p s)


/-- amplitude of the basis changes `transform_in = Uin`, `transform_out = Uout` between the
    index path `[a_n, …, a_1]` of the influence functional and the in/out legs
    `[o_{n-1}, i_{n-1}, …]` of the process tensor. -/
def transAmp (Uin Uout : ℕ → ℕ → K) : List ℕ → List ℕ → K
  | [], [] => 1
  | a :: as, o :: i :: p => Uout o a * Uin a i * transAmp Uin Uout as p
  | _, _ => 0

/-- The process tensor of a Gaussian bath: the influence functional `inflProd I` dressed with
    the basis changes (what PT-TEMPO approximates in MPO form). -/
def ptOfInfluence (L : ℕ) (Uin Uout : ℕ → ℕ → K) (I : ℕ → ℕ → ℕ → ℕ → K) (n : ℕ)
    (p : List ℕ) : K :=
  pathSum L n (fun a => transAmp Uin Uout a p * inflProd I a)

/-- `compute_caps`: the cap of step `k` from the cap of step `k+1`, closing the legs of MPO `k`
    with the (transformed) trace vectors. -/
def capRec (L : ℕ) (D : ℕ → ℕ) (T : ℕ → ℕ → ℕ → ℕ → ℕ → K) (trIn trOut : ℕ → K)
    (capNext : ℕ → K) (k : ℕ) (b : ℕ) : K :=
  ∑ b' ∈ range (D (k+1)), ∑ i ∈ range L, ∑ o ∈ range L, T k b b' i o * trIn i * trOut o * capNext b'

/-- weight with which index `a` of the influence functional is closed by the trace vectors -/
def closeWeight (L : ℕ) (Uin Uout : ℕ → ℕ → K) (trIn trOut : ℕ → K) (a : ℕ) : K :=
  ∑ o ∈ range L, ∑ i ∈ range L, trOut o * trIn i * (Uout o a * Uin a i)

end OQuPyVerif.PT
