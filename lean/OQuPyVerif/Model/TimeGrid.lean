/-
  Model of how OQuPy turns a time request into steps and labelled states
  (C13, C14).  Mathlib-free and executable.

  * `bisectRight` / `dynAdd`      — `oqupy.dynamics._find_list_index` + `Dynamics.add`
  * `Stepper`                     — the "continuing" method objects (`Tempo`,
                                    `MeanFieldTempo`): `compute(end_time)` as written in
                                    `Tempo.compute`, parameterised by the *generated*
                                    step-count and label functions.
-/
import OQuPyVerif.Num.FloatModel

namespace OQuPyVerif.TimeGrid

/-- `bisect.bisect(ts, x)` on a sorted list: the number of leading entries `≤ x`.
    (CPython's binary search returns exactly this on sorted lists; sortedness of
    the list is the invariant proved below.) -/
def bisectRight : List Rat → Rat → Nat
  | [], _ => 0
  | t :: ts, x => if t ≤ x then bisectRight ts x + 1 else 0

/-- `Dynamics` as the two parallel lists the code keeps. -/
structure Dyn (σ : Type) where
  times : List Rat
  states : List σ
deriving Repr

def Dyn.empty {σ} : Dyn σ := ⟨[], []⟩

/-- insert `x` at position `i` (Python `list.insert`, `i ≤ length`). -/
def insertAt {α} (l : List α) (i : Nat) (x : α) : List α := l.take i ++ x :: l.drop i

/-- `Dynamics.add(time, state)`. -/
def dynAdd {σ} (d : Dyn σ) (t : Rat) (s : σ) : Dyn σ :=
  let i := bisectRight d.times t
  ⟨insertAt d.times i t, insertAt d.states i s⟩

/-- the (time, state) pairs of a dynamics, in stored order. -/
def Dyn.pairs {σ} (d : Dyn σ) : List (Rat × σ) := d.times.zip d.states

/-! ### reading a dynamics between adds (`Dynamics.times` / `Dynamics.states`) -/

/-- how a read-only property produces its array: from the live list on every read, or from an
    array built once and kept -/
inductive ReadKind where
  | live | memo
  deriving DecidableEq, Repr

/-- a dynamics together with whatever a `memo` getter has kept -/
structure DynView (σ : Type) where
  dyn : Dyn σ
  keptTimes : Option (List Rat)
  keptStates : Option (List σ)

def DynView.empty {σ} : DynView σ := ⟨Dyn.empty, none, none⟩

inductive ViewOp (σ : Type) where
  | add (t : Rat) (x : σ)
  | readTimes
  | readStates

/-- one operation: the new view and what a read returned (`none` for an add) -/
def DynView.step {σ} (kt ks : ReadKind) (v : DynView σ) :
    ViewOp σ → DynView σ × Option (List Rat ⊕ List σ)
  | .add t x => ({ v with dyn := dynAdd v.dyn t x }, none)
  | .readTimes =>
    match kt, v.keptTimes with
    | .live, _ => (v, some (.inl v.dyn.times))
    | .memo, some c => (v, some (.inl c))
    | .memo, none => ({ v with keptTimes := some v.dyn.times }, some (.inl v.dyn.times))
  | .readStates =>
    match ks, v.keptStates with
    | .live, _ => (v, some (.inr v.dyn.states))
    | .memo, some c => (v, some (.inr c))
    | .memo, none => ({ v with keptStates := some v.dyn.states }, some (.inr v.dyn.states))

/-- run a history, collecting what every read returned together with the dynamics at that
    moment -/
def DynView.run {σ} (kt ks : ReadKind) :
    DynView σ → List (ViewOp σ) → List ((List Rat ⊕ List σ) × Dyn σ)
  | _, [] => []
  | v, op :: ops =>
    let (v', out) := v.step kt ks op
    match out with
    | some r => (r, v'.dyn) :: DynView.run kt ks v' ops
    | none => DynView.run kt ks v' ops


/-- State of a continuing method object: backend step (`none` before the first
    compute) and the dynamics recorded so far.  Recorded "states" are abstract
    step numbers: which backend state was stored under which time. -/
structure Stepper where
  step : Option Int
  dyn : Dyn Int
deriving Repr

def Stepper.init : Stepper := ⟨none, Dyn.empty⟩

/-- repeat `f` `n` times -/
def iter {α} (f : α → α) : Nat → α → α
  | 0, a => a
  | n+1, a => iter f n (f a)

/-- one backend step + `dynamics.add(self._time(step), state)` -/
def stepOnce (time : Int → Rat) (st : Int × Dyn Int) : Int × Dyn Int :=
  let k := st.1 + 1
  (k, dynAdd st.2 (time k) k)

/-- `Tempo.compute(end_time)` / `MeanFieldTempo.compute(end_time)`:
    `numStep start_step end_time` and `time step` are the generated functions. -/
def compute (numStep : Int → Rat → Int) (time : Int → Rat) (st : Stepper) (endTime : Rat) :
    Stepper :=
  let (k0, d0) : Int × Dyn Int := match st.step with
    | none => (0, dynAdd st.dyn (time 0) 0)
    | some k => (k, st.dyn)
  let n := (numStep k0 endTime).toNat
  let (k1, d1) := iter (stepOnce time) n (k0, d0)
  ⟨some k1, d1⟩

def computeAll (numStep : Int → Rat → Int) (time : Int → Rat) (targets : List Rat) : Stepper :=
  targets.foldl (compute numStep time) Stepper.init

/-- the grid `[(time 0, 0), …, (time n, n)]` -/
def gridPairs (time : Int → Rat) (n : Nat) : List (Rat × Int) :=
  (List.range (n+1)).map (fun (k : Nat) => (time (k : Int), (k : Int)))

end OQuPyVerif.TimeGrid
