/-
  Model of how OQuPy turns a time request into steps and labelled states
  (C13, C14).  Mathlib-free and executable.

  * `bisectRight` / `dynAdd`      — `oqupy.dynamics._find_list_index` + `Dynamics.add`
  * `Stepper`                     — the "continuing" method objects (`Tempo`,
                                    `MeanFieldTempo`): `compute(end_time)` as written in
                                    `Tempo.compute`, parameterised by the *generated*
                                    step-count and label functions.
-/
import OQuPyVerif.Num.FloatModel

namespace OQuPyVerif.TimeGrid

/-- `bisect.bisect(ts, x)` on a sorted list: the number of leading entries `≤ x`.
    (CPython's binary search returns exactly this on sorted lists; sortedness of
    the list is the invariant proved below.) -/
def bisectRight : List Rat → Rat → Nat
  | [], _ => 0
  | t :: ts, x => if t ≤ x then bisectRight ts x + 1 else 0

/-- `Dynamics` as the two parallel lists the code keeps. -/
structure Dyn (σ : Type) where
  times : List Rat
  states : List σ
deriving Repr

def Dyn.empty {σ} : Dyn σ := ⟨[], []⟩

/-- insert `x` at position `i` (Python `list.insert`, `i ≤ length`). -/
def insertAt {α} (l : List α) (i : Nat) (x : α) : List α := l.take i ++ x :: l.drop i

/-- `Dynamics.add(time, state)`. -/
def dynAdd {σ} (d : Dyn σ) (t : Rat) (s : σ) : Dyn σ :=
  let i := bisectRight d.times t
  ⟨insertAt d.times i t, insertAt d.states i s⟩

/-- the (time, state) pairs of a dynamics, in stored order. -/
def Dyn.pairs {σ} (d : Dyn σ) : List (Rat × σ) := d.times.zip d.states

/-- State of a continuing method object: backend step (`none` before the first
    compute) and the dynamics recorded so far.  Recorded "states" are abstract
    step numbers: which backend state was stored under which time. -/
structure Stepper where
  step : Option Int
  dyn : Dyn Int
deriving Repr

def Stepper.init : Stepper := ⟨none, Dyn.empty⟩

/-- repeat `f` `n` times -/
def iter {α} (f : α → α) : Nat → α → α
  | 0, a => a
  | n+1, a => iter f n (f a)

/-- one backend step + `dynamics.add(self._time(step), state)` -/
def stepOnce (time : Int → Rat) (st : Int × Dyn Int) : Int × Dyn Int :=
  let k := st.1 + 1
  (k, dynAdd st.2 (time k) k)

/-- `Tempo.compute(end_time)` / `MeanFieldTempo.compute(end_time)`:
    `numStep start_step end_time` and `time step` are the generated functions. -/
def compute (numStep : Int → Rat → Int) (time : Int → Rat) (st : Stepper) (endTime : Rat) :
    Stepper :=
  let (k0, d0) : Int × Dyn Int := match st.step with
    | none => (0, dynAdd st.dyn (time 0) 0)
    | some k => (k, st.dyn)
  let n := (numStep k0 endTime).toNat
  let (k1, d1) := iter (stepOnce time) n (k0, d0)
  ⟨some k1, d1⟩

def computeAll (numStep : Int → Rat → Int) (time : Int → Rat) (targets : List Rat) : Stepper :=
  targets.foldl (compute numStep time) Stepper.init

/-- the grid `[(time 0, 0), …, (time n, n)]` -/
def gridPairs (time : Int → Rat) (n : Nat) : List (Rat × Int) :=
  (List.range (n+1)).map (fun (k : Nat) => (time (k : Int), (k : Int)))

end OQuPyVerif.TimeGrid
