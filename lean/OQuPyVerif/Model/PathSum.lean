/-
  The discretised influence functional as an explicit sum over index paths
  (TEMPO's defining formula), over an arbitrary commutative ring `K`.

  Index conventions (as in the code):
  * Liouville indices `a < L` (`L = d²`, row-major pair index `(i,j) ↦ i*d+j`),
    in the eigenbasis of the coupling operator;
  * a path is a `List ℕ`, NEWEST FIRST: `[a_n, …, a_1, a_0]`; `a_k` is the index
    between the two half-step propagators of step `k`, `a_0` indexes the initial state;
  * `I n dk later earlier` is the influence factor used at step `n` for the pair
    `(a_n, a_{n-dk})` (`later = a_n`).  With a memory cut-off or an added correlation
    time the table for a given `dk` depends on the step `n`, hence the extra argument;
  * `M k a b` is the system kernel from `a_{k-1} = b` to `a_k = a`.
-/
import Mathlib.Algebra.BigOperators.Ring.Finset
import Mathlib.Algebra.BigOperators.Intervals

namespace OQuPyVerif.PathSum
open Finset BigOperators

variable {K : Type} [CommRing K]

/-- sum of `F` over all paths of length `n` with entries `< L` (newest entry = head). -/
def pathSum (L : ℕ) : ℕ → (List ℕ → K) → K
  | 0, F => F []
  | n+1, F => ∑ a ∈ range L, pathSum L n (fun p => F (a :: p))

/-- product of the influence factors linking the newest index `a` (at step `n`) to the
    entries of `q`: `q[j]` is at distance `dk = j0 + j`.  The last entry of a path is
    `a_0`, which precedes the first interaction and carries no factor. -/
def inflRow (I : ℕ → ℕ → ℕ → ℕ → K) (n a : ℕ) : ℕ → List ℕ → K
  | _, [] => 1
  | _, [_] => 1
  | j, c :: c' :: cs => I n j a c * inflRow I n a (j+1) (c' :: cs)

/-- weight of a path `[a_n, …, a_1, a_0]`. -/
def weight (ρ0 : ℕ → K) (M : ℕ → ℕ → ℕ → K) (I : ℕ → ℕ → ℕ → ℕ → K) : List ℕ → K
  | [] => 0
  | [a0] => ρ0 a0
  | a :: b :: rest =>
      M (rest.length + 1) a b * inflRow I (rest.length + 1) a 0 (a :: b :: rest)
        * weight ρ0 M I (b :: rest)

/-- `inflRow` over ALL entries of `q` (no initial-state entry at the end). -/
def inflRowFull (I : ℕ → ℕ → ℕ → ℕ → K) (n a : ℕ) : ℕ → List ℕ → K
  | _, [] => 1
  | j, c :: cs => I n j a c * inflRowFull I n a (j+1) cs

/-- the influence functional of an index path `[a_n, …, a_1]` -/
def inflProd (I : ℕ → ℕ → ℕ → ℕ → K) : List ℕ → K
  | [] => 1
  | a :: rest => inflRowFull I (rest.length + 1) a 0 (a :: rest) * inflProd I rest

/-- the system amplitude of an index path `[a_n, …, a_1]`; `v1 a_1` is the amplitude of the
    first index. -/
def sysAmpl (M : ℕ → ℕ → ℕ → K) (v1 : ℕ → K) : List ℕ → K
  | [] => 1
  | [a1] => v1 a1
  | a :: b :: rest => M (rest.length + 2) a b * sysAmpl M v1 (b :: rest)

/-- `Z_n(φ) = Σ_paths φ(a_n) · weight(path)` : the augmented state after `n` steps tested
    against a covector `φ` on its newest index. -/
def pathState (L : ℕ) (ρ0 : ℕ → K) (M : ℕ → ℕ → ℕ → K) (I : ℕ → ℕ → ℕ → ℕ → K)
    (n : ℕ) (φ : ℕ → K) : K :=
  pathSum L (n+1) (fun p => φ (p.headD 0) * weight ρ0 M I p)

/-- matrix product on tables -/
def matMul (L : ℕ) (A B : ℕ → ℕ → K) (a b : ℕ) : K := ∑ c ∈ range L, A a c * B c b

/-- The kernel between consecutive path indices: step `k` starts with the first half-step
    `P1 k`, and (for `k ≥ 2`) is preceded by the second half-step `P2 (k-1)` of the step
    before, with nothing in between.  `Uin`/`Uout` are the basis changes around the
    influence tensor (`Ũ†` and `Ũ`; identity for a diagonal coupling operator). -/
def kernelM (L : ℕ) (P1 P2 : ℕ → ℕ → ℕ → K) (Uin Uout : ℕ → ℕ → K) (k : ℕ) : ℕ → ℕ → K :=
  if k ≤ 1 then matMul L Uin (P1 k)
  else matMul L Uin (matMul L (P1 k) (matMul L (P2 (k-1)) Uout))

/-- The state TEMPO reports after `n` steps (vectorised, component `out`). -/
def tempoState (L : ℕ) (ρ0 : ℕ → K) (P1 P2 : ℕ → ℕ → ℕ → K) (Uin Uout : ℕ → ℕ → K)
    (I : ℕ → ℕ → ℕ → ℕ → K) (n : ℕ) (out : ℕ) : K :=
  if n = 0 then ρ0 out
  else pathState L ρ0 (kernelM L P1 P2 Uin Uout) I n (fun a => matMul L (P2 n) Uout out a)

end OQuPyVerif.PathSum
