/-
  The adjoint ("back-propagation") gradient of `oqupy/gradient.py`.

  Two layers.

  SPECIFICATION layer (`j…`): the joint bond configuration of all environments is an index
  `β : ι` of an arbitrary type (one environment: `ι = ℕ`; two: `ι = ℕ × ℕ`; …), `S k` is the
  finite set of configurations at time `k`, and `G k β β' i o` is the COMBINED tensor of all
  environments' MPOs of step `k` (past configuration, future configuration, system input,
  system output).  One step is  `X ↦ B k · G k · A k · X`  (`A k`, `B k`: first / second
  half-step propagator, acting on the system leg as matrices); the objective is
  `Z = ⟨tgt, X_N⟩`.  The specification backward pass applies the transposed factors in
  reversed order.

  CODE layer (`code…`): what `compute_gradient_and_dynamics` does, environment by environment,
  with the axis numbers, leg swaps and environment orders REGENERATED from the source
  (`Generated/GradWiring.lean`): `_apply_system_superoperator`, `_apply_pt_mpos`,
  `_get_pt_mpos_backprop`, `_apply_derivative_pt_mpos` + joining the bond legs + `@`,
  `_chain_rule.combine_derivs`.

  A system matrix acts as `(M x) a = Σ_s M a s · x s`; all tables are ℕ-indexed functions and
  every sum ranges over an explicit finite set, as in `Model/ProcessTensor.lean`.
-/
import OQuPyVerif.Model.ProcessTensor
import OQuPyVerif.Generated.GradWiring

namespace OQuPyVerif.Grad
open Finset BigOperators OQuPyVerif.Generated.GradWiring
variable {K : Type} [CommRing K] {ι : Type}

/-! ### Specification layer -/

/-- a system matrix applied to the system leg of a joint tensor -/
def sysJ (L : ℕ) (M : ℕ → ℕ → K) (X : ι → ℕ → K) : ι → ℕ → K :=
  fun β a => ∑ s ∈ range L, M a s * X β s

/-- the combined MPO of one step applied to a joint tensor -/
def bondJ (L : ℕ) (S : Finset ι) (G : ι → ι → ℕ → ℕ → K) (X : ι → ℕ → K) : ι → ℕ → K :=
  fun β' o => ∑ β ∈ S, ∑ i ∈ range L, G β β' i o * X β i

/-- the transposed combined MPO (`S'`: configurations on the future side) -/
def bondJT (L : ℕ) (S' : Finset ι) (G : ι → ι → ℕ → ℕ → K) (Y : ι → ℕ → K) : ι → ℕ → K :=
  fun β i => ∑ β' ∈ S', ∑ o ∈ range L, G β β' i o * Y β' o

def transposeM (M : ℕ → ℕ → K) : ℕ → ℕ → K := fun a b => M b a

/-- one forward step: first half-step propagator, MPOs, second half-step propagator -/
def jStep (L : ℕ) (S : Finset ι) (G : ι → ι → ℕ → ℕ → K) (A B : ℕ → ℕ → K)
    (X : ι → ℕ → K) : ι → ℕ → K :=
  sysJ L B (bondJ L S G (sysJ L A X))

/-- the forward tensors `X_k` (`X_k` is what the code stores as `forwardprop_derivs_list[k]`) -/
def jFwd (L : ℕ) (S : ℕ → Finset ι) (G : ℕ → ι → ι → ℕ → ℕ → K) (A B : ℕ → ℕ → ℕ → K)
    (X0 : ι → ℕ → K) : ℕ → ι → ℕ → K
  | 0 => X0
  | k+1 => jStep L (S k) (G k) (A k) (B k) (jFwd L S G A B X0 k)

/-- one specification backward step: the transposes of `jStep`'s factors in reversed order -/
def jStepT (L : ℕ) (S' : Finset ι) (G : ι → ι → ℕ → ℕ → K) (A B : ℕ → ℕ → K)
    (Y : ι → ℕ → K) : ι → ℕ → K :=
  sysJ L (transposeM A) (bondJT L S' G (sysJ L (transposeM B) Y))

/-- the specification backward tensors: `jBwd … N m = Y_{N-m}` (`Y_N` = target) -/
def jBwd (L : ℕ) (S : ℕ → Finset ι) (G : ℕ → ι → ι → ℕ → ℕ → K) (A B : ℕ → ℕ → ℕ → K)
    (tgt : ι → ℕ → K) (N : ℕ) : ℕ → ι → ℕ → K
  | 0 => tgt
  | m+1 => jStepT L (S (N-m)) (G (N-m-1)) (A (N-m-1)) (B (N-m-1)) (jBwd L S G A B tgt N m)

/-- pairing of a backward with a forward tensor -/
def pair (L : ℕ) (S : Finset ι) (Y X : ι → ℕ → K) : K :=
  ∑ β ∈ S, ∑ s ∈ range L, Y β s * X β s

/-- the objective: target contracted with the final forward tensor -/
def jZ (L : ℕ) (S : ℕ → Finset ι) (G : ℕ → ι → ι → ℕ → ℕ → K) (A B : ℕ → ℕ → ℕ → K)
    (X0 tgt : ι → ℕ → K) (N : ℕ) : K :=
  pair L (S N) tgt (jFwd L S G A B X0 N)

/-- the adjoint tensor of one step: forward tensor `X`, combined MPO, backward tensor `Y`;
    axes: `a` system leg of the forward tensor, `b` MPO input, `c` MPO output, `d` system leg
    of the backward tensor -/
def jDeriv (S S' : Finset ι) (G : ι → ι → ℕ → ℕ → K) (X Y : ι → ℕ → K) (a b c d : ℕ) : K :=
  ∑ β' ∈ S', ∑ β ∈ S, X β a * G β β' b c * Y β' d

/-- derivative contraction for the FIRST half-step propagator of the step:
    `Σ D[a,b,c,d] · Δ[b,a] · B[d,c]` -/
def chainFirst (L : ℕ) (Dv : ℕ → ℕ → ℕ → ℕ → K) (dA B : ℕ → ℕ → K) : K :=
  ∑ d ∈ range L, ∑ c ∈ range L, ∑ b ∈ range L, ∑ a ∈ range L, Dv a b c d * dA b a * B d c

/-- derivative contraction for the SECOND half-step propagator: `Σ D[a,b,c,d] · A[b,a] · Δ[d,c]` -/
def chainSecond (L : ℕ) (Dv : ℕ → ℕ → ℕ → ℕ → K) (A dB : ℕ → ℕ → K) : K :=
  ∑ d ∈ range L, ∑ c ∈ range L, ∑ b ∈ range L, ∑ a ∈ range L, Dv a b c d * A b a * dB d c

/-- the state recorded at step `n`: bond legs closed with the (joint) cap -/
def jRecord (L : ℕ) (S : ℕ → Finset ι) (G : ℕ → ι → ι → ℕ → ℕ → K) (A B : ℕ → ℕ → ℕ → K)
    (cap : ℕ → ι → K) (X0 : ι → ℕ → K) (n s : ℕ) : K :=
  ∑ β ∈ S n, cap n β * jFwd L S G A B X0 n β s

/-! ### Code layer: numpy / tensornetwork wiring, regenerated -/

abbrev Tensor4 (K : Type) := ℕ → ℕ → ℕ → ℕ → K

/-- entry of an MPO tensor addressed by the ROLE of each axis -/
def axGet (w : MpoAxes) (T : Tensor4 K) (bIn bOut sIn sOut : ℕ) : K :=
  let arg : ℕ → ℕ := fun ax =>
    if ax = w.bondIn then bIn else if ax = w.bondOut then bOut else if ax = w.sysIn then sIn else sOut
  T (arg 0) (arg 1) (arg 2) (arg 3)

def swapIdx (i j x : ℕ) : ℕ := if x = i then j else if x = j then i else x

/-- `np.swapaxes(T, i, j)` -/
def swapAxes (i j : ℕ) (T : Tensor4 K) : Tensor4 K :=
  fun a0 a1 a2 a3 =>
    let arg : ℕ → ℕ := fun ax => match ax with | 0 => a0 | 1 => a1 | 2 => a2 | _ => a3
    T (arg (swapIdx i j 0)) (arg (swapIdx i j 1)) (arg (swapIdx i j 2)) (arg (swapIdx i j 3))

/-- `_get_pt_mpos_backprop` on one tensor -/
def backTensor (T : Tensor4 K) : Tensor4 K :=
  backSwaps.foldl (fun T p => swapAxes p.1 p.2 T) T

/-- `_apply_system_superoperator(node, edges, M)` -/
def codeSys (L : ℕ) (M : ℕ → ℕ → K) (X : ι → ℕ → K) : ι → ℕ → K :=
  fun β a => ∑ s ∈ range L, (if sysOpActsAsMatrix then M a s else M s a) * X β s

/-- where the bond leg of one environment sits inside the joint configuration -/
structure Slot (ι : Type) where
  get : ι → ℕ
  set : ι → ℕ → ι

/-- the MPO tensor of one environment at one step -/
structure EnvMpo (ι : Type) (K : Type) where
  slot : Slot ι
  dIn : ℕ          -- dimension of the past bond leg
  dOut : ℕ         -- dimension of the future bond leg
  T : Tensor4 K

/-- one iteration of the loop of `_apply_pt_mpos` -/
def applyMpoAt (L : ℕ) (sl : Slot ι) (dIn : ℕ) (T : Tensor4 K) (X : ι → ℕ → K) : ι → ℕ → K :=
  fun β s' => ∑ b ∈ range dIn, ∑ s ∈ range L, axGet applyAxes T b (sl.get β) s s' * X (sl.set β b) s

/-- `_apply_pt_mpos(node, edges, mpos[, reverse])` -/
def applyPtMpos (L : ℕ) (reverse : Bool) (envs : List (EnvMpo ι K)) (X : ι → ℕ → K) : ι → ℕ → K :=
  (if reverse then envs.reverse else envs).foldl (fun X e => applyMpoAt L e.slot e.dIn e.T X) X

/-- `_get_pt_mpos_backprop`: same list order, legs swapped (so the contracted bond leg is the
    future one) -/
def backEnvs (envs : List (EnvMpo ι K)) : List (EnvMpo ι K) :=
  envs.map (fun e => { slot := e.slot, dIn := e.dOut, dOut := e.dIn, T := backTensor e.T })

/-- forward loop body: `applyP1`, `applyMpo` (list order), `applyP2` -/
def codeStep (L : ℕ) (envs : List (EnvMpo ι K)) (A B : ℕ → ℕ → K) (X : ι → ℕ → K) : ι → ℕ → K :=
  codeSys L B (applyPtMpos L false envs (codeSys L A X))

def codeFwd (L : ℕ) (envs : ℕ → List (EnvMpo ι K)) (A B : ℕ → ℕ → ℕ → K)
    (X0 : ι → ℕ → K) : ℕ → ι → ℕ → K
  | 0 => X0
  | k+1 => codeStep L (envs k) (A k) (B k) (codeFwd L envs A B X0 k)

/-- backward loop body: `applyP2T`, `applyMpoBack` on the leg-swapped tensors (environment order
    as generated), `applyP1T` -/
def codeBackStep (L : ℕ) (envs : List (EnvMpo ι K)) (A B : ℕ → ℕ → K) (Y : ι → ℕ → K) : ι → ℕ → K :=
  codeSys L (transposeM A) (applyPtMpos L bwdEnvReversed (backEnvs envs) (codeSys L (transposeM B) Y))

/-- the backward tensors: `codeBwd … N m` is the node after `m` iterations of the backward loop
    (used for the adjoint tensor of step `N-1-m`) -/
def codeBwd (L : ℕ) (envs : ℕ → List (EnvMpo ι K)) (A B : ℕ → ℕ → ℕ → K)
    (tgt : ι → ℕ → K) (N : ℕ) : ℕ → ι → ℕ → K
  | 0 => tgt
  | m+1 => codeBackStep L (envs (N-m-1)) (A (N-m-1)) (B (N-m-1)) (codeBwd L envs A B tgt N m)

/-- adjoint tensor, ONE environment: `_apply_derivative_pt_mpos`, bond legs joined, `@` -/
def codeDeriv1 (D D' : ℕ) (T : Tensor4 K) (X Y : ℕ → ℕ → K) (a b c d : ℕ) : K :=
  ∑ β' ∈ range D', ∑ β ∈ range D, X β a * axGet derivFirstAxes T β β' b c * Y β' d

/-- adjoint tensor, TWO environments (bond dimensions `D0 D1` past, `D0' D1'` future) -/
def codeDeriv2 (L D0 D1 D0' D1' : ℕ) (T0 T1 : Tensor4 K) (X Y : ℕ × ℕ → ℕ → K) (a b c d : ℕ) : K :=
  ∑ β' ∈ range D0' ×ˢ range D1', ∑ β ∈ range D0 ×ˢ range D1,
    X β a * (∑ m ∈ range L, axGet derivFirstAxes T0 β.1 β'.1 b m * axGet derivRestAxes T1 β.2 β'.2 m c)
      * Y β' d

/-- `_chain_rule.combine_derivs(D, pre, post)` -/
def combine (L : ℕ) (Dv : Tensor4 K) (pre post : ℕ → ℕ → K) : K :=
  ∑ a3 ∈ range L, ∑ a2 ∈ range L, ∑ a1 ∈ range L, ∑ a0 ∈ range L,
    let arg : ℕ → ℕ := fun ax => match ax with | 0 => a0 | 1 => a1 | 2 => a2 | _ => a3
    Dv a0 a1 a2 a3 * pre (arg chainPreAxes.1) (arg chainPreAxes.2)
      * post (arg chainPostAxes.1) (arg chainPostAxes.2)

def pickArg (p : PropArg × Bool) (P1 P2 dP1 dP2 : ℕ → ℕ → K) : ℕ → ℕ → K :=
  let M := match p.1 with
    | .firstProp => P1 | .secondProp => P2 | .firstDeriv => dP1 | .secondDeriv => dP2
  if p.2 then transposeM M else M

/-- `_chain_rule`: entry `[2i][j]` (derivative w.r.t. a parameter of the first half step) -/
def chainEven (L : ℕ) (Dv : Tensor4 K) (P1 P2 dP1 dP2 : ℕ → ℕ → K) : K :=
  combine L Dv (pickArg chainRowEven.1 P1 P2 dP1 dP2) (pickArg chainRowEven.2 P1 P2 dP1 dP2)

/-- `_chain_rule`: entry `[2i+1][j]` -/
def chainOdd (L : ℕ) (Dv : Tensor4 K) (P1 P2 dP1 dP2 : ℕ → ℕ → K) : K :=
  combine L Dv (pickArg chainRowOdd.1 P1 P2 dP1 dP2) (pickArg chainRowOdd.2 P1 P2 dP1 dP2)

/-! ### The two concrete bond layouts -/

/-- one environment: the configuration is the bond index -/
def slot1 : Slot ℕ := { get := fun β => β, set := fun _ b => b }

def envs1 (D : ℕ → ℕ) (T : ℕ → Tensor4 K) (k : ℕ) : List (EnvMpo ℕ K) :=
  [{ slot := slot1, dIn := D k, dOut := D (k+1), T := T k }]

/-- two environments: the configuration is the pair of bond indices (list order) -/
def slotFst : Slot (ℕ × ℕ) := { get := fun β => β.1, set := fun β b => (b, β.2) }
def slotSnd : Slot (ℕ × ℕ) := { get := fun β => β.2, set := fun β b => (β.1, b) }

def envs2 (D0 D1 : ℕ → ℕ) (T0 T1 : ℕ → Tensor4 K) (k : ℕ) : List (EnvMpo (ℕ × ℕ) K) :=
  [{ slot := slotFst, dIn := D0 k, dOut := D0 (k+1), T := T0 k },
   { slot := slotSnd, dIn := D1 k, dOut := D1 (k+1), T := T1 k }]

def S2 (D0 D1 : ℕ → ℕ) (k : ℕ) : Finset (ℕ × ℕ) := range (D0 k) ×ˢ range (D1 k)

/-- combined tensor of two environments, forward list order: system input `i` enters the first
    environment, its output enters the second -/
def G2 (L : ℕ) (T0 T1 : Tensor4 K) (β β' : ℕ × ℕ) (i o : ℕ) : K :=
  ∑ m ∈ range L, T0 β.1 β'.1 i m * T1 β.2 β'.2 m o

/-- the same with the two environments exchanged on the system leg -/
def G2swap (L : ℕ) (T0 T1 : Tensor4 K) (β β' : ℕ × ℕ) (i o : ℕ) : K :=
  ∑ m ∈ range L, T1 β.2 β'.2 i m * T0 β.1 β'.1 m o

/-- initial joint tensor: all bond legs have dimension one -/
def init1 (ρ0 : ℕ → K) : ℕ → ℕ → K := fun b s => if b = 0 then ρ0 s else 0
def init2 (ρ0 : ℕ → K) : ℕ × ℕ → ℕ → K := fun β s => if β = (0, 0) then ρ0 s else 0

/-- `_apply_caps`, one environment: the state recorded at step `n` -/
def codeRecord1 (L : ℕ) (D : ℕ → ℕ) (T : ℕ → Tensor4 K) (A B : ℕ → ℕ → ℕ → K) (cap : ℕ → ℕ → K)
    (ρ0 : ℕ → K) (n s : ℕ) : K :=
  ∑ b ∈ range (D n), cap n b * codeFwd L (envs1 D T) A B (init1 ρ0) n b s

/-- `_apply_caps`, two environments: the bond legs are closed one after the other -/
def codeRecord2 (L : ℕ) (D0 D1 : ℕ → ℕ) (T0 T1 : ℕ → Tensor4 K) (A B : ℕ → ℕ → ℕ → K)
    (cap0 cap1 : ℕ → ℕ → K) (ρ0 : ℕ → K) (n s : ℕ) : K :=
  ∑ b0 ∈ range (D0 n), cap0 n b0 * ∑ b1 ∈ range (D1 n), cap1 n b1 *
    codeFwd L (envs2 D0 D1 T0 T1) A B (init2 ρ0) n (b0, b1) s

/-- the target derivative as a joint tensor: all bond legs have dimension one -/
def tgt1 (t : ℕ → K) : ℕ → ℕ → K := fun b s => if b = 0 then t s else 0
def tgt2 (t : ℕ → K) : ℕ × ℕ → ℕ → K := fun β s => if β = (0, 0) then t s else 0

/-- the objective as the code computes it: target derivative · final forward tensor -/
def codeZ (L : ℕ) (SN : Finset ι) (envs : ℕ → List (EnvMpo ι K)) (A B : ℕ → ℕ → ℕ → K)
    (X0 tgt : ι → ℕ → K) (N : ℕ) : K :=
  pair L SN tgt (codeFwd L envs A B X0 N)

end OQuPyVerif.Grad
