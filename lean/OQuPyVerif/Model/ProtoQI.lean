/- Line-protocol helpers for complex (Gaussian-rational) tensors. -/
import OQuPyVerif.Model.Proto
import OQuPyVerif.Num.QI
namespace OQuPyVerif.Proto

/-- "re,im" with re, im = "p/q" -/
def parseQI? (s : String) : Option QI :=
  match s.splitOn "," with
  | [r, i] => match parseRat? r, parseRat? i with
    | some r, some i => some ⟨r, i⟩
    | _, _ => none
  | [r] => (parseRat? r).map (fun r => ⟨r, 0⟩)
  | _ => none

def showQI (z : QI) : String := s!"{showRat z.re},{showRat z.im}"

def parseQIs? (ws : List String) : Option (Array QI) :=
  (ws.mapM parseQI?).map List.toArray

/-- table lookup with default 0: a row-major `rows × cols` array as a function -/
def tab2 (cols : Nat) (arr : Array QI) : Nat → Nat → QI := fun a b => arr.getD (a * cols + b) 0
def tab1 (arr : Array QI) : Nat → QI := fun a => arr.getD a 0

/-- tabulate a function on `rows × cols` (forces evaluation once) -/
def tabulate2 (rows cols : Nat) (f : Nat → Nat → QI) : Array QI :=
  Array.ofFn (n := rows * cols) (fun idx => f (idx.val / cols) (idx.val % cols))

/-- split a token list at "|" separators -/
def sections (ws : List String) : List (List String) :=
  let rec go (acc : List String) (out : List (List String)) : List String → List (List String)
    | [] => (acc.reverse :: out).reverse
    | w :: rest => if w == "|" then go [] (acc.reverse :: out) rest else go (w :: acc) out rest
  go [] [] ws

end OQuPyVerif.Proto
