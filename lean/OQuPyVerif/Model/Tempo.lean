/-
  Which influence table TEMPO uses at which step (the "step machine" of
  `BaseTempoBackend.compute_system_step` + `initialize_mps_mpo`), and the resulting
  reported state as a path sum.
-/
import OQuPyVerif.Model.PathSum
namespace OQuPyVerif.Tempo
open OQuPyVerif.PathSum

/-- The identifier handed to `influence(dk)` for the pair at distance `dk` in step `n`;
    `none` = the pair is outside the MPO (no factor).
    * `dkmax = none`: the MPO grows by one table per step: distance `dk` uses table `dk`.
    * `dkmax = some K`: tables `0..K` are precomputed; in step `n ≤ K` the last `n` of them
      are used (distances `0..n-1`); in step `n > K` all `K+1`, and the furthest one is
      replaced by `influence(K - n)` (a negative id: the rectangle table) when that call
      does not return `None`, i.e. when an additional correlation time is set. -/
def inflSel (dkmax : Option ℕ) (hasAdd : Bool) (n dk : ℕ) : Option ℤ :=
  match dkmax with
  | none => some (dk : ℤ)
  | some K =>
    if dk > K then none
    else if n > K ∧ dk = K ∧ hasAdd then some ((K : ℤ) - (n : ℤ))
    else some (dk : ℤ)

/-- The influence factor `I n dk later earlier` from the tables `tbl id earlier later`
    (the orientation of `influence_matrix`: first axis = earlier index). -/
def inflOfTables {K : Type} [CommRing K] (dkmax : Option ℕ) (hasAdd : Bool)
    (tbl : ℤ → ℕ → ℕ → K) (n dk later earlier : ℕ) : K :=
  match inflSel dkmax hasAdd n dk with
  | none => 1
  | some id => tbl id earlier later

/-- the η admitted for the pair at distance `dk` in step `n` (0 if outside the memory) -/
def selEta {K : Type} [CommRing K] (dkmax : Option ℕ) (hasAdd : Bool) (eta : ℤ → K) (n dk : ℕ) : K :=
  match inflSel dkmax hasAdd n dk with
  | none => 0
  | some id => eta id

end OQuPyVerif.Tempo
