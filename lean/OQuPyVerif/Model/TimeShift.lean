/-
  C15 — time-translation covariance: the expression language of the *time expressions* that
  tools/translate.py (fragment TimeExprs) extracts from /repo, with ONE evaluator `evalOps`
  parameterised by the arithmetic it runs on:

    * `evalF`  = `evalOps floatOps`  : IEEE binary64 (the FloatModel; what Python computes),
    * `evalX`  = `evalOps (fieldOps …)` (Lemmas/TimeShift.lean) : exact arithmetic in any field.

  plus the syntactic *shift weight* `wt` (how the value moves when every time-valued variable is
  moved by τ) whose soundness is proved in Lemmas/TimeShift.lean, and an abstract step machine
  whose only access to time is a list of query times per step.  Mathlib-free.
-/
import OQuPyVerif.Num.FloatModel

namespace OQuPyVerif.TimeShift
open OQuPyVerif.FloatModel

/-- pure integer sub-expressions (Python `int` arithmetic is exact) -/
inductive IExpr where
  | ivar (i : Nat)
  | ilit (n : Int)
  | iadd (a b : IExpr)
  | isub (a b : IExpr)
  | imul (a b : IExpr)
  deriving Repr, DecidableEq

/-- float-valued time expressions -/
inductive TExpr where
  /-- float-valued variable number `i` of the site -/
  | var (i : Nat)
  /-- an integer expression used as a float (`float(step)`, `step * dt`, `np.arange(n) * dt`) -/
  | ofI (e : IExpr)
  /-- float literal (every binary64 is a rational) -/
  | lit (q : Rat)
  | add (a b : TExpr)
  | sub (a b : TExpr)
  | mul (a b : TExpr)
  | div (a b : TExpr)
  | neg (a : TExpr)
  /-- `np.round(x)`, `round(x)`, `int(np.round(x))` -/
  | round (a : TExpr)
  /-- `int(x)` of a float -/
  | trunc (a : TExpr)
  deriving Repr

def IExpr.eval (ienv : Nat → Int) : IExpr → Int
  | .ivar i => ienv i
  | .ilit n => n
  | .iadd a b => a.eval ienv + b.eval ienv
  | .isub a b => a.eval ienv - b.eval ienv
  | .imul a b => a.eval ienv * b.eval ienv

/-- the arithmetic an expression is run on -/
structure Ops (K : Type) where
  add : K → K → K
  sub : K → K → K
  mul : K → K → K
  div : K → K → K
  neg : K → K
  ofInt : Int → K
  ofRat : Rat → K
  rd : K → K
  tr : K → K

/-- THE evaluator: both the binary64 reading and the exact reading of a site are this function. -/
def evalOps {K : Type} (o : Ops K) (env : Nat → K) (ienv : Nat → Int) : TExpr → K
  | .var i => env i
  | .ofI e => o.ofInt (e.eval ienv)
  | .lit q => o.ofRat q
  | .add a b => o.add (evalOps o env ienv a) (evalOps o env ienv b)
  | .sub a b => o.sub (evalOps o env ienv a) (evalOps o env ienv b)
  | .mul a b => o.mul (evalOps o env ienv a) (evalOps o env ienv b)
  | .div a b => o.div (evalOps o env ienv a) (evalOps o env ienv b)
  | .neg a => o.neg (evalOps o env ienv a)
  | .round a => o.rd (evalOps o env ienv a)
  | .trunc a => o.tr (evalOps o env ienv a)

/-- binary64: every operation rounds (FloatModel); a float literal is already a binary64;
    `round` is numpy/Python round-half-even, `int()` truncates. -/
def floatOps : Ops Rat where
  add := fadd
  sub := fsub
  mul := fmul
  div := fdiv
  neg := fun x => -x
  ofInt := ofInt
  ofRat := fun q => q
  rd := fun x => ((roundHalfEven x : Int) : Rat)
  tr := fun x => ((truncInt x : Int) : Rat)

/-- what Python computes at the site -/
def evalF (env : Nat → Rat) (ienv : Nat → Int) (e : TExpr) : Rat := evalOps floatOps env ienv e

/-- environment from a list (missing entries read 0) -/
def envOf {K : Type} (z : K) (l : List K) : Nat → K := fun i => l.getD i z

/-- move every time-valued variable (mask `m`) by `τ` -/
def shiftEnv {K : Type} (addK : K → K → K) (m : List Bool) (τ : K) (env : Nat → K) : Nat → K :=
  fun i => if m.getD i false then addK (env i) τ else env i

/-- Shift weight: `some w` means "when all time variables move by τ the value moves by w·τ"
    (sound for every field: Lemmas/TimeShift.wt_sound).  Products, quotients and roundings are
    accepted only when every operand is shift-invariant. -/
def wt (m : List Bool) : TExpr → Option Int
  | .var i => some (if m.getD i false then 1 else 0)
  | .ofI _ => some 0
  | .lit _ => some 0
  | .add a b => match wt m a, wt m b with
    | some x, some y => some (x + y)
    | _, _ => none
  | .sub a b => match wt m a, wt m b with
    | some x, some y => some (x - y)
    | _, _ => none
  | .neg a => match wt m a with
    | some x => some (-x)
    | none => none
  | .mul a b => match wt m a, wt m b with
    | some 0, some 0 => some 0
    | _, _ => none
  | .div a b => match wt m a, wt m b with
    | some 0, some 0 => some 0
    | _, _ => none
  | .round a => match wt m a with
    | some 0 => some 0
    | _ => none
  | .trunc a => match wt m a with
    | some 0 => some 0
    | _ => none

/-- does not mention a time variable at all -/
def noTime (m : List Bool) : TExpr → Bool
  | .var i => !(m.getD i false)
  | .ofI _ => true
  | .lit _ => true
  | .add a b => noTime m a && noTime m b
  | .sub a b => noTime m a && noTime m b
  | .mul a b => noTime m a && noTime m b
  | .div a b => noTime m a && noTime m b
  | .neg a => noTime m a
  | .round a => noTime m a
  | .trunc a => noTime m a

/-- what the place where the value is used demands -/
inductive Role where
  /-- a time handed to a user callable / a reported time label: must move by exactly τ -/
  | time
  /-- a duration, a step index, a rounding result, a field value: must not move -/
  | inv
  deriving Repr, DecidableEq

def Role.weight : Role → Int
  | .time => 1
  | .inv => 0

/-- one extracted expression of the source -/
structure Site where
  name : String
  file : String
  line : Nat
  /-- source text of the statement / argument -/
  src : String
  /-- what the value is used for (the sink that fixes `role`) -/
  sink : String
  /-- float-valued variables, `TExpr.var i` = `fvars[i]` -/
  fvars : List String
  /-- which of them are times (move with the origin) -/
  tmask : List Bool
  /-- integer-valued variables, `IExpr.ivar i` = `ivars[i]` -/
  ivars : List String
  role : Role
  expr : TExpr
  deriving Repr

/-- THE obligation of a site: its expression has the shift weight its use demands. -/
def Site.ok (s : Site) : Bool := wt s.tmask s.expr == some s.role.weight

/-- times occur only inside differences of two times -/
def diffOnly (m : List Bool) : TExpr → Bool
  | .sub (.var i) (.var j) =>
      (m.getD i false && m.getD j false) || (!(m.getD i false) && !(m.getD j false))
  | .var i => !(m.getD i false)
  | .ofI _ => true
  | .lit _ => true
  | .add a b => diffOnly m a && diffOnly m b
  | .sub a b => diffOnly m a && diffOnly m b
  | .mul a b => diffOnly m a && diffOnly m b
  | .div a b => diffOnly m a && diffOnly m b
  | .neg a => diffOnly m a
  | .round a => diffOnly m a
  | .trunc a => diffOnly m a

/-- shape `time variable + (something in which times occur at most as differences)`: one
    rounding separates the shifted from the unshifted value (binary64 residue bound). -/
def timePlusInv (m : List Bool) : TExpr → Bool
  | .add (.var i) b => m.getD i false && diffOnly m b
  | _ => false

def Site.tpi (s : Site) : Bool := timePlusInv s.tmask s.expr

def Site.evalF (s : Site) (fl : List Rat) (il : List Int) : Rat :=
  OQuPyVerif.TimeShift.evalF (envOf 0 fl) (envOf 0 il) s.expr

/-! ### evaluations of a user callable at a FIXED ABSOLUTE time (constructor probes) -/

/-- what survives of the value a probe returned -/
inductive Kept where
  /-- the value is dropped -/
  | discard
  /-- only passed to a validator whose result is dropped (raise-or-not) -/
  | validate
  /-- only `.shape` (the Hilbert space dimension) is read -/
  | shape
  /-- the numerical type is read (`.dtype`, `otypes=`) -/
  | dtype
  /-- the value itself (or an object built from it) is stored / returned -/
  | value
  /-- a use the translator does not understand -/
  | unknown
  deriving Repr, DecidableEq

/-- one place where a user callable is evaluated at a time that does not move with the origin -/
structure Probe where
  name : String
  file : String
  line : Nat
  /-- source text of the call -/
  src : String
  /-- the fixed time (source text) -/
  time : String
  kept : List Kept
  deriving Repr

/-- THE obligation of a probe: nothing but a validation or a shape check survives. -/
def Probe.ok (p : Probe) : Bool :=
  p.kept.all (fun k => k == .discard || k == .validate || k == .shape)

/-- what an object remembers of the probed value `v` (for the shift theorem):
    `valid` = does the validator accept, `shp` = the shape, `dty` = the numerical type -/
inductive Info (α ι δ : Type) where
  | nothing
  | accepted (b : Bool)
  | shapeIs (s : ι)
  | dtypeIs (d : δ)
  | valueIs (v : α)
  | opaque (v : α)

def retainedInfo {α ι δ : Type} (valid : α → Bool) (shp : α → ι) (dty : α → δ) (v : α) :
    Kept → Info α ι δ
  | .discard => .nothing
  | .validate => .accepted (valid v)
  | .shape => .shapeIs (shp v)
  | .dtype => .dtypeIs (dty v)
  | .value => .valueIs v
  | .unknown => .opaque v

/-! ### an abstract step machine whose only access to time is `q k` -/

/-- State after `n` steps.  At step `k` the machine hands the times `q k` to the user's
    callables (`user`), and updates its state with what they returned (`upd`); nothing else
    depends on time. -/
def machine {K α σ : Type} (q : Nat → List K) (user : K → α) (upd : Nat → List α → σ → σ)
    (s0 : σ) : Nat → σ
  | 0 => s0
  | n + 1 => upd n ((q n).map user) (machine q user upd s0 n)

/-- the recorded run: (label, state) for steps `0..n` -/
def record {K α σ : Type} (lab : Nat → K) (q : Nat → List K) (user : K → α)
    (upd : Nat → List α → σ → σ) (s0 : σ) (n : Nat) : List (K × σ) :=
  (List.range (n + 1)).map (fun k => (lab k, machine q user upd s0 k))

/-- Selection of float-keyed events (control times, correlation times) by step:
    the events whose time is converted to step `k` (`hit t k`). -/
def selectAt {K β : Type} (hit : K → Nat → Bool) (events : List (K × β)) (k : Nat) : List β :=
  (events.filter (fun e => hit e.1 k)).map (·.2)

end OQuPyVerif.TimeShift
