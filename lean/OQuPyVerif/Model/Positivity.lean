/- Positivity of the system steps (C04): Kraus form of a vectorised propagator.

   `left_right_super(A, B) = np.kron(A, B.T)` acts on the row-major vectorisation
   (`rho.flatten()`, index `a = i*d + j`).  A propagator is *in Kraus form* when it equals
   `Σ_k left_right_super(K_k, K_k†) = Σ_k kron(K_k, conj K_k)`.  The executable residual below is
   evaluated by the driver on the propagators the code really uses
   (`System.get_propagators`, control superoperators). -/
import OQuPyVerif.Model.Diag

namespace OQuPyVerif.Positivity
open Finset BigOperators

variable {K : Type} [CommRing K] [StarRing K]

/-- `Σ_k np.kron(K_k, K_k.conj())` on row-major pair indices -/
def krausSuper (d r : ℕ) (Ks : ℕ → ℕ → ℕ → K) (a b : ℕ) : K :=
  ∑ k ∈ range r, Ks k (a / d) (b / d) * star (Ks k (a % d) (b % d))

/-- `rho.flatten()` -/
def vecOf (d : ℕ) (ρ : ℕ → ℕ → K) (a : ℕ) : K := ρ (a / d) (a % d)

/-- `Σ_k K_k ρ K_k†` -/
def krausMap (d r : ℕ) (Ks : ℕ → ℕ → ℕ → K) (ρ : ℕ → ℕ → K) (i j : ℕ) : K :=
  ∑ k ∈ range r, ∑ p ∈ range d, ∑ q ∈ range d, Ks k i p * ρ p q * star (Ks k j q)

/-- `ρ = B B†` for some `d × m` matrix `B` (sum of Hermitian squares; over ℂ this is exactly
    positive semidefiniteness) -/
def IsGram (d : ℕ) (ρ : ℕ → ℕ → K) : Prop :=
  ∃ (m : ℕ) (B : ℕ → ℕ → K), ∀ i, i < d → ∀ j, j < d →
    ρ i j = ∑ c ∈ range m, B i c * star (B j c)

/-- `Σ_k K_k† K_k` (trace preservation ⇔ this is the identity) -/
def krausDual (d r : ℕ) (Ks : ℕ → ℕ → ℕ → K) (p q : ℕ) : K :=
  ∑ k ∈ range r, ∑ i ∈ range d, star (Ks k i p) * Ks k i q

/-! executable residuals on Gaussian rationals (squared moduli) -/

/-- `max_ab |P_ab − (Σ_k kron(K_k, conj K_k))_ab|²` -/
def krausResidual (d r : ℕ) (P : ℕ → ℕ → QI) (Ks : ℕ → ℕ → ℕ → QI) : ℚ :=
  Diag.maxQ ((List.range (d * d)).flatMap fun a => (List.range (d * d)).map fun b =>
    Diag.normSq (P a b - krausSuper d r Ks a b))

/-- `max_pq |(Σ_k K_k† K_k)_pq − δ_pq|²` -/
def krausUnitResidual (d r : ℕ) (Ks : ℕ → ℕ → ℕ → QI) : ℚ :=
  Diag.maxQ ((List.range d).flatMap fun p => (List.range d).map fun q =>
    Diag.normSq (krausDual d r Ks p q - (if p = q then 1 else 0)))

/-- smallest diagonal Gram witness check: `max_ij |ρ_ij − (B B†)_ij|²` -/
def gramResidual (d m : ℕ) (ρ : ℕ → ℕ → QI) (B : ℕ → ℕ → QI) : ℚ :=
  Diag.maxQ ((List.range d).flatMap fun i => (List.range d).map fun j =>
    Diag.normSq (ρ i j - ∑ c ∈ range m, B i c * star (B j c)))

end OQuPyVerif.Positivity
