#!/usr/bin/env python3
"""Replace the seeded-changes table in DESIGN.md (between the SEEDTABLE markers) by the current
output of tools/seedtable.py."""
import os, re, subprocess, sys
V = os.path.dirname(os.path.dirname(os.path.abspath(__file__)))
table = subprocess.run([sys.executable, os.path.join(V, "tools", "seedtable.py")],
                       capture_output=True, text=True, check=True).stdout
p = os.path.join(V, "DESIGN.md")
s = open(p).read()
block = "<!-- SEEDTABLE-BEGIN -->\n" + table + "<!-- SEEDTABLE-END -->"
if "<!-- SEEDTABLE-BEGIN -->" in s:
    s = re.sub(r"<!-- SEEDTABLE-BEGIN -->.*?<!-- SEEDTABLE-END -->", lambda m: block, s, flags=re.S)
else:
    assert "\nSEEDTABLE\n" in s or s.rstrip().endswith("SEEDTABLE")
    s = s.rstrip()
    s = s[:-len("SEEDTABLE")] + block + "\n"
open(p, "w").write(s)
print("table rows:", table.count("\n") - 2)
