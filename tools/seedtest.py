#!/usr/bin/env python3
"""Run the registered checks against a seeded change, in isolation.

  tools/seedtest.py <dir with patch.diff [demo.py]> [--checks C13,C14] [--tier quick]

Applies patch.diff to a scratch worktree of /repo, copies /verif (with its lake build) to a
scratch directory, runs the demo (must pass on /repo, fail on the patched tree) and the
checks with OQUPY_REPO pointing at the patched tree.  Prints one JSON line; removes all
scratch state."""
import argparse, json, os, shutil, subprocess, sys, tempfile, time

def sh(cmd, **kw):
    return subprocess.run(cmd, shell=isinstance(cmd, str), capture_output=True, text=True, **kw)

def main():
    ap = argparse.ArgumentParser()
    ap.add_argument("seed")
    ap.add_argument("--checks", default="")
    ap.add_argument("--tier", default="quick")
    ap.add_argument("--keep", action="store_true")
    a = ap.parse_args()
    seed = os.path.abspath(a.seed)
    name = os.path.basename(seed.rstrip("/")) + "_" + str(os.getpid())
    wt = "/tmp/seedwt_" + name
    vc = "/tmp/seedverif_" + name
    out = {"seed": seed}
    try:
        r = sh(["git", "-C", "/repo", "worktree", "add", "-q", "--detach", wt, "HEAD"])
        if r.returncode:
            raise SystemExit("worktree: " + r.stderr)
        r = sh(["git", "-C", wt, "apply", os.path.join(seed, "patch.diff")])
        out["patch_applies"] = r.returncode == 0
        if r.returncode:
            out["apply_error"] = r.stderr[-500:]
            print(json.dumps(out)); return
        demo = os.path.join(seed, "demo.py")
        if os.path.exists(demo):
            d0 = sh(["/venv/bin/python", demo, "/repo"], cwd="/tmp", timeout=1800)
            d1 = sh(["/venv/bin/python", demo, wt], cwd="/tmp", timeout=1800)
            out["demo_on_repo_rc"] = d0.returncode
            out["demo_on_patched_rc"] = d1.returncode
            out["demo_patched_tail"] = (d1.stdout + d1.stderr)[-300:]
        sh(["rsync", "-a", "--exclude", ".git", "--exclude", "replays", "/verif/", vc + "/"])
        checks = [c for c in a.checks.split(",") if c]
        if not checks:
            meta = json.load(open(os.path.join(seed, "meta.json")))
            checks = [meta["property"]]
        env = dict(os.environ, OQUPY_REPO=wt)
        res = {}
        for c in checks:
            t0 = time.time()
            r = sh([os.path.join(vc, "check"), c, "--tier", a.tier], env=env, timeout=7200)
            lines = [l for l in r.stdout.splitlines() if l.startswith(("VIOLATION", "KNOWN-FINDING", "OK ", "INFRA"))]
            keys = []
            for l in lines:
                if l.startswith("VIOLATION") and "replay=" in l:
                    p = l.split("replay=")[1].split()[0]
                    try:
                        keys.append(json.load(open(p)).get("key") or "no-failing-input: " +
                                    ",".join(json.load(open(p)).get("no_longer_checks", []))[:200])
                    except Exception:
                        pass
            res[c] = {"rc": r.returncode, "lines": lines[:8], "keys": keys[:8],
                      "wall_s": round(time.time() - t0, 1)}
        out["checks"] = res
        print(json.dumps(out))
    finally:
        if not a.keep:
            sh(["git", "-C", "/repo", "worktree", "remove", "--force", wt])
            shutil.rmtree(vc, ignore_errors=True)
            shutil.rmtree(wt, ignore_errors=True)
            sh(["git", "-C", "/repo", "worktree", "prune"])

if __name__ == "__main__":
    main()
