#!/usr/bin/env python3
"""Writes /verif/MANIFEST.json from the table below (kept in one place so that the
manifest is always valid and complete w.r.t. properties.jsonl)."""
import json, os
V = os.path.dirname(os.path.dirname(os.path.abspath(__file__)))
BASE = ("cd /repo && /venv/bin/python -m pytest -ra -q -p no:cacheprovider --timeout=900 "
        "--continue-on-collection-errors")
TB = ("Lean 4.33 kernel + axioms propext/Classical.choice/Quot.sound (audited per run); "
      "tools/translate.py and the correspondence harness tie the model to /repo; ")

CLAIMED = {
 "C01": dict(
   technique="Lean 4 proof (collapse of the path sum for diagonal kernels, exp-homomorphism, telescoping of eta cells) over a model whose influence formula/arguments are regenerated from source + differential correspondence",
   text=("Proved for all n, dimensions and memory settings: with half-step propagators diagonal in the coupling eigenbasis "
         "TEMPO's state is entrywise rho0 x free phase x product of admitted influence factors (commuting_collapse); for "
         "influence_matrix's formula (regenerated from source: infl_entry_is_model) that product is "
         "E(-Om(Re S Om + i Im S Op)) with S the sum of the admitted eta-cells (decoherence_factor) - populations constant; "
         "with full memory S = eta(n dt) - eta(0), the double time integral (full_memory_sum/tiling); with a cut-off the rows are "
         "strip integrals (cutoff_row_sum) and with an additional correlation time the strip reaches to time_2 (row_sum_rect); "
         "influence_matrix's (shape,time_1,time_2) requests are regenerated and characterised (influence_args). Through C02 the "
         "same holds for PT-TEMPO+compute_dynamics. Tie: real influence_matrix arguments bit-exact, entries 1e-12; real Tempo and "
         "PT runs for commuting models in eigen- and rotated bases vs the closed form (1e-8)."),
   ref="§4 C01",
   note=TB + "np.exp homomorphism, quad accuracy assumed; NOT shown: equality with explicit finite-mode simulation for "
        "non-commuting systems (Feynman-Vernon), the tolerance-multiple deviation bound."),
 "C02": dict(
   technique="Lean 4 proof (induction over steps on a path-sum / MPO-contraction model) + differential correspondence on the real tensors",
   text=("Theorems for every number of steps, bond dimension, influence table (hence memory setting) and propagator "
         "sequence: step-by-step MPO contraction (compute_dynamics' loop) equals the dynamics of the dense process tensor "
         "(contraction_exact); the dense process tensor of the influence functional contracted with the system equals "
         "TEMPO's path sum (pt_dynamics_eq_tempo); hence any MPO whose dense form is the influence functional reproduces "
         "TEMPO (mpo_dynamics_eq_tempo). The model is tied to the code by running real Tempo, real pt_tempo_compute + "
         "compute_dynamics and the dense form of the real MPO against the Lean definitions on the same real tensors (1e-8)."),
   ref="§4 C02",
   note=TB + "exact arithmetic over a commutative ring; scipy expm/quad and the SVD compression of PT-TEMPO are not "
        "modelled: their outputs enter as data and the hypothesis 'dense MPO = influence functional' is checked on sampled "
        "paths each run; 'tightens with tolerance' not shown."),
 "C03": dict(
   technique="Lean 4 proof (induction over steps / environment lists / List.Perm) on an executable multi-environment contraction model + regenerated leg wiring (MpoWiring) + differential correspondence against real compute_dynamics / get_mpo_tensor / compute_caps",
   text="For every number of steps, bond dimension and tensor content, compute_dynamics with a list of process tensors records what it records for one combined process tensor (no cross-talk between bond legs), hence the dynamics of its dense form. The list order is irrelevant for any permutation of pairwise commuting environments. The caps produced by compute_caps close exactly the transformed tensors that are contracted, for rank 3 and rank 4, with and without transforms, in both SimpleProcessTensor and FileProcessTensor, and equal the ancilla trace for trace-preserving joint maps. The process tensor of an ancilla reproduces the partial trace of the joint evolution, interleaved with half-step propagators and controls, at every step, including the finite form with its last bond closed. Two baths with one coupling operator equal one bath with the summed eta at the level of influence functionals, dense process tensors and reported states. The states returned by get_mpo_tensor / get_cap_tensor are proved to depend only on the currently stored tensors and the transforms for every set/get history, under the memoisation wiring regenerated from the source (a getter-written attribute that a setter does not invalidate fails an obligation). The axis numbers, delta scrambling, transform transposes, trace vectors and cap leg closings are re-read from the source on every run, and the executable model is compared with the real code on random tensor lists, incl. float-time controls with non-zero start_time and overwrite-then-contract histories.",
   ref="§4 C03",
   note=TB + "tensornetwork joins exactly the edges connected with ^ (edge identity); numpy dot/moveaxis/.T semantics; h5py round-trip; exact arithmetic in the theorems (float code agrees to 1e-15 observed, 1e-9 demanded). Order independence only under the commutation hypothesis (non-commuting order is not claimed: it would be a false alarm). The dense-form hypotheses of sum_of_baths are C02's sampled correspondence."),
 "C04": dict(
   technique="Lean 4 proof (invariant of the path sum by induction over steps) + hypothesis instances evaluated in Lean on the real tensors",
   text=("Proved for all n, dimensions, tables and memory settings: the TEMPO path sum preserves the trace covector "
         "(trace_preserved) and Hermiticity (hermitian_preserved) whenever the half-step propagators and basis changes do and "
         "the influence tables have the unit / conjugation property; both properties are proved for influence_matrix's "
         "formula (influence_unit, influence_conj) and for every memory schedule (influence_unit_of_tables); the same for "
         "PT-TEMPO + compute_dynamics through C02 (pt_trace_preserved, pt_hermitian_preserved). Each run evaluates the "
         "theorems' hypotheses in Lean on the code's actual propagators / influence tables and compares real Tempo and "
         "compute_dynamics states with the model."),
   ref="§4 C04",
   note=TB + "positivity is shown only where every step is of Kraus form (no bath, trivial or ancilla-built process tensors); with a Gaussian bath it is NOT shown (DESIGN §6); PT-TEBD norm / Gibbs normalisation are handled under C10 / C11; "
        "scipy expm/quad outputs are data whose trace/Hermiticity preservation is checked per run, not proved."),
 "C05": dict(
   technique="Lean 4 proof (conjugation algebra on the path sum; gauge invariance by induction) + IsDiagonalisation predicate evaluated in Lean on the Bath's real output",
   text=("Proved for all n and memory settings: rotating initial state, propagators and the diagonalising transform by an "
         "invertible table W rotates every TEMPO state by W (covariance); any two diagonalisations of the same coupling operator "
         "(permutations, phases, rotations inside degenerate eigenspaces) give the same states (diag_choice_indep via the "
         "gauge-invariance lemma pathState_gauge_table). Both take the Bath's transform to be a diagonalisation; that predicate "
         "(unitary, real eigenvalues, reproduces the operator) is evaluated exactly in Lean on the real Bath output for Hermitian "
         "operators of dimension 2..5 with repeated/zero eigenvalues and Haar/structured unitaries on every run, and rotated "
         "vs unrotated real Tempo runs are compared with the model."),
   ref="§4 C05",
   note=TB + "LAPACK eigh correctness is checked per run, not proved; PT-TEMPO and mean-field TEMPO inherit covariance through "
        "C02/C09 (shared kernels), no separate theorem."),
 "C06": dict(
   technique="Lean 4 proof (well-definedness of the reduced tables + congruence of the path sum) + exact correspondence of degeneracy maps and reduced tables",
   text=("Proved for every dimension, number of steps, memory setting and coincidence pattern (none to total): reading the "
         "influence tables at class representatives leaves them unchanged whenever the table depends on its indices only "
         "through the keys the degeneracy maps are built from (unique_tables_eq; the keyed form holds for influence_matrix's "
         "formula, inflEntry_keyed), hence TEMPO's state with reduced tables equals the state with full tables "
         "(unique_eq_full). Tie: real degeneracy maps vs rowDegeneracy (exact), reduced real tables vs full tables at "
         "representatives (exact), real Tempo(unique) and PtTempo(unique)+compute_dynamics vs the reduced-table model; the "
         "vectors closing the (reduced) legs in Tempo, MeanFieldTempo and PtTempo are regenerated from the source and shown to be "
         "all ones, which closes a reduced leg to the plain Liouville sum (closing_vectors, reduced_legs_close_to_plain_sum)."),
   ref="§4 C06",
   note=TB + "keys compared exactly (code rounds to 12 decimals); mean-field TEMPO shares the backend step, no separate theorem."),
 "C14": dict(
   technique="Lean 4 state-machine models of call histories interpreting source-regenerated micro-op lists, with fault oracles; theorems by induction on op lists/histories; differential correspondence on real objects",
   text="Each method object is modelled by its step counter, the log of in-place network updates (with step arguments and user-callable inputs) and its recorded results. The order of statements in every backend step and the loop conditions of the compute methods are regenerated from the source on each run and interpreted by the model. Kernel-checked theorems show for all target lists that splitting equals one call with the furthest target and reached targets are no-ops (Tempo, MeanFieldTempo, PtTebd). For all histories and all fault oracles they show the object stays in a fault-free state, so a retried call fails again or gives the no-failure result (faultSafe decided on the regenerated lists). PtTempo and GibbsTempo are proved idempotent for every compute/get history. A PtTebd restart from the exported chain continues identically when no pre-measurement control sits at the restart step. Real objects with fault-injecting wrappers at every user-call index are compared exactly with the model on step counters, call traces, time lists and outcomes.",
   ref="§4 C14",
   note=TB + "the LoopOrder classification tables in translate.py (which attributes hold user callables / the network); abstraction 'equal logs => equal numbers' (deterministic code); FloatModel and FloatGrid.steps_mono/gridTime_mono (dt>0); faults are exceptions raised by Hamiltonian/rates/Lindblad/field_eom callables, not bath correlations; known finding restart:PtTebd:pre-control-at-restart-step."),
 "C19": dict(
   technique="Lean 4 small-step model of main thread + threading.Timer threads with invariant proof; translator-generated API guard table and ProgressBar micro-op lists; differential runs of the real code (fault injection, deterministic schedule replay via sys.settrace)",
   text="Every API that calls get_progress is read from the source and shown (decide over the regenerated table) to use its progress object through with/try-finally, and a theorem proves for all loop lengths N and all failure points that such an API always calls exit(). The ProgressBar statements are regenerated from oqupy/util.py and shown equal to a lock + active-flag + daemon-timer protocol for which an inductive invariant over the interleaving semantics proves that, for every schedule, number of updates and number of timer firings, no timer is pending or running once exit() returned and callbacks drained, that no deadlock exists, and that all timer threads are daemonic; 'silent' and 'simple' provably start no thread. The model is pinned to the code by running every API with failing user callables (per-object call traces, timers created and their final states compared exactly) and by driving the real ProgressBar statement-by-statement through all schedules for up to 2 updates / 1 firing (thorough: 16026 schedules with 2 firings) with step-wise state comparison against the model.",
   ref="§4 C19",
   note=TB + "CPython threading.Timer/Lock semantics as modelled (cancel before fire => never runs; after => no effect; start twice raises; `with lock` releases on return/exception), statement-level atomicity of micro-ops, the API skeleton enter;(work;update)xN;exit, sys.settrace line gating and the fake Timer in the replay. Not shown: interpreter shutdown itself, one in-flight status line of the one-shot first timer."),
 "C20": dict(
   technique="Lean 4 proof over tables regenerated from source (memo/cache invariant, verified static checker for array sites, numpy view-rule lemma) + translator + differential correspondence",
   text="The CacheKeys fragment regenerates from the source, for every memoised/public method of the correlations and System classes, its cache key and the attributes it reads (directly, through lambdas stored by __init__, or captured constructor arguments), how Bath copies, and what each anchored function does to a user array. Lean decides on these tables that reads are direct and covered by the key, that Bath copies, and that every array site passes a static check. It proves for all operation histories (including arbitrary cache eviction) that every evaluation returns the value for the object's current attributes and that copies are independent of their originals. It proves that, for all strides, flags and nonzero shapes, every site leaves the caller's array and buffer untouched, never raises numpy's in-place-reshape error, and produces arrays determined by shape and values alone. This rests on a proof that numpy's no-copy reshape always succeeds when only unit axes are inserted, and on a simulation between the concrete and the layout-free array machines. The numpy model is validated exactly against real numpy on 9k (quick) / 43k (thorough) layout x op cases, the memo model bit-for-bit on generated histories over real objects, and 38 public APIs are run in 10 memory layouts comparing caller bytes, flags and results.",
   ref="§4 C20",
   note=TB + "numpy reshape/shape-setter/K-order-copy semantics as modelled (grid-validated, arrays without empty axes); translator grammar for self.<attr> reads, stored lambdas and the _cached_on_parameters decorator; lru_cache keys on self identity + arguments; copy.copy keeps function objects. Assumed: callees such as tensornetwork do not write into tracked arrays (observed bytewise only), underscore attributes are not user-assigned, user callables and scipy quad are deterministic. Arrays retained by reference after the call and library-returned arrays aliasing internal state are out of scope."),
 "C15": dict(
   technique="Lean 4 proof by reflection: a sound syntactic shift-weight checker (wt_sound, induction on a deep-embedded expression language) decided by the kernel on the table of ALL time expressions regenerated from source, + induction over steps for an abstract step machine, + binary64 rounding lemmas; differential correspondence on real runs",
   text="Every arithmetic expression of system/tempo/pt_tempo/system_dynamics/control/pt_tebd/gradient.py that computes a time handed to a user callable, a reported label, a duration or a float->step rounding is extracted (138 sites; the role is fixed by the sink, so a dropped start_time is an obligation that fails). Proved for all sites, in every field, for every tau and any rounding function: times move by exactly tau, rounding arguments/durations/step counts do not (shift_invariant). Hence a step machine that sees time only through these expressions records identical states and labels moved by tau for every number of steps (machine_covariant), instantiated for Tempo/compute_dynamics on TimeDependentSystem, MeanFieldTempo's field equation, float control times and float correlation times. In binary64 the roundings are bit-identical under an exact shift and each time carries at most one rounding per side (partial). Tie: CPython evaluation of every site's source text vs the FloatModel reading bit-exact; real shifted/unshifted runs of Tempo, MeanFieldTempo, PtTempo+compute_dynamics (controls), compute_dynamics_with_field, compute_correlations with logged callable arguments (1e-12), values (1e-9), labels (1e-12) and bit-exact agreement of logged arguments/labels/steps with the generated expressions.",
   ref="§4 C15",
   note=TB + "the TimeExprs role/sink tables in tools/translate.py (names as data flow); binary64 model without overflow/subnormals; quad_vec nodes affine in its bounds and the tensor-network update not reading time are assumed (checked by the differential runs); the effect of the O(ulp) time residue on state values is measured, not proved."),
 "C16": dict(
   technique="Lean 4 proof over an executable model of process-tensor persistence, tied to the source by the FileFlags translator fragment and an exact differential run",
   text="Tensors are modelled as (shape, flat data) and the HDF5 file as attributes plus datasets; _set_data_and_shape/_get_data_and_shape, export(), import_process_tensor (both types) and FileProcessTensor are modelled at the level of the h5py operations issued. Proved for every process tensor (any number/shape of MPO and cap tensors, with or without dt/transforms): get(set t)=t with the sentinel collision characterised exactly; import(export pt) preserves length, dt, dimension, transforms, name, description, every MPO and cap tensor, bond dimensions and initial tensor None, for the 'simple' import as equality of the whole object; the imported object meets compute_dynamics' preconditions; and for ANY sequence of set_* calls a file-backed and an in-memory process tensor hold the same tensor in every written slot. export()/_create_file statement order, modes, the flag tests and SimpleProcessTensor.set_initial_tensor (symbolically executed) are regenerated from the source each run; real h5py datasets, real exports/imports, compute_dynamics/correlations/gradient/PT-TEBD on imported tensors and file-backed vs in-memory PT-TEMPO are compared with the model.",
   ref="§4 C16",
   note=TB + "h5py stores complex128/int32 variable-length rows bit-exactly and new rows are empty; numpy reshape on logical C-order content; entries finite or NaN. Equality of the tensors PT-TEMPO computes in two runs is observed via gauge-invariant results (1e-12), not proved."),
 "C17": dict(
   technique="Lean 4 proof over an op-trace/crash-prefix model of process-tensor files, tied by the FileFlags translator fragment and a complete enumeration of crash points on the real code",
   text="The writer is the list of h5py operations issued by FileProcessTensor.__init__/_create_file, set_*_tensor, close(), export() and a file-backed PT-TEMPO run; a crash after i operations leaves an unreadable file or the replay of a prefix; the reader's outcome is fail/warn/clean. Python `is True` versus truthiness is modelled with distinct constructors for True and numpy.True_. Proved for every writer (any number and order of tensors), every crash point and every persisted prefix: before close() starts the file never opens silently; at any point a silently opening file is the complete file; a completed close yields no warning, a cleared flag and complete content; mode='write' never clobbers an existing path; remove() deletes only when entitled; readers never alter a file. The flag comparisons, modes, _removeable assignments and statement orders are extracted from the source every run. A child process is killed after each h5py operation (with and without flush) and the surviving file re-imported; flushed states and the clean close must equal the model exactly, unflushed ones must be among the outcomes the model allows.",
   ref="§4 C17",
   note=TB + "Assumption on HDF5 (Model/PTFile.lean H1-H4, CrashState): after a crash the file is unreadable or reflects a prefix of the operations issued, truncation/creation by the open call is synchronous, h5py returns boolean attributes as numpy.bool_, open modes r/x/w behave as documented."),
 "C18": dict(
   technique="Lean 4 proof over a model regenerated from source (translator) + differential correspondence",
   text="Operand order of every control composition, the float-time->step expression, the tensor-leg wiring of both superoperator applications and the statement order of the compute_dynamics and PtTebd step loops are regenerated from the source into Lean on every run. Theorems proved for all step counts, control assignments and call histories: each control acts exactly once, at its step, before (pre) or after (post) the recorded state, first and last step included; get_controls is fully characterised, each landing call contributing exactly one factor; same-key stacks and ChainControl stacks act in insertion order; float times act at the round-half-even nearest step with explicit binary64 error bound; identity controls change nothing; PtTebd follows the same pre/post rules per site. The executable model is run against the real Control, ChainControl, compute_dynamics and PtTebd on generated schedules (every step 0..N, pre/post, int/float keys, stacks 1-3, non-trace-preserving maps, 2-3 sites) comparing all recorded states. Insertion order for int- and float-keyed controls on one step does not hold (known finding); the theorem is stack_order_partial.",
   ref="§4 C18",
   note=TB + "exact binary64 model without overflow/subnormal/NaN, dt>0; Array-based matrix instance assumed to be matrix multiplication (compared with numpy on every case); PtTebd nn-gate layers/process tensors enter as arbitrary maps (correspondence only without environments, product states); expm propagators shipped to the model as data."),
 "C07": dict(
   technique="Lean 4 proof on an executable model of the time bookkeeping + source translator (CorrTimes) + exhaustive differential correspondence with tagged values",
   text="For every number of operators and every list of time specifications, the Lean theorem `aligned` shows that an entry of the array returned by compute_correlations_nt is NaN exactly when the steps at its indices are not time ordered and otherwise is the value computed for exactly those steps; `axes_grid` shows the returned axes are start+dt*step of the parsed steps, `parse_interval`/`parse_list`/`parse_in_range` cover intervals in either direction and lists in any order, `anti_index`/`anti_conj` cover the anti ordering, `dt_governs` that the dt labelling the axes is the dt of the propagators. The arithmetic of _parse_times, the mask/index write-back shape, the order test and the dt keyword plumbing are regenerated from the source on every run, so the proofs break when the code changes (they did on the four repaired defects). The control flow of the model is compared with the real code on every int/slice/short list/float/interval spec over grids N<=4 (quick) / N<=6 (thorough) and on every pair of distinct parsed step lists (N<=3 / N<=5), ordered and anti, plus sampled 3-4 operator calls, with bit-exact axes and per-entry step tuples; unmodified runs with a time-dependent system confirm the value tagging.",
   ref="§4 C07",
   note=TB + "tagged stand-in for _compute_ordered_nt_correlations (cross-checked by unwrapped runs); binary64 model without overflow/NaN, dt != 0; numpy/CPython indexing semantics checked by enumeration only; values abstract (contraction correctness is C03/C18), Hermiticity preservation assumed in anti_conj (C04). bath_dynamics: the operand order of the rebuilt coupling operator, the compute_correlations feed, the slices and every kernel cell are regenerated (CorrBath) and proved (coup_op_rebuilt, sys_corr_feeds, kernel_cell_exact, kernel_diag_exact; the degenerate diagonal cell only for the symmetric sum the real kernel uses: kernel_diag_degenerate_partial); NOT shown: that the assembled kernels give the displaced-oscillator closed form (tested in search only)."),
 "C08": dict(
   technique="Lean 4 proof (exact multilinearity / adjointness by induction, dual numbers) + translator (GradWiring) + exact-rational tensor correspondence",
   text="The objective of state_gradient is modelled as target x prod(steps) x rho0 over an arbitrary commutative ring. For every number of steps, bond dimension and number of environments it is proved that replacing any half-step propagator P_k by P_k+Delta changes Z by exactly the contraction of the adjoint tensor (forward tensor x MPO x specification backward tensor) with Delta. Over the dual numbers K[eps] the eps-coefficient of Z equals the value _chain_rule computes. For one and two environments the tensors the code builds (axis numbers, leg swaps, environment order of the backward pass, edge bookkeeping, chain-rule wiring - all regenerated from the source on every run) are proved equal to the specification ones. The theorem for two non-commuting environments needs the backward pass to visit the environments in reversed order, which exposed and now guards the order defect. The reported dynamics are proved equal to compute_dynamics' contraction. Every run also compares the real state_gradient's states, stored forward/backward/adjoint tensors and final gradient with the model on random hand-built process tensors to 1e-9.",
   ref="§4 C08",
   note=TB + "tensornetwork's `@`/reorder_edges axis conventions (pinned numerically by the correspondence); scipy expm and numdifftools enter as given arrays (their accuracy is not shown); code=spec proved for 1-2 environments; controls not modelled."),
 "C09": dict(
   technique="Lean 4 proof over a model wired from translator-generated call arguments + differential correspondence with argument logging",
   text="Every time, step index, state list and field value that MeanFieldTempo (+backend) and compute_dynamics_with_field hand to the user's field_eom, to the propagators and to the tensor-network step is regenerated from the source as Lean definitions; the executable models of both loops are built only from these. Theorems prove, for all equations of motion, start times, dt, numbers of systems and steps (including 0) and both record_all settings, that the two methods return identical (states, field) records and make the same sequence of field_eom evaluations, that the field update is Heun's rule with stages at (t_n, states_n) and (t_n+dt, states_n+1), that it is exact for equations linear in time, and that field-independent propagators reduce each system to plain TEMPO / compute_dynamics. The correspondence runs both real methods with logging wrappers on 1-3 systems of different dimensions and compares logged times bit-exactly and fields to 1e-10 with the model evaluated on the same states, and the two real methods with each other.",
   ref="§4 C09",
   note=TB + "translator fragment MeanFieldTimes (shape-checked), binary64 model (normal range), purity of the user's callables, hypothesis hnet (process tensors correspond to the baths; C02), abstract tensor-network/propagator step, exact arithmetic for field values; mft_linear_exact assumes an exactly representable grid (otherwise stage_times_accurate bounds the time error); no controls."),
 "C10": dict(
   technique="Lean 4 proof on a translator-tied executable model + differential correspondence",
   text="Theorems for all chain lengths: from the generated site factors and Trotter layer sequences every site Liouvillian and every coupling gets exactly dt/2 per propagator; from the generated read/write sets the sequential loop, Executor.map and every completion order of a layer give the same augmented MPS; uncoupled chains evolve as the product of the single-site compute_dynamics steps (same operation sequence, PT.mpoStep); two-site and commuting-gate chains reduce to one exact gate per bond; norm and partial-trace consistency of reduced states. The model is regenerated from the source on every run and compared with the real back-end (layer tables, per-gate copied/replaced tensors and provenance under all completion permutations, dense evolution with real tensors, three execution modes in fresh interpreters).",
   ref="§4 C10",
   note=TB + "expm laws (one-parameter group, expm(A x 1 + 1 x B)=expm A x expm B) as hypotheses; SVD truncation modelled by its exact limit; Executor.map order and pool/pickling runtime; ControlCompose fragment (C18) for the step order; dt/2, dt/4 exact in binary64."),
 "C11": dict(
   technique="Lean 4 proof on an imaginary-time path-sum model + translator fragment GibbsLoop + exact-rational correspondence with the real TIBaseBackend/GibbsTempo",
   text="The Gibbs backend is modelled as a path sum over system basis states whose propagator orientations, stored-array orientation, factor formulas, coefficient cells, loop bound and thermal integrands are regenerated from the source on every run. Proved for all dimensions and step counts: diagonal Hamiltonians give diagonal Boltzmann-type states with exponent (summed Matsubara cells = eta(n dtau)-eta(0)) independent of the number of steps; at zero coupling the stored state is q^(2k)=expm(-k dtau H) for any (complex Hermitian) H, which only type-checks if the source stores the transposed backend arrays; trace one after normalisation, Hermiticity by path reversal; compute() is idempotent from any object state; the eta integrand at tau=1/T is beta J/omega and the large-frequency fall-back is accurate to O(exp(-omega/T)) also in imaginary time. The correspondence ships the real propagator and factor tables as exact rationals and compares dynamics, get_state, backend.data (identity and random initial arrays), coefficient cells, summed cells vs direct quadrature, time step, labels and counters after repeated compute() calls; hypotheses of the theorems are evaluated on the real tensors.",
   ref="§4 C11",
   note=TB + "modelled not verified: np.exp homomorphism, scipy expm(-H dtau/2), QUADPACK returning the integral, float time arguments denoting grid points, SVD truncation at epsrel 1e-13. Not shown: positivity, continuity in coupling strength, index wiring of the MPS contraction (correspondence only)."),
 "C12": dict(
   technique="Lean 4 proof over source-regenerated definitions (translator fragment BathShapes) + differential correspondence with the real code",
   text="The difference formulas of CustomSD.correlation_2d_integral, the dblquad region of CustomCorrelations, the integrand expressions of correlation()/eta_function() (zero-temperature, thermal, large-frequency fall-back), the cutoffs and PowerLawSD's j-function are regenerated from oqupy/bath_correlations.py on every run. About them it is proved for all parameters: the shapes are the eta-cells of the time grid and tile (cells of the first n steps = whole triangle, rectangle additivity); for every continuous C with eta''=C the 2D integral over the documented region equals the difference formula (Mathlib interval integrals, all cell positions, real and imaginary time); C(-tau)=conj C(tau) pointwise and for any conjugation-compatible quadrature; the thermal kernels are the documented coth forms; the fall-back branch drops exactly the stand-alone exp(-w/T) terms with explicit error bounds in real and imaginary time; Re of the eta integrand is >= 0 (>= -eps*J/w^2 in the fall-back branch); Matsubara integrands are real; PowerLawSD = CustomSD with the power-law j. Each run compares the real code with the generated definitions (exact-rational shape evaluation with bit-exact time arguments, integrand closures in binary64 on both sides of the guard) and with direct numerical integration of correlation(), analytic cell integrals of finite-mode and exponential CustomCorrelations, tiling, symmetry, positivity and Matsubara reality.",
   ref="§4 C12",
   note=TB + "Mathlib (interval integral, FTC, Complex.exp); Lean Float/libm vs numpy at 1e-12; FloatModel binary64 for time arguments. Assumed, not proved: QUADPACK returns the integral of the integrand it is given (observed: scipy's default epsabs=1.49e-8 caps accuracy for alpha<~1e-3); differentiation under the omega-integral; Gamma closed form (search oracle only). Tolerance of the direct-integration comparison: 1e-6 of the cell + 2e-5 of the eta terms + 20 epsabs per term."),
 "C13": dict(
   technique="Lean 4 proof over a model regenerated from source (translator) + differential correspondence",
   text=("Step-count and label expressions of all APIs are regenerated from the source into Lean on every run; "
         "theorems (labels = start+k*dt for every API and k, final-only label, one step-count rule for "
         "Tempo/MeanFieldTempo/PtTempo, exhaustive kernel-checked decimal lattice m<=1000, unbounded "
         "grid theorem for any rounding with relative error <= u, Dynamics.add keeps times sorted/aligned "
         "for every add-history, compute-history reaches exactly the grid 0..n for Tempo/MeanFieldTempo and - with the "
         "regenerated count of compute_step() calls of PtTebd.compute - for PtTebd for any split of compute(end_step) calls "
         "and any start step; an explicitly given num_steps (zero included) is the number of steps taken by "
         "compute_dynamics/_with_field/compute_gradient_and_dynamics, None means the shortest finite process tensor, too long is "
         "refused) are re-checked against them; "
         "the generated functions and the history model are run against the real code bit-exactly."),
   ref="§4 C13",
   note=TB + "exact binary64 model on rationals without overflow/subnormals/NaN; CPython bisect contract; "
        "h: labels monotone needs dt>0 (enforced by TempoParameters)."),
}

# coverage added while testing against seeded changes (appended to the texts above)
ADDED = {
 "C01": " Also: tcut->dkmax (tcut_general, dkmax_tcut); ties include finite-mode baths (commensurate and incommensurate), repeated coupling eigenvalues, rotated bases, both unique settings and continued propagation. Always run since round 8: a weak bath (alpha=1e-7) with coupling eigenvalues +-1000 against the ohmic closed form.",
 "C02": " Also tied each run: Tempo._influence is bit-exactly influence_matrix of the object's own data (wrappers regenerated: nothing kept between requests), additional correlation times that are not multiples of dt beyond the cut-off, non-smooth (pulsed) time-dependent systems, file-backed process tensors with complex transforms, final-state-only recording, long runs beyond the cut-off.",
 "C03": " Also: initial states in every memory layout; process tensors with exactly one transform (transforms_stored_independently); mixed-key control stacks (every control acts) through C18's oracles. Always run since round 8: process tensors built from one refilled scratch array (both classes, MPO and cap tensors).",
 "C04": " Also (positivity sector, Props/C04Pos.lean): every sequence of Kraus-form steps keeps the state of Gram form (positive semidefinite), Hermitian and trace-one (kraus_steps_physical, kraus_prefix_physical, gram_is_physical); the driver evaluates IsKrausStep on every propagator get_propagators returns (Kraus operators from the Choi matrix) and runVec against compute_dynamics without a bath; ancilla-built process tensors (rank-3/rank-4, both classes) are physical including positivity at every step; the generated SystemChain site terms are of GKSL form with a first-order Kraus identity (Props/C10Gksl.lean). Positivity with a non-trivial Gaussian bath stays not shown.",
 "C05": " Also tied: decay channels with complex Lindblad operators under complex basis changes, nearly diagonal coupling operators, PT-TEMPO on the rotated problem. Always run since round 8: two mean-field species with isospectral non-diagonal couplings; Hadamard- and Fourier-rotated couplings with unique=True.",
 "C08": " Also: which half step's parameters each half-step derivative is computed from is regenerated (derivative_rows_match); mixed parameter tables with M in {2,3}; memo-key completeness; non-Hermitian and callable targets.",
 "C09": " Also: times handed to time-dependent dissipators (plain_dissipator_times, diss_args_current_time), default arguments regenerated (defaults_agree), stationary fields, unique=True with non-diagonal couplings, initial states in every memory layout.",
 "C10": " Also: every gate of a layer acts on its own bond (gate_on_own_bond); a site gate applies C, not its transpose (site_gate_applies_matrix); ChainControl runs with non-symmetric maps; inspection between steps; the generated site Liouvillian is exactly of GKSL form and its Euler step a two-operator Kraus map up to one t^2 term (site_dissipation_is_gksl, site_hamiltonian_is_commutator, site_liouvillian_first_order_kraus).",
 "C11": " Also: the projection onto distinct coupling eigenvalues sums each class (unique_sums_class); repeated eigenvalues, zero and identity coupling operators; repeated compute(). Always run since round 8: energy-offset invariance (H + c*1, |c|/T up to 30); one commuting model per cut-off type in the search.",
 "C12": " Also: scale covariance in the time unit (1e-9..1e6) and coupling covariance (alpha down to 1e-6) at full relative strength (these exposed and now guard the repaired defects 68dc845, 86fb9c2); the quadrature variable and epsabs are regenerated (quadrature_variable); memo passes its arguments unchanged; cells straddling the diagonal, rectangles narrower than delta, tiling identities; Matsubara offset triangles. Search since round 8: exponents next to an integer (zeta = 1 +- 2^-40), compact-support CustomCorrelations returning a real 0.0.",
 "C14": " Also: the rollback restores exactly the snapshot (exact flag), both memory regimes; results are read between the calls; a faulted call raises under every progress type; GibbsTempo/PtTempo repeated compute.",
 "C15": " Also: every evaluation of a user callable at a fixed absolute time is regenerated with what is kept of it (all_probes_ok, probe_shift_invariant), including module-level probe tuples; actual->formal role binding across the parameter-guessing helpers and linspace sample times; runs far from t=0; callables whose return type changes in time; localised pulses.",
 "C16": " Also: 'simple' import copies the raw tensors and the stored caps (import_copies_raw); process tensors with exactly one transform, user-defined caps or none; use-overwrite-export histories judged against a fresh object. Always run since round 8: compute_caps() of file-backed vs in-memory process tensors on hand-built tensors with square non-unitary and non-square transforms.",
 "C17": " Also: the writing flag is cleared only by close() and compute_caps() keeps it (flag_cleared_only_by_close, compute_caps_keeps_flag); the reader's flag test and close()'s reset are unconditional (flag_tests_unconditional); every creating entry point x every state of the path (entry_points_no_clobber); writers of another/absent version; cap-less clean closes; interruptions by exceptions.",
 "C18": " Also: zero steps (zero_steps); controls added after PtTebd construction act (controls_added_after_construction_act); float times of one step act in ascending time; interleaved chain stacks; controls next to process tensors; homogeneity/linearity in the control map checked as a relation between real runs.",
 "C19": " Also: __exit__ never suppresses an exception and every failure reaches the caller (exit_never_suppresses, failure_reaches_caller); every executor is with-scoped (spawn table); schedule exploration on the real class from its own source lines; faults in parallel gate layers. Since round 8 a gradient runner with eight explicit parameters (late faults in the chain rule).",
 "C20": " Also: caller-owned parameter tables are recognised by content, not identity (arg_store_sound); memo placement module/instance under shallow and deep copies; getters never write into stored tensors; caller arrays kept by TwoTimeBathCorrelations; arrays returned by oqupy.operators are fresh (returns_fresh). Always run since round 8: used-vs-fresh histories on TwoTimeBathCorrelations and on nearly equal tiny Systems; memoised classes must not override __eq__/__hash__ (translator obligation).",
}

NOT_YET = "not yet built in this revision (design in DESIGN.md §4); no check is registered, nothing is claimed"

def main():
    props = [json.loads(l) for l in open(os.path.join(V, "properties.jsonl"))]
    checks, na = [], []
    for p in props:
        pid = p["id"]
        if pid in CLAIMED:
            c = CLAIMED[pid]
            checks.append({
                "property_id": pid,
                "quick_cmd": "./check %s --tier quick" % pid,
                "thorough_cmd": "./check %s --tier thorough" % pid,
                "evidence_file": "/verif/evidence/%s.json" % pid,
                "replay_cmd_template": "./check %s --replay {path}" % pid,
                "engine": "lean4-proof+correspondence",
                "level_claimed": {"category": c.get("category", "proof"), "text": c["text"] + ADDED.get(pid, ""),
                                  "design_ref": c["ref"]},
                "level_note": c["note"],
                "technique": c["technique"],
            })
        else:
            na.append({"property_id": pid, "reason": NA.get(pid, NOT_YET)})
    man = {
        "version": 1,
        "setup_cmd": "cd /verif && (/venv/bin/python tools/translate.py --repo /repo --out lean/OQuPyVerif/Generated || true) && cd lean && lake build",
        "hooks": {"guard": "OQUPY_VERIF", "enable": "no source hooks: the harness wraps module attributes in-process; OQUPY_VERIF=1 is exported by ./check but read by nothing in /repo",
                  "baseline_off_cmd": BASE, "source_commits": [], "add_only": True},
        "engines": [{"name": "lean4-proof+correspondence", "path": "/verif/check",
                     "serves_properties": sorted(CLAIMED),
                     "kind_free_text": "Lean 4 theorems over a model tied to /repo by tools/translate.py (regenerated each run) and by a differential correspondence run (harness/ + lean/Drivers)"}],
        "checks": checks,
        "not_applicable": na,
        "notes": "See DESIGN.md. Defects found and repaired are listed in known_findings.json ('fixed').",
    }
    json.dump(man, open(os.path.join(V, "MANIFEST.json"), "w"), indent=1)

NA = {}
if __name__ == "__main__":
    main()
