#!/usr/bin/env python3
"""Writes /verif/MANIFEST.json from the table below (kept in one place so that the
manifest is always valid and complete w.r.t. properties.jsonl)."""
import json, os
V = os.path.dirname(os.path.dirname(os.path.abspath(__file__)))
BASE = ("cd /repo && /venv/bin/python -m pytest -ra -q -p no:cacheprovider --timeout=900 "
        "--continue-on-collection-errors")
TB = ("Lean 4.33 kernel + axioms propext/Classical.choice/Quot.sound (audited per run); "
      "tools/translate.py and the correspondence harness tie the model to /repo; ")

CLAIMED = {
 "C13": dict(
   technique="Lean 4 proof over a model regenerated from source (translator) + differential correspondence",
   text=("Step-count and label expressions of all APIs are regenerated from the source into Lean on every run; "
         "theorems (labels = start+k*dt for every API and k, final-only label, one step-count rule for "
         "Tempo/MeanFieldTempo/PtTempo, exhaustive kernel-checked decimal lattice m<=1000, unbounded "
         "grid theorem for any rounding with relative error <= u, Dynamics.add keeps times sorted/aligned "
         "for every add-history, compute-history reaches exactly the grid 0..n) are re-checked against them; "
         "the generated functions and the history model are run against the real code bit-exactly."),
   ref="§4 C13",
   note=TB + "exact binary64 model on rationals without overflow/subnormals/NaN; CPython bisect contract; "
        "h: labels monotone needs dt>0 (enforced by TempoParameters)."),
}

NOT_YET = "not yet built in this revision (design in DESIGN.md §4); no check is registered, nothing is claimed"

def main():
    props = [json.loads(l) for l in open(os.path.join(V, "properties.jsonl"))]
    checks, na = [], []
    for p in props:
        pid = p["id"]
        if pid in CLAIMED:
            c = CLAIMED[pid]
            checks.append({
                "property_id": pid,
                "quick_cmd": "./check %s --tier quick" % pid,
                "thorough_cmd": "./check %s --tier thorough" % pid,
                "evidence_file": "/verif/evidence/%s.json" % pid,
                "replay_cmd_template": "./check %s --replay {path}" % pid,
                "engine": "lean4-proof+correspondence",
                "level_claimed": {"category": c.get("category", "proof"), "text": c["text"],
                                  "design_ref": c["ref"]},
                "level_note": c["note"],
                "technique": c["technique"],
            })
        else:
            na.append({"property_id": pid, "reason": NA.get(pid, NOT_YET)})
    man = {
        "version": 1,
        "setup_cmd": "cd /verif && /venv/bin/python tools/translate.py --repo /repo --out lean/OQuPyVerif/Generated && cd lean && lake build",
        "hooks": {"guard": "OQUPY_VERIF", "enable": "no source hooks: the harness wraps module attributes in-process; OQUPY_VERIF=1 is exported by ./check but read by nothing in /repo",
                  "baseline_off_cmd": BASE, "source_commits": [], "add_only": True},
        "engines": [{"name": "lean4-proof+correspondence", "path": "/verif/check",
                     "serves_properties": sorted(CLAIMED),
                     "kind_free_text": "Lean 4 theorems over a model tied to /repo by tools/translate.py (regenerated each run) and by a differential correspondence run (harness/ + lean/Drivers)"}],
        "checks": checks,
        "not_applicable": na,
        "notes": "See DESIGN.md. Defects found and repaired are listed in known_findings.json ('fixed').",
    }
    json.dump(man, open(os.path.join(V, "MANIFEST.json"), "w"), indent=1)

NA = {}
if __name__ == "__main__":
    main()
