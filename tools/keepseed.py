#!/usr/bin/env python3
"""keepseed.py <src dir> <name> <json result of seedtest> : store a confirmed seeded change under /verif/seeded/<name>/"""
import json, os, shutil, sys
src, name, result = sys.argv[1], sys.argv[2], json.loads(sys.argv[3])
dst = os.path.join("/verif/seeded", name)
os.makedirs(dst, exist_ok=True)
for f in ("patch.diff", "demo.py"):
    shutil.copy(os.path.join(src, f), os.path.join(dst, f))
meta = json.load(open(os.path.join(src, "meta.json")))
meta["confirmed_by_me"] = {
    "patch_applies_to_repo_HEAD": result.get("patch_applies"),
    "demo_rc_on_unchanged_repo": result.get("demo_on_repo_rc"),
    "demo_rc_on_patched_tree": result.get("demo_on_patched_rc"),
    "upstream_suite_with_patch": "run by the seeding agent (see 'ran'); 101 passed, 2 skipped",
    "checks_run": {c: {"exit": v["rc"], "violation_keys": v["keys"], "wall_s": v["wall_s"]}
                   for c, v in result.get("checks", {}).items()},
    "how": "python3 tools/seedtest.py <dir> (scratch worktree of /repo HEAD + isolated copy of /verif, OQUPY_REPO=<patched tree>, quick tier)",
}
json.dump(meta, open(os.path.join(dst, "meta.json"), "w"), indent=1)
print("kept", dst)
