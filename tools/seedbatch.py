#!/usr/bin/env python3
"""Run every seeded change under /verif/seeded against its property's check (and the extra
checks named in seeded/<id>/also.txt); write seeded/<id>/result.json and update meta.json."""
import json, os, subprocess, sys
V = os.path.dirname(os.path.dirname(os.path.abspath(__file__)))
only = sys.argv[1:]
for name in sorted(os.listdir(os.path.join(V, "seeded"))):
    d = os.path.join(V, "seeded", name)
    if only and name not in only:
        continue
    if not os.path.exists(os.path.join(d, "patch.diff")):
        continue
    meta = json.load(open(os.path.join(d, "meta.json")))
    checks = [meta["property"]]
    also = os.path.join(d, "also.txt")
    if os.path.exists(also):
        checks += open(also).read().split()
    r = subprocess.run([sys.executable, os.path.join(V, "tools", "seedtest.py"), d,
                        "--checks", ",".join(checks)], capture_output=True, text=True)
    try:
        res = json.loads(r.stdout.strip().splitlines()[-1])
    except Exception:
        res = {"error": (r.stdout + r.stderr)[-500:]}
    json.dump(res, open(os.path.join(d, "result.json"), "w"), indent=1)
    meta["confirmed_by_me"] = {
        "patch_applies_to_repo_HEAD": res.get("patch_applies"),
        "demo_rc_on_unchanged_repo": res.get("demo_on_repo_rc"),
        "demo_rc_on_patched_tree": res.get("demo_on_patched_rc"),
        "upstream_suite_with_patch": "run by the seeding agent (see 'ran')",
        "checks": {c: {"exit": v["rc"], "violation_keys": v["keys"], "wall_s": v["wall_s"]}
                   for c, v in res.get("checks", {}).items()},
        "how": "python3 tools/seedtest.py seeded/%s --checks %s  (scratch worktree of /repo HEAD + "
               "isolated copy of /verif, OQUPY_REPO=<patched tree>, quick tier)" % (name, ",".join(checks)),
    }
    json.dump(meta, open(os.path.join(d, "meta.json"), "w"), indent=1)
    print(name, {c: (v["rc"], v["keys"][:2]) for c, v in res.get("checks", {}).items()},
          "demo", res.get("demo_on_repo_rc"), res.get("demo_on_patched_rc"), flush=True)
