#!/usr/bin/env python3
"""Prints the markdown table of seeded changes (DESIGN.md §9.5) from seeded/*/meta.json + result.json"""
import json, os
V = os.path.dirname(os.path.dirname(os.path.abspath(__file__)))
print("| seed | property | change (summary) | needs | caught by | first keys |")
print("|---|---|---|---|---|---|")
for name in sorted(os.listdir(os.path.join(V, "seeded"))):
    d = os.path.join(V, "seeded", name)
    if not os.path.exists(os.path.join(d, "result.json")):
        continue
    meta = json.load(open(os.path.join(d, "meta.json")))
    res = json.load(open(os.path.join(d, "result.json")))
    caught = [c for c, v in res.get("checks", {}).items() if v["rc"] == 1]
    missed = [c for c, v in res.get("checks", {}).items() if v["rc"] != 1]
    keys = []
    for c in caught:
        keys += ["%s: %s" % (c, k[:70]) for k in res["checks"][c]["keys"][:1]]
    cb = ", ".join(caught) if caught else "**missed**"
    if caught and missed:
        cb += " (not by %s)" % ", ".join(missed)
    def cut(s, n):
        s = " ".join(str(s).split()).replace("|", "/")
        return s if len(s) <= n else s[:n - 1] + "…"
    print("| %s | %s | %s | %s | %s | %s |" % (name, meta.get("property"), cut(meta.get("summary", ""), 150),
                                               cut(meta.get("needs", ""), 120), cb, cut("; ".join(keys), 140)))
