#!/usr/bin/env python3
"""Translator: /repo Python source  ->  Lean 4 definitions (DESIGN.md §2.2).

Reads the anchored source files with `ast` and regenerates
lean/OQuPyVerif/Generated/<Fragment>.lean.  It never repairs what it reads: a
fragment whose shape it does not understand is an error (exit 2), which the
check treats as a broken tie.

Core: a translator for *small arithmetic function bodies* --
  statements : docstring | x = e | return e | if c: <block ending in return> |
               if c: ... else: ...  (both ending in return) | assert (skipped, recorded)
  expressions: names, int/float constants, + - * / // %, unary -, comparisons,
               and/or/not, int() float() abs() max() min() round(),
               np.round np.floor np.ceil np.abs, np.arange(n) (element index `k`),
               len(x) (free Int variable len_x), calls of other translated functions,
               attribute chains  self._a.b  ->  parameter  `b`
  types      : Int (Python int) and Flt (binary64, a rational in the FloatModel);
               inferred from annotations, constants and the typing table given
               per fragment.
"""
import argparse
import ast
import os
import sys


class Untranslatable(Exception):
    pass


def attr_chain(node):
    parts = []
    while isinstance(node, ast.Attribute):
        parts.append(node.attr)
        node = node.value
    if isinstance(node, ast.Name):
        parts.append(node.id)
        return list(reversed(parts))
    return None


def lean_ident(s):
    s = s.lstrip("_")
    reserved = {"end", "from", "at", "in", "do", "then", "else", "if", "fun", "let",
                "have", "show", "with", "match", "open", "def", "theorem", "where"}
    if s in reserved:
        s = s + "'"
    return s


class FnTranslator:
    """Translate one function body (or a single expression) to a Lean term."""

    def __init__(self, types, helpers=None, attr_last=True):
        self.types = dict(types)          # name -> 'Int' | 'Flt' | 'Bool'
        self.helpers = helpers or {}      # python callee name -> (lean name, [arg types], ret type)
        self.free = []                    # free variables in order of first use
        self.asserts = []

    # -- variables -------------------------------------------------------
    def var(self, name, default=None):
        lname = lean_ident(name)
        if lname not in self.types:
            if default is None:
                raise Untranslatable("no type known for variable %r" % name)
            self.types[lname] = default
        if lname not in self.free and lname not in self.bound:
            self.free.append(lname)
        return lname, self.types[lname]

    bound = ()

    # -- expressions -----------------------------------------------------
    def to_flt(self, t):
        term, ty = t
        if ty == "Flt":
            return term
        if ty == "Int":
            return "(ofInt %s)" % term
        raise Untranslatable("cannot use %s as float" % ty)

    def expr(self, e):
        if isinstance(e, ast.Constant):
            if isinstance(e.value, bool):
                return ("true" if e.value else "false"), "Bool"
            if isinstance(e.value, int):
                return "(%d : Int)" % e.value, "Int"
            if isinstance(e.value, float):
                p, q = e.value.as_integer_ratio()
                return "(mkRat (%d) %d)" % (p, q), "Flt"
            raise Untranslatable("constant %r" % (e.value,))
        if isinstance(e, ast.Name):
            return self.var(e.id)
        if isinstance(e, ast.Attribute):
            ch = attr_chain(e)
            if ch is None:
                raise Untranslatable(ast.dump(e))
            if ch[:1] == ["np"] and ch[1:] == ["inf"]:
                raise Untranslatable("np.inf")
            return self.var(ch[-1])
        if isinstance(e, ast.UnaryOp):
            t, ty = self.expr(e.operand)
            if isinstance(e.op, ast.USub):
                return "(-%s)" % t, ty
            if isinstance(e.op, ast.Not):
                return "(!%s)" % t, "Bool"
            raise Untranslatable(ast.dump(e.op))
        if isinstance(e, ast.BinOp):
            a = self.expr(e.left)
            b = self.expr(e.right)
            op = e.op
            both_int = a[1] == "Int" and b[1] == "Int"
            if isinstance(op, (ast.Add, ast.Sub, ast.Mult)):
                sym = {ast.Add: "+", ast.Sub: "-", ast.Mult: "*"}[type(op)]
                fn = {ast.Add: "fadd", ast.Sub: "fsub", ast.Mult: "fmul"}[type(op)]
                if both_int:
                    return "(%s %s %s)" % (a[0], sym, b[0]), "Int"
                return "(%s %s %s)" % (fn, self.to_flt(a), self.to_flt(b)), "Flt"
            if isinstance(op, ast.Div):
                return "(fdiv %s %s)" % (self.to_flt(a), self.to_flt(b)), "Flt"
            if isinstance(op, ast.FloorDiv) and both_int:
                return "(Int.fdiv %s %s)" % (a[0], b[0]), "Int"
            if isinstance(op, ast.Mod) and both_int:
                return "(Int.fmod %s %s)" % (a[0], b[0]), "Int"
            raise Untranslatable("operator " + ast.dump(op))
        if isinstance(e, ast.Compare):
            if len(e.ops) != 1:
                raise Untranslatable("chained comparison")
            a = self.expr(e.left)
            b = self.expr(e.comparators[0])
            sym = {ast.Lt: "<", ast.LtE: "≤", ast.Gt: ">", ast.GtE: "≥",
                   ast.Eq: "==", ast.NotEq: "!="}.get(type(e.ops[0]))
            if sym is None:
                raise Untranslatable("comparison " + ast.dump(e.ops[0]))
            if a[1] == "Int" and b[1] == "Int":
                x, y = a[0], b[0]
            else:
                # comparison of floats/ints is exact on the denoted rationals
                x = a[0] if a[1] == "Flt" else "((%s : Int) : Rat)" % a[0]
                y = b[0] if b[1] == "Flt" else "((%s : Int) : Rat)" % b[0]
            if sym in ("==", "!="):
                return "(%s %s %s)" % (x, sym, y), "Bool"
            return "(decide (%s %s %s))" % (x, sym, y), "Bool"
        if isinstance(e, ast.BoolOp):
            parts = [self.expr(v) for v in e.values]
            if any(p[1] != "Bool" for p in parts):
                raise Untranslatable("non-boolean operands of and/or")
            sym = " && " if isinstance(e.op, ast.And) else " || "
            return "(" + sym.join(p[0] for p in parts) + ")", "Bool"
        if isinstance(e, ast.IfExp):
            c = self.expr(e.test)
            a = self.expr(e.body)
            b = self.expr(e.orelse)
            if a[1] != b[1]:
                a, b = (self.to_flt(a), "Flt"), (self.to_flt(b), "Flt")
            return "(if %s then %s else %s)" % (c[0], a[0], b[0]), a[1]
        if isinstance(e, ast.Call):
            return self.call(e)
        raise Untranslatable("expression " + ast.dump(e)[:200])

    def call(self, e):
        ch = attr_chain(e.func)
        if ch is None:
            raise Untranslatable("call " + ast.dump(e.func)[:100])
        name = ".".join(ch)
        if name == "len":
            (a,) = e.args
            ch2 = attr_chain(a)
            if ch2 is None:
                raise Untranslatable("len of expression")
            return self.var("len_" + lean_ident(ch2[-1]), "Int")
        args = [self.expr(a) for a in e.args]
        if e.keywords:
            raise Untranslatable("keyword arguments in call of " + name)
        if name == "int":
            (a,) = args
            return (a[0], "Int") if a[1] == "Int" else ("(truncInt %s)" % a[0], "Int")
        if name == "float":
            (a,) = args
            return self.to_flt(a), "Flt"
        if name in ("abs", "np.abs"):
            (a,) = args
            if a[1] == "Int":
                return "((%s).natAbs : Int)" % a[0], "Int"
            return "(fabs %s)" % a[0], "Flt"
        if name in ("max", "min"):
            fn = name
            if all(a[1] == "Int" for a in args):
                out = args[0][0]
                for a in args[1:]:
                    out = "(%s %s %s)" % (fn, out, a[0])
                return out, "Int"
            out = self.to_flt(args[0])
            for a in args[1:]:
                out = "(%s %s %s)" % (fn, out, self.to_flt(a))
            return out, "Flt"
        if name in ("np.round", "round") and len(args) == 1:
            (a,) = args
            if a[1] == "Int":
                return a
            if name == "round":      # Python round(float) -> int
                return "(roundHalfEven %s)" % a[0], "Int"
            return "((roundHalfEven %s : Int) : Rat)" % a[0], "Flt"
        if name == "np.floor":
            (a,) = args
            return "((floorInt %s : Int) : Rat)" % self.to_flt(a), "Flt"
        if name == "np.ceil":
            (a,) = args
            return "((ceilInt %s : Int) : Rat)" % self.to_flt(a), "Flt"
        if name == "np.arange" and len(args) == 1:
            self.arange_len = args[0]
            return self.var("k", "Int")
        key = ch[-1]
        if key in self.helpers:
            lname, atypes, rtype = self.helpers[key]
            if len(atypes) != len(args):
                raise Untranslatable("arity of helper " + key)
            conv = []
            for a, ty in zip(args, atypes):
                if ty == "Flt":
                    conv.append(self.to_flt(a))
                elif ty == a[1]:
                    conv.append(a[0])
                else:
                    raise Untranslatable("argument type of helper " + key)
            return "(%s %s)" % (lname, " ".join(conv)), rtype
        raise Untranslatable("call of " + name)

    arange_len = None

    # -- statements ------------------------------------------------------
    def block(self, stmts, ret_type):
        """Translate a statement list that ends in return on every path."""
        if not stmts:
            raise Untranslatable("block falls off the end without return")
        s, rest = stmts[0], stmts[1:]
        if isinstance(s, ast.Expr) and isinstance(s.value, ast.Constant) \
                and isinstance(s.value.value, str):
            return self.block(rest, ret_type)
        if isinstance(s, ast.Assert):
            self.asserts.append(ast.unparse(s.test))
            return self.block(rest, ret_type)
        if isinstance(s, ast.Return):
            t = self.expr(s.value)
            if ret_type == "Flt":
                return self.to_flt(t)
            if t[1] != ret_type:
                raise Untranslatable("return type %s, expected %s" % (t[1], ret_type))
            return t[0]
        if isinstance(s, (ast.Assign, ast.AnnAssign)):
            if isinstance(s, ast.Assign):
                if len(s.targets) != 1 or not isinstance(s.targets[0], ast.Name):
                    raise Untranslatable("assignment target")
                tgt = s.targets[0].id
            else:
                tgt = s.target.id
            t = self.expr(s.value)
            l = lean_ident(tgt)
            self.types[l] = t[1]
            self.bound = tuple(self.bound) + (l,)
            ty = {"Int": "Int", "Flt": "Rat", "Bool": "Bool"}[t[1]]
            return "let %s : %s := %s\n  %s" % (l, ty, t[0], self.block(rest, ret_type))
        if isinstance(s, ast.If):
            c = self.expr(s.test)
            if c[1] != "Bool":
                raise Untranslatable("non-boolean if test")
            saved = (dict(self.types), self.bound)
            a = self.block(s.body, ret_type) if _ends_in_return(s.body) else None
            if a is None:
                raise Untranslatable("if-branch without return")
            self.types, self.bound = dict(saved[0]), saved[1]
            b = self.block(list(s.orelse) + ([] if _ends_in_return(s.orelse) else rest), ret_type)
            return "if %s then\n  %s\n  else\n  %s" % (c[0], a, b)
        raise Untranslatable("statement " + type(s).__name__)


def _ends_in_return(stmts):
    if not stmts:
        return False
    last = stmts[-1]
    if isinstance(last, ast.Return):
        return True
    if isinstance(last, ast.If):
        return _ends_in_return(last.body) and _ends_in_return(last.orelse)
    return False


LTYPE = {"Int": "Int", "Flt": "Rat", "Bool": "Bool"}


class Source:
    def __init__(self, repo):
        self.repo = repo
        self.cache = {}

    def tree(self, rel):
        if rel not in self.cache:
            path = os.path.join(self.repo, rel)
            self.cache[rel] = ast.parse(open(path).read(), filename=path)
        return self.cache[rel]

    def function(self, rel, qual):
        """qual = 'func' or 'Class.method'"""
        node = self.tree(rel)
        for part in qual.split("."):
            found = None
            for ch in node.body:
                if isinstance(ch, (ast.FunctionDef, ast.ClassDef)) and ch.name == part:
                    found = ch
                    break
            if found is None:
                raise Untranslatable("cannot find %s in %s" % (qual, rel))
            node = found
        return node

    def assignment(self, fn, target):
        """The unique `target = expr` statement (at any depth) of a function."""
        hits = []
        for n in ast.walk(fn):
            if isinstance(n, ast.Assign) and len(n.targets) == 1:
                t = n.targets[0]
                if (isinstance(t, ast.Name) and t.id == target) or \
                        (isinstance(t, ast.Attribute) and attr_chain(t) and
                         ".".join(attr_chain(t)) == target):
                    hits.append(n)
        return hits


def emit_def(name, tr, body, ret_type, order=None, doc=None):
    params = order if order is not None else tr.free
    missing = [p for p in tr.free if p not in params]
    if missing:
        raise Untranslatable("%s reads %s which is not in the expected parameter list %s"
                             % (name, missing, params))
    sig = " ".join("(%s : %s)" % (p, LTYPE[tr.types.get(p, "Flt")]) for p in params)
    unused = [p for p in params if p not in tr.free]
    if unused:
        body = "let _unused := (%s)\n  %s" % (", ".join(unused), body)
    out = ""
    if doc:
        out += "/-- %s -/\n" % doc.replace("-/", "- /")
    out += "def %s %s : %s :=\n  %s\n" % (name, sig, LTYPE[ret_type], body)
    return out


def translate_function(src, rel, qual, lean_name, types, ret_type, params, helpers=None):
    fn = src.function(rel, qual)
    tr = FnTranslator(types, helpers)
    for a in fn.args.args:
        if a.arg == "self":
            continue
        la = lean_ident(a.arg)
        if la not in tr.types:
            ann = ast.unparse(a.annotation) if a.annotation is not None else None
            tr.types[la] = {"int": "Int", "float": "Flt", "bool": "Bool"}.get(ann, None) or "Flt"
    body = tr.block(fn.body, ret_type)
    doc = "%s:%d  %s" % (rel, fn.lineno, qual)
    return emit_def(lean_name, tr, body, ret_type, params, doc), tr


def translate_expr(src, rel, qual, target, lean_name, types, ret_type, params,
                   helpers=None, which=None):
    fn = src.function(rel, qual)
    hits = src.assignment(fn, target)
    if which is not None:
        hits = [h for h in hits if which(h)]
    if len(hits) != 1:
        raise Untranslatable("expected exactly one assignment to %s in %s:%s, found %d"
                             % (target, rel, qual, len(hits)))
    tr = FnTranslator(types, helpers)
    t = tr.expr(hits[0].value)
    term = tr.to_flt(t) if ret_type == "Flt" else t[0]
    if ret_type != "Flt" and t[1] != ret_type:
        raise Untranslatable("%s: type %s, expected %s" % (lean_name, t[1], ret_type))
    doc = "%s:%d  %s:  %s = %s" % (rel, hits[0].lineno, qual, target,
                                   ast.unparse(hits[0].value))
    return emit_def(lean_name, tr, term, ret_type, params, doc), tr


HEADER = """/-
  GENERATED by tools/translate.py from /repo's working tree -- do not edit.
  Fragment: %s
-/
import OQuPyVerif.Num.FloatModel
namespace OQuPyVerif.Generated.%s
open OQuPyVerif.FloatModel
set_option linter.unusedVariables false

"""

FRAGMENTS = {}


def fragment(name):
    def deco(f):
        FRAGMENTS[name] = f
        return f
    return deco


# ---------------------------------------------------------------------------
# StepCount  (C13):  how many steps a computation takes and how states are labelled
# ---------------------------------------------------------------------------

def util_helpers(src, out):
    """Translate the time-grid helper(s) of oqupy/util.py if present."""
    helpers = {}
    try:
        fn = src.function("oqupy/util.py", "get_number_of_steps")
    except Untranslatable:
        return helpers
    text, tr = translate_function(
        src, "oqupy/util.py", "get_number_of_steps", "get_number_of_steps",
        {"start_time": "Flt", "end_time": "Flt", "dt": "Flt"}, "Int",
        ["start_time", "end_time", "dt"])
    out.append(text)
    helpers["get_number_of_steps"] = ("get_number_of_steps", ["Flt", "Flt", "Flt"], "Int")
    return helpers


@fragment("StepCount")
def frag_stepcount(src):
    out = []
    helpers = util_helpers(src, out)
    ty = {"start_time": "Flt", "dt": "Flt", "end_time": "Flt", "start_step": "Int",
          "step": "Int", "num_steps": "Int", "len_states": "Int",
          "len_system_states_list": "Int"}
    for cls, pre in (("Tempo", "tempo"), ("MeanFieldTempo", "mft")):
        t, _ = translate_function(src, "oqupy/tempo.py", cls + "._get_num_step",
                                  pre + "_num_step", ty, "Int",
                                  ["start_time", "dt", "start_step", "end_time"], helpers)
        out.append(t)
        t, _ = translate_function(src, "oqupy/tempo.py", cls + "._time",
                                  pre + "_time", ty, "Flt",
                                  ["start_time", "dt", "step"], helpers)
        out.append(t)
    t, _ = translate_expr(src, "oqupy/pt_tempo.py", "PtTempo.__init__", "tmp_num_steps",
                          "pt_num_steps", ty, "Int", ["start_time", "dt", "end_time"], helpers)
    out.append(t)
    # labels of compute_dynamics / compute_dynamics_with_field / compute_gradient_and_dynamics
    for rel, qual, pre, lenvar in (
            ("oqupy/system_dynamics.py", "compute_dynamics", "cd", "len_states"),
            ("oqupy/system_dynamics.py", "compute_dynamics_with_field", "cdwf",
             "len_system_states_list"),
            ("oqupy/gradient.py", "compute_gradient_and_dynamics", "grad", "len_states")):
        fn = src.function(rel, qual)
        hits = src.assignment(fn, "times")
        if len(hits) != 2:
            raise Untranslatable("%s: expected two assignments to `times`" % qual)
        for h in hits:
            tr = FnTranslator(ty, helpers)
            v = h.value
            if isinstance(v, ast.List):          # record_all = False : [ expr ]
                if len(v.elts) != 1:
                    raise Untranslatable("%s: final-only `times` is not a one-element list" % qual)
                term = tr.to_flt(tr.expr(v.elts[0]))
                name = pre + "_label_final"
                order = ["start_time", "dt", "num_steps", lenvar]
            else:                                # record_all = True : vector over k
                term = tr.to_flt(tr.expr(v))
                if tr.arange_len is None:
                    raise Untranslatable("%s: record_all `times` is not built from np.arange" % qual)
                name = pre + "_label_all"
                order = ["start_time", "dt", "num_steps", lenvar, "k"]
                tr2 = FnTranslator(ty, helpers)
                ar = [n for n in ast.walk(v) if isinstance(n, ast.Call)
                      and attr_chain(n.func) == ["np", "arange"]]
                ln = tr2.expr(ar[0].args[0])
                out.append(emit_def(pre + "_label_count", tr2, ln[0], "Int",
                                    ["num_steps", lenvar],
                                    "length of the np.arange in the record_all branch"))
            doc = "%s:%d  %s:  times = %s" % (rel, h.lineno, qual, ast.unparse(v))
            out.append(emit_def(name, tr, term, "Flt", order, doc))
    t, _ = translate_function(src, "oqupy/pt_tebd.py", "PtTebd.time", "tebd_time",
                              dict(ty, start_step="Int"), "Flt",
                              ["start_time", "dt", "start_step", "step"], helpers)
    out.append(t)
    return "\n".join(out)


def main():
    ap = argparse.ArgumentParser()
    ap.add_argument("--repo", default="/repo")
    ap.add_argument("--out", required=True)
    ap.add_argument("fragments", nargs="*")
    a = ap.parse_args()
    src = Source(a.repo)
    names = a.fragments or sorted(FRAGMENTS)
    os.makedirs(a.out, exist_ok=True)
    rc = 0
    for n in names:
        path = os.path.join(a.out, n + ".lean")
        try:
            body = FRAGMENTS[n](src)
        except (Untranslatable, SyntaxError, OSError, KeyError) as e:
            print("translator cannot read fragment %s: %s" % (n, e))
            rc = 2
            continue
        text = HEADER % (n, n) + body + "\nend OQuPyVerif.Generated.%s\n" % n
        old = open(path).read() if os.path.exists(path) else None
        if old != text:
            with open(path, "w") as f:
                f.write(text)
            print("regenerated %s" % path)
        else:
            print("unchanged %s" % path)
    sys.exit(rc)


if __name__ == "__main__":
    main()
